(* driver.ml — line-protocol front end for the extracted model (oracle).
   Reads one case per line on stdin, prints one canonical result line per case on stdout.
   The same case lines are given to the Rust harness; the differ compares line by line.
   All protocol logic lives in Model (extracted from Coq); this file only parses and prints. *)
open Model

(* ---------- numbers ---------- *)
let rec pos_of_int (i : int) : positive =
  if i = 1 then XH
  else if i land 1 = 0 then XO (pos_of_int (i lsr 1))
  else XI (pos_of_int (i lsr 1))
let n_of_int (i : int) : n = if i = 0 then N0 else Npos (pos_of_int i)
let rec int_of_pos (p : positive) : int =
  match p with XH -> 1 | XO q -> 2 * int_of_pos q | XI q -> 2 * int_of_pos q + 1
let int_of_n (x : n) : int = match x with N0 -> 0 | Npos p -> int_of_pos p
let rec nat_of_int (i : int) : nat = if i <= 0 then O else S (nat_of_int (i - 1))

let num s = n_of_int (int_of_string s)
let pn x = string_of_int (int_of_n x)
(* decimal numbers of any size (Durations in nanoseconds do not fit an OCaml int) *)
let num_big (s : string) : n =
  let ten = n_of_int 10 in
  let acc = ref N0 in
  String.iter (fun c -> match c with
      | '0'..'9' -> acc := N.add (N.mul !acc ten) (n_of_int (Char.code c - 48))
      | _ -> failwith "bad number") s;
  !acc
let pn_big (x : n) : string =
  let ten = n_of_int 10 in
  let rec go x acc = match x with
    | N0 -> acc
    | _ -> let (q, r) = N.div_eucl x ten in go q (string_of_int (int_of_n r) ^ acc) in
  match x with N0 -> "0" | _ -> go x ""

(* ---------- byte strings ---------- *)
let hexchar i = "0123456789ABCDEF".[i]
let hex_of_bytes_raw (l : n list) : string =
  let b = Buffer.create 64 in
  List.iter (fun x -> let v = int_of_n x in
              if v < 256 then begin
                Buffer.add_char b (hexchar (v lsr 4)); Buffer.add_char b (hexchar (v land 15)) end
              else Buffer.add_string b (Printf.sprintf "<%d>" v)) l;
  Buffer.contents b

let hex_of_bytes (l : n list) : string =
  match l with
  | [] -> "-"
  | _ ->
    let b = Buffer.create 64 in
    List.iter (fun x -> let v = int_of_n x in
                if v < 256 then begin
                  Buffer.add_char b (hexchar (v lsr 4)); Buffer.add_char b (hexchar (v land 15)) end
                else Buffer.add_string b (Printf.sprintf "<%d>" v)) l;
    Buffer.contents b
let hv c = match c with
  | '0'..'9' -> Char.code c - 48 | 'A'..'F' -> Char.code c - 55 | 'a'..'f' -> Char.code c - 87
  | _ -> failwith "bad hex"
let bytes_of_hex (s : string) : n list =
  if s = "-" then [] else begin
    let len = String.length s / 2 in
    let rec go i acc = if i < 0 then acc
      else go (i - 1) (n_of_int (16 * hv s.[2*i] + hv s.[2*i+1]) :: acc) in
    go (len - 1) []
  end

(* ---------- enums ---------- *)
let state_names = [ (Unconfigured,"UNC"); (ConfigInProgress,"CIP"); (ConfigReceived,"CRX");
  (ConfigFailed,"CFL"); (PixelsInProgress,"PIP"); (PixelsReceived,"PRX"); (PixelsFailed,"PFL");
  (PageLoaded,"PLD"); (PageLoadInProgress,"PLP"); (PageShown,"PSH"); (PageShowInProgress,"PSP");
  (ShowingPages,"SHP"); (ReadyToReset,"RTR") ]
let op_names = [ (ReceiveConfig,"RCF"); (ReceivePixels,"RPX"); (ShowLoadedPage,"SLP");
  (LoadNextPage,"LNP"); (StartReset,"SRS"); (FinishReset,"FRS") ]
let str_state s = List.assoc s state_names
let str_op o = List.assoc o op_names
let rassoc name l = fst (List.find (fun (_, n) -> n = name) l)
let state_of_str s = rassoc s state_names
let op_of_str s = rassoc s op_names

let sign_types = Array.of_list all_sign_types
let st_index (t : sign_type) : int =
  let r = ref (-1) in Array.iteri (fun i x -> if x = t then r := i) sign_types; !r

(* ---------- messages ---------- *)
let str_frame (f : frame) = Printf.sprintf "%s.%s.%s" (pn f.f_addr) (pn f.f_type) (hex_of_bytes f.f_data)
let str_msg (m : msg) : string =
  match m with
  | SendData (o, d) -> Printf.sprintf "SD.%s.%s" (pn o) (hex_of_bytes d)
  | DataChunksSent c -> "DC." ^ pn c
  | Hello a -> "HE." ^ pn a
  | QueryState a -> "QS." ^ pn a
  | ReportState (a, s) -> Printf.sprintf "RS.%s.%s" (pn a) (str_state s)
  | RequestOperation (a, o) -> Printf.sprintf "RO.%s.%s" (pn a) (str_op o)
  | AckOperation (a, o) -> Printf.sprintf "AO.%s.%s" (pn a) (str_op o)
  | PixelsComplete a -> "PC." ^ pn a
  | Goodbye a -> "GB." ^ pn a
  | Unknown f -> "UN." ^ str_frame f
let str_omsg = function None -> "N" | Some m -> str_msg m

let msg_of_str (s : string) : msg =
  match String.split_on_char '.' s with
  | ["SD"; o; d] -> SendData (num o, bytes_of_hex d)
  | ["DC"; c] -> DataChunksSent (num c)
  | ["HE"; a] -> Hello (num a)
  | ["QS"; a] -> QueryState (num a)
  | ["RS"; a; st] -> ReportState (num a, state_of_str st)
  | ["RO"; a; o] -> RequestOperation (num a, op_of_str o)
  | ["AO"; a; o] -> AckOperation (num a, op_of_str o)
  | ["PC"; a] -> PixelsComplete (num a)
  | ["GB"; a] -> Goodbye (num a)
  | ["UN"; a; t; d] -> Unknown { f_addr = num a; f_type = num t; f_data = bytes_of_hex d }
  | _ -> failwith ("bad msg " ^ s)

let str_ferr = function
  | InvalidFrame -> "ER INVALID"
  | DataMismatch (e, a) -> Printf.sprintf "ER MISMATCH %s %s" (pn e) (pn a)
  | BadChecksum (e, a) -> Printf.sprintf "ER BADCK %s %s" (pn e) (pn a)
  | DataTooLong _ -> "ER TOOLONG"
  | FPanic -> "PANIC"

(* ---------- pages ---------- *)
let str_page (p : page) = Printf.sprintf "%s.%s.%s" (pn p.p_w) (pn p.p_h) (hex_of_bytes p.p_bytes)
let page_of_str (s : string) : page =
  match String.split_on_char '.' s with
  | [w; h; b] -> { p_w = num w; p_h = num h; p_bytes = bytes_of_hex b }
  | _ -> failwith ("bad page " ^ s)
let str_pages (ps : page list) = match ps with [] -> "-" | _ -> String.concat "+" (List.map str_page ps)
let pages_of_str (s : string) : page list =
  if s = "-" then [] else List.map page_of_str (String.split_on_char '+' s)

(* FNV-1a style 64-bit hash over the numbers of a page list; the Rust side computes the same. *)
let fnv_prime = 1099511628211L
let hash_pages (ps : page list) : string =
  let h = ref 0xcbf29ce484222325L in
  let add v = h := Int64.mul (Int64.logxor !h (Int64.of_int v)) fnv_prime in
  List.iter (fun p -> add (int_of_n p.p_w); add (int_of_n p.p_h);
              add (List.length p.p_bytes);
              List.iter (fun b -> add (int_of_n b)) p.p_bytes) ps;
  Printf.sprintf "%Lx" !h

let diff_bytes (before : n list) (after : n list) : string =
  if List.length before <> List.length after then Printf.sprintf "L%d" (List.length after)
  else begin
    let acc = ref [] in
    List.iteri (fun i (x, y) -> if x <> y then acc := Printf.sprintf "%d:%d" i (int_of_n y) :: !acc)
      (List.combine before after);
    match !acc with [] -> "=" | l -> String.concat "," (List.rev l)
  end

(* ---------- signs ---------- *)
let style_of_str = function "A" -> Automatic | "M" -> Manual | s -> failwith ("bad style " ^ s)
let str_style = function Automatic -> "A" | Manual -> "M"
let str_type = function None -> "-" | Some t -> string_of_int (st_index t)
let obs (s : vsign) = Printf.sprintf "%s.%s.%d.%s" (str_state s.v_state) (str_type s.v_type)
    (List.length s.v_pages) (hash_pages s.v_pages)

(* ---------- cases ---------- *)
let pb_bytes len seed = List.init len (fun i -> n_of_int ((i * 37 + seed * 11 + 5) land 255))

let rec split_at (sep : string) (l : string list) : string list * string list =
  match l with
  | [] -> ([], [])
  | x :: t when x = sep -> ([], t)
  | x :: t -> let (a, b) = split_at sep t in (x :: a, b)

let reply_of_str = function
  | "E" | "ET" | "EI" | "EW" | "EF" | "EG" | "ES" | "EB" -> BusErr   (* which error the bus call fails with is the harness's business *)
  | "N" -> Rep None
  | s -> Rep (Some (msg_of_str s))

let str_outcome (f : 'a -> string) (o : 'a outcome) = match o with
  | Done a -> "DONE" ^ f a
  | ProtoErr -> "PROTO"
  | BusFailed -> "BUS"
  | Crashed -> "CRASH"
  | Blocked -> "BLOCKED"

type cop = { run_s : reply list -> msg list * string; run_b : vsign list -> vsign list * string;
             run_w : wire -> (wire * string) option;
             run_ws : wire -> wsched list -> (wire * string) option }
let mk (p : 'a prog) (f : 'a -> string) : cop =
  { run_s = (fun sc -> let (tr, o) = run_script p sc in (tr, str_outcome f o));
    run_b = (fun b -> let (b', o) = run_bus p b in (b', str_outcome f o));
    run_w = (fun w -> match run_wire p w with None -> None | Some (w', o) -> Some (w', str_outcome f o));
    run_ws = (fun w ss -> match run_wire_s p w ss with None -> None | Some (w', o) -> Some (w', str_outcome f o)) }
let unit_s () = ""
let style_s st = "." ^ str_style st

let plain_cop_of_str (s : string) : Model.cop = match String.split_on_char '.' s with
  | ["CFG"; a; t] -> CopConfigure (num a, sign_types.(int_of_string t))
  | ["CIN"; a; t] -> CopConfigureIfNeeded (num a, sign_types.(int_of_string t))
  | "SND" :: a :: r -> CopSendPages (num a, pages_of_str (String.concat "." r))
  | ["SHW"; a; fuel] -> CopShow (nat_of_int (int_of_string fuel), num a)
  | ["LNX"; a; fuel] -> CopLoadNext (nat_of_int (int_of_string fuel), num a)
  | ["BYE"; a] -> CopShutDown (num a)
  | _ -> failwith ("bad nested cop " ^ s)

(* op token: CFG.a.t  CIN.a.t  SND.a.pages  SHW.a.fuel  LNX.a.fuel  BYE.a *)
let cop_of_str (s : string) : cop =
  match String.split_on_char '.' s with
  | ["CFG"; a; t] -> mk (configure (num a) sign_types.(int_of_string t)) unit_s
  | ["CIN"; a; t] -> mk (configure_if_needed (num a) sign_types.(int_of_string t)) unit_s
  | ("SND" | "SNP" | "SNW" | "SNL" | "SNQ" | "SNF") :: a :: rest ->
    (* SNP / SNW: the same pages from an iterator that looks at the shared bus / that takes its time: the same call *)
    mk (send_pages (num a) (pages_of_str (String.concat "." rest))) style_s
  | "SNN" :: a :: nested :: rest ->
    (* SNN.a.<per-page calls>.<pages>: the iterator makes the given calls on the same bus before it yields each page:
       Model.send_pages_with.  Calls for page i: the i-th '~' field, calls separated by '/', written with ':' for '.' *)
    let pages = pages_of_str (String.concat "." rest) in
    let strip f = if String.length f > 0 && f.[0] = '@' then String.sub f 1 (String.length f - 1) else f in
    (* one call of the iterator: "<call>" (its protocol failure is dropped: Model.catch) or "!<call>" (its panic is
       caught too: Model.catch_all); SNX:a:pages = send_pages over a source that yields the pages and then panics *)
    let call_prog (c : string) : unit prog =
      let caught_all = String.length c > 0 && c.[0] = '!' in
      let c = if caught_all then String.sub c 1 (String.length c - 1) else c in
      let toks = String.split_on_char ':' c in
      let wrap p = if caught_all then catch_all p else catch p in
      (match toks with
       | "SNX" :: a' :: r -> wrap (send_pages_then_panic (num a') (pages_of_str (String.concat "." r)))
       | _ -> wrap (cop_prog (plain_cop_of_str (String.concat "." toks)))) in
    let rec seq = function [] -> Ret () | c :: t -> bind (call_prog c) (fun _ -> seq t) in
    let pre = List.map (fun f -> let f = strip f in if f = "-" then Ret () else seq (String.split_on_char '/' f))
        (String.split_on_char '~' nested) in
    let rec zip ps cs = match ps, cs with
      | [], _ -> []
      | p :: ps', [] -> (Ret (), p.p_bytes) :: zip ps' []
      | p :: ps', c :: cs' -> (c, p.p_bytes) :: zip ps' cs' in
    (* a first field that begins with '@': the calls made each time the iterator is cloned -- in the model an item of no
       bytes in front of the pages (no chunk is sent for it; its conversation is held once per attempt, after the
       acknowledgement, also when there are no pages) *)
    let items = if String.length nested > 0 && nested.[0] = '@'
      then (match pre with c :: rest -> (c, []) :: zip pages rest | [] -> zip pages [])
      else zip pages pre in
    mk (send_pages_gen (num a) items) style_s
  | ["SHW"; a; fuel] -> mk (show_loaded_page (nat_of_int (int_of_string fuel)) (num a)) unit_s
  | ["LNX"; a; fuel] -> mk (load_next_page (nat_of_int (int_of_string fuel)) (num a)) unit_s
  | ["BYE"; a] -> mk (shut_down (num a)) unit_s
  | _ -> failwith ("bad cop " ^ s)

let rec parse_signs k l =
  if k = 0 then ([], l) else
    match l with
    | a :: st :: rest -> let (ss, r) = parse_signs (k - 1) rest in (vinit (num a) (style_of_str st) :: ss, r)
    | _ -> failwith "bad signs"


(* ---------- I/O level cases ---------- *)
let rd_ev_of_str (s : string) : rd_ev =
  match s.[0] with
  | 'D' -> RData (num (String.sub s 1 (String.length s - 1)))
  | 'I' -> RIntr
  | 'F' -> RFail
  | _ -> failwith ("bad rd_ev " ^ s)
let wr_ev_of_str (s : string) : wr_ev =
  match s.[0] with
  | 'A' -> WAccept (num (String.sub s 1 (String.length s - 1)))
  | 'I' -> WIntr
  | 'Z' -> WZero
  | 'F' -> WFail
  | _ -> failwith ("bad wr_ev " ^ s)
let str_rerr = function RIo -> "ER IO" | RFrame e -> str_ferr e

let bauds = [| Baud110; Baud300; Baud600; Baud1200; Baud2400; Baud4800; Baud9600; Baud19200;
               Baud38400; Baud57600; Baud115200 |]
let baud_of_str s = if s.[0] = 'O' then BaudOther (num (String.sub s 1 (String.length s - 1)))
  else bauds.(int_of_string s)
let str_baud b = match b with
  | BaudOther n -> "O" ^ pn n
  | _ -> let r = ref "?" in Array.iteri (fun i x -> if x = b then r := string_of_int i) bauds; !r
let csize_of_str = function "5" -> Bits5 | "6" -> Bits6 | "7" -> Bits7 | "8" -> Bits8 | _ -> failwith "csize"
let str_csize = function Bits5 -> "5" | Bits6 -> "6" | Bits7 -> "7" | Bits8 -> "8"
let parity_of_str = function "N" -> ParityNone | "O" -> ParityOdd | "E" -> ParityEven | _ -> failwith "parity"
let str_parity = function ParityNone -> "N" | ParityOdd -> "O" | ParityEven -> "E"
let stop_of_str = function "1" -> Stop1 | "2" -> Stop2 | _ -> failwith "stop"
let str_stop = function Stop1 -> "1" | Stop2 -> "2"
let flow_of_str = function "N" -> FlowNone | "S" -> FlowSoftware | "H" -> FlowHardware | _ -> failwith "flow"
let str_flow = function FlowNone -> "N" | FlowSoftware -> "S" | FlowHardware -> "H"
let fail_of_str = function "none" -> FailNone | "read" -> FailRead | "baud" -> FailSetBaud
                           | "write" -> FailWrite | "timeout" -> FailTimeout | _ -> failwith "fail"
let str_fail = function FailNone -> "none" | FailRead -> "read" | FailSetBaud -> "baud"
                        | FailWrite -> "write" | FailTimeout -> "timeout"
let str_settings (s : settings) = Printf.sprintf "%s %s %s %s %s" (str_baud s.s_baud) (str_csize s.s_csize)
    (str_parity s.s_parity) (str_stop s.s_stop) (str_flow s.s_flow)

let rec handle_io (toks : string list) : string =
  match toks with
  | "RD" :: k :: content :: sched ->
    let r = ref { r_content = bytes_of_hex content; r_sched = List.map rd_ev_of_str sched } in
    let outs = ref [] in
    for _ = 1 to int_of_string k do
      match frame_read !r with
      | None -> outs := "FUEL" :: !outs
      | Some (res, r') -> r := r';
        outs := (match res with Ok f -> "OK " ^ str_frame f | Err e -> str_rerr e) :: !outs
    done;
    Printf.sprintf "%s | %s" (String.concat " ; " (List.rev !outs)) (hex_of_bytes !r.r_content)
  | "WR" :: a :: t :: d :: sched ->
    let f = { f_addr = num a; f_type = num t; f_data = bytes_of_hex d } in
    (match frame_write f { w_out = []; w_sched = List.map wr_ev_of_str sched } with
     | None -> "FUEL"
     | Some (res, w') -> Printf.sprintf "%s | %s" (match res with Ok _ -> "OK" | Err e -> str_rerr e) (hex_of_bytes w'.w_out))
  | "SB" :: m :: tape :: rest | "TM" :: m :: tape :: rest ->
    (* `slow` only tells the harness to use a port whose transfers take real time *)
    let rest = List.filter (fun x -> x <> "slow") rest in
    let (rs, ws) = split_at "/" rest in
    let p = { pt_in = { r_content = bytes_of_hex tape; r_sched = List.map rd_ev_of_str rs };
              pt_out = { w_out = []; w_sched = List.map wr_ev_of_str ws } } in
    (match serial_process (msg_of_str m) p with
     | None -> "FUEL"
     | Some ((res, p'), evs) ->
       if List.hd toks = "TM" then begin
         (* sleep placement: 30 right after the write, 100 right after the read *)
         let rec place l = match l with
           | EvWrite _ :: EvSleep ms :: t -> ("S" ^ pn ms ^ "-after-write") :: place t
           | EvRead _ :: EvSleep ms :: t -> ("S" ^ pn ms ^ "-after-read") :: place t
           | EvSleep ms :: t -> ("S" ^ pn ms ^ "-elsewhere") :: place t
           | _ :: t -> place t
           | [] -> [] in
         let pl = place evs in
         Printf.sprintf "send=%d recv=%d" (if List.mem "S30-after-write" pl then 1 else 0)
           (if List.mem "S100-after-read" pl then 1 else 0)
         ^ (if List.exists (fun x -> x <> "S30-after-write" && x <> "S100-after-read") pl then " other" else "")
         ^ " reply=" ^ (match res with Ok r -> str_omsg r | Err _ -> "ER")
       end else
         Printf.sprintf "%s | %s | %s"
           (match res with Ok r -> "OK " ^ str_omsg r | Err _ -> "ER")
           (hex_of_bytes p'.pt_out.w_out) (hex_of_bytes p'.pt_in.r_content))
  | ["SBD"; m; tape; _] -> handle_io ["SB"; m; tape; "/"]   (* how long the reply takes to arrive is of no concern to the model *)
  | ["TMS"; n; st] ->
    (* n state queries in a row on one bus, each answered by a report of that state: from the model's trace, which
       exchanges sleep at least 100 ms after their reply *)
    let n = int_of_string n in
    let reply = encode_nl (frame_of_msg (msg_of_str ("RS.3." ^ st))) in
    let p = { pt_in = { r_content = List.concat (List.init n (fun _ -> reply)); r_sched = [] };
              pt_out = { w_out = []; w_sched = [] } } in
    (match serial_trace (List.init n (fun _ -> msg_of_str "QS.3")) p with
     | None -> "FUEL"
     | Some t ->
       let gaps = List.map (fun (_, g) -> int_of_n g >= 100) (write_gaps t) in
       let paced = List.length (List.filter (fun b -> b) gaps) in
       let rec first i = function [] -> "-" | b :: r -> if b then first (i + 1) r else string_of_int i in
       Printf.sprintf "n=%d paced=%d first-unpaced=%s" n paced (first 1 gaps))
  | "SBS" :: k :: rest ->
    let k = int_of_string k in
    let rec take n l = if n = 0 then ([], l) else match l with x :: t -> let (a, b) = take (n - 1) t in (x :: a, b) | [] -> failwith "SBS" in
    let (msgs, rest) = take k rest in
    let (tape, rest) = (match rest with tp :: r -> (tp, r) | [] -> failwith "SBS") in
    let (rs, ws) = split_at "/" rest in
    let p = { pt_in = { r_content = bytes_of_hex tape; r_sched = List.map rd_ev_of_str rs };
              pt_out = { w_out = []; w_sched = List.map wr_ev_of_str ws } } in
    if k <= 1000 then
      (match serial_run (List.map msg_of_str msgs) p with
       | None -> "FUEL"
       | Some (results, p') ->
         let outs = List.map (fun res -> match res with Ok r -> "OK " ^ str_omsg r | Err _ -> "ER") results in
         Printf.sprintf "%s | %s | %s" (String.concat " ; " outs) (hex_of_bytes p'.pt_out.w_out) (hex_of_bytes p'.pt_in.r_content))
    else begin
      (* a very long conversation: one exchange at a time, the output taken away after each (C16_output_only_appended and
         C16_run_app say that this is serial_run) *)
      let p = ref p in
      let written = Buffer.create 65536 in
      let outs = List.map (fun m ->
          match serial_process (msg_of_str m) !p with
          | None -> "FUEL"
          | Some ((res, p'), _) ->
            Buffer.add_string written (hex_of_bytes_raw p'.pt_out.w_out);
            p := { p' with pt_out = { p'.pt_out with w_out = [] } };
            (match res with Ok r -> "OK " ^ str_omsg r | Err _ -> "ER")) msgs in
      let w = Buffer.contents written in
      Printf.sprintf "%s | %s | %s" (String.concat " ; " outs) (if w = "" then "-" else w) (hex_of_bytes !p.pt_in.r_content)
    end
  | "ODS" :: input :: rest ->
    (* ODS input reply... / wsched... : the bridge in front of a scripted bus (one scripted answer per forwarded message) *)
    let (replies, ws) = split_at "/" rest in
    let p = { pt_in = { r_content = bytes_of_hex input; r_sched = [] };
              pt_out = { w_out = []; w_sched = List.map wr_ev_of_str ws } } in
    let answers = List.map (fun rs -> match rs with "N" -> None | s -> Some (msg_of_str s)) replies in
    (match odk_run p answers with
     | None -> "FUEL"
     | Some (results, p') ->
       let outs = List.map (fun (res, fwd) ->
           Printf.sprintf "%s fwd=%s" (match res with Ok _ -> "OK" | Err (OComm _) -> "COMM" | Err OPanic -> "PANIC")
             (match fwd with None -> "-" | Some m -> str_msg m)) results in
       Printf.sprintf "%s | %s | %s" (String.concat " ; " outs) (hex_of_bytes p'.pt_out.w_out) (hex_of_bytes p'.pt_in.r_content))
  | "OD" :: k :: rest ->
    let (signs, rest) = parse_signs (int_of_string k) rest in
    let rest = (match rest with "|" :: r -> r | r -> r) in
    let (prior, rest) = split_at "|" rest in
    let (input, nsteps, wsched) = match rest with
      | i :: n :: ws -> (i, int_of_string n, ws) | _ -> failwith "bad OD" in
    let b = ref signs in
    let dead = ref false in
    List.iter (fun m -> if not !dead then
                  match bus_step !b (msg_of_str m) with
                  | None -> dead := true
                  | Some (b', _) -> b := b') prior;
    if !dead then "PANIC-PRIOR" else begin
      let p = ref { pt_in = { r_content = bytes_of_hex input; r_sched = [] };
                    pt_out = { w_out = []; w_sched = List.map wr_ev_of_str wsched } } in
      let outs = ref [] in
      for _ = 1 to nsteps do
        match odk_process !p !b with
        | None -> outs := "FUEL" :: !outs
        | Some (((res, p'), b'), fwd) ->
          p := p'; b := b';
          let fw = match fwd with None -> "-" | Some m -> str_msg m in
          outs := ((match res with Ok _ -> "OK" | Err (OComm _) -> "COMM" | Err OPanic -> "PANIC") ^ " fwd=" ^ fw) :: !outs
      done;
      Printf.sprintf "%s | %s | %s | %s" (String.concat " ; " (List.rev !outs))
        (hex_of_bytes !p.pt_out.w_out) (hex_of_bytes !p.pt_in.r_content)
        (String.concat "/" (List.map obs !b))
    end
  | ("WB" | "WBS") :: k :: rest ->
    let fragmented = (List.hd toks = "WBS") in
    (* WBS: every stream use fragments and gets interrupted (never fails).  The harness cycles through fixed
       patterns; the model runs run_wire_s with clean schedules of the same kind for the first bus calls
       (proofs/WireSchedP.v: any clean schedules give the run of the plain wire). *)
    let rpat = List.map rd_ev_of_str ["D0"; "I"; "D2"; "D0"; "D5"; "I"; "I"; "D1"] in
    let wpat = List.map wr_ev_of_str ["A0"; "I"; "A3"; "A1"; "I"; "A9"] in
    let rec rep n l = if n = 0 then [] else l @ rep (n - 1) l in
    let one = { ws_cw = rep 4 wpat; ws_br = rep 6 rpat; ws_bw = rep 3 wpat; ws_cr = rep 5 rpat } in
    let scheds = if fragmented then List.init 64 (fun _ -> one) else [] in
    let (signs, rest) = parse_signs (int_of_string k) rest in
    let (prior, ops) = split_at "|" rest in
    let b = ref signs in
    let dead = ref false in
    List.iter (fun m -> if not !dead then
                  match bus_step !b (msg_of_str m) with
                  | None -> dead := true
                  | Some (b', _) -> b := b') prior;
    if !dead then "PANIC-PRIOR" else begin
      let w = ref { wr_bus = !b; wr_inbox = [] } in
      let out = Buffer.create 256 in
      List.iter (fun o ->
          let oc = if fragmented then (cop_of_str o).run_ws !w scheds else (cop_of_str o).run_w !w in
          (match oc with
           | None -> Buffer.add_string out "FUEL"
           | Some (w', s) -> w := w'; Buffer.add_string out s);
          List.iter (fun s -> Buffer.add_string out ("/" ^ obs s)) !w.wr_bus;
          Buffer.add_char out ' ') ops;
      Printf.sprintf "%s# %s # inbox=%s" (Buffer.contents out)
        (String.concat ";" (List.map (fun s -> str_pages s.v_pages) !w.wr_bus)) (hex_of_bytes !w.wr_inbox)
    end
  | ["CP"; t; id] ->
    (* Sign::width / height / create_page *)
    let ty = sign_types.(int_of_string t) in
    Printf.sprintf "%s %s %s" (pn (sign_width ty)) (pn (sign_height ty)) (hex_of_bytes (create_page ty (num id)).p_bytes)
  | ["PT"; baud; cs; par; stop; flow; fail; ctor] ->
    (* "~..." after the failure token: flavours of the instrumented device (stale reads, writes that forget the timeout);
       the documented result does not depend on them *)
    let fail = List.hd (String.split_on_char '~' fail) in
    (* a leading '?' (the device cannot report that field) concerns the harness's instrumented port only *)
    let strip s = if String.length s > 0 && s.[0] = '?' then String.sub s 1 (String.length s - 1) else s in
    let baud = strip baud and cs = strip cs and par = strip par and stop = strip stop and flow = strip flow in
    let p = { sp_settings = { s_baud = baud_of_str baud; s_csize = csize_of_str cs; s_parity = parity_of_str par;
                              s_stop = stop_of_str stop; s_flow = flow_of_str flow };
              sp_timeout = None;
              sp_fail = (let f = List.hd (String.split_on_char ':' fail) in
                         if String.length f > 5 && String.sub f 0 5 = "above" then FailNone else fail_of_str f);
              sp_max_timeout = (let f = List.hd (String.split_on_char ':' fail) in
                                if String.length f > 5 && String.sub f 0 5 = "above"
                                then Some (num_big (String.sub f 5 (String.length f - 5))) else None) } in
    let r = match String.split_on_char '.' ctor with
      | ["CFG"; secs; nanos] -> configure_port p (N.add (N.mul (num_big secs) (num "1000000000")) (num nanos))
      | ["BUS"] -> serial_bus_try_new p
      | ["ODK"] -> odk_try_new p
      | _ -> failwith "bad ctor" in
    (match r with
     | Ok p' -> Printf.sprintf "OK %s %s" (str_settings p'.sp_settings)
                  (match p'.sp_timeout with None -> "-" | Some t -> pn_big t)
     | Err f -> "ER " ^ str_fail f)
  | _ -> "BADCASE"

let rec handle (line : string) : string =
  match List.filter (fun x -> x <> "") (String.split_on_char ' ' line) with
  | ["ENC"; a; t; d] | ["ENCB"; a; t; d] ->
    let f = { f_addr = num a; f_type = num t; f_data = bytes_of_hex d } in
    Printf.sprintf "%s %s" (hex_of_bytes (encode f)) (hex_of_bytes (encode_nl f))
  | ["RT"; a; t; d] | ["RTB"; a; t; d] ->
    let f = { f_addr = num a; f_type = num t; f_data = bytes_of_hex d } in
    let one enc = match decode enc with
      | Ok g -> "OK " ^ str_frame g
      | Err e -> str_ferr e in
    Printf.sprintf "%s %s | %s | %s" (hex_of_bytes (encode f)) (hex_of_bytes (encode_nl f))
      (one (encode f)) (one (encode_nl f))
  | ["NEWS"; _] -> "OK"   (* which static-array conversions exist is API surface; none may yield more than 255 bytes *)
  | ["NEWZ"; len] ->
    (match data_try_new_len (num_big len) with None -> "OK" | Some _ -> "ER TOOLONG")
  | ["NEW"; len] ->
    (match data_try_new (List.init (int_of_string len) (fun _ -> N0)) with
     | Ok _ -> "OK" | Err e -> str_ferr e)
  | ["DEC"; s] ->
    (match decode (bytes_of_hex s) with
     | Ok f -> Printf.sprintf "OK %s" (str_frame f)
     | Err e -> str_ferr e)
  | ["F2M"; a; t; d] | ["F2MB"; a; t; d] | ["F2MP"; a; t; d] ->
    let f = { f_addr = num a; f_type = num t; f_data = bytes_of_hex d } in
    let m = msg_of_frame f in
    Printf.sprintf "%s %s" (str_msg m) (str_frame (frame_of_msg m))
  | ["M2F"; m] -> str_frame (frame_of_msg (msg_of_str m))
  | ["WIRE"; m] ->
    let f = frame_of_msg (msg_of_str m) in
    let one enc = match decode enc with
      | Ok g -> "OK " ^ str_msg (msg_of_frame g)
      | Err e -> str_ferr e in
    Printf.sprintf "%s | %s" (one (encode f)) (one (encode_nl f))
  | "WIRES" :: rest ->
    (* flags: "!" / "@" an earlier failed / panicked write elsewhere, which cannot matter; "$" the last frame lacks CR LF *)
    let rec strip l unterminated = match l with
      | ("!" | "@" | "&") :: r -> strip r unterminated
      | "$" :: r -> strip r true
      | _ -> (l, unterminated) in
    let (ms, unterminated) = strip rest false in
    let stream = List.concat_map (fun m -> encode_nl (frame_of_msg (msg_of_str m))) ms in
    let stream = if unterminated && List.length stream >= 2
      then List.filteri (fun i _ -> i < List.length stream - 2) stream else stream in
    let r = ref { r_content = stream; r_sched = [] } in
    let outs = List.map (fun _ ->
        match frame_read !r with
        | None -> "FUEL"
        | Some (res, r') -> r := r';
          (match res with Ok f -> "OK " ^ str_msg (msg_of_frame f) | Err (RFrame e) -> str_ferr e | Err RIo -> "ER IO")) ms in
    Printf.sprintf "%s | left=%d" (String.concat " ; " outs) (List.length !r.r_content)
  | "CHILD" :: inner -> handle (String.concat " " inner)   (* where a case is evaluated cannot matter *)
  | "TLSD" :: inner ->
    (* the inner case on a fresh thread and twice more while that thread is torn down: a pure function gives the same *)
    let r = handle (String.concat " " inner) in
    Printf.sprintf "main=%s ; d1=%s ; d2=%s" r r r
  | ["MT"; _; _] -> "OK"   (* the model is a pure function: concurrent calls cannot influence one another *)
  | ["ST"; s] ->
    (match st_from_bytes (bytes_of_hex s) with
     | Ok t -> Printf.sprintf "OK %d" (st_index t)
     | Err (WrongConfigLength (_, _)) -> "ER LEN"
     | Err UnknownConfig -> "ER UNKNOWN"
     | Err STPanic -> "PANIC")
  | ["STT"; i] ->
    let t = sign_types.(int_of_string i) in
    let (w, h) = dimensions t in
    Printf.sprintf "%s %s %s" (hex_of_bytes (st_to_bytes t)) (pn w) (pn h)
  | ["PN"; id; w; h] -> hex_of_bytes (page_new (num id) (num w) (num h)).p_bytes
  | ["PNL"; id; w; h] ->
    (* large pages by their counts only: page_new is [id;16;0;0] ++ zeros (data-4) ++ 0xFF (total-data) *)
    let w = num w and h = num h in
    let total = total_bytes w h and data = data_bytes w h in
    Printf.sprintf "len=%s zeros=%s ff=%s first=%s.16.0.0" (pn total) (pn (N.sub data (n_of_int 4))) (pn (N.sub total data)) id
  | ["UNW"; w; h; x; y; op] ->
    (* the pixel operation made while the thread unwinds: out of bounds is the panic (there: an abort), else as usual *)
    let p = page_new (n_of_int 1) (num w) (num h) in
    (if op = "S" then
       match set_pixel p (num x) (num y) true with
       | None -> "ABORT"
       | Some p' -> "OK SET " ^ hex_of_bytes p'.p_bytes
     else
       match get_pixel p (num x) (num y) with
       | None -> "ABORT"
       | Some v -> Printf.sprintf "OK GET %d %s" (if v then 1 else 0) (hex_of_bytes p.p_bytes))
  | ["PXI"; w; h; x; y] ->
    (* one pixel of a fresh page too large to build here: where the model's [index] puts it; the other pixels stay off
       (C06_get_set_other), so the in-bounds neighbours read 0 *)
    let w = num w and h = num h and x = num x and y = num y in
    (match index { p_w = w; p_h = h; p_bytes = [] } x y with
     | None -> "PANIC"
     | Some (i, b) ->
       let right = if N.ltb (N.add x (n_of_int 1)) w then "0" else "-" in
       let above = if N.ltb N0 y then "0" else "-" in
       Printf.sprintf "len=%s set=[%s:%d] get=1 nbr=%s/%s" (pn (total_bytes w h)) (pn i) (1 lsl (int_of_n b)) right above)
  | ["PXZ"; w; h; x; y; probes] ->
    (* one pixel switched on in a page over several GiB of zero bytes: single bytes through the byte view of set_pixel
       (C06_byte_view, C06_zero_page_view); the pixel reads 1 (C06_set_ok), its in-bounds neighbours 0 (C06_get_set_other) *)
    let w = num w and h = num h and x = num x and y = num y in
    (match set_pixel_byte_view w h x y true N0 (zero_bytes_view w h N0), index { p_w = w; p_h = h; p_bytes = [] } x y with
     | None, _ | _, None -> "PANIC"
     | Some _, Some _ ->
       let right = if N.ltb (N.add x (n_of_int 1)) w then "0" else "-" in
       let above = if N.ltb N0 y then "0" else "-" in
       let one i =
         match set_pixel_byte_view w h x y true (num i) (zero_bytes_view w h (num i)) with
         | None -> i ^ ":P"
         | Some None -> i ^ ":-"
         | Some (Some b) -> i ^ ":" ^ pn b in
       Printf.sprintf "len=%s view=0 get=1 nbr=%s/%s bytes=%s" (pn (total_bytes w h)) right above
         (String.concat "," (List.map one (String.split_on_char ',' probes))))
  | ["PBX"; w; h; len; fill] ->
    let len = int_of_string len and fill = num fill in
    let bs = List.init len (fun i -> if i < 4 then List.nth [n_of_int 7; n_of_int 16; N0; N0] i else fill) in
    (match page_from_bytes (num w) (num h) bs with
     | Ok p -> "OK " ^ hex_of_bytes p.p_bytes
     | Err (WrongPageLength (_, _, _, _)) -> "ER LEN")
  | ["PB"; w; h; len; seed] | ["PBO"; w; h; len; seed] ->
    let bs = pb_bytes (int_of_string len) (int_of_string seed) in
    (match page_from_bytes (num w) (num h) bs with
     | Ok p -> "OK " ^ hex_of_bytes p.p_bytes
     | Err (WrongPageLength (_, _, _, _)) -> "ER LEN")
  | "PG" :: w :: h :: src :: ops ->
    let w = num w and h = num h in
    let start = match String.split_on_char '.' src with
      | ["N"; id] -> Some (page_new (num id) w h)
      | ["B"; b] | ["O"; b] -> (match page_from_bytes w h (bytes_of_hex b) with Ok p -> Some p | Err _ -> None)
      | _ -> failwith "bad PG src" in
    (match start with
     | None -> "ER LEN"
     | Some p0 ->
       let p = ref p0 in
       let out = Buffer.create 256 in
       List.iter (fun o ->
           let tok = match String.split_on_char '.' o with
             | ["S"; x; y; v] ->
               (match set_pixel !p (num x) (num y) (v = "1") with
                | None -> "P"
                | Some q -> let d = diff_bytes !p.p_bytes q.p_bytes in p := q; d)
             | ["A"; v] ->
               (match set_all_pixels !p (v = "1") with
                | None -> "P"
                | Some q -> let d = diff_bytes !p.p_bytes q.p_bytes in p := q; d)
             | ["G"; x; y] ->
               (match get_pixel !p (num x) (num y) with None -> "P" | Some true -> "1" | Some false -> "0")
             | _ -> failwith "bad PG op" in
           Buffer.add_string out tok; Buffer.add_char out ' ') ops;
       let idtok = match page_id !p with None -> "P" | Some i -> pn i in
       (* "a page built from the bytes of a page equals that page" (the derived equality, after any history) *)
       let eq = match page_from_bytes !p.p_w !p.p_h !p.p_bytes with
         | Ok q -> page_eqb q !p
         | Err _ -> false in
       Printf.sprintf "%s# %s %s %s %s eq=%d" (Buffer.contents out) idtok (pn !p.p_w) (pn !p.p_h)
         (hex_of_bytes !p.p_bytes) (if eq then 1 else 0))
  | ("VS" | "VSL") :: a :: st :: msgs ->
    let last_only = (List.hd (String.split_on_char ' ' line) = "VSL") in
    let s = ref (vinit (num a) (style_of_str st)) in
    let out = Buffer.create 256 in
    let dead = ref false in
    let n = List.length msgs in
    List.iteri (fun i m -> if not !dead then
                  match vstep !s (msg_of_str m) with
                  | None -> dead := true; Buffer.add_string out "PANIC "
                  | Some (s', r) -> s := s';
                    if (not last_only) || i + 1 = n then
                      Buffer.add_string out (Printf.sprintf "%s/%s " (str_omsg r) (obs s'))) msgs;
    Printf.sprintf "%s# %s" (Buffer.contents out) (str_pages !s.v_pages)
  | "BUSP" :: k :: rest ->
    (* a bus made of signs that have a history of their own: "i~msg" tokens before the bar are given to sign i alone,
       before the bus exists; after the bar as BUS *)
    let (signs, rest) = parse_signs (int_of_string k) rest in
    let (pre, msgs) = split_at "|" rest in
    let arr = Array.of_list signs in
    let dead = ref false in
    List.iter (fun tok ->
        match String.index_opt tok '~' with
        | None -> failwith "BUSP"
        | Some j ->
          let i = int_of_string (String.sub tok 0 j) and m = String.sub tok (j + 1) (String.length tok - j - 1) in
          (match vstep arr.(i) (msg_of_str m) with
           | None -> dead := true
           | Some (s', _) -> arr.(i) <- s')) pre;
    if !dead then "PANIC-PRIOR" else
      let b = ref (Array.to_list arr) in
      let out = Buffer.create 256 in
      let dead = ref false in
      List.iter (fun m -> if not !dead then
                    match bus_step !b (msg_of_str m) with
                    | None -> dead := true; Buffer.add_string out "PANIC "
                    | Some (b', r) -> b := b';
                      Buffer.add_string out (str_omsg r);
                      List.iter (fun s -> Buffer.add_string out ("/" ^ obs s)) b';
                      Buffer.add_char out ' ') msgs;
      Printf.sprintf "%s# %s" (Buffer.contents out) (String.concat ";" (List.map (fun s -> str_pages s.v_pages) !b))
  | "BUS" :: k :: rest ->
    let (signs, msgs) = parse_signs (int_of_string k) rest in
    let b = ref signs in
    let out = Buffer.create 256 in
    let dead = ref false in
    List.iter (fun m -> if not !dead then
                  match bus_step !b (msg_of_str m) with
                  | None -> dead := true; Buffer.add_string out "PANIC "
                  | Some (b', r) -> b := b';
                    Buffer.add_string out (str_omsg r);
                    List.iter (fun s -> Buffer.add_string out ("/" ^ obs s)) b';
                    Buffer.add_char out ' ') msgs;
    Printf.sprintf "%s# %s" (Buffer.contents out) (String.concat ";" (List.map (fun s -> str_pages s.v_pages) !b))
  | "CTS" :: _a :: _t :: ops :: rest ->
    (* several calls on Sign objects sharing one scripted bus: Model.run_cops_script *)
    let cop_of (s : string) : Model.cop = match String.split_on_char '.' s with
      | ["CFG"; a; t] -> CopConfigure (num a, sign_types.(int_of_string t))
      | ["CIN"; a; t] -> CopConfigureIfNeeded (num a, sign_types.(int_of_string t))
      | ("SND" | "SNP" | "SNW" | "SNL" | "SNQ" | "SNF") :: a :: r -> CopSendPages (num a, pages_of_str (String.concat "." r))
      | ["SHW"; a; fuel] -> CopShow (nat_of_int (int_of_string fuel), num a)
      | ["LNX"; a; fuel] -> CopLoadNext (nat_of_int (int_of_string fuel), num a)
      | ["BYE"; a] -> CopShutDown (num a)
      | _ -> failwith ("bad cop " ^ s) in
    let str_out = function OutUnit -> "" | OutStyle st -> "." ^ str_style st in
    let results = run_cops_script (List.map cop_of (String.split_on_char ',' ops)) (List.map reply_of_str rest) in
    String.concat " ;; " (List.map (fun (tr, o) ->
        Printf.sprintf "%s => %s" (String.concat " " (List.map str_msg tr)) (str_outcome str_out o)) results)
  | "CT" :: op :: _ when (match String.split_on_char '.' op with
                          | ("SND" | "SNP" | "SNW" | "SNL" | "SNQ" | "SNF") :: _ :: rest ->
                            List.exists (fun (pg : page) -> match page_from_bytes pg.p_w pg.p_h pg.p_bytes with
                                | Ok _ -> false | Err _ -> true)
                              (pages_of_str (String.concat "." rest))
                          | _ -> false) -> " => NOPAGE"
  | "CTD" :: _ :: _ :: op :: rest | "CT" :: op :: rest ->   (* CTD: how long the bus takes is of no concern to the model *)
    let script = List.map reply_of_str rest in
    let (tr, o) = (cop_of_str op).run_s script in
    Printf.sprintf "%s => %s" (String.concat " " (List.map str_msg tr)) o
  | "CLS" :: k :: rest ->
    (* long-lived Sign objects are the implementation's business: the model is CL with the handle prefixes dropped *)
    let strip o = if String.length o > 2 && String.sub o 0 2 = "B:" then String.sub o 2 (String.length o - 2) else o in
    handle (String.concat " " ("CL" :: k :: List.map strip rest))
  | "CL" :: k :: rest ->
    let (signs, rest) = parse_signs (int_of_string k) rest in
    let (prior, ops) = split_at "|" rest in
    let b = ref signs in
    let dead = ref false in
    List.iter (fun m -> if not !dead then
                  match bus_step !b (msg_of_str m) with
                  | None -> dead := true
                  | Some (b', _) -> b := b') prior;
    if !dead then "PANIC-PRIOR" else begin
      let out = Buffer.create 256 in
      List.iter (fun o ->
          let (b', oc) = (cop_of_str o).run_b !b in
          b := b';
          Buffer.add_string out oc;
          List.iter (fun s -> Buffer.add_string out ("/" ^ obs s)) b';
          Buffer.add_char out ' ') ops;
      Printf.sprintf "%s# %s" (Buffer.contents out)
        (String.concat ";" (List.map (fun s -> str_pages s.v_pages) !b))
    end
  | toks -> handle_io toks

let () =
  try
    while true do
      let line = input_line stdin in
      let r = try handle line with Failure e -> "ORACLE-ERROR " ^ e | Not_found -> "ORACLE-ERROR notfound"
                                   | Invalid_argument e -> "ORACLE-ERROR " ^ e in
      print_string r; print_char '\n'
    done
  with End_of_file -> ()
