#!/bin/sh
# Extract the Coq model to OCaml and build the oracle binary.  Needs coq/theories/model/*.vo built.
set -e
cd "$(dirname "$0")"
coqc -Q ../coq/theories Flipdot ../coq/theories/extract/Extract.v > /dev/null
ocamlfind ocamlopt -O3 -w -a -package str model.mli model.ml driver.ml -o fdoracle 2>/dev/null \
  || ocamlfind ocamlopt -w -a model.mli model.ml driver.ml -o fdoracle
rm -f *.cmi *.cmx *.o
