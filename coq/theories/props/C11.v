(* C11 — the controller never reports an unconfirmed success, is fail-stop, retries a bounded
   number of times, talks to its own address only and is blind to replies carrying another
   address.  Every statement is for EVERY reply script ([run_script], model/Controller.v: the
   i-th message of the trace is answered by the i-th reply of the script). *)
From Flipdot Require Import Tactics.
From Flipdot Require Import Base Message Page SignType VSign Controller ProtoSpec ControllerP SourceP.
Local Open Scope N_scope.

(* --- examples --- *)
(* happy-path configure: the last query is answered by the own ConfigReceived *)
Example C11_ex_success :
  run_script (configure 3 Max3000Side90x7)
    [Rep (Some (ReportState 3 Unconfigured)); Rep (Some (AckOperation 3 ReceiveConfig));
     Rep None; Rep None; Rep (Some (ReportState 3 ConfigReceived))]
  = ([Hello 3; RequestOperation 3 ReceiveConfig; SendData 0 (st_to_bytes Max3000Side90x7);
      DataChunksSent 1; QueryState 3], Done tt).
Proof. vm_compute. reflexivity. Qed.

(* a bus error ends the run at once, later replies are never read *)
Example C11_ex_bus_error :
  run_script (configure 3 Max3000Side90x7)
    [Rep (Some (ReportState 3 Unconfigured)); BusErr; Rep None; Rep None]
  = ([Hello 3; RequestOperation 3 ReceiveConfig], BusFailed).
Proof. vm_compute. reflexivity. Qed.

(* the same report from another address is not a confirmation *)
Example C11_ex_foreign :
  run_script (configure 3 Max3000Side90x7)
    [Rep (Some (ReportState 3 Unconfigured)); Rep (Some (AckOperation 3 ReceiveConfig));
     Rep None; Rep None; Rep (Some (ReportState 4 ConfigReceived))]
  = ([Hello 3; RequestOperation 3 ReceiveConfig; SendData 0 (st_to_bytes Max3000Side90x7);
      DataChunksSent 1; QueryState 3], ProtoErr)
  /\ foreign 3 (ReportState 4 ConfigReceived) /\ foreign 3 (AckOperation 0 StartReset).
Proof. repeat split; vm_compute; try reflexivity; discriminate. Qed.

(* --- no unconfirmed success --- *)
Theorem C11_confirmed_success_transfer : forall a op items success failure script tr,
  total_chunks items < 65536 ->
  run_script (transfer a op items success failure) script = (tr, Done tt) ->
  exists tr0, tr = tr0 ++ [QueryState a]
    /\ nth_error script (length tr0) = Some (Rep (Some (ReportState a success))).
Proof. exact C11_confirmed_success_transfer_lemma. Qed.
Print Assumptions C11_confirmed_success_transfer.

Theorem C11_confirmed_success : forall a t script tr,
  run_script (configure a t) script = (tr, Done tt) ->
  exists tr0, tr = tr0 ++ [QueryState a]
    /\ nth_error script (length tr0) = Some (Rep (Some (ReportState a ConfigReceived))).
Proof. exact C11_confirmed_success_configure_lemma. Qed.
Print Assumptions C11_confirmed_success.

Theorem C11_confirmed_success_send_pages : forall a pages script tr style,
  total_chunks (map p_bytes pages) < 65536 ->
  run_script (send_pages a pages) script = (tr, Done style) ->
  exists tr0 r,
    tr = tr0 ++ [QueryState a; PixelsComplete a; QueryState a]
    /\ nth_error script (length tr0) = Some (Rep (Some (ReportState a PixelsReceived)))
    /\ nth_error script (S (length tr0)) = Some (Rep None)
    /\ nth_error script (S (S (length tr0))) = Some (Rep r)
    /\ style = (if is_own_report a ShowingPages r then Automatic else Manual).
Proof. exact C11_confirmed_success_send_pages_lemma. Qed.
Print Assumptions C11_confirmed_success_send_pages.

(* --- fail-stop: a property of the interpreter, hence of every program --- *)
(* (Stronger than requested: also covers o = Crashed.) *)
Theorem C11_fail_stop : forall (A : Type) (p : prog A) script tr o,
  run_script p script = (tr, o) -> o <> Blocked ->
  (length tr <= length script)%nat
  /\ run_script p (firstn (length tr) script) = (tr, o)
  /\ (In BusErr (firstn (length tr) script) -> o = BusFailed)
  /\ (o = BusFailed -> nth_error script (length tr - 1) = Some BusErr).
Proof. exact C11_fail_stop_lemma. Qed.
Print Assumptions C11_fail_stop.

(* Blocked means exactly: the whole script was read, without bus error, and one more message
   was sent. *)
Theorem C11_blocked : forall (A : Type) (p : prog A) script tr,
  run_script p script = (tr, Blocked) ->
  length tr = S (length script) /\ ~ In BusErr script.
Proof. exact C11_blocked_lemma. Qed.
Print Assumptions C11_blocked.

(* --- bounded retries --- *)
Theorem C11_bounded_retries : forall a op items success failure script tr o,
  total_chunks items < 65536 ->
  run_script (transfer a op items success failure) script = (tr, o) ->
  (length (filter (is_request a op) tr) <= 3)%nat
  /\ nth_error tr 0 = Some (RequestOperation a op)
  /\ (forall i, nth_error tr (S i) = Some (RequestOperation a op) ->
        nth_error tr i = Some (QueryState a)
        /\ nth_error script i = Some (Rep (Some (ReportState a failure)))).
Proof. exact C11_bounded_retries_lemma. Qed.
Print Assumptions C11_bounded_retries.

(* --- own address only --- *)
Theorem C11_own_address : forall op fuel script,
  Forall (addressed_ok (cop_addr op)) (fst (run_script (model_of op fuel) script)).
Proof. exact C11_own_address_lemma. Qed.
Print Assumptions C11_own_address.

(* --- blind to foreign replies (fully general form): replacing any number of replies that are
   reports/acks of another address by other such replies changes neither the trace nor the
   outcome (not even its value). *)
Theorem C11_foreign_blind : forall op fuel s1 s2,
  Forall2 (rsim (cop_addr op)) s1 s2 ->
  run_script (model_of op fuel) s1 = run_script (model_of op fuel) s2.
Proof. exact C11_foreign_blind_lemma. Qed.
Print Assumptions C11_foreign_blind.

Theorem C11_foreign_blind_one : forall op fuel pre post m1 m2,
  foreign (cop_addr op) m1 -> foreign (cop_addr op) m2 ->
  run_script (model_of op fuel) (pre ++ Rep (Some m1) :: post)
  = run_script (model_of op fuel) (pre ++ Rep (Some m2) :: post).
Proof. exact C11_foreign_blind_one_lemma. Qed.
Print Assumptions C11_foreign_blind_one.

Theorem C11_foreign_blind_transfer : forall a op items su fa s1 s2,
  Forall2 (rsim a) s1 s2 ->
  run_script (transfer a op items su fa) s1 = run_script (transfer a op items su fa) s2.
Proof. exact C11_foreign_blind_transfer_lemma. Qed.
Print Assumptions C11_foreign_blind_transfer.

(* --- page sources that talk on the bus (model: catch, prelude, send_pages_with) --- *)
(* A call made from inside the page iterator says on the bus exactly what it would say alone; that it failed with the
   protocol error is dropped, everything else (bus failure, panic, an exhausted script) ends the outer call as well. *)
Theorem C11_nested_call : forall c script,
  run_script (catch (cop_prog c)) script
  = (fst (run_script (cop_prog c) script), SourceP.caught (snd (run_script (cop_prog c) script)))
  /\ snd (run_script (catch (cop_prog c)) script) <> ProtoErr.
Proof. intros c script. split; [apply SourceP.run_script_catch | apply SourceP.catch_never_fails]. Qed.
Print Assumptions C11_nested_call.

(* Bounded retries whatever the source does: a transfer over a talking source is at most three attempts, one after the
   other, each the attempt program run on what the earlier ones left of the script. *)
Theorem C11_bounded_attempts_with_source : forall a op items s f script,
  exists ts : list (list msg),
    fst (run_script (transfer_loop_with 2 a op items s f) script) = concat ts
    /\ (1 <= length ts <= 3)%nat
    /\ Forall (fun t => exists k, t = fst (run_script (attempt_with a op items) (skipn k script))) ts.
Proof. intros. apply SourceP.transfer_with_attempts. Qed.
Print Assumptions C11_bounded_attempts_with_source.

(* Fail-stop holds of every program, hence of send_pages over any source. *)
Theorem C11_fail_stop_with_source : forall a items script tr o,
  run_script (send_pages_with a items) script = (tr, o) -> o <> Blocked ->
  (length tr <= length script)%nat
  /\ (In BusErr (firstn (length tr) script) -> o = BusFailed)
  /\ (o = BusFailed -> nth_error script (length tr - 1) = Some BusErr).
Proof.
  intros a items script tr o H Hb. destruct (fail_stop_gen _ _ _ _ H Hb) as (H1 & _ & H3 & H4).
  split; [exact H1|]. split; [exact H3|exact H4].
Qed.
Print Assumptions C11_fail_stop_with_source.

(* ... and an iterator that catches the PANIC of a call it makes ([catch_all]) drops that too: what the call says on the bus
   is what it says alone, and neither its protocol failure nor its panic becomes the outer call's. *)
Theorem C11_nested_call_panic_caught : forall (A : Type) (p : prog A) script,
  fst (run_script (catch_all p) script) = fst (run_script p script)
  /\ snd (run_script (catch_all p) script) <> ProtoErr /\ snd (run_script (catch_all p) script) <> Crashed.
Proof. exact @SourceP.run_script_catch_all. Qed.
Print Assumptions C11_nested_call_panic_caught.
