(* C18 — pacing of SerialSignBus::process_message.  PARTIAL by nature: real elapsed time is
   measured by the test harness, not modelled.  Proved here: where the thread::sleep calls sit in
   the event trace (30 ms immediately after the write of a data chunk; 100 ms immediately after
   the read of a PageLoadInProgress / PageShowInProgress report, last in the trace; no other
   sleep), and the resulting lower bounds when only sleeps are counted as taking time. *)
From Flipdot Require Import Tactics Base Hex Frame Message Io Serial FrameP IoP SerialP.
Local Open Scope N_scope.

Example reply_bytes : list N := encode_nl (frame_of_msg (ReportState 3 PageShowInProgress)).

Example trace_with_both_kinds_of_event :
  option_map snd
    (serial_process (RequestOperation 3 ShowLoadedPage)
       {| pt_in := {| r_content := reply_bytes; r_sched := [RData 1; RIntr] |};
          pt_out := {| w_out := []; w_sched := [WAccept 0] |} |})
  = Some [EvWrite (encode_nl (frame_of_msg (RequestOperation 3 ShowLoadedPage)));
          EvRead reply_bytes; EvSleep 100]
  /\ option_map snd
       (serial_process (SendData 16 [1; 2])
          {| pt_in := {| r_content := reply_bytes; r_sched := [] |};
             pt_out := {| w_out := []; w_sched := [] |} |})
     = Some [EvWrite (encode_nl (frame_of_msg (SendData 16 [1; 2]))); EvSleep 30].
Proof. vm_compute. auto. Qed.

Example min_duration_ex :
  min_duration [EvWrite [1]; EvSleep 30; EvRead [2]; EvSleep 100] = 130
  /\ after_write [EvWrite [1]; EvSleep 30; EvRead [2]; EvSleep 100]
     = [EvSleep 30; EvRead [2]; EvSleep 100]
  /\ after_read [EvWrite [1]; EvSleep 30; EvRead [2]; EvSleep 100] = [EvSleep 100]
  /\ sleep_events [EvWrite [1]; EvSleep 30; EvRead [2]; EvSleep 100] = [30; 100].
Proof. vm_compute. auto. Qed.

(* Which messages / replies carry a delay. *)
Theorem C18_delay_after_send :
  forall m,
  (delay_after_send m = Some 30 <-> exists o d, m = SendData o d)
  /\ (delay_after_send m = None <-> ~ exists o d, m = SendData o d)
  /\ (delay_after_send m = Some 30 \/ delay_after_send m = None).
Proof. exact SerialP.delay_after_send_iff. Qed.
Print Assumptions C18_delay_after_send.

Theorem C18_delay_after_receive :
  forall r,
  (delay_after_receive r = Some 100 <->
   exists a, r = ReportState a PageLoadInProgress \/ r = ReportState a PageShowInProgress)
  /\ (delay_after_receive r = None <->
      ~ exists a, r = ReportState a PageLoadInProgress \/ r = ReportState a PageShowInProgress)
  /\ (delay_after_receive r = Some 100 \/ delay_after_receive r = None).
Proof. exact SerialP.delay_after_receive_iff. Qed.
Print Assumptions C18_delay_after_receive.

(* The whole trace, in each of the four possible courses of a call. *)
Theorem C18_sleep_placement :
  forall m p res p' evs, serial_process m p = Some (res, p', evs) ->
  let d := delivered (pt_out p) (pt_out p') in
  let c := consumed (pt_in p) (pt_in p') in
  (res = Err RIo /\ d <> encode_nl (frame_of_msg m) /\ evs = [EvWrite d])
  \/ (d = encode_nl (frame_of_msg m) /\ response_expected m = false /\ res = Ok None
      /\ evs = [EvWrite d] ++ sleep_ev (delay_after_send m))
  \/ (d = encode_nl (frame_of_msg m) /\ response_expected m = true /\ (exists e, res = Err e)
      /\ evs = [EvWrite d] ++ sleep_ev (delay_after_send m) ++ [EvRead c])
  \/ (d = encode_nl (frame_of_msg m) /\ response_expected m = true
      /\ exists reply, res = Ok (Some reply)
         /\ evs = [EvWrite d] ++ sleep_ev (delay_after_send m) ++ [EvRead c]
                    ++ sleep_ev (delay_after_receive reply)).
Proof. exact SerialP.C18_sleep_placement. Qed.
Print Assumptions C18_sleep_placement.

(* The sleeps of the trace, in order ([olist None = []], [olist (Some ms) = [ms]]). *)
Theorem C18_sleep_events :
  forall m p res p' evs, serial_process m p = Some (res, p', evs) ->
  let written := w_out (pt_out p') = w_out (pt_out p) ++ encode_nl (frame_of_msg m) in
  (~ written -> sleep_events evs = [])
  /\ (written ->
      sleep_events evs
      = olist (delay_after_send m)
        ++ match res with
           | Ok (Some reply) => olist (delay_after_receive reply)
           | _ => []
           end).
Proof. exact SerialP.C18_sleep_events. Qed.
Print Assumptions C18_sleep_events.

Theorem C18_sleep_iff :
  forall m p res p' evs, serial_process m p = Some (res, p', evs) ->
  (forall ms, In (EvSleep ms) evs -> ms = 30 \/ ms = 100)
  /\ (In (EvSleep 30) evs <->
      (exists o d, m = SendData o d)
      /\ w_out (pt_out p') = w_out (pt_out p) ++ encode_nl (frame_of_msg m))
  /\ (In (EvSleep 100) evs <->
      exists reply, res = Ok (Some reply)
        /\ exists a, reply = ReportState a PageLoadInProgress
                     \/ reply = ReportState a PageShowInProgress).
Proof. exact SerialP.C18_sleep_iff. Qed.
Print Assumptions C18_sleep_iff.

(* Lower bounds: [min_duration] counts EvSleep ms as ms and everything else as 0. *)
Theorem C18_durations :
  forall m p res p' evs, serial_process m p = Some (res, p', evs) ->
  let written := w_out (pt_out p') = w_out (pt_out p) ++ encode_nl (frame_of_msg m) in
  (~ written -> min_duration evs = 0)
  /\ (written ->
      exists rest,
        after_write evs = sleep_ev (delay_after_send m) ++ rest
        /\ (rest = [] \/ exists c, rest = EvRead c :: after_read evs)
        /\ after_read evs
           = match res with
             | Ok (Some reply) => sleep_ev (delay_after_receive reply)
             | _ => []
             end
        /\ min_duration (after_write evs)
           = odur (delay_after_send m) + min_duration (after_read evs)
        /\ min_duration evs = min_duration (after_write evs)).
Proof. exact SerialP.C18_durations. Qed.
Print Assumptions C18_durations.

Theorem C18_lower_bounds :
  forall m p res p' evs, serial_process m p = Some (res, p', evs) ->
  w_out (pt_out p') = w_out (pt_out p) ++ encode_nl (frame_of_msg m) ->
  ((exists o d, m = SendData o d) ->
   after_write evs = [EvSleep 30] /\ 30 <= min_duration (after_write evs))
  /\ ((~ exists o d, m = SendData o d) ->
      min_duration (after_write evs) = min_duration (after_read evs))
  /\ (forall reply, res = Ok (Some reply) ->
      ((exists a, reply = ReportState a PageLoadInProgress \/ reply = ReportState a PageShowInProgress)
       -> after_read evs = [EvSleep 100] /\ 100 <= min_duration (after_read evs))
      /\ ((~ exists a, reply = ReportState a PageLoadInProgress \/ reply = ReportState a PageShowInProgress)
          -> after_read evs = []))
  /\ ((forall reply, res <> Ok (Some reply)) -> after_read evs = []).
Proof. exact SerialP.C18_lower_bounds. Qed.
Print Assumptions C18_lower_bounds.

(* ---------- across a whole conversation: "does not write the NEXT message until ..." ---------- *)
(* [serial_trace ms p]: everything a conversation (one exchange after another on one port) does, in order. *)
Check eq_refl : serial_trace =
  fix serial_trace (ms : list msg) (p : port) : option (list sev) :=
    match ms with
    | [] => Some []
    | m :: ms' =>
        match serial_process m p with
        | None => None
        | Some (_, p', evs) =>
            match serial_trace ms' p' with
            | None => None
            | Some t => Some (evs ++ t)
            end
        end
    end.
(* Time certainly slept from here up to the next write (or the end of the trace). *)
Check eq_refl : quiet =
  fix quiet (evs : list sev) : N :=
    match evs with
    | [] => 0
    | EvWrite _ :: _ => 0
    | EvSleep ms :: t => ms + quiet t
    | EvRead _ :: t => quiet t
    end.
(* For every write of a trace: the bytes it delivered and the time slept before the next write. *)
Check eq_refl : write_gaps =
  fix write_gaps (evs : list sev) : list (list N * N) :=
    match evs with
    | [] => []
    | EvWrite bs :: t => (bs, quiet t) :: write_gaps t
    | _ :: t => write_gaps t
    end.

(* Every message of a conversation accounts for exactly one write.  If the write was cut short nothing is slept before
   the next write; if the whole frame went out, what is slept before the next write is this message's own send delay
   plus 0 or 100 ms (the post-receive delay of its reply) and nothing else. *)
Theorem C18_conversation_gaps :
  forall ms p t, serial_trace ms p = Some t ->
  Forall2 (fun m g =>
             (fst g <> encode_nl (frame_of_msg m) ->
              snd g = 0 /\ exists k, fst g = firstn k (encode_nl (frame_of_msg m)))
             /\ (fst g = encode_nl (frame_of_msg m) ->
                 exists r, snd g = odur (delay_after_send m) + r /\ (r = 0 \/ r = 100)))
          ms (write_gaps t).
Proof. exact SerialP.serial_trace_gaps. Qed.
Print Assumptions C18_conversation_gaps.

(* After a data chunk has gone out, at least 30 ms are slept before the next write, whichever message that is and
   whatever happens in between; after any other message, 0 or exactly 100 ms. *)
Theorem C18_next_write_paced :
  forall ms p t, serial_trace ms p = Some t ->
  Forall2 (fun m g => (exists o d, m = SendData o d) -> fst g = encode_nl (frame_of_msg m) -> 30 <= snd g)
          ms (write_gaps t)
  /\ Forall2 (fun m g => (~ exists o d, m = SendData o d) -> snd g = 0 \/ snd g = 100) ms (write_gaps t).
Proof. exact SerialP.serial_trace_data_chunk_gap. Qed.
Print Assumptions C18_next_write_paced.

Example C18_ex_conversation :
  option_map write_gaps
    (serial_trace [SendData 0 [1]; Hello 3; SendData 16 [2]; QueryState 3]
       {| pt_in := {| r_content := encode_nl (frame_of_msg (ReportState 3 Unconfigured)) ++ reply_bytes;
                      r_sched := [] |};
          pt_out := {| w_out := []; w_sched := [] |} |})
  = Some [(encode_nl (frame_of_msg (SendData 0 [1])), 30);
          (encode_nl (frame_of_msg (Hello 3)), 0);
          (encode_nl (frame_of_msg (SendData 16 [2])), 30);
          (encode_nl (frame_of_msg (QueryState 3)), 100)].
Proof. vm_compute. reflexivity. Qed.
