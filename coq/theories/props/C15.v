(* C15 — Frame::read consumes exactly one line (through the first LF, or everything at EOF) and
   returns its decoding, for every fragmentation of the stream and every placement of
   interrupts; Frame::write delivers exactly the frame's text with CR LF, however few bytes the
   sink accepts per call; hard errors surface as Err(Io) with only a prefix consumed/delivered. *)
From Flipdot Require Import Tactics Base Hex Frame Io FrameP IoP.
Local Open Scope N_scope.

(* ":02000201031FD9\r\n:0000000000\r\nAB" *)
Example two_frames_and_junk : list N :=
  [58; 48;50; 48;48; 48;50; 48;49; 48;51; 49;70; 68;57; 13; 10;
   58; 48;48; 48;48; 48;48; 48;48; 48;48; 13; 10;
   65; 66].

Example doc_frame : frame := {| f_addr := 2; f_type := 1; f_data := [3; 31] |}.
Example zero_frame : frame := {| f_addr := 0; f_type := 0; f_data := [] |}.

Example two_frames_text :
  two_frames_and_junk = encode_nl doc_frame ++ encode_nl zero_frame ++ [65; 66].
Proof. vm_compute. reflexivity. Qed.

Example first_line_ex :
  first_line two_frames_and_junk
  = (encode_nl doc_frame, encode_nl zero_frame ++ [65; 66]).
Proof. vm_compute. reflexivity. Qed.

(* Two reads under a fragmenting, interrupting schedule return the two frames and leave "AB";
   a third read gets "AB" at EOF, which is not a frame, and leaves nothing. *)
Example read_twice :
  read_n 2 {| r_content := two_frames_and_junk; r_sched := [RData 0; RIntr; RData 5] |}
  = Some ([Ok doc_frame; Ok zero_frame], {| r_content := [65; 66]; r_sched := [] |}).
Proof. vm_compute. reflexivity. Qed.

Example read_thrice :
  read_n 3 {| r_content := two_frames_and_junk; r_sched := [RIntr; RIntr; RData 100; RIntr] |}
  = Some ([Ok doc_frame; Ok zero_frame; Err (RFrame InvalidFrame)],
          {| r_content := []; r_sched := [] |}).
Proof. vm_compute. reflexivity. Qed.

(* A hard error after two delivered bytes: Err(Io), two bytes consumed. *)
Example read_fails_midline :
  frame_read {| r_content := two_frames_and_junk; r_sched := [RData 0; RIntr; RData 7; RFail; RData 0] |}
  = Some (Err RIo, {| r_content := skipn 2 two_frames_and_junk; r_sched := [RData 0] |}).
Proof. vm_compute. reflexivity. Qed.

(* An empty stream: EOF at once, the empty line is not a frame (this is what a timeout that the
   port reports as 0 bytes looks like). *)
Example read_eof :
  frame_read {| r_content := []; r_sched := [RIntr] |}
  = Some (Err (RFrame InvalidFrame), {| r_content := []; r_sched := [] |}).
Proof. vm_compute. reflexivity. Qed.

(* A sink that takes 3 bytes, interrupts, takes 1 byte, then everything. *)
Example write_fragmented :
  frame_write doc_frame {| w_out := [1; 2]; w_sched := [WAccept 2; WIntr; WAccept 0] |}
  = Some (Ok tt, {| w_out := [1; 2] ++ encode_nl doc_frame; w_sched := [] |}).
Proof. vm_compute. reflexivity. Qed.

Example write_zero_midway :
  frame_write doc_frame {| w_out := []; w_sched := [WAccept 2; WIntr; WZero; WAccept 9] |}
  = Some (Err RIo, {| w_out := [58; 48; 50]; w_sched := [WAccept 9] |}).
Proof. vm_compute. reflexivity. Qed.

Example reads_needed_ex :
  reads_needed two_frames_and_junk = 17%nat /\ reads_needed [65; 66] = 3%nat.
Proof. vm_compute. auto. Qed.

(* ---------- meaning of the auxiliary definitions ---------- *)

Theorem C15_first_line :
  forall content,
  fst (first_line content) ++ snd (first_line content) = content
  /\ ((exists a, ~ In 10 a /\ content = a ++ 10 :: snd (first_line content)
                 /\ fst (first_line content) = a ++ [10])
      \/ (~ In 10 content /\ first_line content = (content, []))).
Proof. exact IoP.C15_first_line. Qed.
Print Assumptions C15_first_line.

Theorem C15_reads_needed :
  forall content,
  reads_needed content
  = (length (fst (first_line content)) + if existsb (N.eqb 10) content then 0 else 1)%nat.
Proof. exact IoP.reads_needed_eq. Qed.
Print Assumptions C15_reads_needed.

(* ---------- the model's fuel never runs out ---------- *)

Theorem C15_fuel_enough :
  (forall r, frame_read r <> None) /\ (forall f w, frame_write f w <> None).
Proof. exact IoP.C15_fuel_enough. Qed.
Print Assumptions C15_fuel_enough.

(* ---------- reading ---------- *)

Theorem C15_read_exact :
  forall content sched, ~ In RFail sched ->
  exists r',
    frame_read {| r_content := content; r_sched := sched |}
    = Some (match decode (fst (first_line content)) with
            | Ok f => Ok f
            | Err e => Err (RFrame e)
            end, r')
    /\ r_content r' = snd (first_line content)
    /\ exists j, r_sched r' = skipn j sched.
Proof. exact IoP.C15_read_exact. Qed.
Print Assumptions C15_read_exact.

(* A hard error scheduled after enough successful reads does not matter. *)
Theorem C15_read_exact_before_fail :
  forall content pre post, ~ In RFail pre ->
  (reads_needed content <= data_reads pre)%nat ->
  exists r',
    frame_read {| r_content := content; r_sched := pre ++ post |}
    = Some (match decode (fst (first_line content)) with
            | Ok f => Ok f
            | Err e => Err (RFrame e)
            end, r')
    /\ r_content r' = snd (first_line content).
Proof. exact IoP.C15_read_exact_before_fail. Qed.
Print Assumptions C15_read_exact_before_fail.

Theorem C15_read_error :
  forall content pre post, ~ In RFail pre ->
  (data_reads pre < reads_needed content)%nat ->
  frame_read {| r_content := content; r_sched := pre ++ RFail :: post |}
  = Some (Err RIo, {| r_content := skipn (data_reads pre) content; r_sched := post |})
  /\ (data_reads pre <= length (fst (first_line content)))%nat
  /\ (In 10 content -> (data_reads pre < length (fst (first_line content)))%nat).
Proof. exact IoP.C15_read_error. Qed.
Print Assumptions C15_read_error.

(* Every outcome, for every schedule: never more than the first line is consumed. *)
Theorem C15_read_cases :
  forall r res r', frame_read r = Some (res, r') ->
  (exists j, r_sched r' = skipn j (r_sched r)) /\
  ((res = match decode (fst (first_line (r_content r))) with
          | Ok f => Ok f
          | Err e => Err (RFrame e)
          end
    /\ r_content r' = snd (first_line (r_content r)))
   \/ (res = Err RIo /\ In RFail (r_sched r) /\
       exists k, (k <= length (fst (first_line (r_content r))))%nat
                 /\ r_content r' = skipn k (r_content r))).
Proof. exact IoP.C15_read_cases. Qed.
Print Assumptions C15_read_cases.

Theorem C15_encode_nl_one_lf :
  forall f, encode_nl f = (encode f ++ [13]) ++ [10] /\ ~ In 10 (encode f ++ [13]).
Proof. exact IoP.encode_nl_one_lf. Qed.
Print Assumptions C15_encode_nl_one_lf.

Theorem C15_read_back_to_back :
  forall (fs : list frame) trailing sched,
  Forall wf_frame fs -> ~ In RFail sched ->
  exists r',
    read_n (length fs) {| r_content := concat (map encode_nl fs) ++ trailing; r_sched := sched |}
    = Some (map (fun f => Ok f) fs, r')
    /\ r_content r' = trailing.
Proof. exact IoP.C15_read_back_to_back. Qed.
Print Assumptions C15_read_back_to_back.

(* ---------- writing ---------- *)

Theorem C15_write_all :
  forall f out sched,
  (forall ev, In ev sched -> ev <> WFail /\ ev <> WZero) ->
  exists w',
    frame_write f {| w_out := out; w_sched := sched |} = Some (Ok tt, w')
    /\ w_out w' = out ++ encode_nl f.
Proof. exact IoP.C15_write_all. Qed.
Print Assumptions C15_write_all.

Theorem C15_write_all_before_fail :
  forall f out pre post,
  (forall ev, In ev pre -> ev <> WFail /\ ev <> WZero) ->
  nlen (encode_nl f) <= capacity pre ->
  exists w',
    frame_write f {| w_out := out; w_sched := pre ++ post |} = Some (Ok tt, w')
    /\ w_out w' = out ++ encode_nl f.
Proof. exact IoP.C15_write_all_before_fail. Qed.
Print Assumptions C15_write_all_before_fail.

Theorem C15_write_error :
  forall f w res w', frame_write f w = Some (res, w') ->
  (exists k, w_out w' = w_out w ++ firstn k (encode_nl f))
  /\ (res = Err RIo \/ (res = Ok tt /\ w_out w' = w_out w ++ encode_nl f)).
Proof. exact IoP.C15_write_error. Qed.
Print Assumptions C15_write_error.

Theorem C15_write_fault :
  forall f out pre bad post,
  (forall ev, In ev pre -> ev <> WFail /\ ev <> WZero) ->
  bad = WFail \/ bad = WZero ->
  capacity pre < nlen (encode_nl f) ->
  frame_write f {| w_out := out; w_sched := pre ++ bad :: post |}
  = Some (Err RIo, {| w_out := out ++ firstn (N.to_nat (capacity pre)) (encode_nl f);
                      w_sched := post |}).
Proof. exact IoP.C15_write_fault. Qed.
Print Assumptions C15_write_fault.

(* Every outcome, for every schedule: an error means a strict prefix was delivered. *)
Theorem C15_write_cases :
  forall f w res w', frame_write f w = Some (res, w') ->
  (exists j, w_sched w' = skipn j (w_sched w)) /\
  ((res = Ok tt /\ w_out w' = w_out w ++ encode_nl f)
   \/ (res = Err RIo /\ (In WFail (w_sched w) \/ In WZero (w_sched w)) /\
       exists k, (k < length (encode_nl f))%nat /\ w_out w' = w_out w ++ firstn k (encode_nl f))).
Proof. exact IoP.C15_write_cases. Qed.
Print Assumptions C15_write_cases.
