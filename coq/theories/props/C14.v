(* C14 — virtual signs sharing a bus are isolated from each other. *)
From Flipdot Require Import Tactics.
From Flipdot Require Import Base Message Page SignType VSign Controller CodeTable SignSpec VSignP ClosedLoopP WeaveP.
Local Open Scope N_scope.

(* ---------------------------------------------------------------------------------------- *)
(* Examples *)

(* A message for sign 5 leaves sign 3 untouched, wherever sign 5 sits on the bus. *)
Example C14_ex_two_signs :
  bus_step [vinit 3 Manual; vinit 5 Automatic] (RequestOperation 5 ReceiveConfig)
  = Some ([vinit 3 Manual; set_state (vinit 5 Automatic) ConfigInProgress],
          Some (AckOperation 5 ReceiveConfig))
  /\ bus_step [vinit 5 Automatic; vinit 3 Manual] (RequestOperation 5 ReceiveConfig)
  = Some ([set_state (vinit 5 Automatic) ConfigInProgress; vinit 3 Manual],
          Some (AckOperation 5 ReceiveConfig))
  /\ NoDup (map v_addr [vinit 3 Manual; vinit 5 Automatic]).
Proof.
  split; [vm_compute; reflexivity|]. split; [vm_compute; reflexivity|].
  cbn [map vinit v_addr]. repeat constructor; cbn [In]; intros H; repeat destruct H as [H|H];
    try discriminate; exact H.
Qed.

(* Nobody has address 9: nothing happens. *)
Example C14_ex_absent :
  bus_step [vinit 3 Manual; vinit 5 Automatic] (QueryState 9)
  = Some ([vinit 3 Manual; vinit 5 Automatic], None).
Proof. vm_compute. reflexivity. Qed.

(* Sign 5 is configured while sign 3 stays idle; then both are asked to receive a
   configuration and the (unaddressed) block reaches both; the final state of each sign is
   what it reaches alone on the same history. *)
Definition C14_ex_h : list msg :=
  [RequestOperation 5 ReceiveConfig; SendData 0 (st_to_bytes HorizonSide96x8);
   DataChunksSent 1; QueryState 5; QueryState 3;
   RequestOperation 5 StartReset; RequestOperation 5 FinishReset;
   RequestOperation 3 ReceiveConfig; RequestOperation 5 ReceiveConfig;
   SendData 0 (st_to_bytes Max3000Side90x7); DataChunksSent 1; QueryState 3; QueryState 5].

Example C14_ex_run :
  option_map (fun '(b, rs) => (map (fun s => (v_addr s, v_state s, v_w s, v_h s)) b, rs))
    (bus_run [vinit 3 Manual; vinit 5 Automatic] C14_ex_h)
  = Some ([(3, ConfigReceived, 90, 7); (5, ConfigReceived, 90, 7)],
          [Some (AckOperation 5 ReceiveConfig); None; None;
           Some (ReportState 5 ConfigReceived); Some (ReportState 3 Unconfigured);
           Some (AckOperation 5 StartReset); Some (AckOperation 5 FinishReset);
           Some (AckOperation 3 ReceiveConfig); Some (AckOperation 5 ReceiveConfig);
           None; None; Some (ReportState 3 ConfigReceived); Some (ReportState 5 ConfigReceived)])
  /\ option_map fst (bus_run [vinit 3 Manual; vinit 5 Automatic] C14_ex_h)
     = Some [match vrun (vinit 3 Manual) C14_ex_h with Some (s, _) => s | None => vinit 0 Manual end;
             match vrun (vinit 5 Automatic) C14_ex_h with Some (s, _) => s | None => vinit 0 Manual end].
Proof. vm_compute. split; reflexivity. Qed.

(* ---------------------------------------------------------------------------------------- *)

(* Only the addressed sign changes; every other sign keeps its entire state; the reply and
   the new state are what that sign alone produces. *)
Theorem C14_addressed : forall b m a,
  NoDup (map v_addr b) -> msg_target m = Some a ->
  forall b1 s b2, b = b1 ++ s :: b2 -> v_addr s = a ->
  forall s' r, vstep s m = Some (s', r) -> bus_step b m = Some (b1 ++ s' :: b2, r).
Proof. exact bus_addressed. Qed.
Print Assumptions C14_addressed.

Theorem C14_absent : forall b m a,
  msg_target m = Some a -> ~ In a (map v_addr b) -> bus_step b m = Some (b, None).
Proof. exact bus_absent_bm. Qed.
Print Assumptions C14_absent.

(* A reply on the bus always comes from the addressed sign and carries its address. *)
Theorem C14_reply_address : forall b m b' rm,
  bus_step b m = Some (b', Some rm) ->
  exists a, msg_target m = Some a /\ msg_addr rm = a /\ In a (map v_addr b).
Proof. exact bus_reply_address_bm. Qed.
Print Assumptions C14_reply_address.

(* Unaddressed messages reach every sign, are never answered, and change only signs that are
   currently receiving; any other sign keeps its entire state. *)
Theorem C14_unaddressed : forall b m,
  msg_target m = None -> (forall s, In s b -> vstep s m <> None) ->
  exists b', bus_step b m = Some (b', None) /\ length b' = length b
    /\ forall i s, nth_error b i = Some s ->
         exists s', vstep s m = Some (s', None) /\ nth_error b' i = Some s'
           /\ (v_state s <> ConfigInProgress -> v_state s <> PixelsInProgress -> s' = s).
Proof. exact bus_unaddressed_bm. Qed.
Print Assumptions C14_unaddressed.

(* Each sign's final state on a shared bus is the state it reaches alone on the same history;
   addresses never change. *)
Theorem C14_projection : forall b h b' rs,
  NoDup (map v_addr b) -> bus_run b h = Some (b', rs) ->
  map v_addr b' = map v_addr b
  /\ forall i s, nth_error b i = Some s ->
       exists s' rs_i, vrun s h = Some (s', rs_i) /\ nth_error b' i = Some s'.
Proof. exact bus_projection_bh. Qed.
Print Assumptions C14_projection.

(* Isolation seen from a controller program: if P is a program Q for sign [a] with conversations for OTHER signs woven
   into it ([weave]: sends addressed to other signs, whose replies may steer further such sends but not Q), then on any
   bus of signs with distinct addresses P does to sign [a] exactly what Q does to that sign alone, and ends as Q ends.
   (Data chunks and chunk counts carry no address and are heard by every sign: they are not "for other signs".) *)
Theorem C14_woven_conversations : forall (A : Type) a (P Q : prog A),
  weave a P Q ->
  forall b s, NoDup (map v_addr b) -> Forall VInv0 b -> target b a = Some s ->
  exists b', run_bus P b = (b', snd (run_one Q s))
    /\ target b' a = Some (fst (run_one Q s))
    /\ Forall VInv0 b' /\ map v_addr b' = map v_addr b.
Proof. exact @weave_lift. Qed.
Print Assumptions C14_woven_conversations.
