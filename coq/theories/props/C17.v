(* C17 — the serial transport is transparent: a controller operation run over the wire
   (SerialSignBus -> pipe -> Odk bridge -> VirtualSignBus, model/Serial.v: run_wire) does to the
   virtual signs exactly what the same operation does when run directly on the bus
   (model/Controller.v: run_bus), and succeeds exactly when the direct run succeeds.

   The one observable difference is not a defect of the transport but of what a serial bus can
   know: when a message that expects a reply (Hello / QueryState / RequestOperation) is met with
   silence, a VirtualSignBus says Ok(None) while a serial bus runs into a timeout and says Err.
   [run_bus_strict] (proofs/WireP.v) is the direct run with exactly that reading of silence; the
   run over the wire EQUALS it for every program that sends well-formed specific messages
   (C17_simulation_strict), and for the six operations of Sign the strict and the plain direct
   run succeed together and always leave the signs in the same state. *)
From Flipdot Require Import Tactics Base Hex Frame Message SignType Page VSign Controller Io Serial.
From Flipdot Require Import FrameP MessageP IoP VSignP WireP WireSchedP.
Local Open Scope N_scope.

(* ---------------------------------------------------------------------------------------- *)
(* Examples *)

Example sign3 : list vsign := [vinit 3 Manual].

(* configure, send one 30x7 page (48 bytes), show it *)
Example session : prog flip_style :=
  configure 3 Max3000Dash30x7 ;;;
  fs <- send_pages 3 [page_new 1 30 7] ;;
  show_loaded_page 10 3 ;;;
  Ret fs.

Example C17_ex_page_is_48_bytes : length (p_bytes (page_new 1 30 7)) = 48%nat.
Proof. vm_compute. reflexivity. Qed.

(* over the wire = directly on the bus: same outcome (Done Manual), same final sign
   (PageShown, holding the page), nothing left in the receive pipe *)
Example C17_ex_session :
  run_wire session {| wr_bus := sign3; wr_inbox := [] |}
  = Some (let (b', o) := run_bus session sign3 in ({| wr_bus := b'; wr_inbox := [] |}, o))
  /\ snd (run_bus session sign3) = Done Manual
  /\ map v_state (fst (run_bus session sign3)) = [PageShown]
  /\ map v_pages (fst (run_bus session sign3)) = [[page_new 1 30 7]].
Proof. vm_compute. repeat split; reflexivity. Qed.

(* The same on a bus with a second sign and with two signs sharing the address. *)
Example C17_ex_session_shared :
  let b := [vinit 5 Automatic; vinit 3 Manual; vinit 3 Automatic] in
  run_wire session {| wr_bus := b; wr_inbox := [] |}
  = Some (let (b', o) := run_bus session b in ({| wr_bus := b'; wr_inbox := [] |}, o)).
Proof. vm_compute. reflexivity. Qed.

(* Why the comparison is with the strict run: nobody has address 3.  Directly on the bus the
   silence is Ok(None) and the operation fails with UnexpectedResponse one message later;
   over the wire the first missing reply is a timeout.  Both fail, signs untouched. *)
Example C17_ex_silence :
  run_bus (configure 3 Max3000Dash30x7) [vinit 5 Manual] = ([vinit 5 Manual], ProtoErr)
  /\ run_bus_strict (configure 3 Max3000Dash30x7) [vinit 5 Manual] = ([vinit 5 Manual], BusFailed)
  /\ run_wire (configure 3 Max3000Dash30x7) {| wr_bus := [vinit 5 Manual]; wr_inbox := [] |}
     = Some ({| wr_bus := [vinit 5 Manual]; wr_inbox := [] |}, BusFailed).
Proof. vm_compute. repeat split; reflexivity. Qed.

(* one bus call over the wire, with and without a reply *)
Example C17_ex_wire_step :
  wire_step {| wr_bus := sign3; wr_inbox := [] |} (Hello 3)
  = Some ({| wr_bus := sign3; wr_inbox := [] |}, WRep (Some (ReportState 3 Unconfigured)))
  /\ wire_step {| wr_bus := sign3; wr_inbox := [] |} (Hello 4)
     = Some ({| wr_bus := sign3; wr_inbox := [] |}, WErr)
  /\ wire_step {| wr_bus := sign3; wr_inbox := [] |} (Goodbye 3)
     = Some ({| wr_bus := sign3; wr_inbox := [] |}, WRep None).
Proof. vm_compute. repeat split; reflexivity. Qed.

(* the bridge, fed a line that is not a frame *)
Example C17_ex_bad_line :
  odk_process {| pt_in := pipe_reader [58; 48; 49; 13; 10; 58]; pt_out := pipe_writer |} sign3
  = Some (Err (OComm (RFrame InvalidFrame)),
          {| pt_in := pipe_reader [58]; pt_out := pipe_writer |}, sign3, None).
Proof. vm_compute. reflexivity. Qed.

(* ---------------------------------------------------------------------------------------- *)
(* The definitions from proofs/WireP.v the statements below rely on, equation by equation. *)

Theorem C17_def_run_bus_strict : forall A : Type,
  (forall (x : A) b, run_bus_strict (Ret x) b = (b, Done x))
  /\ (forall b, run_bus_strict (@Fail A) b = (b, ProtoErr))
  /\ (forall b, run_bus_strict (@Crash A) b = (b, Crashed))
  /\ (forall m (k : option msg -> prog A) b,
        run_bus_strict (Send m k) b
        = match bus_step b m with
          | None => (b, Crashed)
          | Some (b', Some rm) => run_bus_strict (k (Some rm)) b'
          | Some (b', None) =>
              if response_expected m then (b', BusFailed) else run_bus_strict (k None) b'
          end).
Proof. exact @run_bus_strict_eqns. Qed.
Print Assumptions C17_def_run_bus_strict.

Theorem C17_def_wf_prog : forall A : Type,
  (forall x : A, wf_prog (Ret x) <-> True)
  /\ (wf_prog (@Fail A) <-> True)
  /\ (wf_prog (@Crash A) <-> True)
  /\ (forall m (k : option msg -> prog A),
        wf_prog (Send m k)
        <-> wf_msg m /\ specific m /\
            forall r, (r = None \/ exists rm, r = Some rm /\ wf_msg rm) -> wf_prog (k r)).
Proof. exact @wf_prog_eqns. Qed.
Print Assumptions C17_def_wf_prog.

(* ---------------------------------------------------------------------------------------- *)
(* The virtual signs' replies (facts 1 and 2) *)

Theorem C17_bus_reply_wf : forall b m b' rm,
  bus_step b m = Some (b', Some rm) -> (forall s, In s b -> v_addr s < 65536) ->
  wf_msg rm /\ specific rm.
Proof. exact bus_reply_wf. Qed.
Print Assumptions C17_bus_reply_wf.

Theorem C17_bus_replies_only_when_expected : forall b m b' rm,
  bus_step b m = Some (b', Some rm) -> response_expected m = true.
Proof. exact bus_replies_only_when_expected. Qed.
Print Assumptions C17_bus_replies_only_when_expected.

(* ---------------------------------------------------------------------------------------- *)
(* The bridge alone (fact 8) *)

Theorem C17_bad_line : forall p b e r',
  frame_read (pt_in p) = Some (Err e, r') ->
  odk_process p b = Some (Err (OComm e), {| pt_in := r'; pt_out := pt_out p |}, b, None).
Proof. exact WireP.C17_bad_line. Qed.
Print Assumptions C17_bad_line.

Theorem C17_forwarding : forall p b f r',
  frame_read (pt_in p) = Some (Ok f, r') ->
  match bus_step b (msg_of_frame f) with
  | None =>
      odk_process p b
      = Some (Err OPanic, {| pt_in := r'; pt_out := pt_out p |}, b, Some (msg_of_frame f))
  | Some (b', None) =>
      odk_process p b
      = Some (Ok tt, {| pt_in := r'; pt_out := pt_out p |}, b', Some (msg_of_frame f))
  | Some (b', Some rm) =>
      exists res w',
        odk_process p b = Some (res, {| pt_in := r'; pt_out := w' |}, b', Some (msg_of_frame f))
        /\ ((res = Ok tt /\ w_out w' = w_out (pt_out p) ++ encode_nl (frame_of_msg rm))
            \/ (res = Err (OComm RIo)
                /\ (In WFail (w_sched (pt_out p)) \/ In WZero (w_sched (pt_out p)))
                /\ exists k, (k < length (encode_nl (frame_of_msg rm)))%nat
                             /\ w_out w' = w_out (pt_out p)
                                           ++ firstn k (encode_nl (frame_of_msg rm))))
  end.
Proof. exact WireP.C17_forwarding. Qed.
Print Assumptions C17_forwarding.

Theorem C17_forwarding_clean : forall p b f r' b' rm,
  frame_read (pt_in p) = Some (Ok f, r') ->
  (forall ev, In ev (w_sched (pt_out p)) -> ev <> WFail /\ ev <> WZero) ->
  bus_step b (msg_of_frame f) = Some (b', Some rm) ->
  exists w', odk_process p b
             = Some (Ok tt, {| pt_in := r'; pt_out := w' |}, b', Some (msg_of_frame f))
             /\ w_out w' = w_out (pt_out p) ++ encode_nl (frame_of_msg rm).
Proof. exact WireP.C17_forwarding_clean. Qed.
Print Assumptions C17_forwarding_clean.

(* ---------------------------------------------------------------------------------------- *)
(* One bus call over the wire (fact 3) *)

Theorem C17_wire_step : forall m b,
  wf_msg m -> specific m -> (forall s, In s b -> v_addr s < 65536) ->
  (* the bridge forwards exactly m and writes back exactly the reply's frame, if any *)
  odk_process {| pt_in := pipe_reader (encode_nl (frame_of_msg m)); pt_out := pipe_writer |} b
  = match bus_step b m with
    | None =>
        Some (Err OPanic,
              {| pt_in := pipe_reader []; pt_out := {| w_out := []; w_sched := [] |} |},
              b, Some m)
    | Some (b', reply) =>
        Some (Ok tt,
              {| pt_in := pipe_reader [];
                 pt_out := {| w_out := match reply with
                                       | Some rm => encode_nl (frame_of_msg rm)
                                       | None => []
                                       end;
                              w_sched := [] |} |},
              b', Some m)
    end
  (* a sign panics *)
  /\ (bus_step b m = None ->
      wire_step {| wr_bus := b; wr_inbox := [] |} m
      = Some ({| wr_bus := b; wr_inbox := [] |}, WPanic))
  (* the bus replies: then a reply was due, and it arrives *)
  /\ (forall b' rm, bus_step b m = Some (b', Some rm) ->
      response_expected m = true /\
      wire_step {| wr_bus := b; wr_inbox := [] |} m
      = Some ({| wr_bus := b'; wr_inbox := [] |}, WRep (Some rm)))
  (* the bus stays silent: fine if no reply is due, a timeout error if one is;
     the signs have stepped all the same *)
  /\ (forall b', bus_step b m = Some (b', None) ->
      wire_step {| wr_bus := b; wr_inbox := [] |} m
      = Some ({| wr_bus := b'; wr_inbox := [] |},
              if response_expected m then WErr else WRep None)).
Proof. exact WireP.C17_wire_step. Qed.
Print Assumptions C17_wire_step.

Theorem C17_no_stale_bytes : forall m b w' wr,
  wf_msg m -> specific m -> (forall s, In s b -> v_addr s < 65536) ->
  wire_step {| wr_bus := b; wr_inbox := [] |} m = Some (w', wr) ->
  wr_inbox w' = []
  /\ (forall s, In s (wr_bus w') -> v_addr s < 65536)
  /\ (forall b' rm, bus_step b m = Some (b', Some rm) -> response_expected m = true).
Proof. exact WireP.C17_no_stale_bytes. Qed.
Print Assumptions C17_no_stale_bytes.

(* ---------------------------------------------------------------------------------------- *)
(* The generic simulation (fact 4) *)

Theorem C17_simulation_strict : forall A (p : prog A) b,
  wf_prog p -> Forall (fun s => v_addr s < 65536) b ->
  run_wire p {| wr_bus := b; wr_inbox := [] |}
  = Some (let (b', o) := run_bus_strict p b in ({| wr_bus := b'; wr_inbox := [] |}, o)).
Proof. exact WireP.C17_simulation_strict. Qed.
Print Assumptions C17_simulation_strict.

(* ---------------------------------------------------------------------------------------- *)
(* The six operations of Sign qualify (fact 5) *)

Theorem C17_wf_controller :
  (forall a t, a < 65536 -> wf_prog (configure a t))
  /\ (forall a t, a < 65536 -> wf_prog (configure_if_needed a t))
  /\ (forall a ps, a < 65536 -> (forall p, In p ps -> bytesb (p_bytes p) = true) ->
                   wf_prog (send_pages a ps))
  /\ (forall fuel a, a < 65536 -> wf_prog (show_loaded_page fuel a))
  /\ (forall fuel a, a < 65536 -> wf_prog (load_next_page fuel a))
  /\ (forall a, a < 65536 -> wf_prog (shut_down a)).
Proof. exact WireP.C17_wf_controller. Qed.
Print Assumptions C17_wf_controller.

(* ---------------------------------------------------------------------------------------- *)
(* Strict run versus direct run (facts 6 and 7), for every bus (no NoDup needed) *)

Theorem C17_success_together :
  (forall a t b b' v,
      run_bus (configure a t) b = (b', Done v) <-> run_bus_strict (configure a t) b = (b', Done v))
  /\ (forall a t b b' v,
      run_bus (configure_if_needed a t) b = (b', Done v)
      <-> run_bus_strict (configure_if_needed a t) b = (b', Done v))
  /\ (forall a ps b b' v,
      run_bus (send_pages a ps) b = (b', Done v)
      <-> run_bus_strict (send_pages a ps) b = (b', Done v))
  /\ (forall fuel a b b' v,
      run_bus (show_loaded_page fuel a) b = (b', Done v)
      <-> run_bus_strict (show_loaded_page fuel a) b = (b', Done v))
  /\ (forall fuel a b b' v,
      run_bus (load_next_page fuel a) b = (b', Done v)
      <-> run_bus_strict (load_next_page fuel a) b = (b', Done v))
  /\ (forall a b b' v,
      run_bus (shut_down a) b = (b', Done v) <-> run_bus_strict (shut_down a) b = (b', Done v)).
Proof. exact WireP.C17_success_together. Qed.
Print Assumptions C17_success_together.

Theorem C17_absent_address : forall a b,
  ~ In a (map v_addr b) ->
  (forall t b' v, run_bus (configure a t) b <> (b', Done v)
                  /\ run_bus_strict (configure a t) b <> (b', Done v))
  /\ (forall t b' v, run_bus (configure_if_needed a t) b <> (b', Done v)
                     /\ run_bus_strict (configure_if_needed a t) b <> (b', Done v))
  /\ (forall ps b' v, run_bus (send_pages a ps) b <> (b', Done v)
                      /\ run_bus_strict (send_pages a ps) b <> (b', Done v))
  /\ (forall fuel b' v, run_bus (show_loaded_page fuel a) b <> (b', Done v)
                        /\ run_bus_strict (show_loaded_page fuel a) b <> (b', Done v))
  /\ (forall fuel b' v, run_bus (load_next_page fuel a) b <> (b', Done v)
                        /\ run_bus_strict (load_next_page fuel a) b <> (b', Done v))
  /\ run_bus (shut_down a) b = (b, Done tt)
  /\ run_bus_strict (shut_down a) b = (b, Done tt).
Proof. exact WireP.C17_absent_address. Qed.
Print Assumptions C17_absent_address.

Theorem C17_failure_same_signs : forall a b,
  In a (map v_addr b) ->
  (forall t b1 o1 b2 o2,
      run_bus (configure a t) b = (b1, o1) -> run_bus_strict (configure a t) b = (b2, o2) ->
      b1 = b2 /\ (o1 = o2 \/ (o1 = ProtoErr /\ o2 = BusFailed)))
  /\ (forall t b1 o1 b2 o2,
      run_bus (configure_if_needed a t) b = (b1, o1) ->
      run_bus_strict (configure_if_needed a t) b = (b2, o2) ->
      b1 = b2 /\ (o1 = o2 \/ (o1 = ProtoErr /\ o2 = BusFailed)))
  /\ (forall ps b1 o1 b2 o2,
      run_bus (send_pages a ps) b = (b1, o1) -> run_bus_strict (send_pages a ps) b = (b2, o2) ->
      b1 = b2 /\ (o1 = o2 \/ (o1 = ProtoErr /\ o2 = BusFailed)))
  /\ (forall fuel b1 o1 b2 o2,
      run_bus (show_loaded_page fuel a) b = (b1, o1) ->
      run_bus_strict (show_loaded_page fuel a) b = (b2, o2) ->
      b1 = b2 /\ (o1 = o2 \/ (o1 = ProtoErr /\ o2 = BusFailed)))
  /\ (forall fuel b1 o1 b2 o2,
      run_bus (load_next_page fuel a) b = (b1, o1) ->
      run_bus_strict (load_next_page fuel a) b = (b2, o2) ->
      b1 = b2 /\ (o1 = o2 \/ (o1 = ProtoErr /\ o2 = BusFailed)))
  /\ (forall b1 o1 b2 o2,
      run_bus (shut_down a) b = (b1, o1) -> run_bus_strict (shut_down a) b = (b2, o2) ->
      b1 = b2 /\ (o1 = o2 \/ (o1 = ProtoErr /\ o2 = BusFailed))).
Proof. exact WireP.C17_failure_same_signs. Qed.
Print Assumptions C17_failure_same_signs.

(* ---------------------------------------------------------------------------------------- *)
(* Put together: over the wire versus directly on the bus, without the strict run in between *)

(* An operation succeeds over the wire exactly when it succeeds directly on the bus, with the
   same value and the same final signs (and an empty receive pipe). *)
Theorem C17_transparent : forall b,
  Forall (fun s => v_addr s < 65536) b ->
  (forall a t b' v, a < 65536 ->
      (run_wire (configure a t) {| wr_bus := b; wr_inbox := [] |}
       = Some ({| wr_bus := b'; wr_inbox := [] |}, Done v)
       <-> run_bus (configure a t) b = (b', Done v)))
  /\ (forall a t b' v, a < 65536 ->
      (run_wire (configure_if_needed a t) {| wr_bus := b; wr_inbox := [] |}
       = Some ({| wr_bus := b'; wr_inbox := [] |}, Done v)
       <-> run_bus (configure_if_needed a t) b = (b', Done v)))
  /\ (forall a ps b' v, a < 65536 -> (forall p, In p ps -> bytesb (p_bytes p) = true) ->
      (run_wire (send_pages a ps) {| wr_bus := b; wr_inbox := [] |}
       = Some ({| wr_bus := b'; wr_inbox := [] |}, Done v)
       <-> run_bus (send_pages a ps) b = (b', Done v)))
  /\ (forall fuel a b' v, a < 65536 ->
      (run_wire (show_loaded_page fuel a) {| wr_bus := b; wr_inbox := [] |}
       = Some ({| wr_bus := b'; wr_inbox := [] |}, Done v)
       <-> run_bus (show_loaded_page fuel a) b = (b', Done v)))
  /\ (forall fuel a b' v, a < 65536 ->
      (run_wire (load_next_page fuel a) {| wr_bus := b; wr_inbox := [] |}
       = Some ({| wr_bus := b'; wr_inbox := [] |}, Done v)
       <-> run_bus (load_next_page fuel a) b = (b', Done v)))
  /\ (forall a b' v, a < 65536 ->
      (run_wire (shut_down a) {| wr_bus := b; wr_inbox := [] |}
       = Some ({| wr_bus := b'; wr_inbox := [] |}, Done v)
       <-> run_bus (shut_down a) b = (b', Done v))).
Proof. exact WireP.C17_transparent. Qed.
Print Assumptions C17_transparent.

(* With the address on the bus: the run over the wire ends (never out of model fuel) with an
   empty receive pipe and the signs exactly where the direct run leaves them, success or not;
   the outcome is the direct run's, except that an unacknowledged request surfaces as a bus
   error (timeout) instead of UnexpectedResponse. *)
Theorem C17_wire_same_signs : forall a b,
  Forall (fun s => v_addr s < 65536) b -> In a (map v_addr b) ->
  (forall t, exists o,
      run_wire (configure a t) {| wr_bus := b; wr_inbox := [] |}
      = Some ({| wr_bus := fst (run_bus (configure a t) b); wr_inbox := [] |}, o)
      /\ (o = snd (run_bus (configure a t) b)
          \/ (snd (run_bus (configure a t) b) = ProtoErr /\ o = BusFailed)))
  /\ (forall t, exists o,
      run_wire (configure_if_needed a t) {| wr_bus := b; wr_inbox := [] |}
      = Some ({| wr_bus := fst (run_bus (configure_if_needed a t) b); wr_inbox := [] |}, o)
      /\ (o = snd (run_bus (configure_if_needed a t) b)
          \/ (snd (run_bus (configure_if_needed a t) b) = ProtoErr /\ o = BusFailed)))
  /\ (forall ps, (forall p, In p ps -> bytesb (p_bytes p) = true) -> exists o,
      run_wire (send_pages a ps) {| wr_bus := b; wr_inbox := [] |}
      = Some ({| wr_bus := fst (run_bus (send_pages a ps) b); wr_inbox := [] |}, o)
      /\ (o = snd (run_bus (send_pages a ps) b)
          \/ (snd (run_bus (send_pages a ps) b) = ProtoErr /\ o = BusFailed)))
  /\ (forall fuel, exists o,
      run_wire (show_loaded_page fuel a) {| wr_bus := b; wr_inbox := [] |}
      = Some ({| wr_bus := fst (run_bus (show_loaded_page fuel a) b); wr_inbox := [] |}, o)
      /\ (o = snd (run_bus (show_loaded_page fuel a) b)
          \/ (snd (run_bus (show_loaded_page fuel a) b) = ProtoErr /\ o = BusFailed)))
  /\ (forall fuel, exists o,
      run_wire (load_next_page fuel a) {| wr_bus := b; wr_inbox := [] |}
      = Some ({| wr_bus := fst (run_bus (load_next_page fuel a) b); wr_inbox := [] |}, o)
      /\ (o = snd (run_bus (load_next_page fuel a) b)
          \/ (snd (run_bus (load_next_page fuel a) b) = ProtoErr /\ o = BusFailed)))
  /\ (exists o,
      run_wire (shut_down a) {| wr_bus := b; wr_inbox := [] |}
      = Some ({| wr_bus := fst (run_bus (shut_down a) b); wr_inbox := [] |}, o)
      /\ (o = snd (run_bus (shut_down a) b)
          \/ (snd (run_bus (shut_down a) b) = ProtoErr /\ o = BusFailed))).
Proof. exact WireP.C17_wire_same_signs. Qed.
Print Assumptions C17_wire_same_signs.

(* ---------------------------------------------------------------------------------------- *)
(* [wire_step] (model/Serial.v) spells the controller side out inline.  It IS: the
   SerialSignBus call [serial_process] (C16/C18) around one bridge step: the bytes
   serial_process writes are exactly the bytes the bridge is fed, and serial_process reading
   from a pipe that holds what the bridge wrote back gives exactly wire_step's answer and
   leftover inbox.  Unconditional: for every wire state (any inbox) and every message. *)

Theorem C17_def_wire_step_via_serial : forall w m,
  wire_step_via_serial w m
  = match odk_process {| pt_in := pipe_reader (encode_nl (frame_of_msg m));
                         pt_out := pipe_writer |} (wr_bus w) with
    | None => None
    | Some (res, op, b', _) =>
        match res with
        | Err OPanic => Some (w, WPanic)
        | _ =>
            match serial_process m {| pt_in := pipe_reader (wr_inbox w ++ w_out (pt_out op));
                                      pt_out := pipe_writer |} with
            | None => None
            | Some (r, p', _) =>
                Some ({| wr_bus := b'; wr_inbox := r_content (pt_in p') |},
                      match r with Ok reply => WRep reply | Err _ => WErr end)
            end
        end
    end.
Proof. exact wire_step_via_serial_eqn. Qed.
Print Assumptions C17_def_wire_step_via_serial.

Example C17_ex_via_serial :
  wire_step_via_serial {| wr_bus := sign3; wr_inbox := [] |} (Hello 3)
  = Some ({| wr_bus := sign3; wr_inbox := [] |}, WRep (Some (ReportState 3 Unconfigured)))
  /\ wire_step_via_serial {| wr_bus := sign3; wr_inbox := [58; 10; 7] |} (QueryState 4)
     = Some ({| wr_bus := sign3; wr_inbox := [7] |}, WErr)
  /\ wire_step {| wr_bus := sign3; wr_inbox := [58; 10; 7] |} (QueryState 4)
     = Some ({| wr_bus := sign3; wr_inbox := [7] |}, WErr).
Proof. vm_compute. repeat split; reflexivity. Qed.

Theorem C17_wire_is_serial_plus_bridge :
  (forall w m, wire_step w m = wire_step_via_serial w m)
  /\ (forall m p res p' evs,
        w_sched (pt_out p) = [] ->
        serial_process m p = Some (res, p', evs) ->
        w_out (pt_out p') = w_out (pt_out p) ++ encode_nl (frame_of_msg m)
        /\ w_sched (pt_out p') = []
        /\ exists evs', evs = EvWrite (encode_nl (frame_of_msg m)) :: evs')
  /\ (forall m rd res p' evs,
        serial_process m {| pt_in := rd; pt_out := pipe_writer |} = Some (res, p', evs) ->
        w_out (pt_out p') = encode_nl (frame_of_msg m)).
Proof. exact WireP.C17_wire_is_serial_plus_bridge. Qed.
Print Assumptions C17_wire_is_serial_plus_bridge.

(* ---------------------------------------------------------------------------------------- *)
(* Transparency does not depend on how the byte streams behave, as long as they do not fail: every use
   of a stream (the controller's write, the bridge's read, the bridge's write of the reply, the
   controller's read of the reply) may fragment into arbitrary pieces and report Interrupted arbitrarily
   often.  [wire_step_s] / [run_wire_s] (model/Serial.v) take one schedule of such behaviours per stream
   use and per bus call. *)

Theorem C17_def_clean : forall s,
  clean s <->
  (forall ev, In ev (ws_cw s) -> ev <> WFail /\ ev <> WZero) /\ ~ In RFail (ws_br s)
  /\ (forall ev, In ev (ws_bw s) -> ev <> WFail /\ ev <> WZero) /\ ~ In RFail (ws_cr s).
Proof. intros s. reflexivity. Qed.
Print Assumptions C17_def_clean.

Theorem C17_wire_step_any_fragmentation : forall w m s,
  clean s -> wire_step_s w m s = wire_step w m.
Proof. exact wire_step_sched_indep. Qed.
Print Assumptions C17_wire_step_any_fragmentation.

Theorem C17_run_wire_any_fragmentation : forall A (p : prog A) w ss,
  Forall clean ss -> run_wire_s p w ss = run_wire p w.
Proof. exact run_wire_sched_indep. Qed.
Print Assumptions C17_run_wire_any_fragmentation.

Theorem C17_simulation_fragmented : forall A (p : prog A) b ss,
  wf_prog p -> Forall (fun s => v_addr s < 65536) b -> Forall clean ss ->
  run_wire_s p {| wr_bus := b; wr_inbox := [] |} ss
  = Some (let (b', o) := run_bus_strict p b in ({| wr_bus := b'; wr_inbox := [] |}, o)).
Proof. exact simulation_fragmented. Qed.
Print Assumptions C17_simulation_fragmented.

(* Evaluated: the session of the first example over streams that deliver one byte at a time with an
   interrupt before every other byte ends exactly as over the plain wire. *)
Example C17_ex_fragmented :
  let one := {| ws_cw := [WAccept 0; WIntr; WAccept 2; WIntr; WAccept 0];
                ws_br := [RData 0; RIntr; RData 0; RIntr; RIntr; RData 1];
                ws_bw := [WIntr; WAccept 0; WAccept 0; WIntr];
                ws_cr := [RIntr; RData 0; RData 0; RIntr; RData 3] |} in
  run_wire_s session {| wr_bus := sign3; wr_inbox := [] |} (repeat one 40)
  = run_wire session {| wr_bus := sign3; wr_inbox := [] |}.
Proof. vm_compute. reflexivity. Qed.

(* ---------------------------------------------------------------------------------------- *)
(* The bridge in front of ANY bus (not only virtual signs, which never answer data, counts, pixels-complete or
   goodbye): [odk_step_replied p reply] is Odk::process_message with the bus abstracted to the answer [reply m] it
   gives to the forwarded message. *)

Theorem C17_bridge_is_odk_process : forall p b m b' r f rd,
  frame_read (pt_in p) = Some (Ok f, rd) -> msg_of_frame f = m -> bus_step b m = Some (b', r) ->
  odk_process p b
  = match odk_step_replied p (fun _ => r) with
    | Some (res, p', fwd) => Some (res, p', b', fwd)
    | None => None
    end.
Proof. exact odk_process_replied. Qed.
Print Assumptions C17_bridge_is_odk_process.

Theorem C17_bridge_any_bus : forall p reply f rd,
  frame_read (pt_in p) = Some (Ok f, rd) ->
  (forall ev, In ev (w_sched (pt_out p)) -> ev <> WFail /\ ev <> WZero) ->
  exists p',
    odk_step_replied p reply = Some (Ok tt, p', Some (msg_of_frame f))
    /\ pt_in p' = rd
    /\ w_out (pt_out p')
       = w_out (pt_out p) ++ match reply (msg_of_frame f) with
                             | Some rm => encode_nl (frame_of_msg rm)
                             | None => []
                             end.
Proof. exact bridge_any_bus. Qed.
Print Assumptions C17_bridge_any_bus.

Theorem C17_bridge_bad_line_any_bus : forall p reply e rd,
  frame_read (pt_in p) = Some (Err e, rd) ->
  odk_step_replied p reply = Some (Err (OComm e), {| pt_in := rd; pt_out := pt_out p |}, None).
Proof. exact bridge_bad_line_any_bus. Qed.
Print Assumptions C17_bridge_bad_line_any_bus.

(* ---------- the bridge serving a whole stream of requests ---------- *)
Check eq_refl : odk_run =
  fix odk_run (p : port) (answers : list (option msg)) : option (list (result oerr unit * option msg) * port) :=
    match answers with
    | [] => Some ([], p)
    | a :: rest =>
        match odk_step_replied p (fun _ => a) with
        | None => None
        | Some (res, p', fwd) =>
            match odk_run p' rest with
            | None => None
            | Some (l, p'') => Some ((res, fwd) :: l, p'')
            end
        end
    end.
Check eq_refl : answers_written = fun answers : list (option msg) =>
  concat (map (fun a => match a with Some rm => encode_nl (frame_of_msg rm) | None => [] end) answers).

(* Request frames back to back on the line (any fragmentation, any interruptions), a bus that answers as scripted:
   every request is forwarded in order as the message its frame stands for, the frames written back are exactly those of
   the answers given, in order, and the bytes after the last request stay in the port. *)
Theorem C17_bridge_conversation : forall fs answers trailing out ws rs,
  length fs = length answers -> Forall wf_frame fs -> clean_w ws -> clean_r rs ->
  exists p',
    odk_run {| pt_in := {| r_content := concat (map encode_nl fs) ++ trailing; r_sched := rs |};
               pt_out := {| w_out := out; w_sched := ws |} |} answers
    = Some (map (fun f => (Ok tt, Some (msg_of_frame f))) fs, p')
    /\ w_out (pt_out p') = out ++ answers_written answers
    /\ r_content (pt_in p') = trailing.
Proof. exact bridge_conversation. Qed.
Print Assumptions C17_bridge_conversation.

Example C17_ex_bridge_conversation :
  option_map (fun r => (map snd (fst r), w_out (pt_out (snd r)), r_content (pt_in (snd r))))
    (odk_run {| pt_in := {| r_content := encode_nl (frame_of_msg (Hello 3)) ++ encode_nl (frame_of_msg (SendData 0 [1]))
                                         ++ encode_nl (frame_of_msg (QueryState 3)) ++ [58];
                            r_sched := [RData 0; RIntr] |};
                pt_out := {| w_out := []; w_sched := [WAccept 0; WIntr] |} |}
             [Some (ReportState 3 Unconfigured); None; Some (ReportState 3 ConfigReceived)])
  = Some ([Some (Hello 3); Some (SendData 0 [1]); Some (QueryState 3)],
          encode_nl (frame_of_msg (ReportState 3 Unconfigured)) ++ encode_nl (frame_of_msg (ReportState 3 ConfigReceived)),
          [58]).
Proof. vm_compute. reflexivity. Qed.

(* ---------- a whole conversation carried over the wire ---------- *)
(* The controller's serial bus says [ms], one after the other; the bus behind the bridge answers [answers] (an answer exactly
   for the messages that expect one).  Then, however the four byte streams fragment and interrupt (short of failing): the
   bridge forwards exactly [ms], in order, and writes back exactly the answers' frames; the controller's calls return
   exactly [answers], in order; nothing is left unread on either side. *)
Theorem C17_wire_conversation : forall ms answers ws1 rs1 ws2 rs2,
  Forall2 (fun m a => specific m /\ wf_msg m
                      /\ match a with
                         | Some r => response_expected m = true /\ specific r /\ wf_msg r
                         | None => response_expected m = false
                         end) ms answers ->
  clean_w ws1 -> clean_r rs1 -> clean_w ws2 -> clean_r rs2 ->
  exists pb pc,
    odk_run {| pt_in := {| r_content := concat (map (fun m => encode_nl (frame_of_msg m)) ms); r_sched := rs2 |};
               pt_out := {| w_out := []; w_sched := ws2 |} |} answers
    = Some (map (fun m => (Ok tt, Some m)) ms, pb)
    /\ w_out (pt_out pb) = answers_written answers
    /\ r_content (pt_in pb) = []
    /\ serial_run ms {| pt_in := {| r_content := w_out (pt_out pb); r_sched := rs1 |};
                        pt_out := {| w_out := []; w_sched := ws1 |} |}
       = Some (map (fun a => Ok a) answers, pc)
    /\ w_out (pt_out pc) = concat (map (fun m => encode_nl (frame_of_msg m)) ms)
    /\ r_content (pt_in pc) = [].
Proof. exact wire_conversation. Qed.
Print Assumptions C17_wire_conversation.

Example C17_ex_wire_conversation :
  Forall2 (fun m a => specific m /\ wf_msg m
                      /\ match a with
                         | Some r => response_expected m = true /\ specific r /\ wf_msg r
                         | None => response_expected m = false
                         end)
          [Hello 3; SendData 0 [1; 2]; QueryState 3]
          [Some (ReportState 3 Unconfigured); None; Some (ReportState 3 ConfigReceived)].
Proof. repeat constructor. Qed.
