(* C12 — a virtual sign never panics, whatever is sent on the bus. *)
From Flipdot Require Import Tactics.
From Flipdot Require Import Base Message Page SignType VSign VSignP.
Local Open Scope N_scope.

(* Examples: the hypotheses are satisfiable and the runs are non-trivial. *)

(* Sign 3 (manual flip) is configured as a 90x7 side sign, then receives a short pixel
   transfer whose announced chunk count (5) is wrong (1 chunk was sent): it ends in
   PixelsFailed, without a panic, and the incomplete buffer is dropped. *)
Example C12_ex_wrong_count :
  option_map (fun '(s, rs) => (v_state s, v_w s, v_h s, v_type s, v_pages s, v_pending s, rs))
    (vrun (vinit 3 Manual)
       [Hello 3; RequestOperation 3 ReceiveConfig;
        SendData 0 (st_to_bytes Max3000Side90x7); DataChunksSent 1; QueryState 3;
        RequestOperation 3 ReceivePixels; SendData 0 [1; 2; 3]; DataChunksSent 5;
        QueryState 3; PixelsComplete 3])
  = Some (PixelsFailed, 90, 7, Some Max3000Side90x7, [], [],
          [Some (ReportState 3 Unconfigured); Some (AckOperation 3 ReceiveConfig);
           None; None; Some (ReportState 3 ConfigReceived);
           Some (AckOperation 3 ReceivePixels); None; None;
           Some (ReportState 3 PixelsFailed); None]).
Proof. vm_compute. reflexivity. Qed.

(* The same sign receiving one complete 96-byte page in two chunks (the second at a
   non-zero offset) and the right count: the page is stored and logged, no panic. *)
Example C12_ex_good_transfer :
  option_map (fun '(s, rs) => (v_state s, map (fun p => (p_w p, p_h p, nlen (p_bytes p))) (v_pages s),
                               VSign.v_chunks s))
    (vrun (vinit 3 Manual)
       [RequestOperation 3 ReceiveConfig;
        SendData 0 (st_to_bytes Max3000Side90x7); DataChunksSent 1;
        RequestOperation 3 ReceivePixels;
        SendData 0 (repeatN 170 64); SendData 64 (repeatN 85 32); DataChunksSent 2;
        PixelsComplete 3])
  = Some (PageLoaded, [(90, 7, 96)], 0).
Proof. vm_compute. reflexivity. Qed.

(* A configuration block of 16 arbitrary (even non-byte) values whose widths would overflow
   a u8 sum is accepted without a panic. *)
Example C12_ex_big_block :
  option_map (fun '(s, rs) => (v_state s, v_w s, v_h s, v_type s))
    (vrun (vinit 3 Automatic)
       [RequestOperation 3 ReceiveConfig;
        SendData 0 [4; 0; 0; 0; 255; 255; 255; 255; 255; 0; 0; 0; 0; 0; 0; 70000]])
  = Some (ConfigInProgress, 1020, 255, None).
Proof. vm_compute. reflexivity. Qed.

(* The invariant is satisfiable by a non-initial state. *)
Definition C12_ex_h : list msg :=
  [RequestOperation 3 ReceiveConfig; SendData 0 (st_to_bytes Max3000Side90x7);
   DataChunksSent 1; RequestOperation 3 ReceivePixels; SendData 0 (repeatN 170 96)].
Example C12_ex_inv :
  exists s rs, vrun (vinit 3 Manual) C12_ex_h = Some (s, rs)
               /\ VInv0 s /\ v_state s = PixelsInProgress /\ nlen (v_pending s) = 96.
Proof.
  destruct (vrun (vinit 3 Manual) C12_ex_h) as [[s rs]|] eqn:E; [|vm_compute in E; discriminate].
  exists s, rs. split; [reflexivity|].
  split; [exact (VInv0_run C12_ex_h _ s rs (VInv0_init 3 Manual) E)|].
  vm_compute in E. injection E as E _. subst s. split; reflexivity.
Qed.

(* One step from any state satisfying the invariant (clauses 1-6 of the invariant; no
   hypothesis on the message). *)
Theorem C12_no_panic_step : forall s m, VInv0 s -> vstep s m <> None.
Proof. exact no_panic_step. Qed.
Print Assumptions C12_no_panic_step.

(* The invariant holds initially and is preserved by every message. *)
Theorem C12_inv_init : forall a fs, VInv0 (vinit a fs).
Proof. exact VInv0_init. Qed.
Print Assumptions C12_inv_init.

Theorem C12_inv_step : forall s m s' r, VInv0 s -> vstep s m = Some (s', r) -> VInv0 s'.
Proof. exact VInv0_step. Qed.
Print Assumptions C12_inv_step.

(* Every history of arbitrary messages (arbitrary N payloads, no well-formedness needed). *)
Theorem C12_no_panic : forall a fs h, vrun (vinit a fs) h <> None.
Proof. exact no_panic. Qed.
Print Assumptions C12_no_panic.

Theorem C12_no_panic_bus : forall b h, Forall VInv0 b -> bus_run b h <> None.
Proof. exact no_panic_bus_bh. Qed.
Print Assumptions C12_no_panic_bus.

Theorem C12_no_panic_bus_init : forall (l : list (N * flip_style)) h,
  bus_run (map (fun '(a, fs) => vinit a fs) l) h <> None.
Proof. exact no_panic_bus_init. Qed.
Print Assumptions C12_no_panic_bus_init.

Theorem C12_any_config_block : forall s data,
  v_state s = ConfigInProgress -> length data = 16%nat ->
  exists s', vstep s (SendData 0 data) = Some (s', None).
Proof. exact any_config_block. Qed.
Print Assumptions C12_any_config_block.

(* Requested with a hypothesis [VInv0 s]; it is not needed, so the statements below are
   stronger than requested. *)
Theorem C12_transfer_ends_failed_or_received : forall s n,
  v_state s = PixelsInProgress ->
  exists s', vstep s (DataChunksSent n) = Some (s', None)
    /\ (v_state s' = PixelsReceived \/ v_state s' = PixelsFailed)
    /\ (v_state s' = PixelsReceived <-> v_chunks s = n).
Proof. exact pixel_transfer_ends. Qed.
Print Assumptions C12_transfer_ends_failed_or_received.

Theorem C12_config_ends_failed_or_received : forall s n,
  v_state s = ConfigInProgress ->
  exists s', vstep s (DataChunksSent n) = Some (s', None)
    /\ (v_state s' = ConfigReceived \/ v_state s' = ConfigFailed)
    /\ (v_state s' = ConfigReceived <-> v_chunks s = n).
Proof. exact config_transfer_ends. Qed.
Print Assumptions C12_config_ends_failed_or_received.
