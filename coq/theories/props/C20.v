(* C20 — port setup always yields 19200 baud, 8 data bits, no parity, 1 stop bit, no flow control
   and the requested read timeout, or an error and no object; whatever the prior settings. *)
From Flipdot Require Import Tactics Base Port PortP.
Local Open Scope N_scope.

(* A port that was left at 115200 7E2 with hardware flow control and a stale timeout. *)
Example odd_port : sport :=
  {| sp_settings := {| s_baud := Baud115200; s_csize := Bits7; s_parity := ParityEven;
                       s_stop := Stop2; s_flow := FlowHardware |};
     sp_timeout := Some 1; sp_fail := FailNone; sp_max_timeout := None |}.

Example odd_port_configured :
  serial_bus_try_new odd_port
  = Ok {| sp_settings := {| s_baud := Baud19200; s_csize := Bits8; s_parity := ParityNone;
                            s_stop := Stop1; s_flow := FlowNone |};
          sp_timeout := Some 5000000000; sp_fail := FailNone; sp_max_timeout := None |}
  /\ odk_try_new odd_port
  = Ok {| sp_settings := {| s_baud := Baud19200; s_csize := Bits8; s_parity := ParityNone;
                            s_stop := Stop1; s_flow := FlowNone |};
          sp_timeout := Some 10000000000; sp_fail := FailNone; sp_max_timeout := None |}.
Proof. vm_compute. auto. Qed.

Example exotic_baud_configured :
  configure_port {| sp_settings := {| s_baud := BaudOther 31250; s_csize := Bits5;
                                      s_parity := ParityOdd; s_stop := Stop2;
                                      s_flow := FlowSoftware |};
                    sp_timeout := None; sp_fail := FailNone; sp_max_timeout := None |} 5000000000
  = Ok {| sp_settings := wanted; sp_timeout := Some 5000000000; sp_fail := FailNone; sp_max_timeout := None |}.
Proof. vm_compute. reflexivity. Qed.

Example failing_port_errors :
  map (fun fl => configure_port {| sp_settings := wanted; sp_timeout := None; sp_fail := fl; sp_max_timeout := None |} 5000000000)
      [FailRead; FailSetBaud; FailWrite; FailTimeout]
  = [Err (PErr FailRead); Err (PErr FailSetBaud); Err (PErr FailWrite); Err (PErr FailTimeout)].
Proof. vm_compute. reflexivity. Qed.

(* A device that takes no timeout beyond 2^31 - 1 ms: a longer one is its refusal, not a shorter timeout. *)
Example long_timeout_refused :
  configure_port {| sp_settings := wanted; sp_timeout := Some 7; sp_fail := FailNone;
                    sp_max_timeout := Some 2147483647000000 |} 2147483648000000
  = Err (PErr FailTimeout)
  /\ configure_port {| sp_settings := wanted; sp_timeout := Some 7; sp_fail := FailNone;
                       sp_max_timeout := Some 2147483647000000 |} 2147483647000000
     = Ok {| sp_settings := wanted; sp_timeout := Some 2147483647000000; sp_fail := FailNone;
             sp_max_timeout := Some 2147483647000000 |}.
Proof. vm_compute. auto. Qed.

(* [timeout_accepted p t]: the device takes a read timeout of t nanoseconds. *)
Check eq_refl : timeout_accepted = fun (p : sport) (t : N) =>
  match sp_max_timeout p with Some l => t <=? l | None => true end.

Theorem C20_wanted :
  wanted = {| s_baud := Baud19200; s_csize := Bits8; s_parity := ParityNone; s_stop := Stop1;
              s_flow := FlowNone |}.
Proof. exact PortP.C20_wanted. Qed.
Print Assumptions C20_wanted.

(* The closure handed to serial_core's reconfigure sets all five fields: whatever read_settings returned (the device's
   present settings, stale ones, anything at all), what is written back is 19200 8N1 without flow control. *)
Check eq_refl : apply_setters = fun s : settings =>
  set_flow (set_stop (set_parity (set_csize (set_baud s Baud19200) Bits8) ParityNone) Stop1) FlowNone.
Theorem C20_setters_cover_every_field : forall s, apply_setters s = wanted.
Proof. exact PortP.apply_setters_wanted. Qed.
Print Assumptions C20_setters_cover_every_field.

Theorem C20_ok_means_configured :
  forall p t p', configure_port p t = Ok p' ->
  sp_settings p' = wanted /\ sp_timeout p' = Some t /\ sp_fail p = FailNone /\ timeout_accepted p t = true.
Proof. exact PortP.C20_ok_means_configured. Qed.
Print Assumptions C20_ok_means_configured.

Theorem C20_serial_bus_ok :
  forall p p', serial_bus_try_new p = Ok p' ->
  sp_settings p' = wanted /\ sp_timeout p' = Some 5000000000 /\ sp_fail p = FailNone
  /\ timeout_accepted p 5000000000 = true.
Proof. exact PortP.C20_serial_bus_ok. Qed.
Print Assumptions C20_serial_bus_ok.

Theorem C20_odk_ok :
  forall p p', odk_try_new p = Ok p' ->
  sp_settings p' = wanted /\ sp_timeout p' = Some 10000000000 /\ sp_fail p = FailNone
  /\ timeout_accepted p 10000000000 = true.
Proof. exact PortP.C20_odk_ok. Qed.
Print Assumptions C20_odk_ok.

Theorem C20_failure_is_error :
  forall p t, sp_fail p <> FailNone -> configure_port p t = Err (PErr (sp_fail p)).
Proof. exact PortP.C20_failure_is_error. Qed.
Print Assumptions C20_failure_is_error.

(* A timeout the device will not take is an error (the device's refusal), never a quietly shortened timeout. *)
Theorem C20_refused_timeout_is_error :
  forall p t, sp_fail p = FailNone -> timeout_accepted p t = false -> configure_port p t = Err (PErr FailTimeout).
Proof. exact PortP.C20_refused_timeout_is_error. Qed.
Print Assumptions C20_refused_timeout_is_error.

Theorem C20_no_failure_is_ok :
  forall p t, sp_fail p = FailNone -> timeout_accepted p t = true ->
  configure_port p t
  = Ok {| sp_settings := wanted; sp_timeout := Some t; sp_fail := FailNone; sp_max_timeout := sp_max_timeout p |}.
Proof. exact PortP.C20_no_failure_is_ok. Qed.
Print Assumptions C20_no_failure_is_ok.

Theorem C20_configure_spec :
  forall p t,
  (sp_fail p = FailNone /\ timeout_accepted p t = true /\
   configure_port p t = Ok {| sp_settings := wanted; sp_timeout := Some t; sp_fail := FailNone;
                              sp_max_timeout := sp_max_timeout p |})
  \/ (sp_fail p = FailNone /\ timeout_accepted p t = false /\ configure_port p t = Err (PErr FailTimeout))
  \/ (sp_fail p <> FailNone /\ configure_port p t = Err (PErr (sp_fail p))).
Proof. exact PortP.C20_configure_spec. Qed.
Print Assumptions C20_configure_spec.

Theorem C20_constructors_fail :
  forall p, sp_fail p <> FailNone ->
  serial_bus_try_new p = Err (PErr (sp_fail p)) /\ odk_try_new p = Err (PErr (sp_fail p)).
Proof. exact PortP.C20_constructors_fail. Qed.
Print Assumptions C20_constructors_fail.

Theorem C20_constructors_succeed :
  forall p, sp_fail p = FailNone -> timeout_accepted p 10000000000 = true ->
  serial_bus_try_new p = Ok {| sp_settings := wanted; sp_timeout := Some 5000000000; sp_fail := FailNone;
                               sp_max_timeout := sp_max_timeout p |}
  /\ odk_try_new p = Ok {| sp_settings := wanted; sp_timeout := Some 10000000000; sp_fail := FailNone;
                           sp_max_timeout := sp_max_timeout p |}.
Proof. exact PortP.C20_constructors_succeed. Qed.
Print Assumptions C20_constructors_succeed.
