(* C03 — the frame decoder is total and strict, reports errors with a fixed precedence, and
   agrees with the independent declarative description of the wire language. *)
From Flipdot Require Import Tactics Base Hex Frame WireSpec FrameP FrameClassP.
Local Open Scope N_scope.

(* ":02000201031FD9" *)
Example doc_frame_decode :
  decode [58; 48;50; 48;48; 48;50; 48;49; 48;51; 49;70; 68;57]
  = Ok {| f_addr := 2; f_type := 1; f_data := [3; 31] |}.
Proof. vm_compute. reflexivity. Qed.

(* ":02000201031fd9\r\n": lower-case digits and the optional terminator are accepted. *)
Example doc_frame_decode_lower_crlf :
  decode [58; 48;50; 48;48; 48;50; 48;49; 48;51; 49;102; 100;57; 13; 10]
  = Ok {| f_addr := 2; f_type := 1; f_data := [3; 31] |}.
Proof. vm_compute. reflexivity. Qed.

(* ":03000201031FD9": declared length 3, two data bytes. *)
Example mismatch_example :
  decode [58; 48;51; 48;48; 48;50; 48;49; 48;51; 49;70; 68;57] = Err (DataMismatch 3 2).
Proof. vm_compute. reflexivity. Qed.

(* ":03000201031F00": the length mismatch is reported although the checksum is wrong too. *)
Example mismatch_precedence_example :
  decode [58; 48;51; 48;48; 48;50; 48;49; 48;51; 49;70; 48;48] = Err (DataMismatch 3 2).
Proof. vm_compute. reflexivity. Qed.

(* ":02000201031FDA": provided checksum DA, computed D9. *)
Example badck_example :
  decode [58; 48;50; 48;48; 48;50; 48;49; 48;51; 49;70; 68;65] = Err (BadChecksum 218 217).
Proof. vm_compute. reflexivity. Qed.

(* Two terminators, a missing colon, an odd digit count, a non-digit, a too short body, and a
   character code above 255 are all InvalidFrame. *)
Example invalid_examples :
  decode [58; 48;50; 48;48; 48;50; 48;49; 48;51; 49;70; 68;57; 13;10; 13;10] = Err InvalidFrame
  /\ decode [48;50; 48;48; 48;50; 48;49; 48;51; 49;70; 68;57] = Err InvalidFrame
  /\ decode [58; 48;50; 48;48; 48;50; 48;49; 48;51; 49;70; 68;57; 48] = Err InvalidFrame
  /\ decode [58; 48;50; 48;48; 48;50; 48;49; 48;51; 49;71; 68;57] = Err InvalidFrame
  /\ decode [58; 48;48; 48;48; 48;48; 48;48] = Err InvalidFrame
  /\ decode [58; 48;50; 48;48; 48;50; 48;49; 48;51; 49;70; 68;313] = Err InvalidFrame
  /\ decode [] = Err InvalidFrame.
Proof. vm_compute. auto 10. Qed.

(* The empty-data frame ":0000000000" is the shortest accepted string. *)
Example shortest_frame :
  decode [58; 48;48; 48;48; 48;48; 48;48; 48;48] = Ok {| f_addr := 0; f_type := 0; f_data := [] |}.
Proof. vm_compute. reflexivity. Qed.

Example wft_example :
  WellFormedText [58; 48;51; 48;48; 48;50; 48;49; 48;51; 49;70; 68;57; 13; 10] [3; 0; 2; 1; 3; 31; 217].
Proof.
  exists [48;51; 48;48; 48;50; 48;49; 48;51; 49;70; 68;57], [13; 10].
  vm_compute. intuition discriminate.
Qed.

Theorem C03_total :
  forall s, decode s <> Err FPanic /\ (forall n, decode s <> Err (DataTooLong n)).
Proof. exact FrameP.C03_total. Qed.
Print Assumptions C03_total.

Theorem C03_accept_iff : forall s f, decode s = Ok f <-> Documented s f.
Proof. exact FrameP.C03_accept_iff. Qed.
Print Assumptions C03_accept_iff.

Theorem C03_wf_out : forall s f, decode s = Ok f -> wf_frame f.
Proof. exact FrameP.C03_wf_out. Qed.
Print Assumptions C03_wf_out.

Theorem C03_invalid :
  forall s, decode s = Err InvalidFrame <-> ~ exists bs, WellFormedText s bs.
Proof. exact FrameP.C03_invalid. Qed.
Print Assumptions C03_invalid.

Theorem C03_mismatch :
  forall s e a,
  decode s = Err (DataMismatch e a) <->
  exists bs, WellFormedText s bs /\ hd 0 bs = e /\ a = nlen bs - 5 /\ e <> a.
Proof. exact FrameP.C03_mismatch. Qed.
Print Assumptions C03_mismatch.

Theorem C03_badck :
  forall s e a,
  decode s = Err (BadChecksum e a) <->
  exists bs, WellFormedText s bs /\ hd 0 bs = nlen bs - 5 /\ e = last bs 0
             /\ a = checksum (removelast bs) /\ e <> a.
Proof. exact FrameP.C03_badck. Qed.
Print Assumptions C03_badck.

Theorem C03_wft_unique :
  forall s bs bs', WellFormedText s bs -> WellFormedText s bs' -> bs = bs'.
Proof. exact FrameP.C03_wft_unique. Qed.
Print Assumptions C03_wft_unique.

Theorem C03_reencode :
  forall s f, decode s = Ok f ->
  encode f = 58 :: map upper (strip_crlf (tl s))
  /\ (s = 58 :: strip_crlf (tl s) \/ s = 58 :: strip_crlf (tl s) ++ [13; 10]).
Proof. exact FrameP.C03_reencode. Qed.
Print Assumptions C03_reencode.

(* Every byte string falls in exactly the documented classes: accepted, malformed text, length
   mismatch, bad checksum (nothing else is ever returned). *)
Theorem C03_classes :
  forall s,
  (exists f, decode s = Ok f) \/ decode s = Err InvalidFrame
  \/ (exists e a, decode s = Err (DataMismatch e a))
  \/ (exists e a, decode s = Err (BadChecksum e a)).
Proof. exact FrameClassP.decode_classes. Qed.
Print Assumptions C03_classes.

(* Precedence as a function of the byte values the text spells: the length field decides
   first, the checksum second, and when both are right the string is accepted. *)
Theorem C03_precedence :
  forall s bs,
  WellFormedText s bs ->
  (hd 0 bs <> nlen bs - 5 -> decode s = Err (DataMismatch (hd 0 bs) (nlen bs - 5)))
  /\ (hd 0 bs = nlen bs - 5 -> last bs 0 <> checksum (removelast bs) ->
      decode s = Err (BadChecksum (last bs 0) (checksum (removelast bs))))
  /\ (hd 0 bs = nlen bs - 5 -> last bs 0 = checksum (removelast bs) ->
      exists f, decode s = Ok f).
Proof. exact FrameClassP.decode_precedence. Qed.
Print Assumptions C03_precedence.
