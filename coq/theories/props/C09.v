(* C09 — data transfers (send_data) are complete, ordered, correctly offset and counted, for every
   reply script.  Model: transfer/attempt/send_items/send_chunks/chunks16 of model/Controller.v.
   [attempt_msgs a op items] (proofs/ControllerP.v) is the intended message sequence of ONE
   attempt:  RequestOperation, the SendData of every 16-byte chunk of every item (offsets restart
   at 0 per item), DataChunksSent count, QueryState.
   [total_chunks items < 65536] is the u16 chunk counter guard (beyond it the Rust panics in the
   debug profile: the model's Crash). *)
From Flipdot Require Import Tactics.
From Flipdot Require Import Base Message Page SignType VSign Controller ProtoSpec ControllerP SourceP WeaveP.
Local Open Scope N_scope.

(* --- examples: the definitions compute what one expects, the hypotheses are satisfiable --- *)
Example C09_ex_chunks :
  chunks16 (map N.of_nat (seq 0 35))
  = [map N.of_nat (seq 0 16); map N.of_nat (seq 16 16); [32; 33; 34]]
  /\ chunk_msgs (map N.of_nat (seq 0 35))
     = [SendData 0 (map N.of_nat (seq 0 16)); SendData 16 (map N.of_nat (seq 16 16));
        SendData 32 [32; 33; 34]]
  /\ total_chunks [map N.of_nat (seq 0 35); [7]] = 4
  /\ total_chunks [map N.of_nat (seq 0 35); [7]] < 65536.
Proof. repeat split; vm_compute; reflexivity. Qed.

(* failure report, second attempt cut short by the end of the script: t1 complete, t2 a prefix *)
Example C09_ex_trace :
  run_script (transfer 1 ReceiveConfig [st_to_bytes Max3000Side90x7] ConfigReceived ConfigFailed)
    [Rep (Some (AckOperation 1 ReceiveConfig)); Rep None; Rep None;
     Rep (Some (ReportState 1 ConfigFailed)); Rep (Some (AckOperation 1 ReceiveConfig)); Rep None]
  = (attempt_msgs 1 ReceiveConfig [st_to_bytes Max3000Side90x7]
     ++ [RequestOperation 1 ReceiveConfig; SendData 0 (st_to_bytes Max3000Side90x7);
         DataChunksSent 1],
     Blocked).
Proof. vm_compute. reflexivity. Qed.

(* --- chunking --- *)
Theorem C09_chunks : forall b,
  concat (chunks16 b) = b
  /\ Forall (fun c => (1 <= length c <= 16)%nat) (chunks16 b)
  /\ (forall i c, nth_error (chunks16 b) i = Some c ->
        nth_error (chunk_msgs b) i = Some (SendData ((16 * N.of_nat i) mod 65536) c)).
Proof. exact C09_chunks_lemma. Qed.
Print Assumptions C09_chunks.

(* ceil(n/16) chunks; all but the last are full; the last holds the remainder; the i-th chunk is
   bytes 16i .. 16i+15 of the item *)
Theorem C09_chunk_sizes : forall b,
  length (chunks16 b) = ((length b + 15) / 16)%nat
  /\ (forall i c, nth_error (chunks16 b) i = Some c -> (S i < length (chunks16 b))%nat ->
        length c = 16%nat)
  /\ (forall i c, nth_error (chunks16 b) i = Some c -> (S i = length (chunks16 b))%nat ->
        length c = (length b - 16 * i)%nat)
  /\ (forall i c, nth_error (chunks16 b) i = Some c -> c = firstn 16 (skipn (16 * i) b)).
Proof. exact C09_chunk_sizes_lemma. Qed.
Print Assumptions C09_chunk_sizes.

(* offsets are exactly 0, 16, 32, ... (no u16 wrap) for items of at most 65536 bytes *)
Theorem C09_offsets_nowrap : forall b i,
  nlen b <= 65536 -> (i < length (chunks16 b))%nat ->
  (16 * N.of_nat i) mod 65536 = 16 * N.of_nat i.
Proof. exact C09_offsets_nowrap_lemma. Qed.
Print Assumptions C09_offsets_nowrap.

(* --- the trace of a transfer, for every script --- *)
Theorem C09_trace_shape : forall a op items success failure script,
  total_chunks items < 65536 ->
  exists ts,
    fst (run_script (transfer a op items success failure) script) = concat ts
    /\ (1 <= length ts <= 3)%nat
    /\ Forall (fun t => t <> [] /\ exists rest, attempt_msgs a op items = t ++ rest) ts
    /\ Forall (fun t => t = attempt_msgs a op items) (removelast ts).
Proof. exact C09_trace_shape_lemma. Qed.
Print Assumptions C09_trace_shape.

(* Nothing (in particular no SendData) follows a request unless the reply read for that very
   request was the own acknowledgement of the same operation. *)
Theorem C09_ack_before_data : forall a op items success failure script tr o i,
  total_chunks items < 65536 ->
  run_script (transfer a op items success failure) script = (tr, o) ->
  nth_error tr i = Some (RequestOperation a op) -> (S i < length tr)%nat ->
  nth_error script i = Some (Rep (Some (AckOperation a op))).
Proof. exact C09_ack_before_data_lemma. Qed.
Print Assumptions C09_ack_before_data.

(* In any prefix of an attempt: the count is preceded by the request and ALL data messages;
   a query is the last message of a complete attempt. *)
Theorem C09_prefix_order : forall a op items t rest,
  attempt_msgs a op items = t ++ rest ->
  (forall j n, nth_error t j = Some (DataChunksSent n) ->
     firstn j t = RequestOperation a op :: concat (map chunk_msgs items))
  /\ (forall j a', nth_error t j = Some (QueryState a') ->
     t = attempt_msgs a op items /\ S j = length t).
Proof. exact C09_prefix_order_lemma. Qed.
Print Assumptions C09_prefix_order.

(* the count sent is the number of SendData messages of the attempt, and is not truncated *)
Theorem C09_count : forall a op items n,
  In (DataChunksSent n) (attempt_msgs a op items) ->
  n = N.of_nat (length (filter is_send_data (attempt_msgs a op items)))
  /\ n = total_chunks items
  /\ (total_chunks items < 65536 -> n mod 65536 = n).
Proof. exact C09_count_lemma. Qed.
Print Assumptions C09_count.

(* configure sends exactly the 16-byte block of the controller's sign type, as one chunk at 0 *)
Theorem C09_config_block : forall a t,
  configure a t = (ensure_unconfigured a ;;;
                   transfer a ReceiveConfig [st_to_bytes t] ConfigReceived ConfigFailed)
  /\ length (st_to_bytes t) = 16%nat
  /\ chunk_msgs (st_to_bytes t) = [SendData 0 (st_to_bytes t)]
  /\ attempt_msgs a ReceiveConfig [st_to_bytes t]
     = [RequestOperation a ReceiveConfig; SendData 0 (st_to_bytes t); DataChunksSent 1;
        QueryState a]
  /\ total_chunks [st_to_bytes t] = 1.
Proof. exact C09_config_block_lemma. Qed.
Print Assumptions C09_config_block.

(* send_pages transfers the byte blocks of the pages, in order *)
Theorem C09_send_pages_items : forall a pages script,
  send_pages a pages
  = (transfer a ReceivePixels (map p_bytes pages) PixelsReceived PixelsFailed ;;;
     expect (PixelsComplete a) None ;;;
     r <- send (QueryState a) ;;
     match r with
     | Some (ReportState a' ShowingPages) => if a' =? a then Ret Automatic else Ret Manual
     | _ => Ret Manual
     end)
  /\ exists more,
       fst (run_script (send_pages a pages) script)
       = fst (run_script (transfer a ReceivePixels (map p_bytes pages) PixelsReceived
                                   PixelsFailed) script) ++ more
       /\ ((forall x, snd (run_script (transfer a ReceivePixels (map p_bytes pages)
                                 PixelsReceived PixelsFailed) script) <> Done x) -> more = []).
Proof. exact C09_send_pages_items_lemma. Qed.
Print Assumptions C09_send_pages_items.

Theorem C09_crash_only_beyond_16bit : forall a op items success failure script,
  total_chunks items < 65536 ->
  snd (run_script (transfer a op items success failure) script) <> Crashed.
Proof. exact C09_crash_only_beyond_16bit_lemma. Qed.
Print Assumptions C09_crash_only_beyond_16bit.

(* --- page sources --- *)
(* send_pages takes an iterator.  The model of an iterator that itself talks on the bus before it yields each page is
   [send_pages_with] (model/Controller.v); one that holds no conversation is the plain list of pages: the two programs
   are bisimilar ([SourceP.peq]: the same sends in the same order, continuing alike), hence run alike on every script and
   on every bus. *)
Example C09_ex_source :
  run_script (send_pages_with 3 [([CopShutDown 7], page_new 1 2 8); ([], page_new 2 2 8)])
    [Rep (Some (AckOperation 3 ReceivePixels)); Rep None; Rep None; Rep None; Rep None;
     Rep (Some (ReportState 3 PixelsReceived)); Rep None; Rep (Some (ReportState 3 PageLoaded))]
  = ([RequestOperation 3 ReceivePixels; Goodbye 7; SendData 0 (p_bytes (page_new 1 2 8));
      SendData 0 (p_bytes (page_new 2 2 8)); DataChunksSent 2; QueryState 3; PixelsComplete 3; QueryState 3],
     Done Manual).
Proof. vm_compute. reflexivity. Qed.

Theorem C09_plain_source : forall a ps,
  SourceP.peq (send_pages_with a (map (fun p => ([], p)) ps)) (send_pages a ps)
  /\ (forall script, run_script (send_pages_with a (map (fun p => ([], p)) ps)) script
                     = run_script (send_pages a ps) script)
  /\ (forall b, run_bus (send_pages_with a (map (fun p => ([], p)) ps)) b = run_bus (send_pages a ps) b).
Proof.
  intros a ps. pose proof (SourceP.send_pages_with_plain a ps) as H.
  split; [exact H|]. split; [exact (SourceP.peq_run_script _ _ H) | exact (SourceP.peq_run_bus _ _ H)].
Qed.
Print Assumptions C09_plain_source.

(* A source whose conversations are for OTHER signs only ([WeaveP.fpre]: any number of programs that send addressed messages
   for other addresses, each under [catch]).  Whatever it says on the bus, what the call itself sends -- the trace without
   the messages for other signs, [own_part] -- is what send_pages over the plain list sends against the replies its own
   messages got ([own_script]), or a prefix of that when the run ended inside one of the source's conversations.  So the
   shape theorems above (C09_trace_shape, C09_ack_before_data, C09_prefix_order, C09_count), which hold of send_pages for
   every script, describe the own part of every such run. *)
Example C09_ex_own_part :
  let p := send_pages_with 3 [([CopShutDown 7], page_new 1 2 8); ([], page_new 2 2 8)] in
  let s := [Rep (Some (AckOperation 3 ReceivePixels)); Rep None; Rep None; Rep None; Rep None;
            Rep (Some (ReportState 3 PixelsReceived)); Rep None; Rep (Some (ReportState 3 PageLoaded))] in
  own_part 3 (fst (run_script p s))
  = fst (run_script (send_pages 3 [page_new 1 2 8; page_new 2 2 8]) (own_script 3 p s))
  /\ length (own_script 3 p s) = 7%nat.
Proof. vm_compute. split; reflexivity. Qed.

Theorem C09_own_part_of_talking_source : forall a src ps script,
  Forall (fun it => fpre a (fst it)) src -> map snd src = map p_bytes ps ->
  exists rest,
    fst (run_script (send_pages a ps) (own_script a (send_pages_gen a src) script))
    = own_part a (fst (run_script (send_pages_gen a src) script)) ++ rest.
Proof. exact send_pages_gen_own_part. Qed.
Print Assumptions C09_own_part_of_talking_source.

(* The general statement behind it, with the outcomes. *)
Theorem C09_weave_script : forall (A : Type) a (P Q : prog A),
  weave a P Q ->
  forall script,
    (own_part a (fst (run_script P script)) = fst (run_script Q (own_script a P script))
     /\ snd (run_script P script) = snd (run_script Q (own_script a P script)))
    \/ ((snd (run_script P script) = BusFailed \/ snd (run_script P script) = Blocked)
        /\ exists rest, fst (run_script Q (own_script a P script)) = own_part a (fst (run_script P script)) ++ rest).
Proof. exact @weave_script. Qed.
Print Assumptions C09_weave_script.
