(* C10 — for every possible sequence of replies the controller model (model/Controller.v) sends
   exactly the messages, and ends with exactly the outcome, that the protocol specification
   spec/ProtoSpec.v (written from the documentation of src/sign.rs) prescribes.
   [guard op] is the u16 chunk-counter guard (only send_pages can exceed it); [fuel] bounds the
   iterations of the model's polling loop and is irrelevant once it exceeds the script length
   (each iteration reads at least one reply). *)
From Flipdot Require Import Tactics.
From Flipdot Require Import Base Message Page SignType VSign Controller ProtoSpec ControllerP.
Local Open Scope N_scope.

(* --- the specification on some scripts (sign at address 3); the script fragments
   ex_attempt_ok / ex_failed / ex_received / ex_attempt_msgs are defined at the end of
   proofs/ControllerP.v --- *)
(* happy path: the sign is unconfigured, one attempt *)
Example C10_ex_happy :
  spec_run (OpConfigure 3 Max3000Side90x7)
    (Rep (Some (ReportState 3 Unconfigured)) :: ex_attempt_ok ++ [ex_received])
  = (Hello 3 :: ex_attempt_msgs, Done tt).
Proof. vm_compute. reflexivity. Qed.

(* full reset first, then two failure reports and a success: three attempts *)
Example C10_ex_three_attempts :
  spec_run (OpConfigure 3 Max3000Side90x7)
    ([Rep (Some (ReportState 3 PageShown)); Rep (Some (AckOperation 3 StartReset));
      Rep (Some (ReportState 3 ReadyToReset)); Rep (Some (AckOperation 3 FinishReset));
      Rep (Some (ReportState 3 Unconfigured))]
     ++ ex_attempt_ok ++ [ex_failed] ++ ex_attempt_ok ++ [ex_failed]
     ++ ex_attempt_ok ++ [ex_received])
  = ([Hello 3; RequestOperation 3 StartReset; Hello 3; RequestOperation 3 FinishReset; Hello 3]
     ++ ex_attempt_msgs ++ ex_attempt_msgs ++ ex_attempt_msgs, Done tt).
Proof. vm_compute. reflexivity. Qed.

(* three failure reports: protocol error after the third attempt, nothing more is sent *)
Example C10_ex_three_failures :
  spec_run (OpConfigure 3 Max3000Side90x7)
    (Rep (Some (ReportState 3 Unconfigured))
     :: ex_attempt_ok ++ [ex_failed] ++ ex_attempt_ok ++ [ex_failed]
     ++ ex_attempt_ok ++ [ex_failed; Rep None])
  = (Hello 3 :: ex_attempt_msgs ++ ex_attempt_msgs ++ ex_attempt_msgs, ProtoErr).
Proof. vm_compute. reflexivity. Qed.

(* an acknowledgement from another address is a protocol error *)
Example C10_ex_foreign_ack :
  spec_run (OpConfigure 3 Max3000Side90x7)
    [Rep (Some (ReportState 3 Unconfigured)); Rep (Some (AckOperation 4 ReceiveConfig)); Rep None]
  = ([Hello 3; RequestOperation 3 ReceiveConfig], ProtoErr).
Proof. vm_compute. reflexivity. Qed.

(* show_loaded_page: trigger, request, two polls in progress, target *)
Example C10_ex_show :
  spec_run (OpShowLoadedPage 3)
    [Rep (Some (ReportState 3 PageLoaded)); Rep (Some (AckOperation 3 ShowLoadedPage));
     Rep (Some (ReportState 3 PageShowInProgress)); Rep (Some (ReportState 3 PageShowInProgress));
     Rep (Some (ReportState 3 PageShown)); Rep None]
  = ([QueryState 3; RequestOperation 3 ShowLoadedPage; QueryState 3; QueryState 3; QueryState 3],
     Done tt).
Proof. vm_compute. reflexivity. Qed.

(* send_pages with one 8x8 page (16 bytes: one chunk); the guard holds *)
Example C10_ex_send_pages :
  spec_run (OpSendPages 3 [page_new 1 8 8])
    [Rep (Some (AckOperation 3 ReceivePixels)); Rep None; Rep None;
     Rep (Some (ReportState 3 PixelsReceived)); Rep None; Rep (Some (ReportState 3 PageLoaded))]
  = ([RequestOperation 3 ReceivePixels; SendData 0 (p_bytes (page_new 1 8 8)); DataChunksSent 1;
      QueryState 3; PixelsComplete 3; QueryState 3], Done Manual)
  /\ guard (OpSendPages 3 [page_new 1 8 8]).
Proof. split; vm_compute; reflexivity. Qed.

(* --- the theorem --- *)
Theorem C10_refines : forall op script fuel,
  guard op -> (length script < fuel)%nat ->
  run_script (model_of op fuel) script = spec_run op script.
Proof. exact C10_refines_lemma. Qed.
Print Assumptions C10_refines.

(* The guard of the specification is the chunk-counter guard of C09. *)
Theorem C10_guard : forall items, chunk_guard items <-> total_chunks items < 65536.
Proof. exact chunk_guard_total. Qed.
Print Assumptions C10_guard.

(* The specification never produces Crashed; so under the guard neither does the model. *)
Theorem C10_spec_no_crash : forall op script, snd (spec_run op script) <> Crashed.
Proof. exact C10_spec_no_crash_lemma. Qed.
Print Assumptions C10_spec_no_crash.

Theorem C10_model_no_crash : forall op script fuel,
  guard op -> (length script < fuel)%nat ->
  snd (run_script (model_of op fuel) script) <> Crashed.
Proof. exact C10_model_no_crash_lemma. Qed.
Print Assumptions C10_model_no_crash.

(* The fuel of the model's polling loop is irrelevant above the script length. *)
Theorem C10_fuel_irrelevant : forall f1 f2 a tg tr op script,
  (length script < f1)%nat -> (length script < f2)%nat ->
  run_script (switch_page f1 a tg tr op) script = run_script (switch_page f2 a tg tr op) script.
Proof. exact switch_fuel_irrelevant. Qed.
Print Assumptions C10_fuel_irrelevant.

(* ---------------------------------------------------------------------------------------- *)
(* Several calls on one Sign.  The Rust object keeps nothing between calls but its address, type and bus handle;
   [run_cops_script] (model/Controller.v) runs a list of calls, each on what the previous ones left of the script.
   That "what is left" is exactly the script minus one reply per message sent, and two calls in a row are the
   sequential composition of their programs -- so every per-call theorem above applies to each call of a sequence
   with the remaining script. *)

Theorem C10_call_leaves : forall A (p : prog A) script tr o,
  run_script p script = (tr, o) -> o <> Blocked ->
  run_script_rest p script = (tr, o, skipn (length tr) script)
  /\ (length tr <= length script)%nat.
Proof. exact @run_script_leaves. Qed.
Print Assumptions C10_call_leaves.

Theorem C10_two_calls : forall c1 c2 script tr1 v1,
  run_script (cop_prog c1) script = (tr1, Done v1) ->
  run_cops_script [c1; c2] script
  = [(tr1, Done v1); run_script (cop_prog c2) (skipn (length tr1) script)]
  /\ run_script (cop_prog c1 ;;; cop_prog c2) script
     = (let '(tr2, o2) := run_script (cop_prog c2) (skipn (length tr1) script) in (tr1 ++ tr2, o2)).
Proof. exact run_cops_two. Qed.
Print Assumptions C10_two_calls.

(* The same for sequences of any length: the i-th call of a sequence is that call's own program run on a suffix of the
   script (what the earlier calls left).  Every statement proved of a single call for EVERY script -- the protocol automaton
   above, the transfer shape of C09, the four invariants of C11 -- therefore holds of each call of any sequence of calls. *)
Theorem C10_each_call_of_a_sequence : forall cs script i c r,
  nth_error cs i = Some c ->
  nth_error (run_cops_script cs script) i = Some r ->
  exists k, (k <= length script)%nat /\ run_script (cop_prog c) (skipn k script) = r.
Proof. exact run_cops_script_each. Qed.
Print Assumptions C10_each_call_of_a_sequence.
