(* C07 — page bytes follow the native layout for every size. *)
From Flipdot Require Import Tactics.
From Flipdot Require Import Base Page Bitmap PageP.
Local Open Scope N_scope.

(* The hypotheses are satisfiable by non-trivial values. *)

(* A 9x7 page: bpc = 1, data_bytes = 13, total_bytes = 16 (3 padding bytes). *)
Example C07_ex_sizes : (bpc 7, data_bytes 9 7, total_bytes 9 7) = (1, 13, 16).
Proof. vm_compute. reflexivity. Qed.

Example C07_ex_new :
  p_bytes (page_new 3 9 7) = [3; 16; 0; 0; 0; 0; 0; 0; 0; 0; 0; 0; 0; 255; 255; 255]
  /\ wf_page (page_new 3 9 7).
Proof. vm_compute. split; reflexivity. Qed.

(* A wf page with non-trivial header bytes, pixel data and padding, built by from_bytes. *)
Example C07_ex_from_bytes :
  exists p, page_from_bytes 9 7 [7; 16; 1; 2; 1; 2; 3; 4; 5; 6; 7; 8; 127; 255; 0; 170] = Ok p
            /\ wf_page p /\ page_id p = Some 7
            /\ get_pixel p 8 6 = Some true /\ get_pixel p 0 0 = Some true
            /\ get_pixel p 0 1 = Some false /\ get_pixel p 9 0 = None.
Proof. eexists. split; [vm_compute; reflexivity|]. vm_compute. repeat split. Qed.

Example C07_ex_from_bytes_err :
  page_from_bytes 9 7 [1; 2; 3] = Err (WrongPageLength 9 7 16 3).
Proof. vm_compute. reflexivity. Qed.

(* Degenerate sizes are covered too: a 0x0 page is 16 bytes, all header/padding. *)
Example C07_ex_empty :
  p_bytes (page_new 1 0 0) = [1; 16; 0; 0; 255; 255; 255; 255; 255; 255; 255; 255; 255; 255; 255; 255]
  /\ wf_page (page_new 1 0 0).
Proof. vm_compute. split; reflexivity. Qed.

Theorem C07_new_bytes : forall id w h,
  p_bytes (page_new id w h)
  = [id;16;0;0] ++ repeatN 0 (w * bpc h) ++ repeatN 255 (total_bytes w h - data_bytes w h)
  /\ p_w (page_new id w h) = w /\ p_h (page_new id w h) = h.
Proof. exact page_new_bytes. Qed.
Print Assumptions C07_new_bytes.

Theorem C07_new_wf : forall id w h,
  id < 256 -> w < 4294967296 -> h < 4294967296 -> wf_page (page_new id w h).
Proof. exact page_new_wf. Qed.
Print Assumptions C07_new_wf.

Theorem C07_total_arith : forall w h,
  total_bytes w h mod 16 = 0 /\ data_bytes w h <= total_bytes w h
  /\ total_bytes w h < data_bytes w h + 16
  /\ (w < 4294967296 -> h < 4294967296 -> total_bytes w h < 4611686018427387904).
Proof. exact total_arith. Qed.
Print Assumptions C07_total_arith.

Theorem C07_pixel_location : forall p x y,
  wf_page p -> x < p_w p -> y < p_h p ->
  exists byte,
    nth_error (p_bytes p) (N.to_nat (4 + x * bpc (p_h p) + y / 8)) = Some byte
    /\ get_pixel p x y = Some (N.testbit byte (y mod 8))
    /\ 4 + x * bpc (p_h p) + y / 8 < data_bytes (p_w p) (p_h p).
Proof. exact pixel_location. Qed.
Print Assumptions C07_pixel_location.

Theorem C07_bits_distinct : forall p x y x' y',
  x < p_w p -> y < p_h p -> x' < p_w p -> y' < p_h p ->
  index p x y = index p x' y' -> x = x' /\ y = y'.
Proof. exact index_inj. Qed.
Print Assumptions C07_bits_distinct.

Theorem C07_from_bytes_iff :
  (forall w h bs, (exists p, page_from_bytes w h bs = Ok p) <-> nlen bs = total_bytes w h)
  /\ (forall w h bs, nlen bs <> total_bytes w h ->
        page_from_bytes w h bs = Err (WrongPageLength w h (total_bytes w h) (nlen bs))).
Proof. exact from_bytes_iff_err. Qed.
Print Assumptions C07_from_bytes_iff.

Theorem C07_from_bytes_exposes : forall w h bs p,
  page_from_bytes w h bs = Ok p -> p_bytes p = bs /\ p_w p = w /\ p_h p = h.
Proof. exact from_bytes_exposes. Qed.
Print Assumptions C07_from_bytes_exposes.

Theorem C07_from_as_bytes : forall p,
  wf_page p -> page_from_bytes (p_w p) (p_h p) (p_bytes p) = Ok p.
Proof. exact from_as_bytes. Qed.
Print Assumptions C07_from_as_bytes.

Theorem C07_new_blank :
  (forall id w h x y, id < 256 -> w < 4294967296 -> h < 4294967296 -> x < w -> y < h ->
     get_pixel (page_new id w h) x y = Some false)
  /\ (forall id w h, page_id (page_new id w h) = Some id).
Proof. exact new_blank_id. Qed.
Print Assumptions C07_new_blank.
