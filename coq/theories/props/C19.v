(* C19 — sign-type configuration blocks are self-consistent; decoding is total and exact. *)
From Flipdot Require Import Tactics.
From Flipdot Require Import Message Page SignType VSign SignTypeP.
Local Open Scope N_scope.

(* The hypotheses below are satisfiable by non-trivial values. *)
Example C19_ex_max3000 :
  dimensions Max3000Side90x7 = (90, 7) /\ nth 0 (st_to_bytes Max3000Side90x7) 0 = 4.
Proof. split; reflexivity. Qed.
Example C19_ex_horizon :
  dimensions HorizonFront140x16 = (140, 16) /\ nth 0 (st_to_bytes HorizonFront140x16) 0 = 8.
Proof. split; reflexivity. Qed.
Example C19_ex_unknown :
  st_from_bytes (4 :: 72 :: repeat 0 14) = Err UnknownConfig
  /\ st_from_bytes (4 :: 71 :: repeat 9 14) = Ok Max3000Front112x16
  /\ st_from_bytes [4; 71] = Err (WrongConfigLength 16 2).
Proof. repeat split; reflexivity. Qed.
Example C19_ex_step :
  v_state (set_state (vinit 3 Automatic) ConfigInProgress) = ConfigInProgress.
Proof. reflexivity. Qed.

Theorem C19_len16 :
  forall t, length (st_to_bytes t) = 16%nat /\ (forall b, In b (st_to_bytes t) -> b < 256).
Proof. exact st_len16. Qed.
Print Assumptions C19_len16.

Theorem C19_roundtrip : forall t, st_from_bytes (st_to_bytes t) = Ok t.
Proof. exact st_roundtrip. Qed.
Print Assumptions C19_roundtrip.

Theorem C19_fields_max3000 :
  forall t w h,
    dimensions t = (w, h) ->
    nth 0 (st_to_bytes t) 0 = 4 ->
    nth 4 (st_to_bytes t) 0 = h
    /\ nth 5 (st_to_bytes t) 0 + nth 6 (st_to_bytes t) 0
       + nth 7 (st_to_bytes t) 0 + nth 8 (st_to_bytes t) 0 = w
    /\ nth 9 (st_to_bytes t) 0 = 8 * bpc h.
Proof. exact st_fields_max3000. Qed.
Print Assumptions C19_fields_max3000.

Theorem C19_fields_horizon :
  forall t w h,
    dimensions t = (w, h) ->
    nth 0 (st_to_bytes t) 0 = 8 ->
    nth 5 (st_to_bytes t) 0 = h
    /\ nth 7 (st_to_bytes t) 0 = w
    /\ nth 8 (st_to_bytes t) 0 * nth 10 (st_to_bytes t) 0
       + nth 9 (st_to_bytes t) 0 * nth 11 (st_to_bytes t) 0 = w.
Proof. exact st_fields_horizon. Qed.
Print Assumptions C19_fields_horizon.

Theorem C19_family :
  forall t, nth 0 (st_to_bytes t) 0 = 4 \/ nth 0 (st_to_bytes t) 0 = 8.
Proof. exact st_family. Qed.
Print Assumptions C19_family.

Theorem C19_all_sign_types_complete : forall t, In t all_sign_types.
Proof. exact all_sign_types_complete. Qed.
Print Assumptions C19_all_sign_types_complete.

Theorem C19_vsign_derives :
  forall t,
    config_size (st_to_bytes t) = Some (Some (dimensions t))
    /\ recorded_type (st_to_bytes t) (fst (dimensions t)) (snd (dimensions t)) = Some t.
Proof. exact vsign_derives. Qed.
Print Assumptions C19_vsign_derives.

Theorem C19_vsign_step_derives :
  forall s t,
    v_state s = ConfigInProgress ->
    exists s', vstep s (SendData 0 (st_to_bytes t)) = Some (s', None)
               /\ (v_w s', v_h s') = dimensions t
               /\ v_type s' = Some t
               /\ v_state s' = ConfigInProgress.
Proof. exact vsign_step_derives. Qed.
Print Assumptions C19_vsign_step_derives.

(* --- the decoder on arbitrary byte lists (any length, any values) --- *)

Theorem C19_decode_total : forall bs, st_from_bytes bs <> Err STPanic.
Proof. exact st_decode_total. Qed.
Print Assumptions C19_decode_total.

Theorem C19_len_rejected :
  forall bs, length bs <> 16%nat -> st_from_bytes bs = Err (WrongConfigLength 16 (nlen bs)).
Proof. exact st_len_rejected. Qed.
Print Assumptions C19_len_rejected.

Theorem C19_accept_iff :
  forall bs t,
    st_from_bytes bs = Ok t
    <-> length bs = 16%nat /\ firstn 2 bs = firstn 2 (st_to_bytes t).
Proof. exact st_accept_iff. Qed.
Print Assumptions C19_accept_iff.

Theorem C19_unknown :
  forall bs,
    length bs = 16%nat ->
    (forall t, firstn 2 bs <> firstn 2 (st_to_bytes t)) ->
    st_from_bytes bs = Err UnknownConfig.
Proof. exact st_unknown. Qed.
Print Assumptions C19_unknown.

Theorem C19_keys_distinct :
  forall t1 t2, firstn 2 (st_to_bytes t1) = firstn 2 (st_to_bytes t2) -> t1 = t2.
Proof. exact st_keys_distinct. Qed.
Print Assumptions C19_keys_distinct.
