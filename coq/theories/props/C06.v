(* C06 — pixel operations change exactly the addressed pixel and nothing else. *)
From Flipdot Require Import Tactics.
From Flipdot Require Import Base Page Bitmap PageP.
Local Open Scope N_scope.

(* The hypotheses are satisfiable by non-trivial values. *)

(* A 9x7 page: set (8,6); get (8,6) = Some true; a neighbour stays false; (9,0) is out of
   bounds and panics. *)
Example C06_ex_set_get :
  wf_page (page_new 3 9 7)
  /\ option_map (fun p' => (get_pixel p' 8 6, get_pixel p' 8 5, get_pixel p' 9 0, p_bytes p'))
                (set_pixel (page_new 3 9 7) 8 6 true)
     = Some (Some true, Some false, None,
             [3; 16; 0; 0; 0; 0; 0; 0; 0; 0; 0; 0; 64; 255; 255; 255]).
Proof. vm_compute. split; reflexivity. Qed.

Example C06_ex_oob : set_pixel (page_new 3 9 7) 9 0 true = None
                     /\ set_pixel (page_new 3 9 7) 0 7 true = None.
Proof. vm_compute. split; reflexivity. Qed.

(* A wf page with non-trivial header and padding (built by from_bytes), run through a mixed
   list of operations including an out-of-bounds set: header and padding survive. *)
Example C06_ex_ops :
  exists p, page_from_bytes 9 7 [7; 16; 1; 2; 1; 2; 3; 4; 5; 6; 7; 8; 127; 255; 0; 170] = Ok p
            /\ wf_page p
            /\ p_bytes (fold_left page_apply
                          [PSet 0 0 false; PAll true; PSet 9 0 false; PSet 8 6 false; PSet 1 2 false] p)
               = [7; 16; 1; 2; 255; 251; 255; 255; 255; 255; 255; 255; 191; 255; 0; 170].
Proof. eexists. split; [vm_compute; reflexivity|]. vm_compute. split; reflexivity. Qed.

Theorem C06_set_ok : forall p x y v,
  wf_page p -> x < p_w p -> y < p_h p ->
  exists p', set_pixel p x y v = Some p' /\ wf_page p' /\ get_pixel p' x y = Some v.
Proof. exact set_ok. Qed.
Print Assumptions C06_set_ok.

Theorem C06_get_set_other : forall p p' x y v x' y',
  wf_page p -> set_pixel p x y v = Some p' -> (x', y') <> (x, y) ->
  get_pixel p' x' y' = get_pixel p x' y'.
Proof. exact set_pixel_get_other. Qed.
Print Assumptions C06_get_set_other.

Theorem C06_set_frame : forall p p' x y v,
  wf_page p -> set_pixel p x y v = Some p' ->
  same_frame p p' /\ page_id p' = page_id p
  /\ (forall i, i <> N.to_nat (4 + x * bpc (p_h p) + y / 8) ->
        nth_error (p_bytes p') i = nth_error (p_bytes p) i).
Proof. exact set_pixel_frame. Qed.
Print Assumptions C06_set_frame.

(* Setting a pixel to the value it already has leaves the page exactly as it was (every byte, the size): a redundant edit is
   no edit. *)
Theorem C06_set_redundant : forall p x y v,
  wf_page p -> get_pixel p x y = Some v -> set_pixel p x y v = Some p.
Proof. exact PageP.set_pixel_redundant. Qed.
Print Assumptions C06_set_redundant.

(* Byte by byte: for every index i, byte i of the page after set_pixel is what set_pixel_byte_view computes from byte i
   before it, and the panic cases coincide -- the form in which pages of several GiB are compared with the code. *)
Theorem C06_byte_view : forall p x y v i,
  wf_page p ->
  set_pixel_byte_view (p_w p) (p_h p) x y v i (nth_error (p_bytes p) (N.to_nat i))
  = option_map (fun p' => nth_error (p_bytes p') (N.to_nat i)) (set_pixel p x y v).
Proof. exact PageP.set_pixel_byte_view_spec. Qed.
Print Assumptions C06_byte_view.

Theorem C06_zero_page_view : forall w h i,
  w < 4294967296 -> h < 4294967296 ->
  wf_page {| p_w := w; p_h := h; p_bytes := repeatN 0 (total_bytes w h) |}
  /\ nth_error (repeatN 0 (total_bytes w h)) (N.to_nat i) = zero_bytes_view w h i.
Proof. intros w h i Hw Hh. split; [exact (PageP.zero_page_wf w h Hw Hh) | exact (PageP.zero_bytes_view_spec w h i)]. Qed.
Print Assumptions C06_zero_page_view.

Theorem C06_set_all : forall p v,
  wf_page p ->
  exists p', set_all_pixels p v = Some p' /\ wf_page p' /\ same_frame p p'
             /\ page_id p' = page_id p
             /\ (forall x y, x < p_w p -> y < p_h p -> get_pixel p' x y = Some v).
Proof. exact set_all_pixels_spec. Qed.
Print Assumptions C06_set_all.

Theorem C06_oob_panics_iff :
  (forall p x y, wf_page p -> (get_pixel p x y = None <-> (p_w p <= x \/ p_h p <= y)))
  /\ (forall p x y v, wf_page p -> (set_pixel p x y v = None <-> (p_w p <= x \/ p_h p <= y))).
Proof. exact oob_panics_iff. Qed.
Print Assumptions C06_oob_panics_iff.

Theorem C06_refines_bitmap : forall ops p,
  wf_page p ->
  let p' := fold_left page_apply ops p in
  wf_page p' /\ same_frame p p' /\ page_id p' = page_id p
  /\ (forall x y, x < p_w p -> y < p_h p ->
        get_pixel p' x y = Some (fold_left (bm_apply (p_w p) (p_h p)) ops (abs_page p) x y)).
Proof. exact refines_bitmap. Qed.
Print Assumptions C06_refines_bitmap.
