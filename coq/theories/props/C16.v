(* C16 — SerialSignBus::process_message writes exactly one frame (the message's, with CR LF) and
   reads exactly one line exactly when the message expects a reply; a missing reply is never
   invented and an error is never turned into "no reply". *)
From Flipdot Require Import Tactics Base Hex Frame Message Io Serial FrameP IoP SerialP.
Local Open Scope N_scope.

(* ":01000304 13 E5\r\n": ReportState(3, PageLoadInProgress) *)
Example reply_bytes : list N := encode_nl (frame_of_msg (ReportState 3 PageLoadInProgress)).

Example hello_exchange :
  serial_process (Hello 3)
    {| pt_in := {| r_content := reply_bytes ++ [58; 48]; r_sched := [RIntr; RData 3; RIntr] |};
       pt_out := {| w_out := [7]; w_sched := [WAccept 2; WIntr; WAccept 0] |} |}
  = Some (Ok (Some (ReportState 3 PageLoadInProgress)),
          {| pt_in := {| r_content := [58; 48]; r_sched := [] |};
             pt_out := {| w_out := [7] ++ encode_nl (frame_of_msg (Hello 3)); w_sched := [] |} |},
          [EvWrite (encode_nl (frame_of_msg (Hello 3))); EvRead reply_bytes; EvSleep 100]).
Proof. vm_compute. reflexivity. Qed.

(* A data chunk: no read at all, although input (and even a scheduled failure) is waiting. *)
Example send_data_no_read :
  serial_process (SendData 0 [1; 2; 3])
    {| pt_in := {| r_content := reply_bytes; r_sched := [RIntr; RFail] |};
       pt_out := {| w_out := []; w_sched := [WAccept 2; WIntr] |} |}
  = Some (Ok None,
          {| pt_in := {| r_content := reply_bytes; r_sched := [RIntr; RFail] |};
             pt_out := {| w_out := encode_nl (frame_of_msg (SendData 0 [1; 2; 3])); w_sched := [] |} |},
          [EvWrite (encode_nl (frame_of_msg (SendData 0 [1; 2; 3]))); EvSleep 30]).
Proof. vm_compute. reflexivity. Qed.

(* Nothing arrives: an error, not "no reply". *)
Example query_no_answer :
  serial_process (QueryState 3)
    {| pt_in := {| r_content := []; r_sched := [] |}; pt_out := {| w_out := []; w_sched := [] |} |}
  = Some (Err (RFrame InvalidFrame),
          {| pt_in := {| r_content := []; r_sched := [] |};
             pt_out := {| w_out := encode_nl (frame_of_msg (QueryState 3)); w_sched := [] |} |},
          [EvWrite (encode_nl (frame_of_msg (QueryState 3))); EvRead []]).
Proof. vm_compute. reflexivity. Qed.

(* The sink gives up after 4 bytes: Err(Io), no read. *)
Example query_write_fails :
  serial_process (QueryState 3)
    {| pt_in := {| r_content := reply_bytes; r_sched := [] |};
       pt_out := {| w_out := []; w_sched := [WAccept 3; WZero] |} |}
  = Some (Err RIo,
          {| pt_in := {| r_content := reply_bytes; r_sched := [] |};
             pt_out := {| w_out := [58; 48; 49; 48]; w_sched := [] |} |},
          [EvWrite [58; 48; 49; 48]]).
Proof. vm_compute. reflexivity. Qed.

(* The port fails after two reply bytes. *)
Example query_read_fails :
  serial_process (QueryState 3)
    {| pt_in := {| r_content := reply_bytes; r_sched := [RData 0; RData 0; RFail] |};
       pt_out := {| w_out := []; w_sched := [] |} |}
  = Some (Err RIo,
          {| pt_in := {| r_content := skipn 2 reply_bytes; r_sched := [] |};
             pt_out := {| w_out := encode_nl (frame_of_msg (QueryState 3)); w_sched := [] |} |},
          [EvWrite (encode_nl (frame_of_msg (QueryState 3))); EvRead [58; 48]]).
Proof. vm_compute. reflexivity. Qed.

Theorem C16_total : forall m p, serial_process m p <> None.
Proof. exact SerialP.C16_total. Qed.
Print Assumptions C16_total.

Theorem C16_response_expected_iff :
  forall m,
  response_expected m = true <->
  (exists a, m = Hello a) \/ (exists a, m = QueryState a) \/ (exists a o, m = RequestOperation a o).
Proof. exact SerialP.response_expected_iff. Qed.
Print Assumptions C16_response_expected_iff.

(* Exactly one write; [write_events evs] lists the byte strings of the EvWrite events of [evs]. *)
Theorem C16_written :
  forall m p res p' evs, serial_process m p = Some (res, p', evs) ->
  (exists k, w_out (pt_out p') = w_out (pt_out p) ++ firstn k (encode_nl (frame_of_msg m)))
  /\ write_events evs = [delivered (pt_out p) (pt_out p')]
  /\ ((forall ev, In ev (w_sched (pt_out p)) -> ev <> WFail /\ ev <> WZero) ->
      w_out (pt_out p') = w_out (pt_out p) ++ encode_nl (frame_of_msg m))
  /\ ((forall x, res = Ok x -> w_out (pt_out p') = w_out (pt_out p) ++ encode_nl (frame_of_msg m))
      /\ (forall e, res = Err (RFrame e) ->
          w_out (pt_out p') = w_out (pt_out p) ++ encode_nl (frame_of_msg m))).
Proof. exact SerialP.C16_written. Qed.
Print Assumptions C16_written.

(* [read_events evs] lists the byte strings of the EvRead events of [evs]. *)
Theorem C16_read_iff :
  forall m p res p' evs, serial_process m p = Some (res, p', evs) ->
  (response_expected m = false -> pt_in p' = pt_in p /\ read_events evs = [])
  /\ (w_out (pt_out p') <> w_out (pt_out p) ++ encode_nl (frame_of_msg m) ->
      pt_in p' = pt_in p /\ read_events evs = [])
  /\ (response_expected m = true ->
      w_out (pt_out p') = w_out (pt_out p) ++ encode_nl (frame_of_msg m) ->
      read_events evs = [consumed (pt_in p) (pt_in p')]
      /\ (exists k, (k <= length (fst (first_line (r_content (pt_in p)))))%nat
                    /\ r_content (pt_in p') = skipn k (r_content (pt_in p)))
      /\ (~ In RFail (r_sched (pt_in p)) ->
          r_content (pt_in p') = snd (first_line (r_content (pt_in p)))
          /\ consumed (pt_in p) (pt_in p') = fst (first_line (r_content (pt_in p))))
      /\ (res <> Err RIo ->
          r_content (pt_in p') = snd (first_line (r_content (pt_in p)))
          /\ consumed (pt_in p) (pt_in p') = fst (first_line (r_content (pt_in p))))).
Proof. exact SerialP.C16_read_iff. Qed.
Print Assumptions C16_read_iff.

Theorem C16_read_events_In :
  forall c evs, In (EvRead c) evs <-> In c (read_events evs).
Proof. exact SerialP.read_events_In. Qed.
Print Assumptions C16_read_events_In.

Theorem C16_reply :
  forall m p,
  (forall ev, In ev (w_sched (pt_out p)) -> ev <> WFail /\ ev <> WZero) ->
  (response_expected m = false ->
   exists p' evs, serial_process m p = Some (Ok None, p', evs))
  /\ (response_expected m = true -> ~ In RFail (r_sched (pt_in p)) ->
      exists p' evs,
        serial_process m p
        = Some (match decode (fst (first_line (r_content (pt_in p)))) with
                | Ok f => Ok (Some (msg_of_frame f))
                | Err e => Err (RFrame e)
                end, p', evs)).
Proof. exact SerialP.C16_reply. Qed.
Print Assumptions C16_reply.

Theorem C16_errors :
  forall m p res p' evs, serial_process m p = Some (res, p', evs) ->
  (res = Ok None -> response_expected m = false)
  /\ (forall reply, res = Ok (Some reply) ->
      response_expected m = true
      /\ consumed (pt_in p) (pt_in p') = fst (first_line (r_content (pt_in p)))
      /\ exists f, decode (consumed (pt_in p) (pt_in p')) = Ok f /\ reply = msg_of_frame f)
  /\ (forall e, res = Err (RFrame e) ->
      response_expected m = true
      /\ consumed (pt_in p) (pt_in p') = fst (first_line (r_content (pt_in p)))
      /\ decode (consumed (pt_in p) (pt_in p')) = Err e)
  /\ (res = Err RIo ->
      (In WFail (w_sched (pt_out p)) \/ In WZero (w_sched (pt_out p)))
      \/ (response_expected m = true /\ In RFail (r_sched (pt_in p)))).
Proof. exact SerialP.C16_errors. Qed.
Print Assumptions C16_errors.

Theorem C16_write_fault :
  forall m r out pre bad post,
  (forall ev, In ev pre -> ev <> WFail /\ ev <> WZero) ->
  bad = WFail \/ bad = WZero ->
  capacity pre < nlen (encode_nl (frame_of_msg m)) ->
  serial_process m {| pt_in := r; pt_out := {| w_out := out; w_sched := pre ++ bad :: post |} |}
  = Some (Err RIo,
          {| pt_in := r;
             pt_out := {| w_out := out ++ firstn (N.to_nat (capacity pre)) (encode_nl (frame_of_msg m));
                          w_sched := post |} |},
          [EvWrite (firstn (N.to_nat (capacity pre)) (encode_nl (frame_of_msg m)))]).
Proof. exact SerialP.C16_write_fault. Qed.
Print Assumptions C16_write_fault.

Theorem C16_read_fault :
  forall m content pre post w,
  (forall ev, In ev (w_sched w) -> ev <> WFail /\ ev <> WZero) ->
  response_expected m = true ->
  ~ In RFail pre ->
  (data_reads pre < reads_needed content)%nat ->
  exists w',
    serial_process m {| pt_in := {| r_content := content; r_sched := pre ++ RFail :: post |};
                        pt_out := w |}
    = Some (Err RIo,
            {| pt_in := {| r_content := skipn (data_reads pre) content; r_sched := post |};
               pt_out := w' |},
            EvWrite (encode_nl (frame_of_msg m)) :: sleep_ev (delay_after_send m)
              ++ [EvRead (firstn (data_reads pre) content)])
    /\ w_out w' = w_out w ++ encode_nl (frame_of_msg m).
Proof. exact SerialP.C16_read_fault. Qed.
Print Assumptions C16_read_fault.

Theorem C16_no_answer :
  forall m p res p' evs, serial_process m p = Some (res, p', evs) ->
  response_expected m = true ->
  r_content (pt_in p) = [] ->
  res = Err RIo \/ res = Err (RFrame InvalidFrame).
Proof. exact SerialP.C16_no_answer. Qed.
Print Assumptions C16_no_answer.

(* ---------- a whole conversation ---------- *)
(* [serial_run ms p]: one exchange after another on the same port, each starting where the last left the streams. *)
Check eq_refl : serial_run =
  fix serial_run (ms : list msg) (p : port) : option (list (result rerr (option msg)) * port) :=
    match ms with
    | [] => Some ([], p)
    | m :: ms' =>
        match serial_process m p with
        | None => None
        | Some (res, p', _) =>
            match serial_run ms' p' with
            | None => None
            | Some (rs, p'') => Some (res :: rs, p'')
            end
        end
    end.

(* What a cooperative far side puts on the line: for each message, a well-formed reply frame exactly when the message
   expects a reply. *)
Check eq_refl : conv_ok = fun c : msg * option frame =>
  match snd c with
  | Some f => response_expected (fst c) = true /\ wf_frame f
  | None => response_expected (fst c) = false
  end.
Check eq_refl : conv_tape = fun conv : list (msg * option frame) =>
  concat (map (fun c => match snd c with Some f => encode_nl f | None => [] end) conv).
Check eq_refl : conv_sent = fun conv : list (msg * option frame) =>
  concat (map (fun c => encode_nl (frame_of_msg (fst c))) conv).
Check eq_refl : conv_results = fun conv : list (msg * option frame) =>
  map (fun c => Ok (option_map msg_of_frame (snd c))) conv.

(* On a healthy port, with the replies waiting back to back on the line (any fragmentation, any interruptions), a
   conversation of any length gives every message its own reply and nobody else's, writes exactly the messages'
   frames in order and leaves exactly the bytes after the last reply unread. *)
Theorem C16_conversation :
  forall conv trailing out ws rs,
  (forall ev, In ev ws -> ev <> WFail /\ ev <> WZero) -> ~ In RFail rs ->
  Forall conv_ok conv ->
  exists p',
    serial_run (map fst conv)
      {| pt_in := {| r_content := conv_tape conv ++ trailing; r_sched := rs |};
         pt_out := {| w_out := out; w_sched := ws |} |}
    = Some (conv_results conv, p')
    /\ w_out (pt_out p') = out ++ conv_sent conv
    /\ r_content (pt_in p') = trailing.
Proof. exact SerialP.serial_conversation. Qed.
Print Assumptions C16_conversation.

(* Exchanges compose: the second half of a conversation sees the port exactly as the first half left it. *)
Theorem C16_run_app :
  forall ms1 ms2 p,
  serial_run (ms1 ++ ms2) p
  = match serial_run ms1 p with
    | None => None
    | Some (rs1, p1) =>
        match serial_run ms2 p1 with
        | None => None
        | Some (rs2, p2) => Some (rs1 ++ rs2, p2)
        end
    end.
Proof. exact SerialP.serial_run_app. Qed.
Print Assumptions C16_run_app.

Example C16_ex_conversation :
  Forall conv_ok [(Hello 3, Some (frame_of_msg (ReportState 3 Unconfigured)));
                  (SendData 0 [1; 2], None);
                  (QueryState 3, Some (frame_of_msg (ReportState 3 ConfigReceived)))]
  /\ serial_run [Hello 3; SendData 0 [1; 2]; QueryState 3]
       {| pt_in := {| r_content := encode_nl (frame_of_msg (ReportState 3 Unconfigured))
                                   ++ encode_nl (frame_of_msg (ReportState 3 ConfigReceived)) ++ [58];
                      r_sched := [RData 0; RIntr] |};
          pt_out := {| w_out := []; w_sched := [WAccept 0; WIntr] |} |}
     = Some ([Ok (Some (ReportState 3 Unconfigured)); Ok None; Ok (Some (ReportState 3 ConfigReceived))],
             {| pt_in := {| r_content := [58]; r_sched := [] |};
                pt_out := {| w_out := encode_nl (frame_of_msg (Hello 3))
                                      ++ encode_nl (frame_of_msg (SendData 0 [1; 2]))
                                      ++ encode_nl (frame_of_msg (QueryState 3));
                             w_sched := [] |} |}).
Proof. split; [repeat constructor|vm_compute; reflexivity]. Qed.

(* ---------- earlier output is only ever appended to ---------- *)
Check eq_refl : out_prefixed = fun (out : list N) (p : port) =>
  {| pt_in := pt_in p;
     pt_out := {| w_out := out ++ w_out (pt_out p); w_sched := w_sched (pt_out p) |} |}.

(* An exchange on a port that already carries the output [out] is the exchange on the port without it, with [out] put back
   in front: nothing written earlier is read, changed or dropped.  (The correspondence uses this to evaluate conversations
   of tens of thousands of exchanges one at a time, taking the output away after each.) *)
Theorem C16_output_only_appended :
  forall out m p,
  serial_process m (out_prefixed out p)
  = match serial_process m p with
    | None => None
    | Some (res, p', evs) => Some (res, out_prefixed out p', evs)
    end.
Proof. exact SerialP.serial_process_prefixed. Qed.
Print Assumptions C16_output_only_appended.
