(* C02 — Corrupted wire frames are rejected, never decoded as a different frame.

   "If a valid encoded frame is damaged in transit by a single-character substitution, a
   dropped or duplicated character, an adjacent swap of unequal characters or a truncation,
   decoding fails with an error or yields exactly the original frame (as when only the letter
   case of a digit or the optional terminator is affected).  A frame whose declared length
   disagrees with its data, or whose checksum does not match, is never accepted."

   The corruption model ([corruption], [corrupt]) is defined in proofs/Corruption.v; its
   meaning is pinned down here by the five [C02_corrupt_*_spec] theorems. *)
From Flipdot Require Import Tactics Frame Corruption.
Local Open Scope N_scope.

(* ---------------------------------------------------------------------------------- *)
(* Examples: the hypotheses are satisfiable, and what each kind of corruption does.    *)

Definition ex_frame : frame := {| f_addr := 2; f_type := 1; f_data := [3; 31] |}.

Example ex_wf : wf_frame ex_frame.
Proof. vm_compute. reflexivity. Qed.

(* ":02000201031FD9" *)
Example ex_encode :
  encode ex_frame = [58; 48; 50; 48; 48; 48; 50; 48; 49; 48; 51; 49; 70; 68; 57].
Proof. vm_compute. reflexivity. Qed.

Example ex_decode : decode (encode ex_frame) = Ok ex_frame.
Proof. vm_compute. reflexivity. Qed.

(* The corrupted string together with its decoding. *)
Definition dc (c : corruption) (s : list N) : option (list N * result ferr frame) :=
  match corrupt c s with Some s' => Some (s', decode s') | None => None end.

(* Substitution, case change only: 'F' -> 'f' decodes to the original frame. *)
Example ex_subst_case :
  dc (Subst 12 102) (encode ex_frame) =
  Some ([58; 48; 50; 48; 48; 48; 50; 48; 49; 48; 51; 49; 102; 68; 57], Ok ex_frame).
Proof. vm_compute. reflexivity. Qed.

(* Substitution of a data digit: '0' -> '7'. *)
Example ex_subst_digit :
  dc (Subst 3 55) (encode ex_frame) =
  Some ([58; 48; 50; 55; 48; 48; 50; 48; 49; 48; 51; 49; 70; 68; 57],
        Err (BadChecksum 217 105)).
Proof. vm_compute. reflexivity. Qed.

(* Substitution in the length byte: "02" -> "03". *)
Example ex_subst_len :
  dc (Subst 2 51) (encode ex_frame) =
  Some ([58; 48; 51; 48; 48; 48; 50; 48; 49; 48; 51; 49; 70; 68; 57],
        Err (DataMismatch 3 2)).
Proof. vm_compute. reflexivity. Qed.

(* Substitution of the colon, and by a value that is not even a byte. *)
Example ex_subst_colon :
  option_map snd (dc (Subst 0 59) (encode ex_frame)) = Some (Err InvalidFrame).
Proof. vm_compute. reflexivity. Qed.

Example ex_subst_big :
  option_map snd (dc (Subst 5 300) (encode ex_frame)) = Some (Err InvalidFrame).
Proof. vm_compute. reflexivity. Qed.

Example ex_subst_out_of_range : dc (Subst 15 48) (encode ex_frame) = None.
Proof. vm_compute. reflexivity. Qed.

Example ex_delete :
  dc (Delete 4) (encode ex_frame) =
  Some ([58; 48; 50; 48; 48; 50; 48; 49; 48; 51; 49; 70; 68; 57], Err InvalidFrame).
Proof. vm_compute. reflexivity. Qed.

(* Deleting the CR of the terminator. *)
Example ex_delete_cr :
  dc (Delete 15) (encode_nl ex_frame) =
  Some ([58; 48; 50; 48; 48; 48; 50; 48; 49; 48; 51; 49; 70; 68; 57; 10], Err InvalidFrame).
Proof. vm_compute. reflexivity. Qed.

Example ex_dup :
  dc (Dup 4) (encode ex_frame) =
  Some ([58; 48; 50; 48; 48; 48; 48; 50; 48; 49; 48; 51; 49; 70; 68; 57], Err InvalidFrame).
Proof. vm_compute. reflexivity. Qed.

(* Swap inside a byte ("01" -> "10") and across a byte boundary ("1" "0" of "01 03"). *)
Example ex_swap_within :
  dc (Swap 7) (encode ex_frame) =
  Some ([58; 48; 50; 48; 48; 48; 50; 49; 48; 48; 51; 49; 70; 68; 57],
        Err (BadChecksum 217 202)).
Proof. vm_compute. reflexivity. Qed.

Example ex_swap_across :
  dc (Swap 8) (encode ex_frame) =
  Some ([58; 48; 50; 48; 48; 48; 50; 48; 48; 49; 51; 49; 70; 68; 57],
        Err (BadChecksum 217 202)).
Proof. vm_compute. reflexivity. Qed.

Example ex_swap_len :
  dc (Swap 1) (encode ex_frame) =
  Some ([58; 50; 48; 48; 48; 48; 50; 48; 49; 48; 51; 49; 70; 68; 57],
        Err (DataMismatch 32 2)).
Proof. vm_compute. reflexivity. Qed.

(* Equal neighbours: not a corruption. *)
Example ex_swap_equal : dc (Swap 3) (encode ex_frame) = None.
Proof. vm_compute. reflexivity. Qed.

(* CR and LF exchanged. *)
Example ex_swap_crlf :
  option_map snd (dc (Swap 15) (encode_nl ex_frame)) = Some (Err InvalidFrame).
Proof. vm_compute. reflexivity. Qed.

(* Truncations: after an even number of digits, inside the terminator, and of the whole
   terminator (which yields the other valid encoding, hence the original frame). *)
Example ex_trunc_even :
  dc (Trunc 11) (encode ex_frame) =
  Some ([58; 48; 50; 48; 48; 48; 50; 48; 49; 48; 51], Err (DataMismatch 2 0)).
Proof. vm_compute. reflexivity. Qed.

Example ex_trunc_cr :
  option_map snd (dc (Trunc 16) (encode_nl ex_frame)) = Some (Err InvalidFrame).
Proof. vm_compute. reflexivity. Qed.

Example ex_trunc_terminator :
  dc (Trunc 15) (encode_nl ex_frame) = Some (encode ex_frame, Ok ex_frame).
Proof. vm_compute. reflexivity. Qed.

Example ex_trunc_not_proper : dc (Trunc 15) (encode ex_frame) = None.
Proof. vm_compute. reflexivity. Qed.

(* ---------------------------------------------------------------------------------- *)
(* What [corrupt] means.                                                               *)

Theorem C02_corrupt_subst_spec : forall i c s s',
  corrupt (Subst i c) s = Some s' <->
  exists a x b, s = a ++ x :: b /\ length a = i /\ s' = a ++ c :: b.
Proof. exact corrupt_subst_iff. Qed.
Print Assumptions C02_corrupt_subst_spec.

Theorem C02_corrupt_delete_spec : forall i s s',
  corrupt (Delete i) s = Some s' <->
  exists a x b, s = a ++ x :: b /\ length a = i /\ s' = a ++ b.
Proof. exact corrupt_delete_iff. Qed.
Print Assumptions C02_corrupt_delete_spec.

Theorem C02_corrupt_dup_spec : forall i s s',
  corrupt (Dup i) s = Some s' <->
  exists a x b, s = a ++ x :: b /\ length a = i /\ s' = a ++ x :: x :: b.
Proof. exact corrupt_dup_iff. Qed.
Print Assumptions C02_corrupt_dup_spec.

Theorem C02_corrupt_swap_spec : forall i s s',
  corrupt (Swap i) s = Some s' <->
  exists a x y b, s = a ++ x :: y :: b /\ length a = i /\ x <> y /\ s' = a ++ y :: x :: b.
Proof. exact corrupt_swap_iff. Qed.
Print Assumptions C02_corrupt_swap_spec.

Theorem C02_corrupt_trunc_spec : forall k s s',
  corrupt (Trunc k) s = Some s' <->
  exists b, s = s' ++ b /\ b <> [] /\ length s' = k.
Proof. exact corrupt_trunc_iff. Qed.
Print Assumptions C02_corrupt_trunc_spec.

(* ---------------------------------------------------------------------------------- *)
(* The property.                                                                       *)

(* Every single corruption of either encoding of every valid frame is rejected with a proper
   error (never a panic) or decodes to exactly the original frame. *)
Theorem C02_corruption : forall f s c s',
  wf_frame f -> (s = encode f \/ s = encode_nl f) -> corrupt c s = Some s' ->
  (exists e, decode s' = Err e /\ e <> FPanic) \/ decode s' = Ok f.
Proof. exact C02_corruption_proof. Qed.
Print Assumptions C02_corruption.

(* Stronger: the same holds for every string the decoder accepts (e.g. with lower-case
   digits), not only for the two canonical encodings. *)
Theorem C02_corruption_of_any_accepted_string : forall s f c s',
  decode s = Ok f -> corrupt c s = Some s' ->
  (exists e, decode s' = Err e /\ e <> FPanic) \/ decode s' = Ok f.
Proof. exact corruption_accepted_string. Qed.
Print Assumptions C02_corruption_of_any_accepted_string.

(* A dropped or duplicated character is always rejected outright. *)
Theorem C02_delete_dup_rejected : forall s f i s',
  decode s = Ok f -> (corrupt (Delete i) s = Some s' \/ corrupt (Dup i) s = Some s') ->
  exists e, decode s' = Err e /\ e <> FPanic.
Proof. exact corruption_delete_dup_rejected. Qed.
Print Assumptions C02_delete_dup_rejected.

(* The decoder model never reaches one of the unwraps, whatever the input. *)
Theorem C02_decode_never_panics : forall s, decode s <> Err FPanic.
Proof. exact decode_never_panics. Qed.
Print Assumptions C02_decode_never_panics.

(* An accepted string starts with ':' and its digits (terminator removed) are the hex of a
   byte string of at least 5 bytes whose first byte is the number of data bytes
   (#bytes - 5) and whose bytes sum to 0 modulo 256 (i.e. the last byte is the checksum). *)
Theorem C02_len_ck_never_accepted : forall s f,
  decode s = Ok f ->
  exists bs, hd_error s = Some 58 /\ unhex (strip_crlf (tl s)) = Some bs /\
             5 <= nlen bs /\ hd 0 bs = nlen bs - 5 /\ sumN bs mod 256 = 0.
Proof. exact C02_len_ck_proof. Qed.
Print Assumptions C02_len_ck_never_accepted.

(* The same with the fields spelled out: declared length = actual data length, declared
   checksum = checksum recomputed over everything before it, and the frame returned is
   the one made of those fields. *)
Theorem C02_accepted_fields : forall s f,
  decode s = Ok f ->
  exists len ah al ty data ck,
    hd_error s = Some 58 /\
    unhex (strip_crlf (tl s)) = Some (len :: ah :: al :: ty :: data ++ [ck]) /\
    len = nlen data /\
    ck = checksum (len :: ah :: al :: ty :: data) /\
    f = {| f_addr := ah * 256 + al; f_type := ty; f_data := data |}.
Proof. exact C02_fields_proof. Qed.
Print Assumptions C02_accepted_fields.

(* Contrapositive reading. *)
Theorem C02_bad_len_or_ck_rejected : forall s bs,
  unhex (strip_crlf (tl s)) = Some bs ->
  (hd 0 bs <> nlen bs - 5 \/ sumN bs mod 256 <> 0) ->
  forall f, decode s <> Ok f.
Proof. exact C02_bad_len_or_ck_rejected_proof. Qed.
Print Assumptions C02_bad_len_or_ck_rejected.
