(* C08 — pages sent through the controller arrive bit-exact, from any prior sign state.

   The closed loop: the controller programs of model/Controller.v (configure,
   configure_if_needed, send_pages, show_loaded_page, load_next_page) interpreted by [run_bus]
   against a bus of virtual signs (model/VSign.v).  Every theorem holds for ANY bus population
   with distinct addresses, ANY address on the bus, ANY of the 11 sign types, both flip
   styles, and EVERY prior state of every sign satisfying the invariant [VInv0] (proofs/VSignP.v;
   a superset of the reachable states: it includes half-finished transfers, a previous
   configuration as another type, other signs that are themselves mid-transfer, ...).

   [target b a] is the sign with address [a] on bus [b] (C08_target_def). *)
From Flipdot Require Import Tactics.
From Flipdot Require Import Base Message Page SignType VSign Controller Bitmap VSignP ClosedLoopP ApiP WeaveP.
Local Open Scope N_scope.

(* ---------------------------------------------------------------------------------------- *)
(* Example: the premises are met by a non-trivial prior state. *)

(* Sign 5 is configured as a 96x8 Horizon side sign, acknowledges a pixel transfer and is
   abandoned after two chunks of it; sign 3 has just acknowledged a configuration request. *)
Definition C08_ex_h : list msg :=
  [RequestOperation 5 ReceiveConfig; SendData 0 (st_to_bytes HorizonSide96x8);
   DataChunksSent 1; QueryState 5;
   RequestOperation 5 ReceivePixels; SendData 0 (repeatN 170 16); SendData 16 (repeatN 85 16);
   RequestOperation 3 ReceiveConfig].

Definition C08_ex_bus : list vsign :=
  match bus_run [vinit 3 Automatic; vinit 5 Manual] C08_ex_h with
  | Some (b, _) => b
  | None => []
  end.

(* One 30x7 page (48 bytes = 3 chunks) with a recognisable pattern. *)
Definition C08_ex_page : page :=
  {| p_w := 30; p_h := 7;
     p_bytes := [1; 16; 0; 0] ++ map N.of_nat (seq 1 30) ++ repeatN 255 14 |}.

Example C08_ex_prior_state :
  C08_ex_bus =
  [ {| v_addr := 3; v_style := Automatic; v_state := ConfigInProgress; v_pages := [];
       v_pending := []; v_chunks := 0; v_w := 0; v_h := 0; v_type := None |};
    {| v_addr := 5; v_style := Manual; v_state := PixelsInProgress; v_pages := [];
       v_pending := repeatN 170 16 ++ repeatN 85 16; v_chunks := 2; v_w := 96; v_h := 8;
       v_type := Some HorizonSide96x8 |} ].
Proof. vm_compute. reflexivity. Qed.

Example C08_ex_premises :
  NoDup (map v_addr C08_ex_bus) /\ Forall VInv0 C08_ex_bus /\ In 5 (map v_addr C08_ex_bus)
  /\ Forall (fun p => p_w p = fst (dimensions Max3000Dash30x7)
                      /\ p_h p = snd (dimensions Max3000Dash30x7)
                      /\ nlen (p_bytes p) = total_bytes (fst (dimensions Max3000Dash30x7))
                                                        (snd (dimensions Max3000Dash30x7)))
            [C08_ex_page]
  /\ N.of_nat (length [C08_ex_page])
     * (total_bytes (fst (dimensions Max3000Dash30x7)) (snd (dimensions Max3000Dash30x7)) / 16)
     < 65536.
Proof.
  split.
  { rewrite C08_ex_prior_state. cbn [map v_addr].
    repeat constructor; cbn [In]; intros H; repeat destruct H as [H|H];
      try discriminate; exact H. }
  split.
  { apply (VInv0_bus_run C08_ex_h [vinit 3 Automatic; vinit 5 Manual] C08_ex_bus
             [Some (AckOperation 5 ReceiveConfig); None; None;
              Some (ReportState 5 ConfigReceived); Some (AckOperation 5 ReceivePixels);
              None; None; Some (AckOperation 3 ReceiveConfig)]).
    - exact (Forall_VInv0_init [(3, Automatic); (5, Manual)]).
    - vm_compute. reflexivity. }
  split.
  { rewrite C08_ex_prior_state. cbn [map v_addr In]. auto. }
  split.
  { constructor; [|constructor]. vm_compute. auto. }
  vm_compute. reflexivity.
Qed.

(* The closed loop evaluated on it: the sign is reset and configured as a 30x7 dash sign, the
   stale half-page is gone, and exactly the page sent is stored.  (Sign 3 was waiting for a
   configuration block and picks up the unaddressed one on the way.) *)
Example C08_ex_run :
  (let (b1, o1) := run_bus (configure 5 Max3000Dash30x7) C08_ex_bus in
   let (b2, o2) := run_bus (send_pages 5 [C08_ex_page]) b1 in
   (o1, o2, b2))
  = (Done tt, Done Manual,
     [ {| v_addr := 3; v_style := Automatic; v_state := ConfigReceived; v_pages := [];
          v_pending := []; v_chunks := 0; v_w := 30; v_h := 7;
          v_type := Some Max3000Dash30x7 |};
       {| v_addr := 5; v_style := Manual; v_state := PageLoaded; v_pages := [C08_ex_page];
          v_pending := []; v_chunks := 0; v_w := 30; v_h := 7;
          v_type := Some Max3000Dash30x7 |} ]).
Proof. vm_compute. reflexivity. Qed.

(* ---------------------------------------------------------------------------------------- *)
(* Vocabulary *)

Theorem C08_target_def : forall b a, target b a = find (fun s => v_addr s =? a) b.
Proof. exact target_def. Qed.
Print Assumptions C08_target_def.

(* Every sign type has a non-empty size whose pages are at most 65536 bytes (so that chunk
   offsets within a page never wrap to 0). *)
Theorem C08_dims_ok : forall t,
  let (w, h) := dimensions t in total_bytes w h <= 65536 /\ 0 < w /\ 0 < h.
Proof. exact dims_ok. Qed.
Print Assumptions C08_dims_ok.

(* The interpreter over sequencing. *)
Theorem C08_run_bus_bind : forall (A B : Type) (p : prog A) (f : A -> prog B) b,
  run_bus (bind p f) b =
  let (b1, o) := run_bus p b in
  match o with
  | Done x => run_bus (f x) b1
  | other => (b1, cast_outcome other)
  end.
Proof. exact @run_bus_bind. Qed.
Print Assumptions C08_run_bus_bind.

(* ---------------------------------------------------------------------------------------- *)
(* Sign::configure *)

Theorem C08_configure : forall b a t,
  NoDup (map v_addr b) -> Forall VInv0 b -> In a (map v_addr b) ->
  exists b' s',
    run_bus (configure a t) b = (b', Done tt) /\ target b' a = Some s'
    /\ v_state s' = ConfigReceived /\ v_type s' = Some t
    /\ (v_w s', v_h s') = dimensions t
    /\ v_pages s' = [] /\ v_pending s' = [] /\ v_chunks s' = 0
    /\ v_addr s' = a /\ (forall s, target b a = Some s -> v_style s' = v_style s)
    /\ Forall VInv0 b' /\ map v_addr b' = map v_addr b.
Proof. exact closed_configure. Qed.
Print Assumptions C08_configure.

(* Sign::configure_if_needed: a sign that is not ready is (re)configured; a ready sign of
   the same type is left as it is (a reported in-progress page flip completes). *)
Theorem C08_configure_if_needed : forall b a t s,
  NoDup (map v_addr b) -> Forall VInv0 b -> target b a = Some s ->
  ready_state (v_state s) = false \/ v_type s = Some t ->
  exists b' s',
    run_bus (configure_if_needed a t) b = (b', Done tt) /\ target b' a = Some s'
    /\ v_type s' = Some t /\ (v_w s', v_h s') = dimensions t
    /\ receive_pixels_legal (v_state s') = true
    /\ (ready_state (v_state s) = false ->
        v_state s' = ConfigReceived /\ v_pages s' = [] /\ v_pending s' = [] /\ v_chunks s' = 0)
    /\ (ready_state (v_state s) = true ->
        v_state s' = match v_state s with
                     | PageLoadInProgress => PageLoaded
                     | PageShowInProgress => PageShown
                     | st => st
                     end
        /\ v_pages s' = v_pages s /\ v_pending s' = [] /\ v_chunks s' = 0)
    /\ v_addr s' = a /\ v_style s' = v_style s
    /\ Forall VInv0 b' /\ map v_addr b' = map v_addr b.
Proof. exact closed_configure_if_needed. Qed.
Print Assumptions C08_configure_if_needed.

(* ---------------------------------------------------------------------------------------- *)
(* Sign::send_pages: exactly those pages, in order, with identical bytes; any number of
   pages (including none); the flip style is reported correctly. *)

Theorem C08_send_pages : forall b a ps s,
  NoDup (map v_addr b) -> Forall VInv0 b -> target b a = Some s ->
  receive_pixels_legal (v_state s) = true -> 0 < v_w s -> 0 < v_h s ->
  Forall (fun p => p_w p = v_w s /\ p_h p = v_h s
                   /\ nlen (p_bytes p) = total_bytes (v_w s) (v_h s)) ps ->
  total_bytes (v_w s) (v_h s) <= 65536 ->
  N.of_nat (length ps) * (total_bytes (v_w s) (v_h s) / 16) < 65536 ->
  exists b' s',
    run_bus (send_pages a ps) b = (b', Done (v_style s)) /\ target b' a = Some s'
    /\ v_pages s' = ps
    /\ v_state s' = match v_style s with Manual => PageLoaded | Automatic => ShowingPages end
    /\ v_type s' = v_type s /\ (v_w s', v_h s') = (v_w s, v_h s)
    /\ v_pending s' = [] /\ v_chunks s' = 0
    /\ v_addr s' = a /\ v_style s' = v_style s
    /\ Forall VInv0 b' /\ map v_addr b' = map v_addr b.
Proof. exact closed_send_pages. Qed.
Print Assumptions C08_send_pages.

(* The same for a sign whose recorded type is [t]: the size side conditions follow. *)
Theorem C08_send_pages_typed : forall b a ps s t,
  NoDup (map v_addr b) -> Forall VInv0 b -> target b a = Some s ->
  receive_pixels_legal (v_state s) = true -> v_type s = Some t ->
  Forall (fun p => p_w p = fst (dimensions t) /\ p_h p = snd (dimensions t)
                   /\ nlen (p_bytes p)
                      = total_bytes (fst (dimensions t)) (snd (dimensions t))) ps ->
  N.of_nat (length ps) * (total_bytes (fst (dimensions t)) (snd (dimensions t)) / 16) < 65536 ->
  exists b' s',
    run_bus (send_pages a ps) b = (b', Done (v_style s)) /\ target b' a = Some s'
    /\ v_pages s' = ps
    /\ v_state s' = match v_style s with Manual => PageLoaded | Automatic => ShowingPages end
    /\ v_type s' = Some t /\ (v_w s', v_h s') = dimensions t
    /\ v_pending s' = [] /\ v_chunks s' = 0
    /\ v_addr s' = a /\ v_style s' = v_style s
    /\ Forall VInv0 b' /\ map v_addr b' = map v_addr b.
Proof. exact closed_send_pages_typed. Qed.
Print Assumptions C08_send_pages_typed.

(* ---------------------------------------------------------------------------------------- *)
(* Page flipping *)

Theorem C08_show : forall b a s fuel,
  NoDup (map v_addr b) -> Forall VInv0 b -> target b a = Some s ->
  v_state s = PageLoaded -> (3 <= fuel)%nat ->
  exists b',
    run_bus (show_loaded_page fuel a) b = (b', Done tt)
    /\ target b' a = Some (set_state s PageShown)
    /\ Forall VInv0 b' /\ map v_addr b' = map v_addr b.
Proof. exact closed_show. Qed.
Print Assumptions C08_show.

Theorem C08_load_next : forall b a s fuel,
  NoDup (map v_addr b) -> Forall VInv0 b -> target b a = Some s ->
  v_state s = PageShown -> (3 <= fuel)%nat ->
  exists b',
    run_bus (load_next_page fuel a) b = (b', Done tt)
    /\ target b' a = Some (set_state s PageLoaded)
    /\ Forall VInv0 b' /\ map v_addr b' = map v_addr b.
Proof. exact closed_load_next. Qed.
Print Assumptions C08_load_next.

Theorem C08_auto_noop : forall b a s fuel,
  NoDup (map v_addr b) -> target b a = Some s -> v_state s = ShowingPages ->
  (1 <= fuel)%nat ->
  run_bus (show_loaded_page fuel a) b = (b, Done tt)
  /\ run_bus (load_next_page fuel a) b = (b, Done tt).
Proof. exact closed_auto_noop. Qed.
Print Assumptions C08_auto_noop.

(* ---------------------------------------------------------------------------------------- *)
(* Sending again: after send_pages, and after either page flip, send_pages applies again and
   the new list replaces the old one. *)

Theorem C08_repeat : forall b a ps1 ps2 s,
  NoDup (map v_addr b) -> Forall VInv0 b -> target b a = Some s ->
  receive_pixels_legal (v_state s) = true -> 0 < v_w s -> 0 < v_h s ->
  total_bytes (v_w s) (v_h s) <= 65536 ->
  Forall (fun p => p_w p = v_w s /\ p_h p = v_h s
                   /\ nlen (p_bytes p) = total_bytes (v_w s) (v_h s)) ps1 ->
  N.of_nat (length ps1) * (total_bytes (v_w s) (v_h s) / 16) < 65536 ->
  Forall (fun p => p_w p = v_w s /\ p_h p = v_h s
                   /\ nlen (p_bytes p) = total_bytes (v_w s) (v_h s)) ps2 ->
  N.of_nat (length ps2) * (total_bytes (v_w s) (v_h s) / 16) < 65536 ->
  exists b1 b2 s2,
    run_bus (send_pages a ps1) b = (b1, Done (v_style s))
    /\ run_bus (send_pages a ps2) b1 = (b2, Done (v_style s))
    /\ target b2 a = Some s2 /\ v_pages s2 = ps2
    /\ v_state s2 = match v_style s with Manual => PageLoaded | Automatic => ShowingPages end
    /\ v_type s2 = v_type s /\ (v_w s2, v_h s2) = (v_w s, v_h s)
    /\ Forall VInv0 b2 /\ map v_addr b2 = map v_addr b.
Proof. exact closed_repeat. Qed.
Print Assumptions C08_repeat.

Theorem C08_resend_after_show : forall b a ps s fuel,
  NoDup (map v_addr b) -> Forall VInv0 b -> target b a = Some s ->
  v_state s = PageLoaded -> (3 <= fuel)%nat -> 0 < v_w s -> 0 < v_h s ->
  total_bytes (v_w s) (v_h s) <= 65536 ->
  Forall (fun p => p_w p = v_w s /\ p_h p = v_h s
                   /\ nlen (p_bytes p) = total_bytes (v_w s) (v_h s)) ps ->
  N.of_nat (length ps) * (total_bytes (v_w s) (v_h s) / 16) < 65536 ->
  exists b1 b2 s2,
    run_bus (show_loaded_page fuel a) b = (b1, Done tt)
    /\ run_bus (send_pages a ps) b1 = (b2, Done (v_style s))
    /\ target b2 a = Some s2 /\ v_pages s2 = ps
    /\ v_state s2 = match v_style s with Manual => PageLoaded | Automatic => ShowingPages end
    /\ Forall VInv0 b2 /\ map v_addr b2 = map v_addr b.
Proof. exact closed_resend_after_show. Qed.
Print Assumptions C08_resend_after_show.

Theorem C08_resend_after_load_next : forall b a ps s fuel,
  NoDup (map v_addr b) -> Forall VInv0 b -> target b a = Some s ->
  v_state s = PageShown -> (3 <= fuel)%nat -> 0 < v_w s -> 0 < v_h s ->
  total_bytes (v_w s) (v_h s) <= 65536 ->
  Forall (fun p => p_w p = v_w s /\ p_h p = v_h s
                   /\ nlen (p_bytes p) = total_bytes (v_w s) (v_h s)) ps ->
  N.of_nat (length ps) * (total_bytes (v_w s) (v_h s) / 16) < 65536 ->
  exists b1 b2 s2,
    run_bus (load_next_page fuel a) b = (b1, Done tt)
    /\ run_bus (send_pages a ps) b1 = (b2, Done (v_style s))
    /\ target b2 a = Some s2 /\ v_pages s2 = ps
    /\ v_state s2 = match v_style s with Manual => PageLoaded | Automatic => ShowingPages end
    /\ Forall VInv0 b2 /\ map v_addr b2 = map v_addr b.
Proof. exact closed_resend_after_load_next. Qed.
Print Assumptions C08_resend_after_load_next.

(* ---------------------------------------------------------------------------------------- *)
(* End to end: configure, then send. *)

Theorem C08_end_to_end : forall b a t ps,
  NoDup (map v_addr b) -> Forall VInv0 b -> In a (map v_addr b) ->
  Forall (fun p => p_w p = fst (dimensions t) /\ p_h p = snd (dimensions t)
                   /\ nlen (p_bytes p)
                      = total_bytes (fst (dimensions t)) (snd (dimensions t))) ps ->
  N.of_nat (length ps) * (total_bytes (fst (dimensions t)) (snd (dimensions t)) / 16) < 65536 ->
  exists b1 b2 s2 fs,
    run_bus (configure a t) b = (b1, Done tt)
    /\ run_bus (send_pages a ps) b1 = (b2, Done fs)
    /\ target b2 a = Some s2 /\ v_pages s2 = ps /\ v_type s2 = Some t /\ fs = v_style s2
    /\ v_state s2 = match fs with Manual => PageLoaded | Automatic => ShowingPages end
    /\ (v_w s2, v_h s2) = dimensions t
    /\ (forall s, target b a = Some s -> v_style s = fs)
    /\ Forall VInv0 b2 /\ map v_addr b2 = map v_addr b.
Proof. exact closed_end_to_end. Qed.
Print Assumptions C08_end_to_end.

(* ---------------------------------------------------------------------------------------- *)
(* The whole user-level path.  Pages are made with Sign::create_page (a blank page of the sign type's
   size with the given id), drawn on with ANY sequence of set-pixel / set-all operations (spec/Bitmap.v;
   an out-of-bounds operation panics in Rust and leaves the page untouched here), and sent after
   configure: the sign stores exactly those pages, in order, and every stored page carries its id and
   shows exactly the picture the operations describe -- for every sign type, every prior state of the
   bus satisfying the invariant, every number of pages within the 16-bit chunk counter. *)

Theorem C08_def_create_page : forall t id,
  create_page t id = page_new id (fst (dimensions t)) (snd (dimensions t))
  /\ sign_width t = fst (dimensions t) /\ sign_height t = snd (dimensions t).
Proof. intros t id. repeat split. Qed.
Print Assumptions C08_def_create_page.

Theorem C08_def_drawn_picture : forall t id ops,
  drawn t (id, ops) = fold_left page_apply ops (create_page t id)
  /\ picture t ops = fold_left (bm_apply (sign_width t) (sign_height t)) ops (fun _ _ => false).
Proof. intros t id ops. split; reflexivity. Qed.
Print Assumptions C08_def_drawn_picture.

Theorem C08_api_pages_end_to_end : forall b a t (specs : list (N * list pop)),
  NoDup (map v_addr b) -> Forall VInv0 b -> In a (map v_addr b) ->
  Forall (fun s => fst s < 256) specs ->
  N.of_nat (length specs) * (total_bytes (sign_width t) (sign_height t) / 16) < 65536 ->
  exists b1 b2 s2 fs,
    run_bus (configure a t) b = (b1, Done tt)
    /\ run_bus (send_pages a (map (drawn t) specs)) b1 = (b2, Done fs)
    /\ target b2 a = Some s2 /\ v_type s2 = Some t /\ fs = v_style s2
    /\ v_state s2 = match fs with Manual => PageLoaded | Automatic => ShowingPages end
    /\ v_pages s2 = map (drawn t) specs
    /\ Forall2 (fun spec p =>
                  page_id p = Some (fst spec)
                  /\ forall x y, x < sign_width t -> y < sign_height t ->
                       get_pixel p x y = Some (picture t (snd spec) x y))
               specs (v_pages s2).
Proof. exact api_pages_end_to_end. Qed.
Print Assumptions C08_api_pages_end_to_end.

(* Evaluated: a 30x7 dash sign, one page with two pixels set and one cleared again, from the
   half-finished prior state of the first example. *)
Example C08_ex_api :
  (let spec := (7, [PSet 0 0 true; PSet 29 6 true; PSet 0 0 false; PSet 3 2 true]) in
   let (b1, _) := run_bus (configure 5 Max3000Dash30x7) C08_ex_bus in
   let (b2, o2) := run_bus (send_pages 5 [drawn Max3000Dash30x7 spec]) b1 in
   (o2, match target b2 5 with
        | Some s => map (fun p => (page_id p, get_pixel p 0 0, get_pixel p 29 6, get_pixel p 3 2, get_pixel p 4 2))
                        (v_pages s)
        | None => []
        end))
  = (Done Manual, [(Some 7, Some false, Some true, Some true, Some false)]).
Proof. vm_compute. reflexivity. Qed.

(* ---------------------------------------------------------------------------------------- *)
(* Page sources that talk on the bus while they are drained (model: send_pages_gen / send_pages_with) *)

(* Sign 5 configured as 30x7 and sign 3 configured likewise (it picked the block up, see C08_ex_run).  A source that says
   goodbye to sign 3 before it yields the page: sign 3 is reset, sign 5 gets exactly the page. *)
Example C08_ex_talking_source :
  (let (b1, _) := run_bus (configure 5 Max3000Dash30x7) C08_ex_bus in
   let (b2, o2) := run_bus (send_pages_with 5 [([CopShutDown 3], C08_ex_page)]) b1 in
   (o2, map v_state b2, map v_pages b2))
  = (Done Manual, [Unconfigured; PageLoaded], [[]; [C08_ex_page]]).
Proof. vm_compute. reflexivity. Qed.

(* The limit of the theorem below, shown by the model: data chunks carry no address, so a source that sends pages to
   ANOTHER sign while its own transfer is open pours them into both -- sign 5 does not end up with the page list it
   was sent (the call even fails: the count does not match). *)
Example C08_ex_source_that_transfers :
  (let (b1, _) := run_bus (configure 5 Max3000Dash30x7) C08_ex_bus in
   let (b2, o2) := run_bus (send_pages_with 5 [([CopSendPages 3 [C08_ex_page]], C08_ex_page)]) b1 in
   (o2, map v_pages b2))
  <> (Done Manual, [[]; [C08_ex_page]]).
Proof. vm_compute. discriminate. Qed.

(* For every source whose conversations are programs that address other signs only ([fpre]: any number of such
   programs, each under [catch]): the pages arrive bit-exact and the sign ends as after a plain send_pages. *)
Theorem C08_pages_arrive_from_talking_source : forall b a src ps s,
  NoDup (map v_addr b) -> Forall VInv0 b -> target b a = Some s ->
  receive_pixels_legal (v_state s) = true -> 0 < v_w s -> 0 < v_h s ->
  Forall (fun p => p_w p = v_w s /\ p_h p = v_h s
                   /\ nlen (p_bytes p) = total_bytes (v_w s) (v_h s)) ps ->
  total_bytes (v_w s) (v_h s) <= 65536 ->
  N.of_nat (length ps) * (total_bytes (v_w s) (v_h s) / 16) < 65536 ->
  Forall (fun it => fpre a (fst it)) src -> map snd src = map p_bytes ps ->
  exists b' s',
    run_bus (send_pages_gen a src) b = (b', Done (v_style s)) /\ target b' a = Some s'
    /\ v_pages s' = ps
    /\ v_state s' = match v_style s with Manual => PageLoaded | Automatic => ShowingPages end
    /\ v_type s' = v_type s /\ (v_w s', v_h s') = (v_w s, v_h s)
    /\ v_pending s' = [] /\ v_chunks s' = 0
    /\ v_addr s' = a /\ v_style s' = v_style s
    /\ Forall VInv0 b' /\ map v_addr b' = map v_addr b.
Proof. exact closed_send_pages_foreign_source. Qed.
Print Assumptions C08_pages_arrive_from_talking_source.

(* The instance for calls of the Sign API: a source that shuts other signs down. *)
Theorem C08_pages_arrive_with_foreign_calls : forall b a items s,
  NoDup (map v_addr b) -> Forall VInv0 b -> target b a = Some s ->
  receive_pixels_legal (v_state s) = true -> 0 < v_w s -> 0 < v_h s ->
  Forall (fun p => p_w p = v_w s /\ p_h p = v_h s
                   /\ nlen (p_bytes p) = total_bytes (v_w s) (v_h s)) (map snd items) ->
  total_bytes (v_w s) (v_h s) <= 65536 ->
  N.of_nat (length items) * (total_bytes (v_w s) (v_h s) / 16) < 65536 ->
  Forall (fun it => Forall (foreign_call a) (fst it)) items ->
  exists b' s',
    run_bus (send_pages_with a items) b = (b', Done (v_style s)) /\ target b' a = Some s'
    /\ v_pages s' = map snd items
    /\ v_state s' = match v_style s with Manual => PageLoaded | Automatic => ShowingPages end
    /\ v_type s' = v_type s /\ (v_w s', v_h s') = (v_w s, v_h s)
    /\ Forall VInv0 b' /\ map v_addr b' = map v_addr b.
Proof. exact closed_send_pages_with_foreign_calls. Qed.
Print Assumptions C08_pages_arrive_with_foreign_calls.

(* ... and a source that also flips the pages of other signs.  The model bounds the polling loop of a flip by fuel and
   reports running out of it as a panic ([Crashed]; for the real loop: still polling), hence the first alternative. *)
Example C08_ex_flipping_source :
  (let (b1, _) := run_bus (configure 5 Max3000Dash30x7) C08_ex_bus in
   let (b2, o2) := run_bus (send_pages_with 5 [([CopLoadNext 4 3; CopShow 4 3], C08_ex_page)]) b1 in
   (o2, map v_state b2, map v_pages b2))
  = (Done Manual, [ConfigReceived; PageLoaded], [[]; [C08_ex_page]]).
Proof. vm_compute. reflexivity. Qed.

Theorem C08_pages_arrive_with_flip_calls : forall b a items s,
  NoDup (map v_addr b) -> Forall VInv0 b -> target b a = Some s ->
  receive_pixels_legal (v_state s) = true -> 0 < v_w s -> 0 < v_h s ->
  Forall (fun p => p_w p = v_w s /\ p_h p = v_h s
                   /\ nlen (p_bytes p) = total_bytes (v_w s) (v_h s)) (map snd items) ->
  total_bytes (v_w s) (v_h s) <= 65536 ->
  N.of_nat (length items) * (total_bytes (v_w s) (v_h s) / 16) < 65536 ->
  Forall (fun it => Forall (foreign_flip_call a) (fst it)) items ->
  snd (run_bus (send_pages_with a items) b) = Crashed
  \/ exists b' s',
       run_bus (send_pages_with a items) b = (b', Done (v_style s)) /\ target b' a = Some s'
       /\ v_pages s' = map snd items
       /\ v_state s' = match v_style s with Manual => PageLoaded | Automatic => ShowingPages end
       /\ v_type s' = v_type s /\ (v_w s', v_h s') = (v_w s, v_h s)
       /\ Forall VInv0 b' /\ map v_addr b' = map v_addr b.
Proof. exact closed_send_pages_with_flip_calls. Qed.
Print Assumptions C08_pages_arrive_with_flip_calls.
