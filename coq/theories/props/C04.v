(* C04 — Frame -> Message -> Frame is the identity and follows the protocol code table. *)
From Flipdot Require Import Tactics.
From Flipdot Require Import Frame Message CodeTable MessageP.
Local Open Scope N_scope.

(* The hypotheses below are satisfiable by non-trivial values. *)
Example C04_ex_recognised :
  table_msg (mkframe 5 4 [16]) = Some (ReportState 5 PageLoaded)
  /\ wf_frame (mkframe 5 4 [16]).
Proof. split; reflexivity. Qed.
Example C04_ex_unknown :
  msg_of_frame (mkframe 5 4 [2]) = Unknown (mkframe 5 4 [2]) /\ wf_frame (mkframe 5 4 [2]).
Proof. split; reflexivity. Qed.

Theorem C04_roundtrip : forall f, frame_of_msg (msg_of_frame f) = f.
Proof. exact frame_msg_frame. Qed.
Print Assumptions C04_roundtrip.

Theorem C04_table :
  forall f, msg_of_frame f = match table_msg f with Some m => m | None => Unknown f end.
Proof. exact msg_of_frame_table. Qed.
Print Assumptions C04_table.

Theorem C04_recognised_iff : forall f, specific (msg_of_frame f) <-> recognised f.
Proof. exact specific_iff_recognised. Qed.
Print Assumptions C04_recognised_iff.

Theorem C04_unknown_is_same : forall f g, msg_of_frame f = Unknown g -> g = f.
Proof. exact unknown_is_same. Qed.
Print Assumptions C04_unknown_is_same.

Theorem C04_address_carried : forall f, msg_addr (msg_of_frame f) = f_addr f.
Proof. exact msg_addr_of_frame. Qed.
Print Assumptions C04_address_carried.

Theorem C04_wf : forall f, wf_frame f -> wf_msg (msg_of_frame f).
Proof. exact wf_msg_of_frame. Qed.
Print Assumptions C04_wf.

Theorem C04_wf_back : forall m, wf_msg m -> wf_frame (frame_of_msg m).
Proof. exact wf_frame_of_msg. Qed.
Print Assumptions C04_wf_back.

(* --- sanity of the transcribed table --- *)

Theorem C04_state_table_keys : NoDup (map fst state_table).
Proof. exact state_table_keys_nodup. Qed.
Print Assumptions C04_state_table_keys.

Theorem C04_state_table_vals : NoDup (map snd state_table).
Proof. exact state_table_vals_nodup. Qed.
Print Assumptions C04_state_table_vals.

Theorem C04_state_table_covers :
  map snd state_table = all_states /\ length state_table = 13%nat.
Proof. exact state_table_covers. Qed.
Print Assumptions C04_state_table_covers.

Theorem C04_all_states_complete : forall s, In s all_states.
Proof. exact all_states_complete. Qed.
Print Assumptions C04_all_states_complete.

Theorem C04_request_table_keys : NoDup (map fst request_table).
Proof. exact request_table_keys_nodup. Qed.
Print Assumptions C04_request_table_keys.

Theorem C04_request_table_vals : NoDup (map snd request_table).
Proof. exact request_table_vals_nodup. Qed.
Print Assumptions C04_request_table_vals.

Theorem C04_request_table_covers :
  map snd request_table = all_operations /\ length request_table = 6%nat.
Proof. exact request_table_covers. Qed.
Print Assumptions C04_request_table_covers.

Theorem C04_ack_table_keys : NoDup (map fst ack_table).
Proof. exact ack_table_keys_nodup. Qed.
Print Assumptions C04_ack_table_keys.

Theorem C04_ack_table_vals : NoDup (map snd ack_table).
Proof. exact ack_table_vals_nodup. Qed.
Print Assumptions C04_ack_table_vals.

Theorem C04_ack_table_covers :
  map snd ack_table = all_operations /\ length ack_table = 6%nat.
Proof. exact ack_table_covers. Qed.
Print Assumptions C04_ack_table_covers.

Theorem C04_all_operations_complete : forall o, In o all_operations.
Proof. exact all_operations_complete. Qed.
Print Assumptions C04_all_operations_complete.

Theorem C04_state_code_lookup : forall s, lookup (state_code s) state_table = Some s.
Proof. exact state_code_lookup. Qed.
Print Assumptions C04_state_code_lookup.

Theorem C04_request_code_lookup : forall o, lookup (request_code o) request_table = Some o.
Proof. exact request_code_lookup. Qed.
Print Assumptions C04_request_code_lookup.

Theorem C04_ack_code_lookup : forall o, lookup (ack_code o) ack_table = Some o.
Proof. exact ack_code_lookup. Qed.
Print Assumptions C04_ack_code_lookup.
