(* C13 — the virtual sign implements the documented sign-side protocol state machine
   (spec/SignSpec.v). *)
From Flipdot Require Import Tactics.
From Flipdot Require Import Base Message Page SignType VSign CodeTable SignSpec VSignP.
Local Open Scope N_scope.

(* ---------------------------------------------------------------------------------------- *)
(* Examples *)

(* The legality table has 2 + 7 + 1 + 1 + 13 + 1 = 25 legal (operation, state) pairs of 78. *)
Example C13_ex_table_size :
  length (filter (fun os => legal (fst os) (snd os)) (list_prod all_operations all_states))
  = 25%nat
  /\ length (list_prod all_operations all_states) = 78%nat.
Proof. vm_compute. split; reflexivity. Qed.

(* A whole manual-flip session of sign 3, with a foreign request and an illegal request in the
   middle: replies and final state of the model, and the same history as a spec trace. *)
Definition C13_ex_h : list msg :=
  [Hello 3; RequestOperation 3 ReceiveConfig; SendData 0 (st_to_bytes Max3000Side90x7);
   DataChunksSent 1; QueryState 3;
   RequestOperation 5 ReceivePixels;       (* for another sign *)
   RequestOperation 3 ShowLoadedPage;      (* illegal in ConfigReceived *)
   RequestOperation 3 ReceivePixels; SendData 0 (repeatN 0 96); DataChunksSent 1;
   PixelsComplete 3; QueryState 3; RequestOperation 3 ShowLoadedPage; QueryState 3;
   QueryState 3; RequestOperation 3 LoadNextPage; QueryState 3; QueryState 3;
   RequestOperation 3 StartReset; RequestOperation 3 FinishReset; QueryState 3].

Example C13_ex_run :
  vrun (vinit 3 Manual) C13_ex_h
  = Some (vinit 3 Manual,
          [Some (ReportState 3 Unconfigured); Some (AckOperation 3 ReceiveConfig); None; None;
           Some (ReportState 3 ConfigReceived); None; None;
           Some (AckOperation 3 ReceivePixels); None; None; None;
           Some (ReportState 3 PageLoaded); Some (AckOperation 3 ShowLoadedPage);
           Some (ReportState 3 PageShowInProgress); Some (ReportState 3 PageShown);
           Some (AckOperation 3 LoadNextPage);
           Some (ReportState 3 PageLoadInProgress); Some (ReportState 3 PageLoaded);
           Some (AckOperation 3 StartReset); Some (AckOperation 3 FinishReset);
           Some (ReportState 3 Unconfigured)]).
Proof. vm_compute. reflexivity. Qed.

(* An automatic-flip sign goes to ShowingPages instead. *)
Example C13_ex_auto :
  option_map (fun '(s, rs) => (v_state s, length (v_pages s)))
    (vrun (vinit 3 Automatic)
       [RequestOperation 3 ReceiveConfig; SendData 0 (st_to_bytes Max3000Side90x7);
        DataChunksSent 1; RequestOperation 3 ReceivePixels;
        SendData 0 (repeatN 0 96); SendData 0 (repeatN 255 96); DataChunksSent 2;
        PixelsComplete 3])
  = Some (ShowingPages, 2%nat).
Proof. vm_compute. reflexivity. Qed.

(* ---------------------------------------------------------------------------------------- *)
(* The table, read as a match (documentation of [legal]). *)
Theorem C13_legal_table : forall o st,
  legal o st =
  match o, st with
  | ReceiveConfig, (Unconfigured | ConfigFailed) => true
  | ReceivePixels, (ConfigReceived | PixelsFailed | PageLoaded | PageLoadInProgress
                    | PageShown | PageShowInProgress | ShowingPages) => true
  | ShowLoadedPage, PageLoaded => true
  | LoadNextPage, PageShown => true
  | StartReset, _ => true
  | FinishReset, ReadyToReset => true
  | _, _ => false
  end.
Proof. exact legal_cases. Qed.
Print Assumptions C13_legal_table.

(* Every step: the reply and the next reported state are those of the specification. *)
Theorem C13_reply : forall s m s' r,
  vstep s m = Some (s', r) -> r = spec_reply (v_state s) (v_addr s) m.
Proof. exact vstep_reply. Qed.
Print Assumptions C13_reply.

Theorem C13_state : forall s m s' r,
  vstep s m = Some (s', r) ->
  v_state s' = spec_state (v_style s) (v_state s)
                 (v_chunks s =? match m with DataChunksSent n => n | _ => 0 end) (v_addr s) m.
Proof. exact vstep_state. Qed.
Print Assumptions C13_state.

Theorem C13_addr_style : forall s m s' r,
  vstep s m = Some (s', r) -> v_addr s' = v_addr s /\ v_style s' = v_style s.
Proof. exact vstep_addr_style. Qed.
Print Assumptions C13_addr_style.

(* Every history: replies and final state form a trace of the specified machine. *)
Theorem C13_refines : forall s h s' rs,
  vrun s h = Some (s', rs) ->
  spec_trace (v_style s) (v_addr s) (v_state s) h rs (v_state s').
Proof. exact vrun_refines_sh. Qed.
Print Assumptions C13_refines.

Theorem C13_illegal_silent : forall s o,
  legal o (v_state s) = false -> vstep s (RequestOperation (v_addr s) o) = Some (s, None).
Proof. exact illegal_silent. Qed.
Print Assumptions C13_illegal_silent.

Theorem C13_legal_ack : forall s o,
  legal o (v_state s) = true ->
  exists s', vstep s (RequestOperation (v_addr s) o)
             = Some (s', Some (AckOperation (v_addr s) o))
             /\ v_state s' = after_ack o.
Proof. exact legal_ack. Qed.
Print Assumptions C13_legal_ack.

Theorem C13_foreign_ignored : forall s m a',
  msg_target m = Some a' -> a' <> v_addr s -> vstep s m = Some (s, None).
Proof. exact foreign_ignored. Qed.
Print Assumptions C13_foreign_ignored.

Theorem C13_not_for_signs : forall s m,
  not_for_signs m = true (* m is a ReportState, an AckOperation or an Unknown frame *) ->
  vstep s m = Some (s, None).
Proof. exact not_for_signs_ignored. Qed.
Print Assumptions C13_not_for_signs.

Theorem C13_reset : forall s,
  v_state s = ReadyToReset ->
  vstep s (RequestOperation (v_addr s) FinishReset)
  = Some (vinit (v_addr s) (v_style s), Some (AckOperation (v_addr s) FinishReset)).
Proof. exact finish_reset. Qed.
Print Assumptions C13_reset.

Theorem C13_goodbye : forall s,
  vstep s (Goodbye (v_addr s)) = Some (vinit (v_addr s) (v_style s), None).
Proof. exact goodbye_resets. Qed.
Print Assumptions C13_goodbye.

(* Data plane of reachable states: stored pages are complete pages of the configured size;
   buffer and counter are clear outside the receiving / resetting states. *)
Theorem C13_pages_complete : forall a fs h s' rs,
  vrun (vinit a fs) h = Some (s', rs) ->
  Forall (fun p => p_w p = v_w s' /\ p_h p = v_h s'
                   /\ nlen (p_bytes p) = total_bytes (v_w s') (v_h s')) (v_pages s')
  /\ (v_state s' <> ConfigInProgress -> v_state s' <> PixelsInProgress ->
      v_state s' <> ReadyToReset -> v_pending s' = [] /\ v_chunks s' = 0).
Proof. exact reachable_pages_complete. Qed.
Print Assumptions C13_pages_complete.

(* Chunks are assembled in arrival order.  [l] is a list of (offset, data) chunks, all at
   non-zero offsets: their data is appended in order, the chunk counter advances by their
   number (mod 2^16), nothing else changes, nothing is replied. *)
Theorem C13_chunks_in_order : forall l s,
  v_state s = PixelsInProgress -> v_chunks s < 65536 ->
  Forall (fun od => fst od <> 0) l ->
  vrun s (map (fun od => SendData (fst od) (snd od)) l) =
  Some ({| v_addr := v_addr s; v_style := v_style s; v_state := v_state s;
           v_pages := v_pages s; v_pending := v_pending s ++ concat (map snd l);
           v_chunks := (v_chunks s + nlen l) mod 65536; v_w := v_w s; v_h := v_h s;
           v_type := v_type s |}, repeat None (length l)).
Proof. exact chunks_in_order. Qed.
Print Assumptions C13_chunks_in_order.

(* A chunk at offset 0 starts a new page: the old buffer is flushed first. *)
Theorem C13_chunk_at_zero : forall s d,
  v_state s = PixelsInProgress ->
  exists s', vstep s (SendData 0 d) = Some (s', None)
    /\ v_pending s' = d /\ v_chunks s' = (v_chunks s + 1) mod 65536
    /\ v_state s' = v_state s /\ v_w s' = v_w s /\ v_h s' = v_h s /\ v_type s' = v_type s
    /\ v_addr s' = v_addr s /\ v_style s' = v_style s
    /\ ((0 < v_w s /\ 0 < v_h s /\ nlen (v_pending s) = total_bytes (v_w s) (v_h s)) ->
        v_pages s' = v_pages s ++ [{| p_w := v_w s; p_h := v_h s; p_bytes := v_pending s |}])
    /\ (~ (0 < v_w s /\ 0 < v_h s /\ nlen (v_pending s) = total_bytes (v_w s) (v_h s)) ->
        v_pages s' = v_pages s).
Proof. exact chunk_at_zero. Qed.
Print Assumptions C13_chunk_at_zero.

(* The chunk count flushes the last buffer the same way and clears the counter. *)
Theorem C13_count_flushes : forall s n,
  v_state s = PixelsInProgress ->
  exists s', vstep s (DataChunksSent n) = Some (s', None)
    /\ v_pending s' = [] /\ v_chunks s' = 0
    /\ v_w s' = v_w s /\ v_h s' = v_h s /\ v_type s' = v_type s
    /\ v_addr s' = v_addr s /\ v_style s' = v_style s
    /\ ((0 < v_w s /\ 0 < v_h s /\ nlen (v_pending s) = total_bytes (v_w s) (v_h s)) ->
        v_pages s' = v_pages s ++ [{| p_w := v_w s; p_h := v_h s; p_bytes := v_pending s |}])
    /\ (~ (0 < v_w s /\ 0 < v_h s /\ nlen (v_pending s) = total_bytes (v_w s) (v_h s)) ->
        v_pages s' = v_pages s).
Proof. exact count_flushes. Qed.
Print Assumptions C13_count_flushes.
