(* C05 — every specific message survives the trip through its wire frame; the trip is injective.
   The codec premise of MessageP's section lemmas is discharged with FrameP's round-trip lemma
   (property C01). *)
From Flipdot Require Import Tactics.
From Flipdot Require Import Frame Message MessageP FrameP.
Local Open Scope N_scope.

(* The two messages the pinned Rust code lost (repair F1), with and without CR LF. *)
Example C05_ex_senddata_1 :
  wire_trip true (SendData 16 [7]) = Some (SendData 16 [7])
  /\ wire_trip false (SendData 16 [7]) = Some (SendData 16 [7]).
Proof. split; vm_compute; reflexivity. Qed.
Example C05_ex_senddata_0 :
  wire_trip true (SendData 16 []) = Some (SendData 16 [])
  /\ wire_trip false (SendData 16 []) = Some (SendData 16 []).
Proof. split; vm_compute; reflexivity. Qed.
(* The hypotheses are satisfiable by non-trivial values. *)
Example C05_ex_hyps :
  specific (ReportState 65535 PageShown) /\ wf_msg (ReportState 65535 PageShown)
  /\ specific (SendData 32 (repeat 255 255)) /\ wf_msg (SendData 32 (repeat 255 255)).
Proof. repeat split; vm_compute; reflexivity. Qed.

(* wf_msg (the ranges of the Rust field types) cannot be dropped from C05_roundtrip: outside
   them the wire truncates. *)
Example C05_ex_wf_needed :
  wire_trip false (SendData 65536 []) = Some (SendData 0 [])
  /\ wire_trip true (SendData 0 (repeat 0 256)) = None.
Proof. split; vm_compute; reflexivity. Qed.

(* Strongest form: no well-formedness needed for the conversion pair itself. *)
Theorem C05_msg_frame_msg : forall m, specific m -> msg_of_frame (frame_of_msg m) = m.
Proof. exact msg_frame_msg. Qed.
Print Assumptions C05_msg_frame_msg.

Theorem C05_roundtrip :
  forall m nl, specific m -> wf_msg m -> wire_trip nl m = Some m.
Proof. exact (wire_trip_roundtrip C01_roundtrip). Qed.
Print Assumptions C05_roundtrip.

Theorem C05_injective :
  forall m1 m2,
    specific m1 -> specific m2 -> wf_msg m1 -> wf_msg m2 ->
    (encode (frame_of_msg m1) = encode (frame_of_msg m2)
     \/ encode_nl (frame_of_msg m1) = encode_nl (frame_of_msg m2)) ->
    m1 = m2.
Proof. exact (wire_injective C01_roundtrip). Qed.
Print Assumptions C05_injective.
