(* C01 — the frame wire codec round-trips every frame in the documented Intel-HEX shape. *)
From Flipdot Require Import Tactics Base Hex Frame WireSpec FrameP.
Local Open Scope N_scope.

(* The documentation's frame ":02000201031FD9": length 2, address 0x0002, type 1,
   data 03 1F, checksum D9. *)
Example doc_frame_wf : wf_frame {| f_addr := 2; f_type := 1; f_data := [3; 31] |}.
Proof. vm_compute. reflexivity. Qed.

Example doc_frame_encode :
  encode {| f_addr := 2; f_type := 1; f_data := [3; 31] |}
  = [58; 48;50; 48;48; 48;50; 48;49; 48;51; 49;70; 68;57].
Proof. vm_compute. reflexivity. Qed.

Example doc_frame_encode_nl :
  encode_nl {| f_addr := 2; f_type := 1; f_data := [3; 31] |}
  = [58; 48;50; 48;48; 48;50; 48;49; 48;51; 49;70; 68;57; 13; 10].
Proof. vm_compute. reflexivity. Qed.

(* A frame with a 16-bit address, maximal type and 255 data bytes is well formed and round-trips. *)
Example big_frame_roundtrip :
  let f := {| f_addr := 65535; f_type := 255; f_data := repeat 255 255 |} in
  wf_frame f /\ decode (encode f) = Ok f /\ nlen (encode f) = 521.
Proof. vm_compute. auto. Qed.

Example too_long_rejected : data_try_new (repeat 0 256) = Err (DataTooLong 256).
Proof. vm_compute. reflexivity. Qed.

Theorem C01_hexdigit_table :
  forall n, n < 16 ->
  nth (N.to_nat n) [48;49;50;51;52;53;54;55;56;57;65;66;67;68;69;70] 0 = hexdigit n.
Proof. exact FrameP.C01_hexdigit_table. Qed.
Print Assumptions C01_hexdigit_table.

Theorem C01_shape :
  forall f, wf_frame f ->
  encode f = 58 :: hex (fields f ++ [checksum (payload f)])
  /\ Forall (fun c => is_upper_hex c = true) (tl (encode f))
  /\ encode_nl f = encode f ++ [13; 10]
  /\ payload f = fields f.
Proof. exact FrameP.C01_shape. Qed.
Print Assumptions C01_shape.

Theorem C01_sum_zero :
  forall f, wf_frame f ->
  lrc_ok (payload f ++ [checksum (payload f)])
  /\ bytesb (payload f ++ [checksum (payload f)]) = true.
Proof. exact FrameP.C01_sum_zero. Qed.
Print Assumptions C01_sum_zero.

Theorem C01_roundtrip :
  forall f, wf_frame f -> decode (encode f) = Ok f /\ decode (encode_nl f) = Ok f.
Proof. exact FrameP.C01_roundtrip. Qed.
Print Assumptions C01_roundtrip.

Theorem C01_no_truncation :
  forall l,
  (data_try_new l = Ok l <-> nlen l <= 255)
  /\ (forall d, data_try_new l = Ok d -> d = l)
  /\ (255 < nlen l -> data_try_new l = Err (DataTooLong (nlen l))).
Proof. exact FrameP.C01_no_truncation. Qed.
Print Assumptions C01_no_truncation.

(* The constructor's decision depends on the length alone, for blocks of any size (the correspondence asks the
   implementation about 2^32-byte blocks and the model about their length). *)
Theorem C01_no_truncation_by_length :
  (forall l, data_try_new l = match data_try_new_len (nlen l) with
                              | Some n => Err (DataTooLong n)
                              | None => Ok l
                              end)
  /\ (forall n, (data_try_new_len n = None <-> n <= 255) /\ (255 < n -> data_try_new_len n = Some n)).
Proof. exact (conj FrameP.data_try_new_by_len FrameP.data_try_new_len_spec). Qed.
Print Assumptions C01_no_truncation_by_length.

Theorem C01_length_byte :
  forall f, wf_frame f -> hd_error (payload f) = Some (nlen (f_data f)).
Proof. exact FrameP.C01_length_byte. Qed.
Print Assumptions C01_length_byte.

Theorem C01_encode_inj :
  forall f g, wf_frame f -> wf_frame g ->
  (encode f = encode g \/ encode_nl f = encode_nl g) -> f = g.
Proof. exact FrameP.C01_encode_inj. Qed.
Print Assumptions C01_encode_inj.

Theorem C01_documented :
  forall f, wf_frame f -> Documented (encode f) f /\ Documented (encode_nl f) f.
Proof. exact FrameP.C01_documented. Qed.
Print Assumptions C01_documented.
