(* CodeTable.v — the protocol code table, transcribed from the protocol documentation
   (property C04's statement), independent of the match arms of the model. *)
From Flipdot Require Import Base Frame Message.
Local Open Scope N_scope.

Definition state_table : list (N * state) :=
  [ (15, Unconfigured); (13, ConfigInProgress); (7, ConfigReceived); (12, ConfigFailed);
    (3, PixelsInProgress); (1, PixelsReceived); (11, PixelsFailed); (16, PageLoaded);
    (19, PageLoadInProgress); (18, PageShown); (17, PageShowInProgress); (0, ShowingPages);
    (8, ReadyToReset) ].

Definition request_table : list (N * operation) :=
  [ (161, ReceiveConfig); (162, ReceivePixels); (169, ShowLoadedPage); (170, LoadNextPage);
    (166, StartReset); (167, FinishReset) ].

Definition ack_table : list (N * operation) :=
  [ (149, ReceiveConfig); (145, ReceivePixels); (150, ShowLoadedPage); (151, LoadNextPage);
    (147, StartReset); (148, FinishReset) ].

Fixpoint lookup {A : Type} (k : N) (l : list (N * A)) : option A :=
  match l with
  | [] => None
  | (k', v) :: t => if k =? k' then Some v else lookup k t
  end.

(* The message a frame stands for according to the table; None = not in the table. *)
Definition table_msg (f : frame) : option msg :=
  let a := f_addr f in
  let t := f_type f in
  if t =? 0 then Some (SendData a (f_data f))                       (* data chunk: type 0 *)
  else match f_data f with
       | [] => if t =? 1 then Some (DataChunksSent a) else None    (* chunk count: type 1, empty *)
       | [b] =>
           if t =? 2 then
             (if b =? 255 then Some (Hello a)
              else if b =? 0 then Some (QueryState a)
              else if b =? 85 then Some (Goodbye a) else None)
           else if t =? 3 then option_map (RequestOperation a) (lookup b request_table)
           else if t =? 5 then option_map (AckOperation a) (lookup b ack_table)
           else if t =? 4 then option_map (ReportState a) (lookup b state_table)
           else if t =? 6 then (if b =? 0 then Some (PixelsComplete a) else None)
           else None
       | _ => None
       end.

(* The same table as a proposition on (type, length, first byte). *)
Definition recognised (f : frame) : Prop :=
  f_type f = 0
  \/ (f_type f = 1 /\ f_data f = [])
  \/ (f_type f = 2 /\ exists b, f_data f = [b] /\ In b [255; 0; 85])
  \/ (f_type f = 3 /\ exists b, f_data f = [b] /\ In b (map fst request_table))
  \/ (f_type f = 5 /\ exists b, f_data f = [b] /\ In b (map fst ack_table))
  \/ (f_type f = 4 /\ exists b, f_data f = [b] /\ In b (map fst state_table))
  \/ (f_type f = 6 /\ f_data f = [0]).

(* The address / offset / count field of a message. *)
Definition msg_addr (m : msg) : N :=
  match m with
  | SendData a _ | DataChunksSent a | Hello a | QueryState a | ReportState a _
  | RequestOperation a _ | AckOperation a _ | PixelsComplete a | Goodbye a => a
  | Unknown f => f_addr f
  end.
