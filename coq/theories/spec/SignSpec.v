(* SignSpec.v — the documented sign-side protocol state machine, written as tables and small
   total functions, independently of the match arms of the virtual-sign model (VSign.v).
   Only the control plane is specified here: which requests a sign acknowledges, what it
   reports, and how its reported state moves.  The data plane (buffers, pages, sizes) is
   covered by separate theorems in props/C13.v. *)
From Flipdot Require Import Base Message VSign.
Local Open Scope N_scope.

(* ---------------------------------------------------------------------------------------- *)
(* 1. Which operation may be requested in which state (6 rows x 13 states).                  *)

Definition legal_table : list (operation * list state) :=
  [ (ReceiveConfig,  [Unconfigured; ConfigFailed]);
    (ReceivePixels,  [ConfigReceived; PixelsFailed; PageLoaded; PageLoadInProgress;
                      PageShown; PageShowInProgress; ShowingPages]);
    (ShowLoadedPage, [PageLoaded]);
    (LoadNextPage,   [PageShown]);
    (StartReset,     all_states);
    (FinishReset,    [ReadyToReset]) ].

Definition legal (o : operation) (st : state) : bool :=
  existsb (fun row => operation_eqb o (fst row) && existsb (state_eqb st) (snd row))
          legal_table.

(* ---------------------------------------------------------------------------------------- *)
(* 2. Where each event leads.                                                                *)

(* An acknowledged operation. *)
Definition after_ack (o : operation) : state :=
  match o with
  | ReceiveConfig  => ConfigInProgress
  | ReceivePixels  => PixelsInProgress
  | ShowLoadedPage => PageShowInProgress
  | LoadNextPage   => PageLoadInProgress
  | StartReset     => ReadyToReset
  | FinishReset    => Unconfigured
  end.

(* A state report: the two page-flip "in progress" states complete once reported. *)
Definition after_report (st : state) : state :=
  match st with
  | PageLoadInProgress => PageLoaded
  | PageShowInProgress => PageShown
  | _ => st
  end.

(* The controller announces its chunk count; [matches] = it equals the sign's own count. *)
Definition after_count (st : state) (matches : bool) : state :=
  match st with
  | ConfigInProgress => if matches then ConfigReceived else ConfigFailed
  | PixelsInProgress => if matches then PixelsReceived else PixelsFailed
  | _ => st
  end.

(* The controller announces that all pages have been sent. *)
Definition after_complete (fs : flip_style) (st : state) : state :=
  match st with
  | PixelsReceived => match fs with Automatic => ShowingPages | Manual => PageLoaded end
  | _ => st
  end.

(* ---------------------------------------------------------------------------------------- *)
(* 3. Addressing: the sign a message is meant for.  Data chunks and chunk counts carry an
      offset / a count in the address field and are meant for whoever is receiving. *)

Definition msg_target (m : msg) : option N :=
  match m with
  | Hello a | QueryState a | RequestOperation a _ | PixelsComplete a | Goodbye a => Some a
  | SendData _ _ | DataChunksSent _ => None
  | ReportState _ _ | AckOperation _ _ | Unknown _ => None    (* not meant for any sign *)
  end.

(* Kinds a sign never reacts to: the replies of other signs, and unrecognised frames. *)
Definition not_for_signs (m : msg) : bool :=
  match m with
  | ReportState _ _ | AckOperation _ _ | Unknown _ => true
  | _ => false
  end.

(* ---------------------------------------------------------------------------------------- *)
(* 4. One observable step of a sign with address [own] whose reported state is [st]. *)

(* What it answers. *)
Definition spec_reply (st : state) (own : N) (m : msg) : option msg :=
  match m with
  | Hello a | QueryState a => if a =? own then Some (ReportState own st) else None
  | RequestOperation a o => if (a =? own) && legal o st then Some (AckOperation own o) else None
  | _ => None
  end.

(* Its next reported state.  [matches] is only looked at for DataChunksSent. *)
Definition spec_state (fs : flip_style) (st : state) (matches : bool) (own : N) (m : msg)
  : state :=
  match m with
  | Hello a | QueryState a => if a =? own then after_report st else st
  | RequestOperation a o   => if (a =? own) && legal o st then after_ack o else st
  | DataChunksSent _       => after_count st matches
  | PixelsComplete a       => if a =? own then after_complete fs st else st
  | Goodbye a              => if a =? own then Unconfigured else st
  | _                      => st
  end.

(* ---------------------------------------------------------------------------------------- *)
(* 5. Histories.  [spec_trace fs own st h rs st']: starting in state [st], the history [h]
      can produce the replies [rs] and end in [st'].  The only freedom is the outcome of
      each chunk-count comparison, which depends on the data plane. *)

Inductive spec_trace (fs : flip_style) (own : N)
  : state -> list msg -> list (option msg) -> state -> Prop :=
| spec_trace_nil : forall st, spec_trace fs own st [] [] st
| spec_trace_cons : forall st m matches h rs st',
    spec_trace fs own (spec_state fs st matches own m) h rs st' ->
    spec_trace fs own st (m :: h) (spec_reply st own m :: rs) st'.
