(* Bitmap.v — the abstract view of a page: a w x h array of booleans with point update and
   constant fill, plus the operation language used by the refinement theorem of C06. *)
From Flipdot Require Import Base Page.
Local Open Scope N_scope.

Definition bitmap : Type := N -> N -> bool.

Inductive pop : Type :=
| PSet (x y : N) (v : bool)
| PAll (v : bool).

(* Abstract semantics: an out-of-bounds set changes nothing (the implementation panics
   before touching anything). *)
Definition bm_apply (w h : N) (b : bitmap) (o : pop) : bitmap :=
  match o with
  | PSet x y v =>
      if (x <? w) && (y <? h)
      then fun x' y' => if (x' =? x) && (y' =? y) then v else b x' y'
      else b
  | PAll v => fun _ _ => v
  end.

(* Concrete semantics on the page model: a panicking operation leaves the page as it was. *)
Definition page_apply (p : page) (o : pop) : page :=
  match o with
  | PSet x y v => match set_pixel p x y v with Some p' => p' | None => p end
  | PAll v => match set_all_pixels p v with Some p' => p' | None => p end
  end.

(* Abstraction: the pixel array a page shows (false outside the bounds). *)
Definition abs_page (p : page) : bitmap :=
  fun x y => match get_pixel p x y with Some b => b | None => false end.

(* Everything about a page that pixel operations must not change. *)
Definition same_frame (p q : page) : Prop :=
  p_w q = p_w p /\ p_h q = p_h p
  /\ length (p_bytes q) = length (p_bytes p)
  /\ firstn 4 (p_bytes q) = firstn 4 (p_bytes p)
  /\ skipn (N.to_nat (data_bytes (p_w p) (p_h p))) (p_bytes q)
     = skipn (N.to_nat (data_bytes (p_w p) (p_h p))) (p_bytes p).
