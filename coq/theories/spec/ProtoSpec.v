(* ProtoSpec.v — what the documentation of `Sign` (src/sign.rs doc comments) says each controller
   operation does on the bus, for EVERY possible sequence of replies.  Definitions only.

   Written from the protocol description, not from the model's programs: replies are classified
   by explicit patterns, straight-line stretches are data (lists of "send this, the reply must be
   of that class"), the chunking of a data item is a closed formula, the retry rule is stated in
   the order of the documentation, and the page-flip polling loop is a two-state machine that
   reads the script directly (no fuel).

   A run against a script (the i-th message sent is answered by the i-th reply) yields
     (messages sent in order, outcome, replies not yet read)
   with outcome  Done v | ProtoErr (UnexpectedResponse) | BusFailed | Blocked (script ran out).
   [Crashed] is never produced here. *)
From Flipdot Require Import Base Message Page SignType VSign Controller.
Local Open Scope N_scope.

(* ------------------------------------------------------------------ *)
(* 1. Reply classes                                                    *)

Definition same_state (x y : state) : bool :=
  match x, y with
  | Unconfigured, Unconfigured | ConfigInProgress, ConfigInProgress
  | ConfigReceived, ConfigReceived | ConfigFailed, ConfigFailed
  | PixelsInProgress, PixelsInProgress | PixelsReceived, PixelsReceived
  | PixelsFailed, PixelsFailed | PageLoaded, PageLoaded
  | PageLoadInProgress, PageLoadInProgress | PageShown, PageShown
  | PageShowInProgress, PageShowInProgress | ShowingPages, ShowingPages
  | ReadyToReset, ReadyToReset => true
  | _, _ => false
  end.

Definition same_operation (x y : operation) : bool :=
  match x, y with
  | ReceiveConfig, ReceiveConfig | ReceivePixels, ReceivePixels
  | ShowLoadedPage, ShowLoadedPage | LoadNextPage, LoadNextPage
  | StartReset, StartReset | FinishReset, FinishReset => true
  | _, _ => false
  end.

(* no reply at all *)
Definition is_none (r : option msg) : bool :=
  match r with None => true | Some _ => false end.

(* the sign at address [a] reports state [st] *)
Definition is_own_report (a : N) (st : state) (r : option msg) : bool :=
  match r with
  | Some (ReportState a' st') => (a' =? a) && same_state st' st
  | _ => false
  end.

(* the sign at address [a] acknowledges operation [op] *)
Definition is_own_ack (a : N) (op : operation) (r : option msg) : bool :=
  match r with
  | Some (AckOperation a' op') => (a' =? a) && same_operation op' op
  | _ => false
  end.

(* ------------------------------------------------------------------ *)
(* 2. Runs                                                             *)

Definition run (A : Type) : Type := (list msg * outcome A * list reply)%type.

(* Send one message and read its reply. *)
Definition ask (m : msg) (script : list reply) : run (option msg) :=
  match script with
  | [] => ([m], Blocked, [])
  | BusErr :: rest => ([m], BusFailed, rest)
  | Rep r :: rest => ([m], Done r, rest)
  end.

(* Sequencing: continue on the unread replies only after [Done]; anything else is final. *)
Definition and_then {A B : Type} (x : run A) (f : A -> list reply -> run B) : run B :=
  match x with
  | (tr, Done a, rest) => let '(tr', o, rest') := f a rest in (tr ++ tr', o, rest')
  | (tr, ProtoErr, rest) => (tr, ProtoErr, rest)
  | (tr, BusFailed, rest) => (tr, BusFailed, rest)
  | (tr, Crashed, rest) => (tr, Crashed, rest)
  | (tr, Blocked, rest) => (tr, Blocked, rest)
  end.

Local Notation "'let*' ( r , s ) := x 'in' y" := (and_then x (fun r s => y))
  (at level 200, x at level 100, r name, s name, right associativity).

Definition finish {A : Type} (v : A) (script : list reply) : run A := ([], Done v, script).
Definition reject {A : Type} (script : list reply) : run A := ([], ProtoErr, script).

(* A straight-line conversation: send each message in turn; its reply must be of the given class.
   Stops at the first reply that is not (ProtoErr), at a bus error, or when the script runs out. *)
Definition conv : Type := list (msg * (option msg -> bool)).

Fixpoint expect_seq (c : conv) (script : list reply) : run unit :=
  match c with
  | [] => finish tt script
  | (m, ok) :: c' =>
      let* (r, script) := ask m script in
      if ok r then expect_seq c' script else reject script
  end.

(* ------------------------------------------------------------------ *)
(* 3. Data transfer (send_data): request, 16-byte chunks, count, query, up to 3 attempts *)

(* the i-th 16-byte slice of an item; an item of n bytes has ceil(n/16) of them *)
Definition slice (item : list N) (i : nat) : list N := firstn 16 (skipn (16 * i)%nat item).
Definition n_slices (item : list N) : nat := Nat.div (length item + 15) 16.

(* offsets restart at 0 for every item and are sent as u16 *)
Definition item_msgs (item : list N) : list msg :=
  map (fun i => SendData ((16 * N.of_nat i) mod 65536) (slice item i)) (seq 0 (n_slices item)).

Definition data_msgs (items : list (list N)) : list msg := concat (map item_msgs items).

(* the chunk counter is a u16 (the Rust panics beyond it in the debug profile) *)
Definition chunk_guard (items : list (list N)) : Prop :=
  N.of_nat (length (data_msgs items)) < 65536.

(* one attempt, up to and including the count *)
Definition attempt_conv (a : N) (op : operation) (items : list (list N)) : conv :=
  (RequestOperation a op, is_own_ack a op)
  :: map (fun m => (m, is_none)) (data_msgs items)
  ++ [(DataChunksSent (N.of_nat (length (data_msgs items))), is_none)].

(* then the query decides: success -> done; failure and attempts left -> again; else error *)
Fixpoint transfer_from (retries_left : nat) (a : N) (op : operation) (items : list (list N))
         (success failure : state) (script : list reply) : run unit :=
  let* (_, script) := expect_seq (attempt_conv a op items) script in
  let* (r, script) := ask (QueryState a) script in
  if is_own_report a success r then finish tt script
  else if is_own_report a failure r then
    match retries_left with
    | S n => transfer_from n a op items success failure script
    | O => reject script
    end
  else reject script.

Definition max_attempts : nat := 3.
Definition spec_transfer := transfer_from (max_attempts - 1).

(* ------------------------------------------------------------------ *)
(* 4. The six operations                                               *)

(* configure, first part: bring the sign to Unconfigured *)
Definition finish_reset (a : N) : conv :=
  [ (RequestOperation a FinishReset, is_own_ack a FinishReset);
    (Hello a, is_own_report a Unconfigured) ].
Definition full_reset (a : N) : conv :=
  [ (RequestOperation a StartReset, is_own_ack a StartReset);
    (Hello a, is_own_report a ReadyToReset) ] ++ finish_reset a.

Definition reset_conv (a : N) (hello_reply : option msg) : conv :=
  if is_own_report a Unconfigured hello_reply then []
  else if is_own_report a ReadyToReset hello_reply then finish_reset a
  else full_reset a.

Definition spec_reset (a : N) (script : list reply) : run unit :=
  let* (r, script) := ask (Hello a) script in
  expect_seq (reset_conv a r) script.

(* configure: reset, then transfer the one 16-byte configuration block of the sign type *)
Definition spec_configure (a : N) (t : sign_type) (script : list reply) : run unit :=
  let* (_, script) := spec_reset a script in
  spec_transfer a ReceiveConfig [st_to_bytes t] ConfigReceived ConfigFailed script.

(* configure_if_needed *)
Definition ready_states : list state :=
  [ConfigReceived; ShowingPages; PageLoaded; PageShowInProgress; PageShown; PageLoadInProgress].

Definition spec_configure_if_needed (a : N) (t : sign_type) (script : list reply) : run unit :=
  let* (r, script) := ask (Hello a) script in
  if existsb (fun st => is_own_report a st r) ready_states then finish tt script
  else spec_configure a t script.

(* send_pages *)
Definition spec_send_pages (a : N) (pages : list page) (script : list reply) : run flip_style :=
  let* (_, script) :=
    spec_transfer a ReceivePixels (map p_bytes pages) PixelsReceived PixelsFailed script in
  let* (_, script) := expect_seq [(PixelsComplete a, is_none)] script in
  let* (r, script) := ask (QueryState a) script in
  finish (if is_own_report a ShowingPages r then Automatic else Manual) script.

(* load_next_page / show_loaded_page: a two-state machine.  In [Polling] it sends QueryState, in
   [Requesting] it sends the request; each state reads exactly one reply. *)
Inductive poll_state : Type := Polling | Requesting.

Fixpoint spec_switch (a : N) (target trigger : state) (op : operation)
         (st : poll_state) (script : list reply) : run unit :=
  let m := match st with Polling => QueryState a | Requesting => RequestOperation a op end in
  match script with
  | [] => ([m], Blocked, [])
  | BusErr :: rest => ([m], BusFailed, rest)
  | Rep r :: rest =>
      let goto st' :=
        let '(tr, o, rest') := spec_switch a target trigger op st' rest in (m :: tr, o, rest') in
      match st with
      | Polling =>
          if is_own_report a ShowingPages r || is_own_report a target r then ([m], Done tt, rest)
          else if is_own_report a trigger r then goto Requesting
          else if is_own_report a PageLoadInProgress r || is_own_report a PageShowInProgress r
               then goto Polling
          else ([m], ProtoErr, rest)
      | Requesting =>
          if is_own_ack a op r then goto Polling else ([m], ProtoErr, rest)
      end
  end.

Definition spec_load_next_page (a : N) : list reply -> run unit :=
  spec_switch a PageLoaded PageShown LoadNextPage Polling.
Definition spec_show_loaded_page (a : N) : list reply -> run unit :=
  spec_switch a PageShown PageLoaded ShowLoadedPage Polling.

(* shut_down *)
Definition spec_shut_down (a : N) (script : list reply) : run unit :=
  expect_seq [(Goodbye a, is_none)] script.

(* ------------------------------------------------------------------ *)
(* 5. All together                                                     *)

Inductive cop : Type :=
| OpConfigure (a : N) (t : sign_type)
| OpConfigureIfNeeded (a : N) (t : sign_type)
| OpSendPages (a : N) (pages : list page)
| OpLoadNextPage (a : N)
| OpShowLoadedPage (a : N)
| OpShutDown (a : N).

Definition result_type (op : cop) : Type :=
  match op with OpSendPages _ _ => flip_style | _ => unit end.

Definition guard (op : cop) : Prop :=
  match op with OpSendPages _ pages => chunk_guard (map p_bytes pages) | _ => True end.

Definition spec_run_rest (op : cop) : list reply -> run (result_type op) :=
  match op with
  | OpConfigure a t => spec_configure a t
  | OpConfigureIfNeeded a t => spec_configure_if_needed a t
  | OpSendPages a pages => spec_send_pages a pages
  | OpLoadNextPage a => spec_load_next_page a
  | OpShowLoadedPage a => spec_show_loaded_page a
  | OpShutDown a => spec_shut_down a
  end.

Definition spec_run (op : cop) (script : list reply) : list msg * outcome (result_type op) :=
  fst (spec_run_rest op script).

(* The model program the specification is about ([fuel] only matters to the polling loop). *)
Definition model_of (op : cop) (fuel : nat) : prog (result_type op) :=
  match op with
  | OpConfigure a t => configure a t
  | OpConfigureIfNeeded a t => configure_if_needed a t
  | OpSendPages a pages => send_pages a pages
  | OpLoadNextPage a => load_next_page fuel a
  | OpShowLoadedPage a => show_loaded_page fuel a
  | OpShutDown a => shut_down a
  end.
