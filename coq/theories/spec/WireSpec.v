(* WireSpec.v — the documented wire language of a frame, stated declaratively and
   independently of the decoder model:  ':' + hex pairs (either case) of
   length, address (big-endian), type, data, checksum  + optional single CRLF, nothing else. *)
From Flipdot Require Import Base Hex Frame.
Local Open Scope N_scope.

(* Sum of bytes mod 256 is zero: the LRC condition of the documentation. *)
Definition lrc_ok (bs : list N) : Prop := sumN bs mod 256 = 0.

(* The numeric fields of a frame as the documentation lists them. *)
Definition fields (f : frame) : list N :=
  [nlen (f_data f); f_addr f / 256; f_addr f mod 256; f_type f] ++ f_data f.

(* [text] is the text between ':' and the optional terminator. *)
Definition hex_text_of (text : list N) (bs : list N) : Prop := map upper text = hex bs.

(* s is a documented encoding of f. *)
Definition Documented (s : list N) (f : frame) : Prop :=
  exists text term ck,
    s = 58 :: text ++ term
    /\ (term = [] \/ term = [13; 10])
    /\ hex_text_of text (fields f ++ [ck])
    /\ ck < 256
    /\ lrc_ok (fields f ++ [ck])
    /\ wf_frame f.

(* s has the documented textual form at all (whatever its numbers say). *)
Definition WellFormedText (s : list N) (bs : list N) : Prop :=
  exists text term,
    s = 58 :: text ++ term
    /\ (term = [] \/ term = [13; 10])
    /\ unhex text = Some bs
    /\ 5 <= nlen bs.

Definition is_upper_hex (c : N) : bool :=
  ((48 <=? c) && (c <=? 57)) || ((65 <=? c) && (c <=? 70)).
