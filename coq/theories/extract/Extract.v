(* Extract.v — extraction of the executable model to OCaml for the correspondence oracle.
   Only ExtrOcamlBasic is used: bool/option/unit/list/prod/sumbool/sumor map to OCaml's own
   types, andb/orb are inlined; nat, positive and N stay extracted inductives. *)
From Coq Require Extraction.
From Coq Require Import ExtrOcamlBasic.
From Flipdot Require Import Base Hex Frame Message SignType Page VSign Controller Io Serial Port.

Extraction Language OCaml.
Extraction "model.ml"
  nlen data_try_new data_try_new_len encode encode_nl decode checksum payload
  msg_of_frame frame_of_msg msg_eqb wf_msgb wf_frameb
  all_sign_types dimensions st_to_bytes st_from_bytes
  page_new page_from_bytes page_eqb page_id get_pixel set_pixel set_all_pixels wf_pageb total_bytes data_bytes bpc set_pixel_byte_view zero_bytes_view
  vinit vstep vrun bus_step bus_run
  configure configure_if_needed send_pages load_next_page show_loaded_page shut_down create_page sign_width sign_height send_pages_with cop_prog send_pages_gen send_pages_then_panic catch catch_all prelude bind
  run_script run_bus run_cops_script chunks16
  frame_read frame_write serial_process serial_run serial_trace write_gaps odk_process odk_step_replied odk_run wire_step run_wire wire_step_s run_wire_s
  configure_port serial_bus_try_new odk_try_new.
