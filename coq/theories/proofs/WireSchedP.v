(* WireSchedP.v — the serial path is transparent however the byte streams fragment their reads and
   writes and however often they report Interrupted (C15 composed with C17): as long as no stream use
   fails hard, a bus call over the scheduled wire is exactly the bus call over the plain wire, and so
   every controller program behaves as in C17_simulation_strict. *)
From Flipdot Require Import Tactics.
From Flipdot Require Import Base Frame Message Page SignType VSign Controller Io Serial FrameP IoP WireP.
Local Open Scope N_scope.

Definition clean_w (l : list wr_ev) : Prop := forall ev, In ev l -> ev <> WFail /\ ev <> WZero.
Definition clean_r (l : list rd_ev) : Prop := ~ In RFail l.
Definition clean (s : wsched) : Prop :=
  clean_w (ws_cw s) /\ clean_r (ws_br s) /\ clean_w (ws_bw s) /\ clean_r (ws_cr s).

Lemma clean_no_sched : clean no_sched.
Proof.
  unfold clean, clean_w, clean_r, no_sched. cbn [ws_cw ws_br ws_bw ws_cr].
  split; [intros ev []|]. split; [intros []|]. split; [intros ev []|intros []].
Qed.

(* Frame::read: the result and what is left depend on the content only. *)
Lemma frame_read_sched_indep content s1 s2 : clean_r s1 -> clean_r s2 ->
  exists res r1 r2,
    frame_read {| r_content := content; r_sched := s1 |} = Some (res, r1)
    /\ frame_read {| r_content := content; r_sched := s2 |} = Some (res, r2)
    /\ r_content r1 = r_content r2.
Proof.
  intros H1 H2.
  destruct (C15_read_exact content s1 H1) as (r1 & E1 & C1 & _).
  destruct (C15_read_exact content s2 H2) as (r2 & E2 & C2 & _).
  eexists _, r1, r2. split; [exact E1|]. split; [exact E2|]. congruence.
Qed.

(* Frame::write into an empty sink: everything is delivered, whatever the schedule. *)
Lemma frame_write_sched_indep f s : clean_w s ->
  exists w', frame_write f {| w_out := []; w_sched := s |} = Some (Ok tt, w')
             /\ w_out w' = encode_nl f.
Proof.
  intros H. destruct (C15_write_all f [] s H) as (w' & E & O). exists w'. split; [exact E|exact O].
Qed.

(* The bridge: same verdict, same bus, same forwarded message, same bytes written back. *)
Lemma odk_sched_indep content b rs ws : clean_r rs -> clean_w ws ->
  exists res op1 op2 b' fwd,
    odk_process {| pt_in := {| r_content := content; r_sched := rs |};
                   pt_out := {| w_out := []; w_sched := ws |} |} b = Some (res, op1, b', fwd)
    /\ odk_process {| pt_in := pipe_reader content; pt_out := pipe_writer |} b = Some (res, op2, b', fwd)
    /\ w_out (pt_out op1) = w_out (pt_out op2).
Proof.
  intros Hr Hw. unfold odk_process. cbn [pt_in pt_out].
  assert (Hc0 : clean_r []) by (intros []).
  destruct (frame_read_sched_indep content rs [] Hr Hc0) as (res & r1 & r2 & E1 & E2 & _).
  unfold pipe_reader. rewrite E1, E2.
  destruct res as [f|e].
  - destruct (bus_step b (msg_of_frame f)) as [[b' [reply|]]|].
    + destruct (frame_write_sched_indep (frame_of_msg reply) ws Hw) as (w1 & F1 & O1).
      assert (Hw0 : clean_w []) by (intros ev []).
      destruct (frame_write_sched_indep (frame_of_msg reply) [] Hw0) as (w2 & F2 & O2).
      unfold pipe_writer. rewrite F1, F2.
      eexists _, _, _, _, _. split; [reflexivity|]. split; [reflexivity|]. cbn [pt_out]. congruence.
    + eexists _, _, _, _, _. split; [reflexivity|]. split; [reflexivity|]. reflexivity.
    + eexists _, _, _, _, _. split; [reflexivity|]. split; [reflexivity|]. reflexivity.
  - eexists _, _, _, _, _. split; [reflexivity|]. split; [reflexivity|]. reflexivity.
Qed.

(* One bus call. *)
Theorem wire_step_sched_indep w m s : clean s -> wire_step_s w m s = wire_step w m.
Proof.
  intros (Hcw & Hbr & Hbw & Hcr). unfold wire_step_s, wire_step.
  destruct (frame_write_sched_indep (frame_of_msg m) (ws_cw s) Hcw) as (cw & Fw & Ow).
  rewrite Fw, Ow.
  destruct (odk_sched_indep (encode_nl (frame_of_msg m)) (wr_bus w) (ws_br s) (ws_bw s) Hbr Hbw)
    as (res & op1 & op2 & b' & fwd & O1 & O2 & Oout).
  rewrite O1, O2.
  assert (Hc0 : clean_r []) by (intros []).
  destruct res as [[]|[e|]]; try reflexivity.
  - rewrite Oout. destruct (response_expected m); [|reflexivity].
    destruct (frame_read_sched_indep (wr_inbox w ++ w_out (pt_out op2)) (ws_cr s) [] Hcr Hc0)
      as (r & r1 & r2 & E1 & E2 & Ec).
    unfold pipe_reader. rewrite E1, E2. destruct r; rewrite Ec; reflexivity.
  - rewrite Oout. destruct (response_expected m); [|reflexivity].
    destruct (frame_read_sched_indep (wr_inbox w ++ w_out (pt_out op2)) (ws_cr s) [] Hcr Hc0)
      as (r & r1 & r2 & E1 & E2 & Ec).
    unfold pipe_reader. rewrite E1, E2. destruct r; rewrite Ec; reflexivity.
Qed.

(* Every program. *)
Theorem run_wire_sched_indep : forall A (p : prog A) w ss,
  Forall clean ss -> run_wire_s p w ss = run_wire p w.
Proof.
  intros A p. induction p as [a| | |m k IH]; intros w ss Hss; cbn [run_wire_s run_wire]; try reflexivity.
  assert (Hs : clean (match ss with [] => no_sched | s :: _ => s end)).
  { destruct ss as [|s ss']; [exact clean_no_sched|]. inversion Hss; assumption. }
  rewrite (wire_step_sched_indep w m _ Hs).
  destruct (wire_step w m) as [[w' [| |r]]|]; try reflexivity.
  apply IH. destruct ss as [|s ss']; [constructor|]. inversion Hss; assumption.
Qed.

(* With C17_simulation_strict: over fragmenting, interrupted (but not failing) streams the controller
   behaves exactly as on the strict direct bus, and nothing is left in its receive pipe. *)
Theorem simulation_fragmented : forall A (p : prog A) b ss,
  wf_prog p -> Forall (fun s => v_addr s < 65536) b -> Forall clean ss ->
  run_wire_s p {| wr_bus := b; wr_inbox := [] |} ss
  = Some (let (b', o) := run_bus_strict p b in ({| wr_bus := b'; wr_inbox := [] |}, o)).
Proof.
  intros A p b ss Hwf Hb Hss. rewrite (run_wire_sched_indep A p _ ss Hss).
  apply C17_simulation_strict; assumption.
Qed.

(* ------------------------------------------------------------------------- *)
(** * The bridge in front of any bus *)

(* Over a bus of virtual signs the abstract bridge is Odk::process_message. *)
Lemma odk_process_replied p b m b' r f rd :
  frame_read (pt_in p) = Some (Ok f, rd) -> msg_of_frame f = m -> bus_step b m = Some (b', r) ->
  odk_process p b
  = match odk_step_replied p (fun _ => r) with
    | Some (res, p', fwd) => Some (res, p', b', fwd)
    | None => None
    end.
Proof.
  intros Hr Hm Hb. unfold odk_process, odk_step_replied. rewrite Hr, Hm, Hb.
  destruct r as [rm|]; [|reflexivity].
  destruct (frame_write (frame_of_msg rm) (pt_out p)) as [[[|e] w']|]; reflexivity.
Qed.

(* Forwarding and writing back, for any bus: a decodable line is forwarded; a frame is written back exactly when
   the bus answered (whatever kind of message it answered to), and then it is that answer's frame. *)
Theorem bridge_any_bus p reply f rd :
  frame_read (pt_in p) = Some (Ok f, rd) ->
  clean_w (w_sched (pt_out p)) ->
  exists p',
    odk_step_replied p reply = Some (Ok tt, p', Some (msg_of_frame f))
    /\ pt_in p' = rd
    /\ w_out (pt_out p')
       = w_out (pt_out p) ++ match reply (msg_of_frame f) with
                             | Some rm => encode_nl (frame_of_msg rm)
                             | None => []
                             end.
Proof.
  intros Hr Hc. unfold odk_step_replied. rewrite Hr.
  destruct (reply (msg_of_frame f)) as [rm|].
  - destruct (pt_out p) as [o s] eqn:Ep. cbn [w_sched] in Hc.
    destruct (C15_write_all (frame_of_msg rm) o s Hc) as (w' & Hw & Ho).
    rewrite Hw. eexists. split; [reflexivity|]. split; [reflexivity|]. cbn [pt_out w_out]. exact Ho.
  - eexists. split; [reflexivity|]. split; [reflexivity|]. rewrite app_nil_r. reflexivity.
Qed.

(* An undecodable line: a communication error, nothing forwarded, nothing written -- for any bus. *)
Theorem bridge_bad_line_any_bus p reply e rd :
  frame_read (pt_in p) = Some (Err e, rd) ->
  odk_step_replied p reply = Some (Err (OComm e), {| pt_in := rd; pt_out := pt_out p |}, None).
Proof. intros Hr. unfold odk_step_replied. rewrite Hr. reflexivity. Qed.

(* ---------- the bridge serving a whole stream of requests ---------- *)
Definition answers_written (answers : list (option msg)) : list N :=
  concat (map (fun a => match a with Some rm => encode_nl (frame_of_msg rm) | None => [] end) answers).

Lemma clean_w_skipn j l : clean_w l -> clean_w (skipn j l).
Proof. intros H ev Hin. apply H. exact (In_skipn _ _ _ Hin). Qed.
Lemma clean_r_skipn j l : clean_r l -> clean_r (skipn j l).
Proof. intros H Hin. apply H. exact (In_skipn _ _ _ Hin). Qed.

(* Well-formed request frames back to back on the line, any fragmentation and interruptions, a bus that answers as
   scripted: every request is forwarded, in order, as the message its frame stands for; what is written back is exactly
   the frames of the answers given, in order, nothing for the silent ones; the bytes after the last request stay unread. *)
Theorem bridge_conversation : forall fs answers trailing out ws rs,
  length fs = length answers -> Forall wf_frame fs -> clean_w ws -> clean_r rs ->
  exists p',
    odk_run {| pt_in := {| r_content := concat (map encode_nl fs) ++ trailing; r_sched := rs |};
               pt_out := {| w_out := out; w_sched := ws |} |} answers
    = Some (map (fun f => (Ok tt, Some (msg_of_frame f))) fs, p')
    /\ w_out (pt_out p') = out ++ answers_written answers
    /\ r_content (pt_in p') = trailing.
Proof.
  induction fs as [|f fs IH]; intros answers trailing out ws rs Hlen Hwf Hw Hr.
  - destruct answers; [|discriminate]. eexists. split; [reflexivity|]. cbn. rewrite app_nil_r. auto.
  - destruct answers as [|a answers]; [discriminate|]. injection Hlen as Hlen.
    inversion Hwf as [|f0 fs0 Hf Hfs]; subst f0 fs0.
    cbn [map concat odk_run]. rewrite <- app_assoc.
    destruct (C15_read_exact (encode_nl f ++ concat (map encode_nl fs) ++ trailing) rs Hr) as (r1 & Hread & Hc & i & Hi).
    rewrite first_line_encode_nl in Hread, Hc. cbn [fst snd] in Hread, Hc.
    destruct (C01_roundtrip f Hf) as [_ Hdec]. rewrite Hdec in Hread.
    unfold odk_step_replied. cbn [pt_in pt_out]. rewrite Hread.
    destruct r1 as [c1 s1]. cbn [r_content r_sched] in Hc, Hi. subst c1 s1.
    destruct a as [rm|].
    + destruct (frame_write (frame_of_msg rm) {| w_out := out; w_sched := ws |}) as [[wres w']|] eqn:Ew;
        [|exfalso; exact (proj2 C15_fuel_enough _ _ Ew)].
      pose proof (C15_write_cases _ _ _ _ Ew) as [[j Hj] Hcase]. cbn [w_sched w_out] in Hj, Hcase.
      destruct Hcase as [[-> Ho]|(_ & [Hbad|Hbad] & _)];
        [|exfalso; destruct (Hw _ Hbad) as [H1 _]; congruence|exfalso; destruct (Hw _ Hbad) as [_ H2]; congruence].
      destruct w' as [o' s']. cbn [w_out w_sched] in Ho, Hj. subst o' s'.
      destruct (IH answers trailing (out ++ encode_nl (frame_of_msg rm)) (skipn j ws) (skipn i rs) Hlen Hfs
                   (clean_w_skipn j ws Hw) (clean_r_skipn i rs Hr)) as (p' & Hrun & Hout & Hin).
      rewrite Hrun. exists p'. split; [reflexivity|]. split; [|exact Hin].
      rewrite Hout. unfold answers_written. cbn [map concat]. now rewrite app_assoc.
    + destruct (IH answers trailing out ws (skipn i rs) Hlen Hfs Hw (clean_r_skipn i rs Hr)) as (p' & Hrun & Hout & Hin).
      rewrite Hrun. exists p'. split; [reflexivity|]. split; [|exact Hin].
      rewrite Hout. reflexivity.
Qed.

(* ---------- a whole conversation carried over the wire ---------- *)
From Flipdot Require Import MessageP SerialP.

Definition reply_frames (answers : list (option msg)) : list (option frame) := map (option_map frame_of_msg) answers.

Lemma conv_tape_combine : forall ms answers, length ms = length answers ->
  conv_tape (combine ms (reply_frames answers)) = answers_written answers.
Proof.
  induction ms as [|m ms IH]; intros [|a answers] Hlen; try discriminate; [reflexivity|].
  injection Hlen as Hlen. cbn [reply_frames map combine]. fold (reply_frames answers).
  destruct a as [r|]; cbn [option_map].
  - rewrite conv_tape_some. unfold answers_written. cbn [map concat]. fold (answers_written answers).
    now rewrite (IH answers Hlen).
  - rewrite conv_tape_none. unfold answers_written. cbn [map concat app]. fold (answers_written answers).
    exact (IH answers Hlen).
Qed.

Lemma conv_sent_combine : forall ms fs, length ms = length fs ->
  conv_sent (combine ms fs) = concat (map sent ms).
Proof.
  induction ms as [|m ms IH]; intros [|f fs] Hlen; try discriminate; [reflexivity|].
  injection Hlen as Hlen. cbn [combine]. rewrite conv_sent_cons. cbn [map concat]. now rewrite (IH fs Hlen).
Qed.

Lemma map_fst_combine {A B} : forall (l : list A) (l' : list B), length l = length l' -> map fst (combine l l') = l.
Proof.
  induction l as [|x l IH]; intros [|y l'] H; try discriminate; [reflexivity|].
  injection H as H. cbn [combine map fst]. now rewrite (IH l' H).
Qed.

(* The controller's side says [ms], one after the other; the far side's bus answers [answers] (an answer exactly for the
   messages that expect one).  Then, whatever the four byte streams do short of failing: the bridge forwards exactly [ms], in
   order; it writes back exactly the answers' frames; and the controller's calls return exactly [answers], in order. *)
Theorem wire_conversation : forall ms answers ws1 rs1 ws2 rs2,
  Forall2 (fun m a => specific m /\ wf_msg m
                      /\ match a with
                         | Some r => response_expected m = true /\ specific r /\ wf_msg r
                         | None => response_expected m = false
                         end) ms answers ->
  clean_w ws1 -> clean_r rs1 -> clean_w ws2 -> clean_r rs2 ->
  exists pb pc,
    (* the bridge, reading what the controller wrote *)
    odk_run {| pt_in := {| r_content := concat (map sent ms); r_sched := rs2 |};
               pt_out := {| w_out := []; w_sched := ws2 |} |} answers
    = Some (map (fun m => (Ok tt, Some m)) ms, pb)
    /\ w_out (pt_out pb) = answers_written answers
    /\ r_content (pt_in pb) = []
    (* the controller's serial bus, reading what the bridge wrote *)
    /\ serial_run ms {| pt_in := {| r_content := w_out (pt_out pb); r_sched := rs1 |};
                        pt_out := {| w_out := []; w_sched := ws1 |} |}
       = Some (map (fun a => Ok a) answers, pc)
    /\ w_out (pt_out pc) = concat (map sent ms)
    /\ r_content (pt_in pc) = [].
Proof.
  intros ms answers ws1 rs1 ws2 rs2 F Hw1 Hr1 Hw2 Hr2.
  assert (Hlen : length ms = length answers).
  { clear -F. induction F; cbn; congruence. }
  (* the bridge *)
  destruct (bridge_conversation (map frame_of_msg ms) answers [] [] ws2 rs2) as (pb & Hb & Hbo & Hbi).
  { now rewrite map_length. }
  { clear -F. induction F as [|m a ms answers (_ & Hwf & _) F IH]; constructor; [apply wf_frame_of_msg; exact Hwf|exact IH]. }
  { exact Hw2. } { exact Hr2. }
  rewrite app_nil_r, map_map in Hb. unfold sent.
  assert (Hfw : map (fun x : msg => (Ok tt : result oerr unit, Some (msg_of_frame (frame_of_msg x)))) ms
                = map (fun m => (Ok tt, Some m)) ms).
  { clear -F. induction F as [|m a ms answers (Hs & _ & _) F IH]; cbn [map]; [reflexivity|].
    rewrite (msg_frame_msg m Hs), IH. reflexivity. }
  rewrite map_map in Hb. rewrite Hfw in Hb.
  exists pb. cbn [app] in Hbo.
  (* the controller's bus *)
  pose (conv := combine ms (reply_frames answers)).
  assert (Hlf : length ms = length (reply_frames answers)) by (unfold reply_frames; now rewrite map_length).
  destruct (serial_conversation conv [] [] ws1 rs1 Hw1 Hr1) as (pc & Hc & Hco & Hci).
  { subst conv. clear -F. unfold reply_frames.
    induction F as [|m a ms answers (_ & _ & Ha) F IH]; cbn [map combine]; constructor; [|exact IH].
    unfold conv_ok. cbn [fst snd]. destruct a as [r|]; cbn [option_map].
    - destruct Ha as (He & _ & Hwr). split; [exact He|apply wf_frame_of_msg; exact Hwr].
    - exact Ha. }
  subst conv. rewrite (map_fst_combine _ _ Hlf), app_nil_r, (conv_tape_combine _ _ Hlen) in Hc.
  rewrite (conv_sent_combine _ _ Hlf) in Hco. cbn [app] in Hco.
  assert (Hres : conv_results (combine ms (reply_frames answers)) = map (fun a => Ok a) answers).
  { clear -F. unfold conv_results, reply_frames.
    induction F as [|m a ms answers (_ & _ & Ha) F IH]; cbn [map combine]; [reflexivity|].
    cbn [snd]. rewrite IH. destruct a as [r|]; cbn [option_map]; [|reflexivity].
    destruct Ha as (_ & Hs & _). now rewrite (msg_frame_msg r Hs). }
  rewrite Hres in Hc.
  exists pc. rewrite Hbo. repeat split; assumption.
Qed.
