(* Corruption.v — property C02: corrupted wire frames are rejected, never decoded as a
   different frame.  Self-contained (does not depend on FrameP.v). *)
From Flipdot Require Import Tactics.
From Flipdot Require Import Frame.
Local Open Scope N_scope.

(* ------------------------------------------------------------------------------------ *)
(** * 1. The corruption model *)

Inductive corruption :=
| Subst (i : nat) (c : N)
| Delete (i : nat)
| Dup (i : nat)
| Swap (i : nat)
| Trunc (k : nat).

Definition corrupt (c : corruption) (s : list N) : option (list N) :=
  match c with
  | Subst i x =>
      match nth_error s i with
      | Some _ => Some (firstn i s ++ x :: skipn (S i) s)
      | None => None
      end
  | Delete i =>
      match nth_error s i with
      | Some _ => Some (firstn i s ++ skipn (S i) s)
      | None => None
      end
  | Dup i =>
      match nth_error s i with
      | Some x => Some (firstn i s ++ x :: x :: skipn (S i) s)
      | None => None
      end
  | Swap i =>
      match nth_error s i, nth_error s (S i) with
      | Some x, Some y =>
          if x =? y then None else Some (firstn i s ++ y :: x :: skipn (S (S i)) s)
      | _, _ => None
      end
  | Trunc k => if (k <? length s)%nat then Some (firstn k s) else None
  end.

(** ** Characterisations of [corrupt] by list decompositions *)

Lemma split_at {A} (a : list A) (x : A) (b : list A) :
  nth_error (a ++ x :: b) (length a) = Some x /\
  firstn (length a) (a ++ x :: b) = a /\
  skipn (S (length a)) (a ++ x :: b) = b.
Proof.
  induction a as [|h a IH]; cbn [app length nth_error firstn skipn].
  - auto.
  - destruct IH as (H1 & H2 & H3). rewrite H2. auto.
Qed.

Lemma split_at2 {A} (a : list A) (x y : A) (b : list A) :
  nth_error (a ++ x :: y :: b) (S (length a)) = Some y /\
  skipn (S (S (length a))) (a ++ x :: y :: b) = b.
Proof.
  induction a as [|h a IH]; cbn [app length nth_error skipn].
  - auto.
  - exact IH.
Qed.

Lemma nth_split {A} (s : list A) (i : nat) (x : A) :
  nth_error s i = Some x -> exists a b, s = a ++ x :: b /\ length a = i.
Proof. apply nth_error_split. Qed.

Lemma some_inj {A} (a b : A) : Some a = Some b -> a = b.
Proof. congruence. Qed.

Lemma corrupt_subst_iff i c s s' :
  corrupt (Subst i c) s = Some s' <->
  exists a x b, s = a ++ x :: b /\ length a = i /\ s' = a ++ c :: b.
Proof.
  split.
  - cbv beta iota delta [corrupt]. destruct (nth_error s i) as [x|] eqn:E; [|discriminate].
    intros H; apply some_inj in H; subst s'.
    destruct (nth_split _ _ _ E) as (a & b & -> & <-).
    exists a, x, b. destruct (split_at a x b) as (_ & -> & ->). auto.
  - intros (a & x & b & -> & <- & ->). cbv beta iota delta [corrupt].
    destruct (split_at a x b) as (-> & -> & ->). reflexivity.
Qed.

Lemma corrupt_delete_iff i s s' :
  corrupt (Delete i) s = Some s' <->
  exists a x b, s = a ++ x :: b /\ length a = i /\ s' = a ++ b.
Proof.
  split.
  - cbv beta iota delta [corrupt]. destruct (nth_error s i) as [x|] eqn:E; [|discriminate].
    intros H; apply some_inj in H; subst s'.
    destruct (nth_split _ _ _ E) as (a & b & -> & <-).
    exists a, x, b. destruct (split_at a x b) as (_ & -> & ->). auto.
  - intros (a & x & b & -> & <- & ->). cbv beta iota delta [corrupt].
    destruct (split_at a x b) as (-> & -> & ->). reflexivity.
Qed.

Lemma corrupt_dup_iff i s s' :
  corrupt (Dup i) s = Some s' <->
  exists a x b, s = a ++ x :: b /\ length a = i /\ s' = a ++ x :: x :: b.
Proof.
  split.
  - cbv beta iota delta [corrupt]. destruct (nth_error s i) as [x|] eqn:E; [|discriminate].
    intros H; apply some_inj in H; subst s'.
    destruct (nth_split _ _ _ E) as (a & b & -> & <-).
    exists a, x, b. destruct (split_at a x b) as (_ & -> & ->). auto.
  - intros (a & x & b & -> & <- & ->). cbv beta iota delta [corrupt].
    destruct (split_at a x b) as (-> & -> & ->). reflexivity.
Qed.

Lemma corrupt_swap_iff i s s' :
  corrupt (Swap i) s = Some s' <->
  exists a x y b, s = a ++ x :: y :: b /\ length a = i /\ x <> y /\ s' = a ++ y :: x :: b.
Proof.
  split.
  - cbv beta iota delta [corrupt]. destruct (nth_error s i) as [x|] eqn:E; [|discriminate].
    destruct (nth_split _ _ _ E) as (a & b & -> & <-).
    destruct b as [|y b].
    + replace (S (length a)) with (length (a ++ [x])) by (rewrite app_length; cbn; lia).
      rewrite (proj2 (nth_error_None (a ++ [x]) (length (a ++ [x])))) by lia.
      discriminate.
    + destruct (split_at2 a x y b) as (-> & ->).
      destruct (N.eqb_spec x y) as [|Hne]; [discriminate|].
      intros H; apply some_inj in H; subst s'. exists a, x, y, b.
      destruct (split_at a x (y :: b)) as (_ & -> & _). auto.
  - intros (a & x & y & b & -> & <- & Hne & ->). cbv beta iota delta [corrupt].
    destruct (split_at a x (y :: b)) as (-> & -> & _).
    destruct (split_at2 a x y b) as (-> & ->).
    destruct (N.eqb_spec x y); [contradiction|reflexivity].
Qed.

Lemma corrupt_trunc_iff k s s' :
  corrupt (Trunc k) s = Some s' <->
  exists b, s = s' ++ b /\ b <> [] /\ length s' = k.
Proof.
  split.
  - cbv beta iota delta [corrupt]. destruct (Nat.ltb_spec k (length s)) as [Hk|]; [|discriminate].
    intros H; apply some_inj in H; subst s'. exists (skipn k s). split; [|split].
    + symmetry. apply firstn_skipn.
    + intros E. apply (f_equal (@length N)) in E. rewrite skipn_length in E.
      cbn [length] in E. lia.
    + apply firstn_length_le. lia.
  - intros (b & -> & Hb & <-). cbv beta iota delta [corrupt].
    destruct (Nat.ltb_spec (length s') (length (s' ++ b))) as [_|Hk].
    + rewrite firstn_app, firstn_all, Nat.sub_diag. cbn [firstn].
      rewrite app_nil_r. reflexivity.
    + rewrite app_length in Hk. destruct b; [congruence|]. cbn [length] in Hk. lia.
Qed.

(* ------------------------------------------------------------------------------------ *)
(** * 2. Hex digits, digit values and the digit-weighted sum *)

Lemma list_ind2 {A} (P : list A -> Prop) :
  P [] -> (forall x, P [x]) -> (forall x y t, P t -> P (x :: y :: t)) -> forall l, P l.
Proof.
  intros H0 H1 H2 l.
  assert (H : P l /\ forall x, P (x :: l)).
  { induction l as [|y l [IH1 IH2]]; split; auto. }
  apply H.
Qed.

Lemma hexval_lt c v : hexval c = Some v -> v < 16.
Proof.
  unfold hexval. intros H.
  destruct (N.leb_spec 48 c), (N.leb_spec c 57); cbn [andb] in H;
    try (injection H as <-; lia);
    destruct (N.leb_spec 65 c), (N.leb_spec c 70); cbn [andb] in H;
    try (injection H as <-; lia);
    destruct (N.leb_spec 97 c), (N.leb_spec c 102); cbn [andb] in H;
    try (injection H as <-; lia); discriminate.
Qed.

(* Digit value, 0 for a non-digit. *)
Definition hv (c : N) : N := match hexval c with Some v => v | None => 0 end.

Lemma hv_lt c : hv c < 16.
Proof.
  unfold hv. destruct (hexval c) as [v|] eqn:E; [exact (hexval_lt _ _ E)|lia].
Qed.

(* Bytes from digit values, two per byte. *)
Fixpoint pack (vs : list N) : list N :=
  match vs with
  | [] => []
  | a :: b :: t => 16 * a + b :: pack t
  | [a] => [16 * a]
  end.

Lemma unhex_pack t : forall bs, unhex t = Some bs -> bs = pack (map hv t).
Proof.
  induction t as [|x|x y t IH] using list_ind2; intros bs H.
  - cbn in H. injection H as <-. reflexivity.
  - discriminate.
  - cbn [unhex] in H.
    destruct (hexval x) as [a|] eqn:Ex; [|discriminate].
    destruct (hexval y) as [b|] eqn:Ey; [|discriminate].
    destruct (unhex t) as [r|] eqn:Et; [|discriminate].
    injection H as <-. cbn [map pack]. unfold hv at 1 2. rewrite Ex, Ey.
    f_equal. apply IH. reflexivity.
Qed.

Lemma unhex_length t : forall bs, unhex t = Some bs -> length t = (2 * length bs)%nat.
Proof.
  induction t as [|x|x y t IH] using list_ind2; intros bs H.
  - cbn in H. injection H as <-. reflexivity.
  - discriminate.
  - cbn [unhex] in H.
    destruct (hexval x) as [a|]; [|discriminate].
    destruct (hexval y) as [b|]; [|discriminate].
    destruct (unhex t) as [r|] eqn:Et; [|discriminate].
    injection H as <-. cbn [length]. rewrite (IH r eq_refl). lia.
Qed.

Lemma unhex_bytes t : forall bs, unhex t = Some bs -> Forall (fun b => b < 256) bs.
Proof.
  induction t as [|x|x y t IH] using list_ind2; intros bs H.
  - cbn in H. injection H as <-. constructor.
  - discriminate.
  - cbn [unhex] in H.
    destruct (hexval x) as [a|] eqn:Ex; [|discriminate].
    destruct (hexval y) as [b|] eqn:Ey; [|discriminate].
    destruct (unhex t) as [r|] eqn:Et; [|discriminate].
    injection H as <-. constructor; [|apply IH; reflexivity].
    apply hexval_lt in Ex, Ey. lia.
Qed.

Lemma unhex_total t :
  forallb is_xdigit t = true -> forall k, length t = (2 * k)%nat ->
  exists bs, unhex t = Some bs /\ length bs = k.
Proof.
  induction t as [|x|x y t IH] using list_ind2; intros Hx k Hk.
  - exists []. cbn [length] in Hk. split; [reflexivity|cbn [length]; lia].
  - cbn [length] in Hk. lia.
  - cbn [forallb] in Hx. apply andb_prop in Hx as [Hx1 Hx]. apply andb_prop in Hx as [Hx2 Hx].
    cbn [length] in Hk. destruct (IH Hx (k - 1)%nat ltac:(lia)) as (r & Hr & Hl).
    unfold is_xdigit in Hx1, Hx2. cbn [unhex].
    destruct (hexval x) as [a|]; [|discriminate].
    destruct (hexval y) as [b|]; [|discriminate].
    rewrite Hr. eexists. split; [reflexivity|]. cbn [length]. lia.
Qed.

Lemma unhex_app a : forall x, unhex a = Some x -> forall b,
  unhex (a ++ b) = match unhex b with Some y => Some (x ++ y) | None => None end.
Proof.
  induction a as [|c|c d t IH] using list_ind2; intros x H b.
  - cbn in H. injection H as <-. cbn [app]. destruct (unhex b); reflexivity.
  - discriminate.
  - cbn [app]. cbn [unhex] in H |- *.
    destruct (hexval c) as [u|]; [|discriminate].
    destruct (hexval d) as [v|]; [|discriminate].
    destruct (unhex t) as [r|] eqn:Et; [|discriminate].
    injection H as <-. rewrite (IH r eq_refl b). destruct (unhex b); reflexivity.
Qed.

Lemma sumN_cons x l : sumN (x :: l) = x + sumN l.
Proof. reflexivity. Qed.

Lemma sumN_app a b : sumN (a ++ b) = sumN a + sumN b.
Proof.
  induction a as [|x a IH]; cbn [app].
  - change (sumN []) with 0. lia.
  - rewrite !sumN_cons, IH. lia.
Qed.

(* Digit-weighted sum: weights 16, 1, 16, 1, ... starting with 16 when [hi]. *)
Fixpoint ws (hi : bool) (vs : list N) : N :=
  match vs with
  | [] => 0
  | v :: t => (if hi then 16 * v else v) + ws (negb hi) t
  end.

Lemma sum_pack vs : sumN (pack vs) = ws true vs.
Proof.
  induction vs as [|x|x y t IH] using list_ind2.
  - reflexivity.
  - cbn [pack ws negb]. rewrite sumN_cons. reflexivity.
  - cbn [pack ws negb]. rewrite sumN_cons, IH. lia.
Qed.

Lemma ws_app a : forall hi, exists hi', forall r, ws hi (a ++ r) = ws hi a + ws hi' r.
Proof.
  induction a as [|v a IH]; intros hi.
  - exists hi. intros r. cbn [app ws]. lia.
  - destruct (IH (negb hi)) as [hi' H]. exists hi'. intros r.
    cbn [app ws]. rewrite H. lia.
Qed.

(* One digit replaced: if both strings yield bytes summing to 0 mod 256, the bytes agree. *)
Lemma hex_subst a x c t bs0 bs1 :
  unhex (a ++ x :: t) = Some bs0 -> unhex (a ++ c :: t) = Some bs1 ->
  sumN bs0 mod 256 = 0 -> sumN bs1 mod 256 = 0 -> bs0 = bs1.
Proof.
  intros H0 H1 S0 S1. apply unhex_pack in H0, H1. subst bs0 bs1.
  rewrite !map_app in *. cbn [map] in *.
  destruct (N.eq_dec (hv x) (hv c)) as [E|Hne]; [rewrite E; reflexivity|exfalso].
  rewrite !sum_pack in S0, S1.
  destruct (ws_app (map hv a) true) as [hi H]. rewrite !H in S0, S1.
  cbn [ws] in S0, S1. pose proof (hv_lt x). pose proof (hv_lt c).
  destruct hi; lia.
Qed.

(* Two adjacent digits exchanged. *)
Lemma hex_swap a x y t bs0 bs1 :
  unhex (a ++ x :: y :: t) = Some bs0 -> unhex (a ++ y :: x :: t) = Some bs1 ->
  sumN bs0 mod 256 = 0 -> sumN bs1 mod 256 = 0 -> bs0 = bs1.
Proof.
  intros H0 H1 S0 S1. apply unhex_pack in H0, H1. subst bs0 bs1.
  rewrite !map_app in *. cbn [map] in *.
  destruct (N.eq_dec (hv x) (hv y)) as [E|Hne]; [rewrite E; reflexivity|exfalso].
  rewrite !sum_pack in S0, S1.
  destruct (ws_app (map hv a) true) as [hi H]. rewrite !H in S0, S1.
  cbn [ws] in S0, S1. pose proof (hv_lt x). pose proof (hv_lt y).
  destruct hi; cbn [negb] in S0, S1; lia.
Qed.

(* ------------------------------------------------------------------------------------ *)
(** * 3. Shape of accepted strings *)

(* Longest prefix of hex digits, and what follows it. *)
Fixpoint xpre (r : list N) : list N :=
  match r with
  | [] => []
  | x :: t => if is_xdigit x then x :: xpre t else []
  end.

Fixpoint xsuf (r : list N) : list N :=
  match r with
  | [] => []
  | x :: t => if is_xdigit x then xsuf t else r
  end.

Lemma xpre_xsuf r : xpre r ++ xsuf r = r.
Proof.
  induction r as [|x t IH]; cbn [xpre xsuf]; [reflexivity|].
  destruct (is_xdigit x); cbn [app]; [rewrite IH|]; reflexivity.
Qed.

Lemma xspan_all a : forallb is_xdigit a = true -> xpre a = a /\ xsuf a = [].
Proof.
  induction a as [|x a IH]; cbn [forallb xpre xsuf]; [auto|].
  intros H. apply andb_prop in H as [Hx Ha]. rewrite Hx.
  destruct (IH Ha) as [-> ->]. auto.
Qed.

Lemma xspan_app_all a r :
  forallb is_xdigit a = true -> xpre (a ++ r) = a ++ xpre r /\ xsuf (a ++ r) = xsuf r.
Proof.
  induction a as [|x a IH]; cbn [forallb app xpre xsuf]; [auto|].
  intros H. apply andb_prop in H as [Hx Ha]. rewrite Hx.
  destruct (IH Ha) as [-> ->]. auto.
Qed.

Lemma xspan_app_notall a r :
  forallb is_xdigit a = false ->
  xpre (a ++ r) = xpre a /\ xsuf (a ++ r) = xsuf a ++ r /\ xsuf a <> [].
Proof.
  induction a as [|x a IH]; cbn [forallb app xpre xsuf]; [discriminate|].
  destruct (is_xdigit x); cbn [andb]; intros H.
  - destruct (IH H) as (-> & -> & Hn). auto.
  - repeat split. discriminate.
Qed.

Lemma strip_crlf_cases r : strip_crlf r = r \/ r = strip_crlf r ++ [13; 10].
Proof.
  induction r as [|x t IH]; [left; reflexivity|].
  destruct t as [|y [|z u]].
  - left. reflexivity.
  - cbn [strip_crlf].
    destruct (N.eqb_spec x 13) as [->|]; [|left; reflexivity].
    destruct (N.eqb_spec y 10) as [->|]; [|left; reflexivity].
    right. reflexivity.
  - change (strip_crlf (x :: y :: z :: u)) with (x :: strip_crlf (y :: z :: u)).
    destruct IH as [IH|IH].
    + left. f_equal. exact IH.
    + right. cbn [app]. f_equal. exact IH.
Qed.

Lemma strip_crlf_all t : forallb is_xdigit t = true -> strip_crlf t = t.
Proof.
  intros H. destruct (strip_crlf_cases t) as [E|E]; [exact E|exfalso].
  rewrite E, forallb_app in H. apply andb_prop in H as [_ H].
  vm_compute in H. discriminate.
Qed.

Lemma strip_crlf_app t : strip_crlf (t ++ [13; 10]) = t.
Proof.
  induction t as [|x t IH]; [reflexivity|].
  cbn [app]. destruct t as [|y t].
  - reflexivity.
  - cbn [app] in IH |- *. destruct (t ++ [13; 10]) as [|z u] eqn:E.
    + destruct t; discriminate.
    + change (strip_crlf (x :: y :: z :: u)) with (x :: strip_crlf (y :: z :: u)).
      rewrite IH. reflexivity.
Qed.

(* [check] accepts only byte strings laid out as len, addr hi, addr lo, type, data, checksum
   with matching length and checksum. *)
Lemma split_last_some l : forall d c, split_last l = Some (d, c) -> l = d ++ [c].
Proof.
  induction l as [|x t IH]; intros d c H; [discriminate|].
  destruct t as [|y t].
  - cbn in H. injection H as <- <-. reflexivity.
  - change (split_last (x :: y :: t))
      with (match split_last (y :: t) with
            | Some (d, c) => Some (x :: d, c)
            | None => None
            end) in H.
    destruct (split_last (y :: t)) as [[d' c']|]; [|discriminate].
    injection H as <- <-. cbn [app]. f_equal. apply IH. reflexivity.
Qed.

Lemma split_last_app d : forall c, split_last (d ++ [c]) = Some (d, c).
Proof.
  induction d as [|x d IH]; intros c; [reflexivity|].
  cbn [app]. specialize (IH c). destruct (d ++ [c]) as [|y u] eqn:E.
  - destruct d; discriminate.
  - change (split_last (x :: y :: u))
      with (match split_last (y :: u) with
            | Some (d, c) => Some (x :: d, c)
            | None => None
            end).
    rewrite IH. reflexivity.
Qed.

Lemma wsub_add a b : (wsub a b + b) mod 256 = a mod 256.
Proof. unfold wsub. lia. Qed.

Lemma checksum_fold l : forall acc, (fold_left wsub l acc + sumN l) mod 256 = acc mod 256.
Proof.
  induction l as [|b l IH]; intros acc; cbn [fold_left].
  - change (sumN []) with 0. rewrite N.add_0_r. reflexivity.
  - rewrite sumN_cons. specialize (IH (wsub acc b)). pose proof (wsub_add acc b) as W.
    remember (fold_left wsub l (wsub acc b)) as F. remember (wsub acc b) as w.
    remember (sumN l) as S. lia.
Qed.

Lemma checksum_sum l : (sumN l + checksum l) mod 256 = 0.
Proof.
  unfold checksum. pose proof (checksum_fold l 0) as H.
  change (0 mod 256) with 0 in H. rewrite N.add_comm. exact H.
Qed.

Lemma check_inv bs g :
  check bs = Ok g ->
  exists len ah al ty data ck,
    bs = len :: ah :: al :: ty :: data ++ [ck] /\
    nlen data = len /\ nlen data <= 255 /\
    g = {| f_addr := ah * 256 + al; f_type := ty; f_data := data |} /\
    checksum (payload g) = ck.
Proof.
  unfold check.
  destruct bs as [|len [|ah [|al [|ty rest]]]]; try discriminate.
  destruct (split_last rest) as [[data ck]|] eqn:E; [|discriminate].
  apply split_last_some in E. subst rest.
  destruct (N.eqb_spec (nlen data) len) as [Hl|]; [|discriminate].
  unfold data_try_new. destruct (N.ltb_spec 255 (nlen data)) as [|Hd]; [discriminate|].
  cbv zeta.
  destruct (N.eqb_spec
    (checksum (payload {| f_addr := ah * 256 + al; f_type := ty; f_data := data |})) ck)
    as [Hc|]; [|discriminate].
  intros H. injection H as <-. exists len, ah, al, ty, data, ck. auto.
Qed.

Lemma check_facts bs g :
  check bs = Ok g -> Forall (fun b => b < 256) bs ->
  5 <= nlen bs /\ hd 0 bs = nlen bs - 5 /\ sumN bs mod 256 = 0.
Proof.
  intros H B. destruct (check_inv _ _ H) as (len & ah & al & ty & data & ck & -> & Hl & Hd & -> & Hc).
  apply Forall_inv_tail in B. pose proof (Forall_inv B) as Bah. cbv beta in Bah.
  apply Forall_inv_tail in B. pose proof (Forall_inv B) as Bal. cbv beta in Bal. clear B.
  rewrite !nlen_cons, nlen_app. change (nlen [ck]) with 1. cbn [hd].
  split; [lia|]. split; [lia|].
  pose proof (checksum_sum (payload {| f_addr := ah * 256 + al; f_type := ty; f_data := data |})) as C.
  unfold payload in C at 1. cbn [f_addr f_type f_data app] in C.
  rewrite !sumN_cons in C. rewrite !sumN_cons, sumN_app, sumN_cons.
  change (sumN []) with 0.
  remember (checksum _) as K. remember (sumN data) as S. remember (nlen data) as L.
  lia.
Qed.

(* The structure lemma. *)
Lemma decode_nil g : decode [] = Ok g -> False.
Proof. discriminate. Qed.

Lemma decode_cons c r g :
  decode (c :: r) = Ok g ->
  c = 58 /\ (xsuf r = [] \/ xsuf r = [13; 10]) /\
  exists bs, unhex (xpre r) = Some bs /\ strip_crlf r = xpre r /\ check bs = Ok g /\
             5 <= nlen bs /\ hd 0 bs = nlen bs - 5 /\ sumN bs mod 256 = 0.
Proof.
  unfold decode. destruct (N.eqb_spec c 58) as [->|]; [|discriminate].
  cbv zeta. destruct (shape (strip_crlf r)) eqn:Hs; [|discriminate].
  destruct (unhex (strip_crlf r)) as [bs|] eqn:Hu; [|discriminate].
  intros Hc. split; [reflexivity|].
  unfold shape in Hs. apply andb_prop in Hs as [Hs _]. apply andb_prop in Hs as [Hx _].
  assert (X : xpre r = strip_crlf r /\ (xsuf r = [] \/ xsuf r = [13; 10])).
  { destruct (strip_crlf_cases r) as [E|E].
    - rewrite E in *. destruct (xspan_all _ Hx) as [-> ->]. auto.
    - remember (strip_crlf r) as body eqn:Hb. clear Hb. subst r.
      destruct (xspan_app_all body [13; 10] Hx) as [-> ->].
      change (xpre [13; 10]) with (@nil N). change (xsuf [13; 10]) with [13; 10].
      rewrite app_nil_r. auto. }
  destruct X as [X1 X2]. split; [exact X2|]. exists bs. rewrite X1.
  split; [exact Hu|]. split; [reflexivity|]. split; [exact Hc|].
  apply (check_facts bs g); [exact Hc|]. exact (unhex_bytes _ _ Hu).
Qed.

Lemma split_last_total t : forall x, exists d c, split_last (x :: t) = Some (d, c).
Proof.
  induction t as [|y t IH]; intros x.
  - exists [], x. reflexivity.
  - destruct (IH y) as (d & c & E). exists (x :: d), c.
    change (split_last (x :: y :: t))
      with (match split_last (y :: t) with
            | Some (d, c) => Some (x :: d, c)
            | None => None
            end).
    rewrite E. reflexivity.
Qed.

Lemma decode_never_panics s : decode s <> Err FPanic.
Proof.
  destruct s as [|c r]; [discriminate|]. unfold decode.
  destruct (N.eqb_spec c 58) as [_|_]; [|discriminate]. cbv zeta.
  destruct (shape (strip_crlf r)) eqn:Hs; [|discriminate].
  remember (strip_crlf r) as body eqn:Hb. clear Hb.
  unfold shape in Hs. apply andb_prop in Hs as [Hs H10]. apply andb_prop in Hs as [Hx He].
  apply N.even_spec in He as [k Hk].
  destruct (unhex_total body Hx (N.to_nat k)) as (bs & -> & Hl).
  { unfold nlen in Hk. lia. }
  assert (5 <= length bs)%nat as H5 by (unfold nlen in *; lia).
  destruct bs as [|len [|ah [|al [|ty [|d rest]]]]]; cbn [length] in H5; try lia.
  unfold check. destruct (split_last_total rest d) as (data & ck & ->).
  destruct (nlen data =? len); [|discriminate].
  unfold data_try_new. destruct (255 <? nlen data); [discriminate|]. cbv zeta.
  match goal with |- (if ?b then _ else _) <> _ => destruct b; discriminate end.
Qed.

(* ------------------------------------------------------------------------------------ *)
(** * 4. Valid encodings are accepted (round trip) *)

Lemma hexval_hexdigit n : n < 16 -> hexval (hexdigit n) = Some n.
Proof.
  intros Hn.
  assert (F : nrangeb 16 (fun n => option_eqb N.eqb (hexval (hexdigit n)) (Some n)) = true)
    by (vm_compute; reflexivity).
  pose proof (nrangeb_spec _ _ F n Hn) as H. cbv beta in H.
  destruct (hexval (hexdigit n)) as [v|]; [|discriminate].
  cbn [option_eqb] in H. apply N.eqb_eq in H. congruence.
Qed.

Lemma unhex_hex bs : bytesb bs = true -> unhex (hex bs) = Some bs.
Proof.
  unfold bytesb. induction bs as [|b bs IH]; cbn [forallb hex unhex]; [reflexivity|].
  intros H. apply andb_prop in H as [Hb H]. unfold is_u8 in Hb. apply N.ltb_lt in Hb.
  rewrite !hexval_hexdigit by lia. rewrite (IH H). do 2 f_equal. lia.
Qed.

Lemma xdigit_hex bs : bytesb bs = true -> forallb is_xdigit (hex bs) = true.
Proof.
  unfold bytesb. induction bs as [|b bs IH]; cbn [forallb hex]; [reflexivity|].
  intros H. apply andb_prop in H as [Hb H]. unfold is_u8 in Hb. apply N.ltb_lt in Hb.
  unfold is_xdigit at 1 2. rewrite !hexval_hexdigit by lia. rewrite (IH H). reflexivity.
Qed.

Lemma nlen_hex bs : nlen (hex bs) = 2 * nlen bs.
Proof.
  induction bs as [|b bs IH]; cbn [hex]; [reflexivity|].
  rewrite !nlen_cons, IH. lia.
Qed.

Lemma fold_wsub_lt l : forall acc, acc < 256 -> fold_left wsub l acc < 256.
Proof.
  induction l as [|b l IH]; intros acc H; cbn [fold_left]; [exact H|].
  apply IH. unfold wsub. lia.
Qed.

Lemma checksum_lt l : checksum l < 256.
Proof. apply fold_wsub_lt. lia. Qed.

(* The canonical byte string of a frame. *)
Definition cbytes (f : frame) : list N := payload f ++ [checksum (payload f)].

Lemma cbytes_bytes f : wf_frame f -> bytesb (cbytes f) = true.
Proof.
  unfold wf_frame, wf_frameb, cbytes, payload. intros H.
  apply andb_prop in H as [H _]. apply andb_prop in H as [H Hd]. apply andb_prop in H as [_ Ht].
  unfold bytesb in *. rewrite !forallb_app. cbn [forallb]. rewrite Hd, Ht.
  pose proof (checksum_lt ([nlen (f_data f) mod 256; (f_addr f / 256) mod 256;
                            f_addr f mod 256; f_type f] ++ f_data f)) as Hc.
  unfold is_u8. lia.
Qed.

Lemma check_cbytes f : wf_frame f -> check (cbytes f) = Ok f.
Proof.
  unfold wf_frame, wf_frameb, cbytes. intros H.
  apply andb_prop in H as [H Hl]. apply andb_prop in H as [H _]. apply andb_prop in H as [Ha _].
  unfold is_u16 in Ha. apply N.ltb_lt in Ha. apply N.leb_le in Hl.
  remember (checksum (payload f)) as ck eqn:Hck.
  destruct f as [a ty d]. unfold payload in *. cbn [f_addr f_type f_data app] in *.
  unfold check. rewrite split_last_app.
  replace (nlen d mod 256) with (nlen d) in * by lia. rewrite N.eqb_refl.
  unfold data_try_new. destruct (N.ltb_spec 255 (nlen d)); [lia|]. cbv zeta.
  replace ((a / 256) mod 256 * 256 + a mod 256) with a by lia.
  unfold payload. cbn [f_addr f_type f_data app].
  replace (nlen d mod 256) with (nlen d) by lia.
  rewrite <- Hck, N.eqb_refl. reflexivity.
Qed.

Lemma decode_intro text r :
  forallb is_xdigit text = true -> r = text \/ r = text ++ [13; 10] ->
  decode (58 :: r) = decode (58 :: text).
Proof.
  intros Hx Hr. unfold decode.
  replace (strip_crlf r) with (strip_crlf text); [reflexivity|].
  rewrite (strip_crlf_all _ Hx). destruct Hr as [->| ->].
  - symmetry. apply strip_crlf_all. exact Hx.
  - symmetry. apply strip_crlf_app.
Qed.

Lemma decode_encode f : wf_frame f -> decode (encode f) = Ok f.
Proof.
  intros W. unfold encode. fold (cbytes f). unfold decode.
  change (58 =? 58) with true. cbv iota zeta.
  pose proof (cbytes_bytes f W) as B.
  rewrite (strip_crlf_all _ (xdigit_hex _ B)).
  assert (S : shape (hex (cbytes f)) = true).
  { unfold shape. rewrite (xdigit_hex _ B), nlen_hex, N.even_mul.
    change (N.even 2) with true. cbn [andb orb].
    unfold cbytes, payload. rewrite !nlen_app, !nlen_cons, nlen_nil. apply N.leb_le. lia. }
  rewrite S, (unhex_hex _ B). apply check_cbytes. exact W.
Qed.

Lemma decode_encode_nl f : wf_frame f -> decode (encode_nl f) = Ok f.
Proof.
  intros W. rewrite <- (decode_encode f W). unfold encode_nl, encode. fold (cbytes f).
  cbn [app]. apply decode_intro; [|right; reflexivity].
  apply xdigit_hex, cbytes_bytes, W.
Qed.

(* ------------------------------------------------------------------------------------ *)
(** * 5. Each corruption class: an accepted result is the original frame *)

Lemma accepted_odd s g : decode s = Ok g -> exists k, length s = (2 * k + 1)%nat.
Proof.
  destruct s as [|c r]; [discriminate|]. intros H.
  apply decode_cons in H as (_ & T & bs & U & _).
  pose proof (f_equal (@length N) (xpre_xsuf r)) as L. rewrite app_length in L.
  rewrite (unhex_length _ _ U) in L. cbn [length].
  destruct T as [T|T]; rewrite T in L; cbn [length] in L.
  - exists (length bs). lia.
  - exists (S (length bs)). lia.
Qed.

Lemma corruption_delete s f i s' g :
  decode s = Ok f -> corrupt (Delete i) s = Some s' -> decode s' = Ok g -> False.
Proof.
  intros Hs Hc Hs'. apply corrupt_delete_iff in Hc as (a & x & b & -> & _ & ->).
  apply accepted_odd in Hs as [k Hk]. apply accepted_odd in Hs' as [k' Hk'].
  rewrite app_length in *. cbn [length] in *. lia.
Qed.

Lemma corruption_dup s f i s' g :
  decode s = Ok f -> corrupt (Dup i) s = Some s' -> decode s' = Ok g -> False.
Proof.
  intros Hs Hc Hs'. apply corrupt_dup_iff in Hc as (a & x & b & -> & _ & ->).
  apply accepted_odd in Hs as [k Hk]. apply accepted_odd in Hs' as [k' Hk'].
  rewrite app_length in *. cbn [length] in *. lia.
Qed.

Lemma corruption_trunc s f k s' g :
  decode s = Ok f -> corrupt (Trunc k) s = Some s' -> decode s' = Ok g -> g = f.
Proof.
  intros Hs Hc Hs'. apply corrupt_trunc_iff in Hc as (b & -> & Hb & _).
  destruct s' as [|c r']; [discriminate|]. cbn [app] in Hs.
  apply decode_cons in Hs as (_ & T0 & bs0 & U0 & _ & C0 & L0 & D0 & _).
  apply decode_cons in Hs' as (_ & T1 & bs1 & U1 & _ & C1 & L1 & D1 & _).
  destruct (forallb is_xdigit r') eqn:Ha.
  - destruct (xspan_app_all r' b Ha) as [P _]. rewrite P in U0.
    destruct (xspan_all r' Ha) as [P1 _]. rewrite P1 in U1.
    rewrite (unhex_app _ _ U1) in U0.
    destruct (unhex (xpre b)) as [y|]; [|discriminate]. apply some_inj in U0. subst bs0.
    destruct y as [|y0 y].
    + rewrite app_nil_r in C0. congruence.
    + exfalso. destruct bs1 as [|h bs1]; [change (nlen []) with 0 in L1; lia|].
      cbn [app hd] in *. rewrite !nlen_cons, nlen_app, !nlen_cons in *. lia.
  - exfalso. destruct (xspan_app_notall r' b Ha) as (_ & S & Hn). rewrite S in T0.
    destruct T1 as [T1|T1]; [contradiction|]. rewrite T1 in T0. cbn [app] in T0.
    destruct T0 as [T0|T0]; [discriminate|]. injection T0 as T0. contradiction.
Qed.

Lemma corruption_subst s f i c s' g :
  decode s = Ok f -> corrupt (Subst i c) s = Some s' -> decode s' = Ok g -> g = f.
Proof.
  intros Hs Hc Hs'. apply corrupt_subst_iff in Hc as (a & x & b & -> & _ & ->).
  destruct a as [|h a]; cbn [app] in *.
  - pose proof (decode_cons _ _ _ Hs) as (-> & _).
    pose proof (decode_cons _ _ _ Hs') as (-> & _). congruence.
  - pose proof (decode_cons _ _ _ Hs) as (_ & T0 & bs0 & U0 & _ & C0 & _ & _ & S0).
    pose proof (decode_cons _ _ _ Hs') as (_ & T1 & bs1 & U1 & _ & C1 & _ & _ & S1).
    destruct (forallb is_xdigit a) eqn:Ha.
    + destruct (xspan_app_all a (x :: b) Ha) as [P0 Q0].
      destruct (xspan_app_all a (c :: b) Ha) as [P1 Q1].
      rewrite P0 in U0. rewrite Q0 in T0. rewrite P1 in U1. rewrite Q1 in T1.
      cbn [xpre xsuf] in *.
      destruct (is_xdigit x) eqn:Hx, (is_xdigit c) eqn:Hcx.
      * assert (bs0 = bs1) by (eapply hex_subst; eauto). subst bs1. congruence.
      * exfalso. destruct T1 as [T1|T1]; [discriminate|]. injection T1 as -> ->.
        vm_compute in T0. destruct T0; discriminate.
      * exfalso. destruct T0 as [T0|T0]; [discriminate|]. injection T0 as -> ->.
        vm_compute in T1. destruct T1; discriminate.
      * destruct T0 as [T0|T0]; [discriminate|]. injection T0 as -> ->.
        destruct T1 as [T1|T1]; [discriminate|]. injection T1 as ->. congruence.
    + destruct (xspan_app_notall a (x :: b) Ha) as (_ & Q0 & Hn).
      destruct (xspan_app_notall a (c :: b) Ha) as (_ & Q1 & _).
      rewrite Q0 in T0. rewrite Q1 in T1.
      destruct (xsuf a) as [|p [|q u]]; [contradiction| |]; cbn [app] in T0, T1.
      * destruct T0 as [T0|T0]; [discriminate|]. injection T0 as -> -> ->.
        destruct T1 as [T1|T1]; [discriminate|]. injection T1 as ->. congruence.
      * exfalso. destruct T0 as [T0|T0]; [discriminate|]. injection T0 as _ _ T0.
        destruct u; discriminate.
Qed.

Lemma corruption_swap s f i s' g :
  decode s = Ok f -> corrupt (Swap i) s = Some s' -> decode s' = Ok g -> g = f.
Proof.
  intros Hs Hc Hs'. apply corrupt_swap_iff in Hc as (a & x & y & b & -> & _ & Hne & ->).
  destruct a as [|h a]; cbn [app] in *.
  - pose proof (decode_cons _ _ _ Hs) as (-> & _).
    pose proof (decode_cons _ _ _ Hs') as (-> & _). contradiction.
  - pose proof (decode_cons _ _ _ Hs) as (_ & T0 & bs0 & U0 & _ & C0 & _ & _ & S0).
    pose proof (decode_cons _ _ _ Hs') as (_ & T1 & bs1 & U1 & _ & C1 & _ & _ & S1).
    destruct (forallb is_xdigit a) eqn:Ha.
    + destruct (xspan_app_all a (x :: y :: b) Ha) as [P0 Q0].
      destruct (xspan_app_all a (y :: x :: b) Ha) as [P1 Q1].
      rewrite P0 in U0. rewrite Q0 in T0. rewrite P1 in U1. rewrite Q1 in T1.
      cbn [xpre xsuf] in *.
      destruct (is_xdigit x) eqn:Hx, (is_xdigit y) eqn:Hy.
      * assert (bs0 = bs1) by (eapply hex_swap; eauto). subst bs1. congruence.
      * exfalso. destruct T1 as [T1|T1]; [discriminate|]. injection T1 as -> -> ->.
        vm_compute in Hx. discriminate.
      * exfalso. destruct T0 as [T0|T0]; [discriminate|]. injection T0 as -> -> ->.
        vm_compute in Hy. discriminate.
      * exfalso. destruct T0 as [T0|T0]; [discriminate|]. injection T0 as -> -> ->.
        destruct T1 as [T1|T1]; discriminate.
    + exfalso. destruct (xspan_app_notall a (x :: y :: b) Ha) as (_ & Q0 & Hn).
      rewrite Q0 in T0.
      destruct (xsuf a) as [|p [|q u]]; [contradiction| |]; cbn [app] in T0.
      * destruct T0 as [T0|T0]; discriminate.
      * destruct T0 as [T0|T0]; [discriminate|]. injection T0 as _ _ T0.
        destruct u; discriminate.
Qed.

(* ------------------------------------------------------------------------------------ *)
(** * 6. Main theorems *)

(* Any accepted string, corrupted once, is rejected or decodes to the same frame. *)
Theorem corruption_same s f c s' g :
  decode s = Ok f -> corrupt c s = Some s' -> decode s' = Ok g -> g = f.
Proof.
  intros Hs Hc Hs'. destruct c as [i x|i|i|i|k].
  - exact (corruption_subst _ _ _ _ _ _ Hs Hc Hs').
  - destruct (corruption_delete _ _ _ _ _ Hs Hc Hs').
  - destruct (corruption_dup _ _ _ _ _ Hs Hc Hs').
  - exact (corruption_swap _ _ _ _ _ Hs Hc Hs').
  - exact (corruption_trunc _ _ _ _ _ Hs Hc Hs').
Qed.

Theorem corruption_accepted_string s f c s' :
  decode s = Ok f -> corrupt c s = Some s' ->
  (exists e, decode s' = Err e /\ e <> FPanic) \/ decode s' = Ok f.
Proof.
  intros Hs Hc. destruct (decode s') as [g|e] eqn:E.
  - right. f_equal. exact (corruption_same _ _ _ _ _ Hs Hc E).
  - left. exists e. split; [reflexivity|]. intros ->. exact (decode_never_panics _ E).
Qed.

Theorem C02_corruption_proof : forall f s c s',
  wf_frame f -> (s = encode f \/ s = encode_nl f) -> corrupt c s = Some s' ->
  (exists e, decode s' = Err e /\ e <> FPanic) \/ decode s' = Ok f.
Proof.
  intros f s c s' W Hs Hc. apply (corruption_accepted_string s f c s'); [|exact Hc].
  destruct Hs as [->| ->]; [apply decode_encode|apply decode_encode_nl]; exact W.
Qed.

(* Deletions and duplications are always rejected outright. *)
Theorem corruption_delete_dup_rejected s f i s' :
  decode s = Ok f -> (corrupt (Delete i) s = Some s' \/ corrupt (Dup i) s = Some s') ->
  exists e, decode s' = Err e /\ e <> FPanic.
Proof.
  intros Hs Hc. destruct (decode s') as [g|e] eqn:E.
  - exfalso. destruct Hc as [Hc|Hc].
    + exact (corruption_delete _ _ _ _ _ Hs Hc E).
    + exact (corruption_dup _ _ _ _ _ Hs Hc E).
  - exists e. split; [reflexivity|]. intros ->. exact (decode_never_panics _ E).
Qed.

Theorem C02_len_ck_proof : forall s f,
  decode s = Ok f ->
  exists bs, hd_error s = Some 58 /\ unhex (strip_crlf (tl s)) = Some bs /\
             5 <= nlen bs /\ hd 0 bs = nlen bs - 5 /\ sumN bs mod 256 = 0.
Proof.
  intros s f H. destruct s as [|c r]; [discriminate|].
  apply decode_cons in H as (-> & _ & bs & U & E & _ & L & D & S).
  exists bs. cbn [hd_error tl]. rewrite E. auto.
Qed.

(* The same, with the fields spelled out. *)
Theorem C02_fields_proof : forall s f,
  decode s = Ok f ->
  exists len ah al ty data ck,
    hd_error s = Some 58 /\
    unhex (strip_crlf (tl s)) = Some (len :: ah :: al :: ty :: data ++ [ck]) /\
    len = nlen data /\
    ck = checksum (len :: ah :: al :: ty :: data) /\
    f = {| f_addr := ah * 256 + al; f_type := ty; f_data := data |}.
Proof.
  intros s f H. destruct s as [|c r]; [discriminate|].
  apply decode_cons in H as (-> & _ & bs & U & E & C & _).
  pose proof (unhex_bytes _ _ U) as B.
  apply check_inv in C as (len & ah & al & ty & data & ck & -> & Hl & Hd & -> & Hc).
  exists len, ah, al, ty, data, ck. cbn [hd_error tl]. rewrite E.
  split; [reflexivity|]. split; [exact U|]. split; [auto|]. split; [|reflexivity].
  apply Forall_inv_tail in B. pose proof (Forall_inv B) as Bah. cbv beta in Bah.
  apply Forall_inv_tail in B. pose proof (Forall_inv B) as Bal. cbv beta in Bal. clear B.
  rewrite <- Hc. unfold payload. cbn [f_addr f_type f_data app].
  f_equal. f_equal; [lia|]. f_equal; [lia|]. f_equal. lia.
Qed.

(* Contrapositive reading: a wrong declared length or a wrong checksum is never accepted. *)
Theorem C02_bad_len_or_ck_rejected_proof : forall s bs,
  unhex (strip_crlf (tl s)) = Some bs ->
  (hd 0 bs <> nlen bs - 5 \/ sumN bs mod 256 <> 0) ->
  forall f, decode s <> Ok f.
Proof.
  intros s bs U Hbad f H. destruct (C02_len_ck_proof s f H) as (bs' & _ & U' & _ & D & S).
  rewrite U in U'. apply some_inj in U'. subst bs'. destruct Hbad; contradiction.
Qed.
