(* Tactics.v — shared proof setup: arithmetic automation and reduction hygiene. *)
From Coq Require Export List NArith Bool Lia ZArith ZifyBool ZifyNat ZifyN.
From Flipdot Require Export Base.
Export ListNotations.

Ltac Zify.zify_post_hook ::= Z.div_mod_to_equations.

Global Arguments N.add : simpl never.
Global Arguments N.sub : simpl never.
Global Arguments N.mul : simpl never.
Global Arguments N.div : simpl never.
Global Arguments N.modulo : simpl never.
Global Arguments N.eqb : simpl never.
Global Arguments N.ltb : simpl never.
Global Arguments N.leb : simpl never.
Global Arguments N.shiftl : simpl never.
Global Arguments N.land : simpl never.
Global Arguments N.lor : simpl never.
Global Arguments N.lxor : simpl never.
Global Arguments N.testbit : simpl never.
Global Arguments N.of_nat : simpl never.
Global Arguments N.to_nat : simpl never.

(* Evaluate a closed boolean/numeric subterm in place. *)
Ltac vm_eval t := let v := eval vm_compute in t in change t with v.

(* Case split on the first boolean test of an N comparison in the goal, recording it as
   an arithmetic fact. *)
Ltac case_eqb x y := destruct (N.eqb_spec x y).
Ltac case_ltb x y := destruct (N.ltb_spec x y).
Ltac case_leb x y := destruct (N.leb_spec x y).

Lemma nlen_nil {A} : @nlen A [] = 0%N.
Proof. reflexivity. Qed.

Lemma nlen_cons {A} (x : A) l : nlen (x :: l) = (nlen l + 1)%N.
Proof. unfold nlen. cbn [length]. lia. Qed.

Lemma nlen_app {A} (a b : list A) : nlen (a ++ b) = (nlen a + nlen b)%N.
Proof. unfold nlen. rewrite app_length. lia. Qed.

Lemma nlen_length {A} (l : list A) : nlen l = N.of_nat (length l).
Proof. reflexivity. Qed.

(* Finite universal facts over an initial segment of N, proved by computation. *)
Definition nrangeb (n : nat) (P : N -> bool) : bool := forallb P (map N.of_nat (seq 0 n)).

Lemma nrangeb_spec (n : nat) (P : N -> bool) :
  nrangeb n P = true -> forall x : N, (x < N.of_nat n)%N -> P x = true.
Proof.
  unfold nrangeb. intros H x Hx. rewrite forallb_forall in H. apply H.
  apply in_map_iff. exists (N.to_nat x). split; [lia|]. apply in_seq. lia.
Qed.
