(* ApiP.v — the user-level path end to end: pages made with Sign::create_page, drawn on with any
   sequence of pixel operations (model/Page.v, spec/Bitmap.v), then configure + send_pages through the
   closed loop (proofs/ClosedLoopP.v): the sign ends up holding exactly those pages, and each of them
   shows exactly the bitmap that the drawing operations describe. *)
From Flipdot Require Import Tactics.
From Flipdot Require Import Base Message Page SignType VSign Controller Bitmap PageP VSignP ClosedLoopP.
Local Open Scope N_scope.

(* A page as an application builds it: a fresh page of the sign's size, then drawing operations
   (an out-of-bounds operation panics in Rust; here it leaves the page as it was). *)
Definition drawn (t : sign_type) (spec : N * list pop) : page :=
  fold_left page_apply (snd spec) (create_page t (fst spec)).

(* The picture those operations describe, starting from a blank bitmap. *)
Definition picture (t : sign_type) (ops : list pop) : bitmap :=
  fold_left (bm_apply (sign_width t) (sign_height t)) ops (fun _ _ => false).

Lemma dims_u32 t : sign_width t < 4294967296 /\ sign_height t < 4294967296.
Proof. destruct t; split; reflexivity. Qed.

Lemma create_page_wf t id : id < 256 -> wf_page (create_page t id).
Proof.
  intros Hid. destruct (dims_u32 t) as [Hw Hh]. unfold create_page. apply page_new_wf; assumption.
Qed.

Lemma create_page_dims t id :
  p_w (create_page t id) = sign_width t /\ p_h (create_page t id) = sign_height t.
Proof. unfold create_page. destruct (page_new_bytes id (sign_width t) (sign_height t)) as (_ & Hw & Hh). split; assumption. Qed.

(* Everything the closed loop needs to know about a drawn page, and what it shows. *)
Lemma drawn_spec t id ops : id < 256 ->
  let p := drawn t (id, ops) in
  wf_page p /\ p_w p = sign_width t /\ p_h p = sign_height t
  /\ nlen (p_bytes p) = total_bytes (sign_width t) (sign_height t)
  /\ page_id p = Some id
  /\ (forall x y, x < sign_width t -> y < sign_height t ->
        get_pixel p x y = Some (picture t ops x y)).
Proof.
  intros Hid. cbv zeta. unfold drawn, picture. cbn [fst snd].
  destruct (create_page_dims t id) as [Ew Eh].
  pose proof (create_page_wf t id Hid) as Hwf.
  destruct (dims_u32 t) as [Hw Hh].
  pose proof (refines_gen ops (create_page t id) (fun _ _ => false) Hwf) as H.
  rewrite Ew, Eh in H.
  assert (Hblank : forall x y, x < sign_width t -> y < sign_height t ->
            get_pixel (create_page t id) x y = Some false).
  { intros x y Hx Hy. unfold create_page. apply new_blank; assumption. }
  specialize (H Hblank). cbv zeta in H. destruct H as (Hwf' & Hf & Hid' & Hg).
  destruct Hf as (Fw & Fh & _).
  split; [exact Hwf'|]. split; [congruence|]. split; [congruence|]. split.
  - destruct (wf_page_inv _ Hwf') as (_ & _ & _ & Hl). rewrite Hl. congruence.
  - split; [|exact Hg]. rewrite Hid'. unfold create_page. apply new_id.
Qed.

(* configure, then send pages made through the API: they arrive, in order, bit for bit, and show the
   pictures that were drawn. *)
Theorem api_pages_end_to_end : forall b a t (specs : list (N * list pop)),
  NoDup (map v_addr b) -> Forall VInv0 b -> In a (map v_addr b) ->
  Forall (fun s => fst s < 256) specs ->
  N.of_nat (length specs) * (total_bytes (sign_width t) (sign_height t) / 16) < 65536 ->
  exists b1 b2 s2 fs,
    run_bus (configure a t) b = (b1, Done tt)
    /\ run_bus (send_pages a (map (drawn t) specs)) b1 = (b2, Done fs)
    /\ target b2 a = Some s2 /\ v_type s2 = Some t /\ fs = v_style s2
    /\ v_state s2 = match fs with Manual => PageLoaded | Automatic => ShowingPages end
    /\ v_pages s2 = map (drawn t) specs
    /\ Forall2 (fun spec p =>
                  page_id p = Some (fst spec)
                  /\ forall x y, x < sign_width t -> y < sign_height t ->
                       get_pixel p x y = Some (picture t (snd spec) x y))
               specs (v_pages s2).
Proof.
  intros b a t specs Hnd Hinv Hin Hids Hcount.
  assert (Hps : Forall (fun p => p_w p = fst (dimensions t) /\ p_h p = snd (dimensions t)
                   /\ nlen (p_bytes p) = total_bytes (fst (dimensions t)) (snd (dimensions t)))
                       (map (drawn t) specs)).
  { apply Forall_forall. intros p Hp. apply in_map_iff in Hp. destruct Hp as ([id ops] & <- & Hs).
    rewrite Forall_forall in Hids. specialize (Hids _ Hs). cbn [fst] in Hids.
    destruct (drawn_spec t id ops Hids) as (_ & Hw & Hh & Hl & _). repeat split; assumption. }
  assert (Hc : N.of_nat (length (map (drawn t) specs))
               * (total_bytes (fst (dimensions t)) (snd (dimensions t)) / 16) < 65536).
  { rewrite map_length. exact Hcount. }
  destruct (closed_end_to_end b a t (map (drawn t) specs) Hnd Hinv Hin Hps Hc)
    as (b1 & b2 & s2 & fs & H1 & H2 & Ht & Hpages & Hty & Hfs & Hst & _).
  exists b1, b2, s2, fs. repeat split; try assumption.
  rewrite Hpages. clear - Hids.
  induction specs as [|[id ops] specs IH]; cbn [map]; constructor.
  - inversion Hids as [|? ? Hid _]; subst. cbn [fst] in Hid.
    destruct (drawn_spec t id ops Hid) as (_ & _ & _ & _ & Hi & Hg). cbn [fst snd]. split; assumption.
  - apply IH. inversion Hids; assumption.
Qed.
