(* SourceP.v — page sources that talk on the bus themselves (model/Controller.v: catch, prelude, send_pages_with).
   Programs contain functions, so "the same program" is bisimilarity [peq] (no extensionality axiom): the same sends in
   the same order with the same continuation behaviour, hence the same run on every script and on every bus. *)
From Flipdot Require Import Tactics.
From Flipdot Require Import Base Message Page SignType VSign Controller ControllerP.
Local Open Scope N_scope.

Inductive peq {A : Type} : prog A -> prog A -> Prop :=
| peq_ret a : peq (Ret a) (Ret a)
| peq_fail : peq Fail Fail
| peq_crash : peq Crash Crash
| peq_send m k k' : (forall r, peq (k r) (k' r)) -> peq (Send m k) (Send m k').

Lemma peq_refl {A} (p : prog A) : peq p p.
Proof. induction p as [a| | |m k IH]; constructor. exact IH. Qed.

Lemma peq_sym {A} (p q : prog A) : peq p q -> peq q p.
Proof. induction 1 as [a| | |m k k' _ IH]; constructor. exact IH. Qed.

Lemma peq_bind {A B} (p p' : prog A) (f f' : A -> prog B) :
  peq p p' -> (forall a, peq (f a) (f' a)) -> peq (bind p f) (bind p' f').
Proof.
  intros H Hf. induction H as [a| | |m k k' _ IH]; cbn [bind]; try constructor.
  - apply Hf.
  - exact IH.
Qed.

Lemma peq_run_script {A} (p q : prog A) : peq p q -> forall script, run_script p script = run_script q script.
Proof.
  induction 1 as [a| | |m k k' _ IH]; intros script; try reflexivity.
  cbn [run_script]. destruct script as [|[|r] script']; try reflexivity. rewrite IH. reflexivity.
Qed.

Lemma peq_run_bus {A} (p q : prog A) : peq p q -> forall b, run_bus p b = run_bus q b.
Proof.
  induction 1 as [a| | |m k k' _ IH]; intros b; try reflexivity.
  cbn [run_bus]. destruct (bus_step b m) as [[b' r]|]; [|reflexivity]. apply IH.
Qed.

(* ------------------------------------------------------------------ *)
(* A source that holds no conversation is the plain list of pages.      *)

Lemma send_items_with_plain items count :
  peq (send_items_with (map (fun it => (Ret tt, it)) items) count) (send_items items count).
Proof.
  revert count. induction items as [|it items IH]; intros count; [apply peq_refl|].
  cbn [map send_items_with send_items bind]. apply peq_bind; [apply peq_refl|]. intros c. apply IH.
Qed.

Lemma attempt_with_plain a op items :
  peq (attempt_with a op (map (fun it => (Ret tt, it)) items)) (attempt a op items).
Proof.
  unfold attempt_with, attempt. apply peq_bind; [apply peq_refl|]. intros _.
  apply peq_bind; [apply send_items_with_plain|]. intros n. apply peq_refl.
Qed.

Lemma transfer_loop_with_plain retries a op items s f :
  peq (transfer_loop_with retries a op (map (fun it => (Ret tt, it)) items) s f)
      (transfer_loop retries a op items s f).
Proof.
  induction retries as [|n IH]; cbn [transfer_loop_with transfer_loop].
  - apply peq_bind; [apply attempt_with_plain|]. intros r. apply peq_refl.
  - apply peq_bind; [apply attempt_with_plain|]. intros r.
    destruct (omsg_eqb r (Some (ReportState a f))); [exact IH | apply peq_refl].
Qed.

Lemma send_pages_with_plain a ps :
  peq (send_pages_with a (map (fun p => ([], p)) ps)) (send_pages a ps).
Proof.
  unfold send_pages_with, send_pages_gen, send_pages, transfer. rewrite map_map. cbn [fst snd prelude].
  rewrite <- (map_map p_bytes (fun it => (Ret tt, it))).
  apply peq_bind; [apply transfer_loop_with_plain|]. intros _. apply peq_refl.
Qed.

(* ------------------------------------------------------------------ *)
(* catch: the nested call says on the bus exactly what it would say alone; only its protocol failure is dropped. *)

Definition caught {A} (o : outcome A) : outcome unit :=
  match o with
  | Done _ => Done tt
  | ProtoErr => Done tt
  | BusFailed => BusFailed
  | Crashed => Crashed
  | Blocked => Blocked
  end.

Lemma run_script_catch {A} (p : prog A) script :
  run_script (catch p) script = (fst (run_script p script), caught (snd (run_script p script))).
Proof.
  revert script. induction p as [a| | |m k IH]; intros script; try reflexivity.
  cbn [catch run_script]. destruct script as [|[|r] script']; try reflexivity.
  rewrite IH. destruct (run_script (k r) script') as [tr o]. reflexivity.
Qed.

Lemma catch_never_fails {A} (p : prog A) script : snd (run_script (catch p) script) <> ProtoErr.
Proof. rewrite run_script_catch. cbn [snd]. destruct (snd (run_script p script)); discriminate. Qed.

Lemma run_bus_catch {A} (p : prog A) b :
  run_bus (catch p) b = (fst (run_bus p b), caught (snd (run_bus p b))).
Proof.
  revert b. induction p as [a| | |m k IH]; intros b; try reflexivity.
  cbn [catch run_bus]. destruct (bus_step b m) as [[b' r]|]; [apply IH | reflexivity].
Qed.

Lemma prelude_never_fails cs script : snd (run_script (prelude cs) script) <> ProtoErr.
Proof.
  revert script. induction cs as [|c cs IH]; intros script; [discriminate|].
  cbn [prelude]. rewrite run_script_bind.
  destruct (run_script_rest (catch (cop_prog c)) script) as [[tr o] rest] eqn:E.
  pose proof (catch_never_fails (cop_prog c) script) as Hc.
  rewrite (run_script_rest_eq _ _ _ _ _ E) in Hc. cbn [snd] in Hc.
  destruct o; try discriminate; [|congruence].
  specialize (IH rest). destruct (run_script (prelude cs) rest) as [tr' o']. exact IH.
Qed.

(* ------------------------------------------------------------------ *)
(* Whatever the source does on the bus, a transfer is at most [retries + 1] attempts, one after the other, each the
   attempt program run on what the earlier ones left of the script: conversations held by the source do not buy the
   transfer further attempts. *)

Lemma transfer_with_attempts retries a op items s f script :
  exists ts : list (list msg),
    fst (run_script (transfer_loop_with retries a op items s f) script) = concat ts
    /\ (1 <= length ts <= S retries)%nat
    /\ Forall (fun t => exists k, t = fst (run_script (attempt_with a op items) (skipn k script))) ts.
Proof.
  revert script. induction retries as [|n IH]; intros script.
  - cbn [transfer_loop_with]. rewrite run_script_bind.
    destruct (run_script_rest (attempt_with a op items) script) as [[tr o] rest] eqn:E.
    pose proof (run_script_rest_eq _ _ _ _ _ E) as E'.
    exists [tr]. cbn [concat length]. rewrite app_nil_r.
    assert (Hin : Forall (fun t => exists k, t = fst (run_script (attempt_with a op items) (skipn k script))) [tr]).
    { constructor; [|constructor]. exists 0%nat. cbn [skipn]. rewrite E'. reflexivity. }
    destruct o as [r| | | |]; cbn [fst]; try (split; [reflexivity|]; split; [lia|exact Hin]).
    unfold verify. destruct (omsg_eqb r (Some (ReportState a s))); cbn [run_script fst];
      rewrite app_nil_r; (split; [reflexivity|]; split; [lia|exact Hin]).
  - cbn [transfer_loop_with]. rewrite run_script_bind.
    destruct (run_script_rest (attempt_with a op items) script) as [[tr o] rest] eqn:E.
    pose proof (run_script_rest_eq _ _ _ _ _ E) as E'.
    assert (Hhd : exists k, tr = fst (run_script (attempt_with a op items) (skipn k script))).
    { exists 0%nat. cbn [skipn]. rewrite E'. reflexivity. }
    assert (Hone : forall tr0, tr0 = tr ->
              tr0 = concat [tr] /\ (1 <= length [tr] <= S (S n))%nat
              /\ Forall (fun t => exists k, t = fst (run_script (attempt_with a op items) (skipn k script))) [tr]).
    { intros tr0 ->. cbn [concat length]. rewrite app_nil_r. split; [reflexivity|]. split; [lia|].
      constructor; [exact Hhd|constructor]. }
    destruct o as [r| | | |]; cbn [fst]; try (exists [tr]; apply Hone; reflexivity).
    destruct (omsg_eqb r (Some (ReportState a f))).
    + destruct (IH rest) as (ts & Hts & Hlen & Hall).
      destruct (run_script (transfer_loop_with n a op items s f) rest) as [tr' o'] eqn:E2.
      cbn [fst] in Hts |- *. exists (tr :: ts). cbn [concat length]. split; [rewrite Hts; reflexivity|].
      split; [lia|]. constructor; [exact Hhd|].
      apply run_script_rest_consumed in E. destruct E as [Hc _].
      destruct (Hc ltac:(discriminate)) as [Hs _].
      eapply Forall_impl; [|exact Hall]. intros t [k Hk]. exists (length tr + k)%nat.
      rewrite Hk. f_equal. f_equal. rewrite skipn_add. f_equal.
      apply (app_inv_head (firstn (length tr) script)). rewrite firstn_skipn. symmetry. exact Hs.
    + unfold verify. exists [tr].
      destruct (omsg_eqb r (Some (ReportState a s))); cbn [run_script fst]; rewrite app_nil_r;
        apply Hone; reflexivity.
Qed.

(* catch_all: also a panic of the nested call is dropped; on the bus the call still says what it would say alone. *)
Lemma run_script_catch_all {A} (p : prog A) script :
  fst (run_script (catch_all p) script) = fst (run_script p script)
  /\ snd (run_script (catch_all p) script) <> ProtoErr /\ snd (run_script (catch_all p) script) <> Crashed.
Proof.
  revert script. induction p as [a| | |m k IH]; intros script;
    try (cbn [catch_all run_script fst snd]; repeat split; discriminate).
  cbn [catch_all run_script]. destruct script as [|[|r] script']; try (cbn [fst snd]; repeat split; discriminate).
  specialize (IH r script').
  destruct (run_script (catch_all (k r)) script') as [tr o]. destruct (run_script (k r) script') as [tr' o'].
  cbn [fst snd] in *. destruct IH as (H1 & H2 & H3). repeat split; [f_equal; exact H1|exact H2|exact H3].
Qed.
