(* ClosedLoopP.v — the closed loop (property C08): the controller programs of Controller.v
   run against a bus of virtual signs (VSign.v).

   Plan: (1) [run_one]: a program run against ONE sign; (2) programs that only send messages
   addressed to [a] or unaddressed behave on a bus exactly as on the sign with address [a]
   ([lift]); (3) each controller operation is a straight-line calculation on one sign. *)
From Flipdot Require Import Tactics.
From Flipdot Require Import Base Message Page SignType VSign Controller CodeTable SignSpec
  PageP SignTypeP VSignP.
Local Open Scope N_scope.

(* ------------------------------------------------------------------------- *)
(** * 1. The interpreter over [bind] *)

(* A non-[Done] outcome at another result type. *)
Definition cast_outcome {A B : Type} (o : outcome A) : outcome B :=
  match o with
  | Done _ => Crashed          (* never used on Done *)
  | ProtoErr => ProtoErr
  | BusFailed => BusFailed
  | Crashed => Crashed
  | Blocked => Blocked
  end.

Lemma run_bus_bind {A B : Type} (p : prog A) (f : A -> prog B) : forall b,
  run_bus (bind p f) b =
  let (b1, o) := run_bus p b in
  match o with
  | Done x => run_bus (f x) b1
  | other => (b1, cast_outcome other)
  end.
Proof.
  induction p as [x| | |m k IH]; intros b; cbn [bind run_bus]; try reflexivity.
  destruct (bus_step b m) as [[b' r]|]; [apply IH|reflexivity].
Qed.

Lemma run_bus_bind_done {A B : Type} (p : prog A) (f : A -> prog B) b b1 x :
  run_bus p b = (b1, Done x) -> run_bus (bind p f) b = run_bus (f x) b1.
Proof. intros H. rewrite run_bus_bind, H. reflexivity. Qed.

(* A program run against a single sign. *)
Fixpoint run_one {A : Type} (p : prog A) (s : vsign) : vsign * outcome A :=
  match p with
  | Ret x => (s, Done x)
  | Fail => (s, ProtoErr)
  | Crash => (s, Crashed)
  | Send m k =>
      match vstep s m with
      | None => (s, Crashed)
      | Some (s', r) => run_one (k r) s'
      end
  end.

Lemma run_one_bind {A B : Type} (p : prog A) (f : A -> prog B) : forall s,
  run_one (bind p f) s =
  let (s1, o) := run_one p s in
  match o with
  | Done x => run_one (f x) s1
  | other => (s1, cast_outcome other)
  end.
Proof.
  induction p as [x| | |m k IH]; intros s; cbn [bind run_one]; try reflexivity.
  destruct (vstep s m) as [[s' r]|]; [apply IH|reflexivity].
Qed.

Lemma run_one_bind_done {A B : Type} (p : prog A) (f : A -> prog B) s s1 x :
  run_one p s = (s1, Done x) -> run_one (bind p f) s = run_one (f x) s1.
Proof. intros H. rewrite run_one_bind, H. reflexivity. Qed.

Lemma run_one_send m s s' r :
  vstep s m = Some (s', r) -> run_one (send m) s = (s', Done r).
Proof. intros H. unfold send. cbn [run_one]. rewrite H. reflexivity. Qed.

Lemma omsg_eqb_refl_ack a op :
  omsg_eqb (Some (AckOperation a op)) (Some (AckOperation a op)) = true.
Proof.
  cbn [omsg_eqb option_eqb msg_eqb]. unfold operation_eqb. rewrite !N.eqb_refl. reflexivity.
Qed.

Lemma omsg_eqb_refl_report a st :
  omsg_eqb (Some (ReportState a st)) (Some (ReportState a st)) = true.
Proof.
  cbn [omsg_eqb option_eqb msg_eqb]. unfold state_eqb. rewrite !N.eqb_refl. reflexivity.
Qed.

Lemma run_one_expect m e s s' r :
  vstep s m = Some (s', r) -> omsg_eqb r e = true -> run_one (expect m e) s = (s', Done tt).
Proof.
  intros H He. unfold expect. rewrite (run_one_bind_done _ _ _ _ _ (run_one_send m s s' r H)).
  unfold verify. rewrite He. reflexivity.
Qed.

Lemma run_one_expect_none m s s' :
  vstep s m = Some (s', None) -> run_one (expect m None) s = (s', Done tt).
Proof. intros H. apply (run_one_expect m None s s' None H). reflexivity. Qed.

Lemma run_one_expect_ack a op s s' :
  vstep s (RequestOperation a op) = Some (s', Some (AckOperation a op)) ->
  run_one (expect (RequestOperation a op) (Some (AckOperation a op))) s = (s', Done tt).
Proof. intros H. apply (run_one_expect _ _ s s' _ H). apply omsg_eqb_refl_ack. Qed.

Lemma run_one_expect_report m a st s s' :
  vstep s m = Some (s', Some (ReportState a st)) ->
  run_one (expect m (Some (ReportState a st))) s = (s', Done tt).
Proof. intros H. apply (run_one_expect _ _ s s' _ H). apply omsg_eqb_refl_report. Qed.

(* ------------------------------------------------------------------------- *)
(** * 2. The addressed sign of a bus *)

Definition target (b : list vsign) (a : N) : option vsign :=
  find (fun s => v_addr s =? a) b.

Lemma target_In b a s : target b a = Some s -> In s b /\ v_addr s = a.
Proof.
  unfold target. intros H. apply find_some in H. destruct H as [Hin He].
  split; [exact Hin|]. apply N.eqb_eq. exact He.
Qed.

Lemma target_split b a s : target b a = Some s ->
  exists b1 b2, b = b1 ++ s :: b2 /\ v_addr s = a.
Proof.
  intros H. destruct (target_In b a s H) as [Hin Ha].
  destruct (in_split s b Hin) as (b1 & b2 & E). exists b1, b2. auto.
Qed.

Lemma target_app_notin b1 rest a :
  ~ In a (map v_addr b1) -> target (b1 ++ rest) a = target rest a.
Proof.
  unfold target. induction b1 as [|s0 t IH]; intros Hn; [reflexivity|].
  cbn [app find]. cbn [map In] in Hn.
  destruct (N.eqb_spec (v_addr s0) a) as [E|E]; [exfalso; apply Hn; auto|].
  apply IH. intros Hin. apply Hn. auto.
Qed.

Lemma target_of_split b1 s b2 :
  NoDup (map v_addr (b1 ++ s :: b2)) -> target (b1 ++ s :: b2) (v_addr s) = Some s.
Proof.
  intros Hnd. rewrite map_app in Hnd. cbn [map] in Hnd. apply NoDup_remove_2 in Hnd.
  rewrite target_app_notin by (intros Hin; apply Hnd; apply in_or_app; auto).
  unfold target. cbn [find]. rewrite N.eqb_refl. reflexivity.
Qed.

Lemma target_nth b i s :
  NoDup (map v_addr b) -> nth_error b i = Some s -> target b (v_addr s) = Some s.
Proof.
  intros Hnd Hi. destruct (nth_error_split b i Hi) as (l1 & l2 & E & _). subst b.
  apply target_of_split. exact Hnd.
Qed.

Lemma target_exists b a : In a (map v_addr b) -> exists s, target b a = Some s.
Proof.
  unfold target. induction b as [|s0 t IH]; intros Hin; [destruct Hin|].
  cbn [find]. destruct (N.eqb_spec (v_addr s0) a) as [E|E]; [eexists; reflexivity|].
  cbn [map In] in Hin. destruct Hin as [Hin|Hin]; [contradiction|]. exact (IH Hin).
Qed.

Lemma target_VInv0 b a s : Forall VInv0 b -> target b a = Some s -> VInv0 s.
Proof.
  intros Hb H. destruct (target_In b a s H) as [Hin _].
  rewrite Forall_forall in Hb. exact (Hb s Hin).
Qed.

(* One bus step seen from the addressed sign: the sign steps by [vstep]; the bus's reply is
   the sign's reply (which is None for the two unaddressed kinds). *)
Lemma bus_step_target b a s m s' r :
  NoDup (map v_addr b) -> Forall VInv0 b -> target b a = Some s ->
  msg_target m = Some a \/ msg_target m = None ->
  vstep s m = Some (s', r) ->
  exists b', bus_step b m = Some (b', r) /\ target b' a = Some s'
    /\ Forall VInv0 b' /\ map v_addr b' = map v_addr b.
Proof.
  intros Hnd Hinv Ht Hm Hs.
  destruct (vstep_addr_style s m s' r Hs) as [Haddr _].
  destruct Hm as [Hm|Hm].
  - destruct (target_split b a s Ht) as (b1 & b2 & Eb & Ha).
    pose proof (bus_addressed b m a Hnd Hm b1 s b2 Eb Ha s' r Hs) as Hbs.
    exists (b1 ++ s' :: b2). split; [exact Hbs|].
    assert (Hmap : map v_addr (b1 ++ s' :: b2) = map v_addr b).
    { subst b. rewrite !map_app. cbn [map]. rewrite Haddr. reflexivity. }
    split; [|split; [exact (VInv0_bus_step b m _ r Hinv Hbs)|exact Hmap]].
    rewrite <- Ha, <- Haddr. apply target_of_split. rewrite Hmap. exact Hnd.
  - destruct (vstep_unaddressed s m s' r Hm Hs) as [Er _]. subst r.
    destruct (bus_step b m) as [[b' r']|] eqn:Hbs;
      [|exfalso; exact (no_panic_bus_step m b Hinv Hbs)].
    assert (Er : r' = None).
    { destruct r' as [rm|]; [|reflexivity].
      destruct (bus_reply_address m b b' rm Hbs) as (a0 & E & _). congruence. }
    subst r'. exists b'. split; [reflexivity|].
    destruct (bus_step_projection m b b' None Hnd Hbs) as [Hmap Hnth].
    split; [|split; [exact (VInv0_bus_step b m b' None Hinv Hbs)|exact Hmap]].
    destruct (target_In b a s Ht) as [Hin Ha].
    destruct (In_nth_error b s Hin) as [i Hi].
    destruct (Hnth i s Hi) as (s1 & r1 & Hv & Hi').
    rewrite Hs in Hv. injection Hv as E _. subst s1.
    rewrite <- Ha, <- Haddr. apply (target_nth b' i s'); [rewrite Hmap; exact Hnd|exact Hi'].
Qed.

(* Programs that talk only to address [a] (or send unaddressed data). *)
Fixpoint sends_only {A : Type} (a : N) (p : prog A) : Prop :=
  match p with
  | Send m k => (msg_target m = Some a \/ msg_target m = None) /\ forall r, sends_only a (k r)
  | _ => True
  end.

Lemma sends_only_bind {A B : Type} a (p : prog A) (f : A -> prog B) :
  sends_only a p -> (forall x, sends_only a (f x)) -> sends_only a (bind p f).
Proof.
  induction p as [x| | |m k IH]; intros Hp Hf; cbn [bind sends_only]; auto.
  cbn [sends_only] in Hp. destruct Hp as [Hm Hk]. split; [exact Hm|].
  intros r. apply IH; [apply Hk|exact Hf].
Qed.

(* The lifting theorem: on a bus, such a program does to the sign with address [a] exactly
   what it does to that sign alone, with the same outcome. *)
Theorem lift {A : Type} a (p : prog A) : sends_only a p ->
  forall b s, NoDup (map v_addr b) -> Forall VInv0 b -> target b a = Some s ->
  exists b', run_bus p b = (b', snd (run_one p s))
    /\ target b' a = Some (fst (run_one p s))
    /\ Forall VInv0 b' /\ map v_addr b' = map v_addr b.
Proof.
  induction p as [x| | |m k IH]; intros Hso b s Hnd Hinv Ht;
    try solve [exists b; cbn [run_bus run_one fst snd]; auto].
  cbn [sends_only] in Hso. destruct Hso as [Hm Hk].
  pose proof (target_VInv0 b a s Hinv Ht) as Hs0.
  cbn [run_bus run_one].
  destruct (vstep s m) as [[s' r]|] eqn:Hs; [|exfalso; exact (no_panic_step s m Hs0 Hs)].
  destruct (bus_step_target b a s m s' r Hnd Hinv Ht Hm Hs) as (b1 & Hbs & Ht1 & Hinv1 & Hmap1).
  rewrite Hbs.
  destruct (IH r (Hk r) b1 s' (eq_ind_r (fun l => NoDup l) Hnd Hmap1) Hinv1 Ht1)
    as (b' & Hr & Ht' & Hinv' & Hmap').
  exists b'. split; [exact Hr|]. split; [exact Ht'|]. split; [exact Hinv'|]. congruence.
Qed.

Corollary lift_done {A : Type} a (p : prog A) b s s' x :
  sends_only a p -> NoDup (map v_addr b) -> Forall VInv0 b -> target b a = Some s ->
  run_one p s = (s', Done x) ->
  exists b', run_bus p b = (b', Done x) /\ target b' a = Some s'
    /\ Forall VInv0 b' /\ map v_addr b' = map v_addr b.
Proof.
  intros Hso Hnd Hinv Ht Hr. destruct (lift a p Hso b s Hnd Hinv Ht) as (b' & H1 & H2 & H3 & H4).
  rewrite Hr in H1, H2. cbn [fst snd] in H1, H2. exists b'. auto.
Qed.

(* ------------------------------------------------------------------------- *)
(** * 3. Every controller operation talks only to its own address *)

Lemma so_send a m : msg_target m = Some a \/ msg_target m = None -> sends_only a (send m).
Proof. intros H. unfold send. cbn [sends_only]. split; [exact H|]. intros r. exact I. Qed.

Lemma so_verify a e r : sends_only a (verify e r).
Proof. unfold verify. destruct (omsg_eqb r e); exact I. Qed.

Lemma so_expect a m e :
  msg_target m = Some a \/ msg_target m = None -> sends_only a (expect m e).
Proof.
  intros H. unfold expect. apply sends_only_bind; [apply so_send; exact H|].
  intros r; apply so_verify.
Qed.

Ltac so_tac :=
  repeat first [ exact I
               | apply so_expect; left; reflexivity
               | apply so_expect; right; reflexivity
               | apply so_send; left; reflexivity
               | apply sends_only_bind; [|intros ?] ].

Lemma so_ensure_unconfigured a : sends_only a (ensure_unconfigured a).
Proof.
  unfold ensure_unconfigured. apply sends_only_bind; [apply so_send; left; reflexivity|].
  intros r. cbv zeta.
  destruct r as [[off d|n|a'|a'|a' st|a' o|a' o|a'|a'|f]|]; try destruct st;
    try destruct (a' =? a); so_tac.
Qed.

Lemma so_send_chunks a : forall cs i count, sends_only a (send_chunks cs i count).
Proof.
  induction cs as [|c cs IH]; intros i count; cbn [send_chunks]; [exact I|].
  apply sends_only_bind; [apply so_expect; right; reflexivity|].
  intros _. destruct (count + 1 <? 65536); [apply IH|exact I].
Qed.

Lemma so_send_items a : forall items count, sends_only a (send_items items count).
Proof.
  induction items as [|it items IH]; intros count; cbn [send_items]; [exact I|].
  apply sends_only_bind; [apply so_send_chunks|]. intros c; apply IH.
Qed.

Lemma so_attempt a op items : sends_only a (attempt a op items).
Proof.
  unfold attempt.
  apply sends_only_bind; [apply so_expect; left; reflexivity|intros _].
  apply sends_only_bind; [apply so_send_items|intros n].
  apply sends_only_bind; [apply so_expect; right; reflexivity|intros _].
  apply so_send; left; reflexivity.
Qed.

Lemma so_transfer_loop a op items su fa : forall n,
  sends_only a (transfer_loop n a op items su fa).
Proof.
  induction n as [|n IH]; cbn [transfer_loop];
    (apply sends_only_bind; [apply so_attempt|intros r]).
  - apply so_verify.
  - destruct (omsg_eqb r (Some (ReportState a fa))); [apply IH|apply so_verify].
Qed.

Lemma so_transfer a op items su fa : sends_only a (transfer a op items su fa).
Proof. apply so_transfer_loop. Qed.

Lemma so_configure a t : sends_only a (configure a t).
Proof.
  unfold configure. apply sends_only_bind; [apply so_ensure_unconfigured|].
  intros _. apply so_transfer.
Qed.

Lemma so_configure_if_needed a t : sends_only a (configure_if_needed a t).
Proof.
  unfold configure_if_needed. apply sends_only_bind; [apply so_send; left; reflexivity|].
  intros r. destruct r as [[off d|n|a'|a'|a' st|a' o|a' o|a'|a'|f]|]; try apply so_configure.
  destruct ((a' =? a) && ready_state st); [exact I|apply so_configure].
Qed.

Lemma so_send_pages a ps : sends_only a (send_pages a ps).
Proof.
  unfold send_pages. apply sends_only_bind; [apply so_transfer|intros _].
  apply sends_only_bind; [apply so_expect; left; reflexivity|intros _].
  apply sends_only_bind; [apply so_send; left; reflexivity|intros r].
  destruct r as [[off d|n|a'|a'|a' st|a' o|a' o|a'|a'|f]|]; try exact I.
  destruct st; try exact I. destruct (a' =? a); exact I.
Qed.

Lemma so_switch_page a tg tr op : forall fuel, sends_only a (switch_page fuel a tg tr op).
Proof.
  induction fuel as [|fuel IH]; cbn [switch_page]; [exact I|].
  apply sends_only_bind; [apply so_send; left; reflexivity|intros r].
  destruct r as [[off d|n|a'|a'|a' st|a' o|a' o|a'|a'|f]|]; try exact I.
  destruct (a' =? a); [|exact I].
  destruct (state_is st ShowingPages); [exact I|].
  destruct (state_is st tg); [exact I|].
  destruct (state_is st tr).
  - apply sends_only_bind; [apply so_expect; left; reflexivity|intros _; apply IH].
  - destruct (state_is st PageLoadInProgress || state_is st PageShowInProgress);
      [apply IH|exact I].
Qed.

(* ------------------------------------------------------------------------- *)
(** * 4. chunks(16) of a block whose length is a multiple of 16 *)

Lemma chunks_fuel_spec : forall k l f,
  length l = (16 * k)%nat -> (k <= f)%nat ->
  length (chunks_fuel f l) = k /\ concat (chunks_fuel f l) = l.
Proof.
  induction k as [|k IH]; intros l f Hl Hf.
  - destruct l as [|x l]; [|cbn [length] in Hl; lia].
    destruct f; cbn [chunks_fuel length concat]; auto.
  - destruct f as [|f]; [lia|]. destruct l as [|x l']; [cbn [length] in Hl; lia|].
    cbn [chunks_fuel]. remember (x :: l') as l eqn:El.
    destruct (IH (skipn 16 l) f) as [H1 H2]; [rewrite skipn_length; lia|lia|].
    cbn [length concat]. rewrite H1, H2, firstn_skipn. auto.
Qed.

Lemma chunks16_spec l k :
  nlen l = 16 * k -> nlen (chunks16 l) = k /\ concat (chunks16 l) = l.
Proof.
  intros H. unfold chunks16.
  destruct (chunks_fuel_spec (N.to_nat k) l (length l)) as [H1 H2];
    [unfold nlen in H; lia|unfold nlen in H; lia|].
  split; [unfold nlen; lia|exact H2].
Qed.

(* ------------------------------------------------------------------------- *)
(** * 5. The generic shape of a transfer on one sign *)

Lemma run_one_attempt a op items s s1 s2 s3 s4 n r :
  vstep s (RequestOperation a op) = Some (s1, Some (AckOperation a op)) ->
  run_one (send_items items 0) s1 = (s2, Done n) ->
  vstep s2 (DataChunksSent n) = Some (s3, None) ->
  vstep s3 (QueryState a) = Some (s4, r) ->
  run_one (attempt a op items) s = (s4, Done r).
Proof.
  intros H1 H2 H3 H4. unfold attempt.
  rewrite (run_one_bind_done _ _ _ _ _ (run_one_expect_ack a op s s1 H1)).
  rewrite (run_one_bind_done _ _ _ _ _ H2).
  rewrite (run_one_bind_done _ _ _ _ _ (run_one_expect_none _ s2 s3 H3)).
  apply run_one_send. exact H4.
Qed.

Lemma run_one_verify_report a st s :
  run_one (verify (Some (ReportState a st)) (Some (ReportState a st))) s = (s, Done tt).
Proof. unfold verify. rewrite omsg_eqb_refl_report. reflexivity. Qed.

(* A first attempt that ends in the success state ends the transfer. *)
Lemma run_one_transfer a op items su fa s s' :
  run_one (attempt a op items) s = (s', Done (Some (ReportState a su))) ->
  state_eqb su fa = false ->
  run_one (transfer a op items su fa) s = (s', Done tt).
Proof.
  intros H Hne. unfold transfer.
  change (transfer_loop 2 a op items su fa) with
    (bind (attempt a op items) (fun r =>
       if omsg_eqb r (Some (ReportState a fa))
       then transfer_loop 1 a op items su fa
       else verify (Some (ReportState a su)) r)).
  rewrite (run_one_bind_done _ _ _ _ _ H).
  cbn [omsg_eqb option_eqb msg_eqb]. rewrite Hne, andb_false_r.
  apply run_one_verify_report.
Qed.

(* ------------------------------------------------------------------------- *)
(** * 6. ensure_unconfigured and configure on one sign *)

Lemma operation_eqb_refl o : operation_eqb o o = true.
Proof. unfold operation_eqb. apply N.eqb_refl. Qed.

Lemma state_eqb_refl st : state_eqb st st = true.
Proof. unfold state_eqb. apply N.eqb_refl. Qed.

Ltac exec :=
  repeat (progress (cbn [run_one bind send expect vstep v_query set_state vreset vinit
                         v_addr v_style v_state v_pages v_pending v_chunks v_w v_h v_type
                         fst snd];
                    try unfold verify;
                    cbn [omsg_eqb option_eqb msg_eqb];
                    rewrite ?N.eqb_refl, ?operation_eqb_refl, ?state_eqb_refl; cbn [andb])).

Lemma one_ensure_unconfigured a s :
  VInv0 s -> v_addr s = a ->
  run_one (ensure_unconfigured a) s = (vinit a (v_style s), Done tt).
Proof.
  intros Hinv Ha. destruct s as [a0 fs st pages pend ch w h ty].
  cbn [v_addr v_style] in *. subst a0. unfold ensure_unconfigured.
  destruct st; exec; try reflexivity.
  (* Unconfigured: nothing is sent after the Hello, the sign is already pristine *)
  rewrite (VInv0_unconf_eq _ Hinv eq_refl) at 1. reflexivity.
Qed.

(* The sign after a successful configuration as [t]. *)
Definition configured (a : N) (fs : flip_style) (t : sign_type) : vsign :=
  {| v_addr := a; v_style := fs; v_state := ConfigReceived; v_pages := []; v_pending := [];
     v_chunks := 0; v_w := fst (dimensions t); v_h := snd (dimensions t); v_type := Some t |}.

Lemma chunks16_config t : chunks16 (st_to_bytes t) = [st_to_bytes t].
Proof. destruct t; reflexivity. Qed.

Lemma one_configure_fresh a fs t :
  run_one (transfer a ReceiveConfig [st_to_bytes t] ConfigReceived ConfigFailed) (vinit a fs)
  = (configured a fs t, Done tt).
Proof.
  apply run_one_transfer; [|reflexivity].
  destruct (vsign_derives t) as [Hcs Hrt].
  eapply (run_one_attempt a ReceiveConfig _ (vinit a fs)
            (set_state (vinit a fs) ConfigInProgress)
            {| v_addr := a; v_style := fs; v_state := ConfigInProgress; v_pages := [];
               v_pending := []; v_chunks := 1; v_w := fst (dimensions t);
               v_h := snd (dimensions t); v_type := Some t |}
            (configured a fs t) (configured a fs t) 1).
  - unfold vstep. cbn [vinit v_addr v_state]. rewrite N.eqb_refl. reflexivity.
  - cbn [send_items]. rewrite chunks16_config. cbn [send_chunks].
    change ((0 * 16) mod 65536) with 0. change (0 + 1 <? 65536) with true. cbv iota.
    rewrite (run_one_bind_done _ _ _
               {| v_addr := a; v_style := fs; v_state := ConfigInProgress; v_pages := [];
                  v_pending := []; v_chunks := 1; v_w := fst (dimensions t);
                  v_h := snd (dimensions t); v_type := Some t |} 1); [reflexivity|].
    rewrite (run_one_bind_done _ _ _
               {| v_addr := a; v_style := fs; v_state := ConfigInProgress; v_pages := [];
                  v_pending := []; v_chunks := 1; v_w := fst (dimensions t);
                  v_h := snd (dimensions t); v_type := Some t |} tt).
    + reflexivity.
    + apply run_one_expect_none.
      unfold vstep, v_send_data. cbn [set_state vinit v_state v_addr v_style v_pages v_pending
                                       v_chunks v_w v_h v_type].
      rewrite st_nlen16, Hcs. change ((0 =? 0) && (16 =? 16)) with true. cbv iota.
      destruct (dimensions t) as [w h]. cbn [fst snd] in *. rewrite Hrt. reflexivity.
  - unfold vstep, v_data_chunks_sent.
    cbn [set_state vinit v_state v_addr v_style v_pages v_pending v_chunks v_w v_h v_type
         flush_pixels].
    change (1 =? 1) with true. cbv iota. reflexivity.
  - unfold vstep, configured. cbn [v_addr]. rewrite N.eqb_refl. reflexivity.
Qed.

Lemma one_configure a t s :
  VInv0 s -> v_addr s = a ->
  run_one (configure a t) s = (configured a (v_style s) t, Done tt).
Proof.
  intros Hinv Ha. unfold configure.
  rewrite (run_one_bind_done _ _ _ _ _ (one_ensure_unconfigured a s Hinv Ha)).
  apply one_configure_fresh.
Qed.

(* ------------------------------------------------------------------------- *)
(** * 7. Pixel data on one sign *)

(* Chunks 1.. of an item: appended to the buffer, counted, never flushing. *)
Lemma send_chunks_tail : forall cs i count s,
  v_state s = PixelsInProgress -> v_chunks s = count ->
  1 <= i -> (i + nlen cs) * 16 <= 65536 -> count + nlen cs < 65536 ->
  run_one (send_chunks cs i count) s =
  ({| v_addr := v_addr s; v_style := v_style s; v_state := PixelsInProgress;
      v_pages := v_pages s; v_pending := v_pending s ++ concat cs;
      v_chunks := count + nlen cs; v_w := v_w s; v_h := v_h s; v_type := v_type s |},
   Done (count + nlen cs)).
Proof.
  induction cs as [|c cs IH]; intros i count s Hst Hc Hi Hoff Hcnt.
  - cbn [send_chunks run_one concat]. rewrite app_nil_r, nlen_nil.
    replace (count + 0) with count by lia.
    rewrite (vsign_eta s) at 1. rewrite Hst, Hc. reflexivity.
  - rewrite nlen_cons in Hoff, Hcnt. cbn [send_chunks].
    assert (Ho : (i * 16) mod 65536 <> 0) by lia.
    rewrite (run_one_bind_done _ _ _ _ _
               (run_one_expect_none _ s _ (chunk_nonzero s _ c Hst Ho))).
    destruct (N.ltb_spec (count + 1) 65536) as [Hlt|Hlt]; [|lia].
    rewrite IH; cbn [v_addr v_style v_state v_pages v_pending v_chunks v_w v_h v_type];
      [|exact Hst|unfold winc; lia|lia|lia|lia].
    rewrite nlen_cons. cbn [concat]. rewrite app_assoc.
    replace (count + 1 + nlen cs) with (count + (nlen cs + 1)) by lia. reflexivity.
Qed.

(* A whole item: chunk 0 flushes the previous buffer into the page list and starts a new
   buffer; the rest is appended. *)
Lemma send_chunks_item c cs count s :
  v_state s = PixelsInProgress -> v_chunks s = count ->
  (1 + nlen cs) * 16 <= 65536 -> count + 1 + nlen cs < 65536 ->
  run_one (send_chunks (c :: cs) 0 count) s =
  ({| v_addr := v_addr s; v_style := v_style s; v_state := PixelsInProgress;
      v_pages := v_pages (flush_pixels s); v_pending := c ++ concat cs;
      v_chunks := count + 1 + nlen cs; v_w := v_w s; v_h := v_h s; v_type := v_type s |},
   Done (count + 1 + nlen cs)).
Proof.
  intros Hst Hc Hoff Hcnt. cbn [send_chunks]. change ((0 * 16) mod 65536) with 0.
  rewrite (run_one_bind_done _ _ _ _ _ (run_one_expect_none _ s _ (chunk_zero s c Hst))).
  destruct (N.ltb_spec (count + 1) 65536) as [Hlt|Hlt]; [|lia].
  change (0 + 1) with 1.
  rewrite send_chunks_tail; cbn [v_addr v_style v_state v_pages v_pending v_chunks v_w v_h v_type];
    [reflexivity|exact Hst|unfold winc; lia|lia|lia|lia].
Qed.

Definition mkpage (w h : N) (bs : list N) : page := {| p_w := w; p_h := h; p_bytes := bs |}.

Lemma flush_pages_set_state s st :
  v_pages (flush_pixels (set_state s st)) = v_pages (flush_pixels s).
Proof.
  unfold flush_pixels. cbn [set_state v_pending v_w v_h v_pages].
  destruct (v_pending s); reflexivity.
Qed.

(* All items: each becomes one page, in order.  The invariant is phrased on the page list
   the sign would have after a flush, since the last item sits in the buffer. *)
Lemma send_items_spec : forall items count s,
  v_state s = PixelsInProgress -> v_chunks s = count ->
  0 < v_w s -> 0 < v_h s ->
  total_bytes (v_w s) (v_h s) <= 65536 ->
  Forall (fun it => nlen it = total_bytes (v_w s) (v_h s)) items ->
  count + nlen items * (total_bytes (v_w s) (v_h s) / 16) < 65536 ->
  exists s',
    run_one (send_items items count) s
      = (s', Done (count + nlen items * (total_bytes (v_w s) (v_h s) / 16)))
    /\ v_state s' = PixelsInProgress
    /\ v_chunks s' = count + nlen items * (total_bytes (v_w s) (v_h s) / 16)
    /\ v_pages (flush_pixels s')
       = v_pages (flush_pixels s) ++ map (mkpage (v_w s) (v_h s)) items
    /\ v_addr s' = v_addr s /\ v_style s' = v_style s
    /\ v_w s' = v_w s /\ v_h s' = v_h s /\ v_type s' = v_type s.
Proof.
  induction items as [|it items IH]; intros count s Hst Hc Hw Hh HT Hits Hcnt.
  - exists s. cbn [send_items run_one map]. rewrite (@nlen_nil (list N)), app_nil_r.
    replace (count + 0 * (total_bytes (v_w s) (v_h s) / 16)) with count by lia.
    repeat split; assumption.
  - pose proof (Forall_inv Hits) as Hit. pose proof (Forall_inv_tail Hits) as Hits'.
    cbv beta in Hit.
    pose proof (total_bytes_mod16 (v_w s) (v_h s)) as Hm.
    pose proof (total_bytes_ge16 (v_w s) (v_h s)) as Hge.
    set (T := total_bytes (v_w s) (v_h s)) in *.
    set (q := T / 16) in *.
    assert (HTq : T = 16 * q) by (unfold q; lia).
    assert (Hq1 : 1 <= q) by lia.
    destruct (chunks16_spec it q) as [Hn Hcat]; [lia|].
    rewrite nlen_cons, N.mul_add_distr_r, N.mul_1_l in Hcnt.
    destruct (chunks16 it) as [|c cs] eqn:Ecs; [rewrite (@nlen_nil (list N)) in Hn; lia|].
    rewrite nlen_cons in Hn. cbn [concat] in Hcat.
    cbn [send_items]. rewrite Ecs.
    rewrite (run_one_bind_done _ _ _ _ _
               (send_chunks_item c cs count s Hst Hc ltac:(lia) ltac:(lia))).
    match goal with |- context [run_one _ ?s1] => set (s1' := s1) end.
    destruct (IH (count + 1 + nlen cs) s1') as (s' & Hr & H1 & H2 & H3 & H4 & H5 & H6 & H7 & H8);
      subst s1'; cbn [v_addr v_style v_state v_pages v_pending v_chunks v_w v_h v_type];
      try reflexivity; try assumption.
    { fold T. fold q. lia. }
    cbn [v_addr v_style v_state v_pages v_pending v_chunks v_w v_h v_type] in *.
    fold T in Hr, H2. fold q in Hr, H2.
    exists s'. rewrite nlen_cons, N.mul_add_distr_r, N.mul_1_l.
    replace (count + (nlen items * q + q)) with (count + 1 + nlen cs + nlen items * q) by lia.
    split; [exact Hr|]. split; [exact H1|]. split; [exact H2|].
    split; [|repeat split; assumption].
    rewrite H3. cbn [map].
    match goal with |- v_pages (flush_pixels ?s1) ++ _ = _ => set (s1' := s1) end.
    destruct (flush_pixels_spec s1') as (_ & Hy & _).
    rewrite Hy.
    + rewrite <- app_assoc. unfold pending_page, mkpage, s1'.
      cbn [v_addr v_style v_state v_pages v_pending v_chunks v_w v_h v_type app].
      rewrite Hcat. reflexivity.
    + unfold pending_complete, s1'.
      cbn [v_addr v_style v_state v_pages v_pending v_chunks v_w v_h v_type].
      rewrite Hcat. auto.
Qed.

Lemma map_mkpage w h ps :
  Forall (fun p => p_w p = w /\ p_h p = h /\ nlen (p_bytes p) = total_bytes w h) ps ->
  map (mkpage w h) (map p_bytes ps) = ps.
Proof.
  induction 1 as [|p ps (Hpw & Hph & _) _ IH]; [reflexivity|].
  cbn [map]. rewrite IH. f_equal. destruct p as [pw ph pb]. cbn [p_w p_h p_bytes] in *.
  subst. reflexivity.
Qed.

Lemma pages_loggable_fit w h ps :
  0 < w -> 0 < h ->
  Forall (fun p => p_w p = w /\ p_h p = h /\ nlen (p_bytes p) = total_bytes w h) ps ->
  forallb log_page_ok ps = true.
Proof.
  intros Hw Hh Hps. apply forallb_forall. intros p Hin.
  rewrite Forall_forall in Hps. destruct (Hps p Hin) as (Hpw & Hph & Hl).
  apply (log_page_ok_fits w h). unfold page_fits. rewrite Hpw, Hph. auto.
Qed.

(* The sign when all pages have arrived and the count matched. *)
Definition received (s : vsign) (ps : list page) : vsign :=
  {| v_addr := v_addr s; v_style := v_style s; v_state := PixelsReceived; v_pages := ps;
     v_pending := []; v_chunks := 0; v_w := v_w s; v_h := v_h s; v_type := v_type s |}.

(* ... and after PixelsComplete. *)
Definition loaded (s : vsign) (ps : list page) : vsign :=
  {| v_addr := v_addr s; v_style := v_style s;
     v_state := match v_style s with Automatic => ShowingPages | Manual => PageLoaded end;
     v_pages := ps; v_pending := []; v_chunks := 0; v_w := v_w s; v_h := v_h s;
     v_type := v_type s |}.

Lemma one_attempt_pixels a ps s :
  VInv0 s -> v_addr s = a -> receive_pixels_legal (v_state s) = true ->
  0 < v_w s -> 0 < v_h s ->
  Forall (fun p => p_w p = v_w s /\ p_h p = v_h s
                   /\ nlen (p_bytes p) = total_bytes (v_w s) (v_h s)) ps ->
  total_bytes (v_w s) (v_h s) <= 65536 ->
  nlen ps * (total_bytes (v_w s) (v_h s) / 16) < 65536 ->
  run_one (attempt a ReceivePixels (map p_bytes ps)) s
  = (received s ps, Done (Some (ReportState a PixelsReceived))).
Proof.
  intros Hinv Ha Hlegal Hw Hh Hps HT Hcnt. subst a.
  assert (Hidle : v_pending s = [] /\ v_chunks s = 0).
  { apply (VInv0_idle s Hinv). destruct (v_state s); try discriminate Hlegal; reflexivity. }
  destruct Hidle as [Hpend Hch].
  set (s1 := {| v_addr := v_addr s; v_style := v_style s; v_state := PixelsInProgress;
                v_pages := []; v_pending := v_pending s; v_chunks := v_chunks s;
                v_w := v_w s; v_h := v_h s; v_type := v_type s |}).
  assert (Hnl : nlen (map p_bytes ps) = nlen ps) by (unfold nlen; rewrite map_length; reflexivity).
  destruct (send_items_spec (map p_bytes ps) 0 s1)
    as (s2 & Hr & H1 & H2 & H3 & H4 & H5 & H6 & H7 & H8);
    unfold s1; cbn [v_addr v_style v_state v_pages v_pending v_chunks v_w v_h v_type];
    try reflexivity; try assumption.
  { apply Forall_map. revert Hps. apply Forall_impl. intros p (_ & _ & Hl). exact Hl. }
  { rewrite Hnl. lia. }
  fold s1 in Hr, H3. unfold s1 in H4, H5, H6, H7, H8.
  cbn [v_addr v_style v_state v_pages v_pending v_chunks v_w v_h v_type] in *.
  set (n := 0 + nlen (map p_bytes ps) * (total_bytes (v_w s) (v_h s) / 16)) in *.
  assert (Hp3 : v_pages (flush_pixels s2) = ps).
  { rewrite H3. rewrite flush_pixels_nil by exact Hpend. unfold s1. cbn [v_pages app].
    apply map_mkpage. exact Hps. }
  apply (run_one_attempt (v_addr s) ReceivePixels _ s s1 s2 (received s ps) (received s ps) n).
  - unfold vstep. cbv zeta. rewrite N.eqb_refl, Hlegal. reflexivity.
  - exact Hr.
  - unfold vstep. f_equal. f_equal.
    rewrite (v_data_chunks_sent_receiving s2 n (or_intror H1)). cbv zeta.
    rewrite flush_pages_set_state, Hp3, H1, H2, N.eqb_refl, H4, H5, H6, H7, H8. reflexivity.
  - unfold vstep, received. cbn [v_addr]. rewrite N.eqb_refl. reflexivity.
Qed.

Theorem one_send_pages a ps s :
  VInv0 s -> v_addr s = a -> receive_pixels_legal (v_state s) = true ->
  0 < v_w s -> 0 < v_h s ->
  Forall (fun p => p_w p = v_w s /\ p_h p = v_h s
                   /\ nlen (p_bytes p) = total_bytes (v_w s) (v_h s)) ps ->
  total_bytes (v_w s) (v_h s) <= 65536 ->
  nlen ps * (total_bytes (v_w s) (v_h s) / 16) < 65536 ->
  run_one (send_pages a ps) s = (loaded s ps, Done (v_style s)).
Proof.
  intros Hinv Ha Hlegal Hw Hh Hps HT Hcnt.
  pose proof (one_attempt_pixels a ps s Hinv Ha Hlegal Hw Hh Hps HT Hcnt) as Hatt.
  subst a. unfold send_pages.
  rewrite (run_one_bind_done _ _ _ _ _
             (run_one_transfer _ _ _ PixelsReceived PixelsFailed _ _ Hatt eq_refl)).
  assert (Hpc : vstep (received s ps) (PixelsComplete (v_addr s)) = Some (loaded s ps, None)).
  { unfold vstep, received. cbn [v_addr v_state v_pages v_style]. rewrite N.eqb_refl.
    rewrite (pages_loggable_fit _ _ ps Hw Hh Hps). reflexivity. }
  rewrite (run_one_bind_done _ _ _ _ _ (run_one_expect_none _ _ _ Hpc)).
  assert (Hq : vstep (loaded s ps) (QueryState (v_addr s))
               = Some (loaded s ps, Some (ReportState (v_addr s) (v_state (loaded s ps))))).
  { unfold vstep, v_query, loaded. cbn [v_addr v_state]. rewrite N.eqb_refl.
    destruct (v_style s); reflexivity. }
  rewrite (run_one_bind_done _ _ _ _ _ (run_one_send _ _ _ _ Hq)).
  unfold loaded at 1. cbn [v_state]. destruct (v_style s); cbv iota beta.
  - rewrite N.eqb_refl. reflexivity.
  - reflexivity.
Qed.

(* ------------------------------------------------------------------------- *)
(** * 8. Page flipping and configure_if_needed on one sign *)

Lemma vstep_query_own s :
  vstep s (QueryState (v_addr s))
  = Some (fst (v_query s), Some (ReportState (v_addr s) (v_state s))).
Proof. unfold vstep. cbv zeta. rewrite N.eqb_refl. reflexivity. Qed.

Lemma vstep_hello_own s :
  vstep s (Hello (v_addr s))
  = Some (fst (v_query s), Some (ReportState (v_addr s) (v_state s))).
Proof. unfold vstep. cbv zeta. rewrite N.eqb_refl. reflexivity. Qed.

Lemma v_query_addr_style s :
  v_addr (fst (v_query s)) = v_addr s /\ v_style (fst (v_query s)) = v_style s.
Proof. unfold v_query. cbn [fst]. destruct (v_state s); auto. Qed.

(* One iteration of the switch_page loop. *)
Lemma switch_page_step fuel a tg tr op s s1 st :
  vstep s (QueryState a) = Some (s1, Some (ReportState a st)) ->
  run_one (switch_page (S fuel) a tg tr op) s =
  run_one (if state_is st ShowingPages then Ret tt
           else if state_is st tg then Ret tt
           else if state_is st tr then
             expect (RequestOperation a op) (Some (AckOperation a op)) ;;;
             switch_page fuel a tg tr op
           else if state_is st PageLoadInProgress || state_is st PageShowInProgress then
             switch_page fuel a tg tr op
           else Fail) s1.
Proof.
  intros H. cbn [switch_page].
  rewrite (run_one_bind_done _ _ _ _ _ (run_one_send _ _ _ _ H)).
  cbv iota beta. rewrite N.eqb_refl. reflexivity.
Qed.

Ltac eval_state_is :=
  repeat match goal with
         | |- context [state_is ?x ?y] =>
             let v := eval vm_compute in (state_is x y) in change (state_is x y) with v
         end;
  cbv iota; cbn [orb].

(* The trigger state leads to the target state in three queries. *)
Lemma one_switch fuel a tg tr op mid s :
  v_addr s = a -> v_state s = tr -> (3 <= fuel)%nat ->
  state_is tr ShowingPages = false -> state_is tr tg = false -> state_is tr tr = true ->
  state_is mid ShowingPages = false -> state_is mid tg = false -> state_is mid tr = false ->
  state_is mid PageLoadInProgress || state_is mid PageShowInProgress = true ->
  state_is tg ShowingPages = false -> state_is tg tg = true ->
  vstep s (RequestOperation a op)
    = Some (set_state s mid, Some (AckOperation a op)) ->
  fst (v_query s) = s ->
  fst (v_query (set_state s mid)) = set_state s tg ->
  fst (v_query (set_state s tg)) = set_state s tg ->
  run_one (switch_page fuel a tg tr op) s = (set_state s tg, Done tt).
Proof.
  intros Ha Hst Hfuel T1 T2 T3 M1 M2 M3 M4 G1 G2 Hreq Q1 Q2 Q3.
  destruct fuel as [|[|[|f]]]; try lia. subst a.
  pose proof (vstep_query_own s) as S1. rewrite Q1, Hst in S1.
  rewrite (switch_page_step _ _ _ _ _ _ _ _ S1). rewrite T1, T2, T3.
  rewrite (run_one_bind_done _ _ _ _ _ (run_one_expect_ack _ _ _ _ Hreq)).
  pose proof (vstep_query_own (set_state s mid)) as S2. rewrite Q2 in S2.
  cbn [set_state v_addr v_state] in S2.
  rewrite (switch_page_step _ _ _ _ _ _ _ _ S2). rewrite M1, M2, M3, M4.
  pose proof (vstep_query_own (set_state s tg)) as S3. rewrite Q3 in S3.
  cbn [set_state v_addr v_state] in S3.
  rewrite (switch_page_step _ _ _ _ _ _ _ _ S3). rewrite G1, G2. reflexivity.
Qed.

Lemma one_show fuel a s :
  v_addr s = a -> v_state s = PageLoaded -> (3 <= fuel)%nat ->
  run_one (show_loaded_page fuel a) s = (set_state s PageShown, Done tt).
Proof.
  intros Ha Hst Hf. unfold show_loaded_page.
  apply (one_switch fuel a PageShown PageLoaded ShowLoadedPage PageShowInProgress s Ha Hst Hf);
    try (vm_compute; reflexivity).
  - subst a. unfold vstep. cbv zeta. rewrite N.eqb_refl, Hst. reflexivity.
  - unfold v_query. rewrite Hst. reflexivity.
Qed.

Lemma one_load_next fuel a s :
  v_addr s = a -> v_state s = PageShown -> (3 <= fuel)%nat ->
  run_one (load_next_page fuel a) s = (set_state s PageLoaded, Done tt).
Proof.
  intros Ha Hst Hf. unfold load_next_page.
  apply (one_switch fuel a PageLoaded PageShown LoadNextPage PageLoadInProgress s Ha Hst Hf);
    try (vm_compute; reflexivity).
  - subst a. unfold vstep. cbv zeta. rewrite N.eqb_refl, Hst. reflexivity.
  - unfold v_query. rewrite Hst. reflexivity.
Qed.

Lemma one_configure_if_needed a t s :
  VInv0 s -> v_addr s = a ->
  run_one (configure_if_needed a t) s =
  if ready_state (v_state s) then (fst (v_query s), Done tt)
  else (configured a (v_style s) t, Done tt).
Proof.
  intros Hinv Ha. subst a. unfold configure_if_needed.
  rewrite (run_one_bind_done _ _ _ _ _ (run_one_send _ _ _ _ (vstep_hello_own s))).
  cbv iota beta. rewrite N.eqb_refl. cbn [andb].
  destruct (ready_state (v_state s)); [reflexivity|].
  destruct (v_query_addr_style s) as [E1 E2].
  rewrite <- E2. rewrite <- E1 at 1 2.
  apply one_configure; [apply v_query_VInv0; exact Hinv|reflexivity].
Qed.

(* ------------------------------------------------------------------------- *)
(** * 9. The closed loop on a bus (C08) *)

Lemma dims_ok : forall t,
  let (w, h) := dimensions t in total_bytes w h <= 65536 /\ 0 < w /\ 0 < h.
Proof.
  intros t. destruct t; cbn [dimensions];
    (split; [apply N.leb_le; vm_compute; reflexivity|split; reflexivity]).
Qed.

Lemma dims_ok' t :
  total_bytes (fst (dimensions t)) (snd (dimensions t)) <= 65536
  /\ 0 < fst (dimensions t) /\ 0 < snd (dimensions t).
Proof. pose proof (dims_ok t) as H. destruct (dimensions t) as [w h]. exact H. Qed.

Lemma target_def b a : target b a = find (fun s => v_addr s =? a) b.
Proof. reflexivity. Qed.

Theorem closed_configure : forall b a t,
  NoDup (map v_addr b) -> Forall VInv0 b -> In a (map v_addr b) ->
  exists b' s',
    run_bus (configure a t) b = (b', Done tt) /\ target b' a = Some s'
    /\ v_state s' = ConfigReceived /\ v_type s' = Some t
    /\ (v_w s', v_h s') = dimensions t
    /\ v_pages s' = [] /\ v_pending s' = [] /\ v_chunks s' = 0
    /\ v_addr s' = a /\ (forall s, target b a = Some s -> v_style s' = v_style s)
    /\ Forall VInv0 b' /\ map v_addr b' = map v_addr b.
Proof.
  intros b a t Hnd Hinv Hin. destruct (target_exists b a Hin) as [s Ht].
  destruct (target_In b a s Ht) as [_ Ha].
  pose proof (one_configure a t s (target_VInv0 b a s Hinv Ht) Ha) as Hone.
  destruct (lift_done a _ b s _ tt (so_configure a t) Hnd Hinv Ht Hone) as (b' & H1 & H2 & H3 & H4).
  exists b', (configured a (v_style s) t).
  split; [exact H1|]. split; [exact H2|]. unfold configured.
  cbn [v_addr v_style v_state v_pages v_pending v_chunks v_w v_h v_type].
  repeat (split; [first [assumption|reflexivity|symmetry; apply surjective_pairing]|]).
  split; [|split; assumption].
  intros s0 Hs0. congruence.
Qed.

Theorem closed_configure_if_needed : forall b a t s,
  NoDup (map v_addr b) -> Forall VInv0 b -> target b a = Some s ->
  ready_state (v_state s) = false \/ v_type s = Some t ->
  exists b' s',
    run_bus (configure_if_needed a t) b = (b', Done tt) /\ target b' a = Some s'
    /\ v_type s' = Some t /\ (v_w s', v_h s') = dimensions t
    /\ receive_pixels_legal (v_state s') = true
    /\ (ready_state (v_state s) = false ->
        v_state s' = ConfigReceived /\ v_pages s' = [] /\ v_pending s' = [] /\ v_chunks s' = 0)
    /\ (ready_state (v_state s) = true ->
        v_state s' = match v_state s with
                     | PageLoadInProgress => PageLoaded
                     | PageShowInProgress => PageShown
                     | st => st
                     end
        /\ v_pages s' = v_pages s /\ v_pending s' = [] /\ v_chunks s' = 0)
    /\ v_addr s' = a /\ v_style s' = v_style s
    /\ Forall VInv0 b' /\ map v_addr b' = map v_addr b.
Proof.
  intros b a t s Hnd Hinv Ht Hor.
  destruct (target_In b a s Ht) as [_ Ha].
  pose proof (target_VInv0 b a s Hinv Ht) as Hs.
  pose proof (one_configure_if_needed a t s Hs Ha) as Hone.
  destruct (ready_state (v_state s)) eqn:Hready.
  - destruct Hor as [Hor|Hty]; [discriminate|].
    destruct (lift_done a _ b s _ tt (so_configure_if_needed a t) Hnd Hinv Ht Hone)
      as (b' & H1 & H2 & H3 & H4).
    exists b', (fst (v_query s)).
    destruct (v_query_addr_style s) as [E1 E2].
    assert (Hidle : v_pending s = [] /\ v_chunks s = 0).
    { apply (VInv0_idle s Hs). destruct (v_state s); try discriminate Hready; reflexivity. }
    pose proof (VInv0_type s t Hs Hty) as Hdim.
    split; [exact H1|]. split; [exact H2|].
    unfold v_query. cbn [fst].
    destruct (v_state s) eqn:Hst; try discriminate Hready;
      cbn [set_state v_addr v_style v_state v_pages v_pending v_chunks v_w v_h v_type];
      rewrite ?Hst; cbn [receive_pixels_legal];
      (repeat split; try assumption; try reflexivity; try discriminate; try apply Hidle).
  - destruct (lift_done a _ b s _ tt (so_configure_if_needed a t) Hnd Hinv Ht Hone)
      as (b' & H1 & H2 & H3 & H4).
    exists b', (configured a (v_style s) t).
    split; [exact H1|]. split; [exact H2|].
    unfold configured.
    cbn [v_addr v_style v_state v_pages v_pending v_chunks v_w v_h v_type receive_pixels_legal].
    repeat split; try assumption; try reflexivity; try discriminate.
    symmetry; apply surjective_pairing.
Qed.

Theorem closed_send_pages : forall b a ps s,
  NoDup (map v_addr b) -> Forall VInv0 b -> target b a = Some s ->
  receive_pixels_legal (v_state s) = true -> 0 < v_w s -> 0 < v_h s ->
  Forall (fun p => p_w p = v_w s /\ p_h p = v_h s
                   /\ nlen (p_bytes p) = total_bytes (v_w s) (v_h s)) ps ->
  total_bytes (v_w s) (v_h s) <= 65536 ->
  N.of_nat (length ps) * (total_bytes (v_w s) (v_h s) / 16) < 65536 ->
  exists b' s',
    run_bus (send_pages a ps) b = (b', Done (v_style s)) /\ target b' a = Some s'
    /\ v_pages s' = ps
    /\ v_state s' = match v_style s with Manual => PageLoaded | Automatic => ShowingPages end
    /\ v_type s' = v_type s /\ (v_w s', v_h s') = (v_w s, v_h s)
    /\ v_pending s' = [] /\ v_chunks s' = 0
    /\ v_addr s' = a /\ v_style s' = v_style s
    /\ Forall VInv0 b' /\ map v_addr b' = map v_addr b.
Proof.
  intros b a ps s Hnd Hinv Ht Hlegal Hw Hh Hps HT Hcnt.
  destruct (target_In b a s Ht) as [_ Ha].
  pose proof (one_send_pages a ps s (target_VInv0 b a s Hinv Ht) Ha Hlegal Hw Hh Hps HT Hcnt)
    as Hone.
  destruct (lift_done a _ b s _ _ (so_send_pages a ps) Hnd Hinv Ht Hone)
    as (b' & H1 & H2 & H3 & H4).
  exists b', (loaded s ps). split; [exact H1|]. split; [exact H2|].
  unfold loaded. cbn [v_addr v_style v_state v_pages v_pending v_chunks v_w v_h v_type].
  repeat split; try assumption; try reflexivity.
Qed.

Theorem closed_show : forall b a s fuel,
  NoDup (map v_addr b) -> Forall VInv0 b -> target b a = Some s ->
  v_state s = PageLoaded -> (3 <= fuel)%nat ->
  exists b',
    run_bus (show_loaded_page fuel a) b = (b', Done tt)
    /\ target b' a = Some (set_state s PageShown)
    /\ Forall VInv0 b' /\ map v_addr b' = map v_addr b.
Proof.
  intros b a s fuel Hnd Hinv Ht Hst Hf. destruct (target_In b a s Ht) as [_ Ha].
  exact (lift_done a _ b s _ tt (so_switch_page a _ _ _ fuel) Hnd Hinv Ht
           (one_show fuel a s Ha Hst Hf)).
Qed.

Theorem closed_load_next : forall b a s fuel,
  NoDup (map v_addr b) -> Forall VInv0 b -> target b a = Some s ->
  v_state s = PageShown -> (3 <= fuel)%nat ->
  exists b',
    run_bus (load_next_page fuel a) b = (b', Done tt)
    /\ target b' a = Some (set_state s PageLoaded)
    /\ Forall VInv0 b' /\ map v_addr b' = map v_addr b.
Proof.
  intros b a s fuel Hnd Hinv Ht Hst Hf. destruct (target_In b a s Ht) as [_ Ha].
  exact (lift_done a _ b s _ tt (so_switch_page a _ _ _ fuel) Hnd Hinv Ht
           (one_load_next fuel a s Ha Hst Hf)).
Qed.

(* A sign that flips pages by itself: both operations are a single query, nothing changes. *)
Lemma bus_switch_noop b a s fuel tg tr op :
  NoDup (map v_addr b) -> target b a = Some s -> v_state s = ShowingPages ->
  (1 <= fuel)%nat ->
  run_bus (switch_page fuel a tg tr op) b = (b, Done tt).
Proof.
  intros Hnd Ht Hst Hf. destruct fuel as [|f]; [lia|].
  destruct (target_split b a s Ht) as (b1 & b2 & Eb & Ha).
  assert (Hq : vstep s (QueryState a) = Some (s, Some (ReportState a ShowingPages))).
  { subst a. rewrite vstep_query_own. unfold v_query. rewrite Hst. reflexivity. }
  pose proof (bus_addressed b (QueryState a) a Hnd eq_refl b1 s b2 Eb Ha _ _ Hq) as Hbs.
  rewrite <- Eb in Hbs.
  cbn [switch_page bind send run_bus]. rewrite Hbs. cbv iota beta.
  rewrite N.eqb_refl. change (state_is ShowingPages ShowingPages) with true. reflexivity.
Qed.

Theorem closed_auto_noop : forall b a s fuel,
  NoDup (map v_addr b) -> target b a = Some s -> v_state s = ShowingPages ->
  (1 <= fuel)%nat ->
  run_bus (show_loaded_page fuel a) b = (b, Done tt)
  /\ run_bus (load_next_page fuel a) b = (b, Done tt).
Proof.
  intros b a s fuel Hnd Ht Hst Hf.
  split; [unfold show_loaded_page|unfold load_next_page];
    apply (bus_switch_noop b a s fuel _ _ _ Hnd Ht Hst Hf).
Qed.

(* Sending again: the state reached by send_pages (and by the two page-flip operations)
   meets the precondition of send_pages, and the new list replaces the old one. *)
Theorem closed_repeat : forall b a ps1 ps2 s,
  NoDup (map v_addr b) -> Forall VInv0 b -> target b a = Some s ->
  receive_pixels_legal (v_state s) = true -> 0 < v_w s -> 0 < v_h s ->
  total_bytes (v_w s) (v_h s) <= 65536 ->
  Forall (fun p => p_w p = v_w s /\ p_h p = v_h s
                   /\ nlen (p_bytes p) = total_bytes (v_w s) (v_h s)) ps1 ->
  N.of_nat (length ps1) * (total_bytes (v_w s) (v_h s) / 16) < 65536 ->
  Forall (fun p => p_w p = v_w s /\ p_h p = v_h s
                   /\ nlen (p_bytes p) = total_bytes (v_w s) (v_h s)) ps2 ->
  N.of_nat (length ps2) * (total_bytes (v_w s) (v_h s) / 16) < 65536 ->
  exists b1 b2 s2,
    run_bus (send_pages a ps1) b = (b1, Done (v_style s))
    /\ run_bus (send_pages a ps2) b1 = (b2, Done (v_style s))
    /\ target b2 a = Some s2 /\ v_pages s2 = ps2
    /\ v_state s2 = match v_style s with Manual => PageLoaded | Automatic => ShowingPages end
    /\ v_type s2 = v_type s /\ (v_w s2, v_h s2) = (v_w s, v_h s)
    /\ Forall VInv0 b2 /\ map v_addr b2 = map v_addr b.
Proof.
  intros b a ps1 ps2 s Hnd Hinv Ht Hlegal Hw Hh HT Hps1 Hc1 Hps2 Hc2.
  destruct (closed_send_pages b a ps1 s Hnd Hinv Ht Hlegal Hw Hh Hps1 HT Hc1)
    as (b1 & s1 & R1 & T1 & _ & St1 & Ty1 & Dim1 & _ & _ & _ & Fs1 & Inv1 & Map1).
  injection Dim1 as Ew Eh.
  assert (Hlegal1 : receive_pixels_legal (v_state s1) = true)
    by (rewrite St1; destruct (v_style s); reflexivity).
  destruct (closed_send_pages b1 a ps2 s1) as
      (b2 & s2 & R2 & T2 & P2 & St2 & Ty2 & Dim2 & _ & _ & _ & Fs2 & Inv2 & Map2);
    rewrite ?Ew, ?Eh, ?Map1; try assumption.
  exists b1, b2, s2. rewrite Fs1 in R2, St2. rewrite Ew, Eh in Dim2.
  repeat split; try assumption; congruence.
Qed.

Theorem closed_resend_after_show : forall b a ps s fuel,
  NoDup (map v_addr b) -> Forall VInv0 b -> target b a = Some s ->
  v_state s = PageLoaded -> (3 <= fuel)%nat -> 0 < v_w s -> 0 < v_h s ->
  total_bytes (v_w s) (v_h s) <= 65536 ->
  Forall (fun p => p_w p = v_w s /\ p_h p = v_h s
                   /\ nlen (p_bytes p) = total_bytes (v_w s) (v_h s)) ps ->
  N.of_nat (length ps) * (total_bytes (v_w s) (v_h s) / 16) < 65536 ->
  exists b1 b2 s2,
    run_bus (show_loaded_page fuel a) b = (b1, Done tt)
    /\ run_bus (send_pages a ps) b1 = (b2, Done (v_style s))
    /\ target b2 a = Some s2 /\ v_pages s2 = ps
    /\ v_state s2 = match v_style s with Manual => PageLoaded | Automatic => ShowingPages end
    /\ Forall VInv0 b2 /\ map v_addr b2 = map v_addr b.
Proof.
  intros b a ps s fuel Hnd Hinv Ht Hst Hf Hw Hh HT Hps Hc.
  destruct (closed_show b a s fuel Hnd Hinv Ht Hst Hf) as (b1 & R1 & T1 & Inv1 & Map1).
  destruct (closed_send_pages b1 a ps (set_state s PageShown)) as
      (b2 & s2 & R2 & T2 & P2 & St2 & _ & _ & _ & _ & _ & _ & Inv2 & Map2);
    rewrite ?Map1; try assumption; try reflexivity.
  exists b1, b2, s2. cbn [set_state v_style] in R2, St2.
  repeat split; try assumption; congruence.
Qed.

Theorem closed_resend_after_load_next : forall b a ps s fuel,
  NoDup (map v_addr b) -> Forall VInv0 b -> target b a = Some s ->
  v_state s = PageShown -> (3 <= fuel)%nat -> 0 < v_w s -> 0 < v_h s ->
  total_bytes (v_w s) (v_h s) <= 65536 ->
  Forall (fun p => p_w p = v_w s /\ p_h p = v_h s
                   /\ nlen (p_bytes p) = total_bytes (v_w s) (v_h s)) ps ->
  N.of_nat (length ps) * (total_bytes (v_w s) (v_h s) / 16) < 65536 ->
  exists b1 b2 s2,
    run_bus (load_next_page fuel a) b = (b1, Done tt)
    /\ run_bus (send_pages a ps) b1 = (b2, Done (v_style s))
    /\ target b2 a = Some s2 /\ v_pages s2 = ps
    /\ v_state s2 = match v_style s with Manual => PageLoaded | Automatic => ShowingPages end
    /\ Forall VInv0 b2 /\ map v_addr b2 = map v_addr b.
Proof.
  intros b a ps s fuel Hnd Hinv Ht Hst Hf Hw Hh HT Hps Hc.
  destruct (closed_load_next b a s fuel Hnd Hinv Ht Hst Hf) as (b1 & R1 & T1 & Inv1 & Map1).
  destruct (closed_send_pages b1 a ps (set_state s PageLoaded)) as
      (b2 & s2 & R2 & T2 & P2 & St2 & _ & _ & _ & _ & _ & _ & Inv2 & Map2);
    rewrite ?Map1; try assumption; try reflexivity.
  exists b1, b2, s2. cbn [set_state v_style] in R2, St2.
  repeat split; try assumption; congruence.
Qed.

(* Configure, then send: for any bus, any address on it, any sign type, any prior state. *)
Theorem closed_end_to_end : forall b a t ps,
  NoDup (map v_addr b) -> Forall VInv0 b -> In a (map v_addr b) ->
  Forall (fun p => p_w p = fst (dimensions t) /\ p_h p = snd (dimensions t)
                   /\ nlen (p_bytes p)
                      = total_bytes (fst (dimensions t)) (snd (dimensions t))) ps ->
  N.of_nat (length ps) * (total_bytes (fst (dimensions t)) (snd (dimensions t)) / 16) < 65536 ->
  exists b1 b2 s2 fs,
    run_bus (configure a t) b = (b1, Done tt)
    /\ run_bus (send_pages a ps) b1 = (b2, Done fs)
    /\ target b2 a = Some s2 /\ v_pages s2 = ps /\ v_type s2 = Some t /\ fs = v_style s2
    /\ v_state s2 = match fs with Manual => PageLoaded | Automatic => ShowingPages end
    /\ (v_w s2, v_h s2) = dimensions t
    /\ (forall s, target b a = Some s -> v_style s = fs)
    /\ Forall VInv0 b2 /\ map v_addr b2 = map v_addr b.
Proof.
  intros b a t ps Hnd Hinv Hin Hps Hc.
  destruct (closed_configure b a t Hnd Hinv Hin)
    as (b1 & s1 & R1 & T1 & St1 & Ty1 & Dim1 & _ & _ & _ & _ & Fs1 & Inv1 & Map1).
  destruct (dims_ok' t) as (HT & Hw & Hh).
  assert (Ew : v_w s1 = fst (dimensions t)) by (rewrite <- Dim1; reflexivity).
  assert (Eh : v_h s1 = snd (dimensions t)) by (rewrite <- Dim1; reflexivity).
  destruct (closed_send_pages b1 a ps s1) as
      (b2 & s2 & R2 & T2 & P2 & St2 & Ty2 & Dim2 & _ & _ & _ & Fs2 & Inv2 & Map2);
    rewrite ?Ew, ?Eh, ?Map1, ?St1; try assumption; try reflexivity.
  exists b1, b2, s2, (v_style s1).
  rewrite Ew, Eh in Dim2.
  repeat split; try assumption; try congruence.
  intros s Hs. symmetry. exact (Fs1 s Hs).
Qed.

(* send_pages to a sign whose recorded type is [t]: the size side conditions follow from the
   type. *)
Theorem closed_send_pages_typed : forall b a ps s t,
  NoDup (map v_addr b) -> Forall VInv0 b -> target b a = Some s ->
  receive_pixels_legal (v_state s) = true -> v_type s = Some t ->
  Forall (fun p => p_w p = fst (dimensions t) /\ p_h p = snd (dimensions t)
                   /\ nlen (p_bytes p)
                      = total_bytes (fst (dimensions t)) (snd (dimensions t))) ps ->
  N.of_nat (length ps) * (total_bytes (fst (dimensions t)) (snd (dimensions t)) / 16) < 65536 ->
  exists b' s',
    run_bus (send_pages a ps) b = (b', Done (v_style s)) /\ target b' a = Some s'
    /\ v_pages s' = ps
    /\ v_state s' = match v_style s with Manual => PageLoaded | Automatic => ShowingPages end
    /\ v_type s' = Some t /\ (v_w s', v_h s') = dimensions t
    /\ v_pending s' = [] /\ v_chunks s' = 0
    /\ v_addr s' = a /\ v_style s' = v_style s
    /\ Forall VInv0 b' /\ map v_addr b' = map v_addr b.
Proof.
  intros b a ps s t Hnd Hinv Ht Hlegal Hty Hps Hc.
  pose proof (VInv0_type s t (target_VInv0 b a s Hinv Ht) Hty) as Hdim.
  destruct (dims_ok' t) as (HT & Hw & Hh).
  assert (Ew : v_w s = fst (dimensions t)) by (rewrite <- Hdim; reflexivity).
  assert (Eh : v_h s = snd (dimensions t)) by (rewrite <- Hdim; reflexivity).
  destruct (closed_send_pages b a ps s) as
      (b' & s' & R & T & P & St & Ty & Dim & Pe & Ch & Ad & Fs & Inv & Map);
    rewrite ?Ew, ?Eh; try assumption.
  exists b', s'. rewrite Hdim in Dim. rewrite Hty in Ty.
  repeat split; assumption.
Qed.
