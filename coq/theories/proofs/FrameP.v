(* FrameP.v — toolkit and proofs for the frame wire codec (properties C01, C03).
   Part 1: reusable lemmas about hex/unhex, checksum, strip_crlf, split_last.
   Part 2: structure of [decode] and the property lemmas restated in props/C01.v, props/C03.v. *)
From Flipdot Require Import Tactics.
From Flipdot Require Import Base Hex Frame WireSpec.
Local Open Scope N_scope.

(* ------------------------------------------------------------------------- *)
(** * Generic helpers *)

(* Case split on every N comparison test in the goal, pruning arithmetic contradictions. *)
Ltac ncmp1 :=
  match goal with
  | |- context [N.leb ?a ?b] => destruct (N.leb_spec a b)
  | |- context [N.ltb ?a ?b] => destruct (N.ltb_spec a b)
  | |- context [N.eqb ?a ?b] => destruct (N.eqb_spec a b)
  end; cbn [andb orb negb]; try lia.
Ltac ncmp := repeat ncmp1.

(* Induction two elements at a time. *)
Lemma pair_ind (P : list N -> Prop) :
  P [] -> (forall x, P [x]) -> (forall x y t, P t -> P (x :: y :: t)) -> forall l, P l.
Proof.
  intros H0 H1 H2. fix IH 1. intros [|x [|y t]]; [exact H0|apply H1|apply H2, IH].
Qed.

Lemma nlen_0_nil {A} (l : list A) : nlen l = 0 -> l = [].
Proof. destruct l; [reflexivity|]. rewrite nlen_cons. lia. Qed.

Lemma sumN_nil : sumN [] = 0.
Proof. reflexivity. Qed.

Lemma sumN_cons x l : sumN (x :: l) = x + sumN l.
Proof. reflexivity. Qed.

Lemma sumN_app a b : sumN (a ++ b) = sumN a + sumN b.
Proof.
  induction a as [|x a IH]; cbn [app].
  - rewrite sumN_nil. lia.
  - rewrite !sumN_cons, IH. lia.
Qed.

Lemma bytesb_cons b t : bytesb (b :: t) = true <-> b < 256 /\ bytesb t = true.
Proof.
  unfold bytesb. cbn [forallb]. unfold is_u8 at 1. rewrite andb_true_iff, N.ltb_lt. tauto.
Qed.

Lemma bytesb_app a b : bytesb (a ++ b) = true <-> bytesb a = true /\ bytesb b = true.
Proof. unfold bytesb. rewrite forallb_app, andb_true_iff. tauto. Qed.

Lemma bytesb_nil : bytesb [] = true.
Proof. reflexivity. Qed.

Lemma bytesb_Forall l : bytesb l = true <-> Forall (fun b => b < 256) l.
Proof.
  unfold bytesb. rewrite forallb_forall, Forall_forall.
  split; intros H x Hx; specialize (H x Hx); unfold is_u8 in *; apply N.ltb_lt; exact H.
Qed.

(* ------------------------------------------------------------------------- *)
(** * Hex digits *)

Lemma hexval_cases c :
  (48 <= c <= 57 /\ hexval c = Some (c - 48)) \/
  (65 <= c <= 70 /\ hexval c = Some (c - 55)) \/
  (97 <= c <= 102 /\ hexval c = Some (c - 87)) \/
  ((c < 48 \/ 57 < c < 65 \/ 70 < c < 97 \/ 102 < c) /\ hexval c = None).
Proof.
  unfold hexval. ncmp;
    first [ left; split; [lia|reflexivity]
          | right; left; split; [lia|reflexivity]
          | right; right; left; split; [lia|reflexivity]
          | right; right; right; split; [lia|reflexivity] ].
Qed.

Lemma hexval_Some c v :
  hexval c = Some v <->
  (48 <= c <= 57 /\ v = c - 48) \/ (65 <= c <= 70 /\ v = c - 55) \/ (97 <= c <= 102 /\ v = c - 87).
Proof.
  destruct (hexval_cases c) as [[H E]|[[H E]|[[H E]|[H E]]]]; rewrite E; split.
  all: try (intros [= <-]); try (intros [[? ->]|[[? ->]|[? ->]]]); try reflexivity; try lia.
  all: try (f_equal; lia).
Qed.

Lemma hexval_lt16 c v : hexval c = Some v -> v < 16.
Proof. rewrite hexval_Some. lia. Qed.

Lemma upper_cases c :
  (97 <= c <= 122 /\ upper c = c - 32) \/ ((c < 97 \/ 122 < c) /\ upper c = c).
Proof.
  unfold upper. ncmp; solve [left; split; [lia|reflexivity] | right; split; [lia|reflexivity]].
Qed.

(* Upper-casing never changes the value of a character as a hex digit (g-z go to G-Z, which
   are not digits either), so this holds for every byte. *)
Lemma hexval_upper c : hexval (upper c) = hexval c.
Proof.
  destruct (upper_cases c) as [[H ->]|[H ->]]; [|reflexivity].
  destruct (hexval_cases c) as [[H1 E]|[[H1 E]|[[H1 E]|[H1 E]]]]; rewrite E; try lia.
  - apply hexval_Some. right; left. lia.
  - destruct (hexval_cases (c - 32)) as [[H2 E2]|[[H2 E2]|[[H2 E2]|[H2 E2]]]]; try lia. exact E2.
Qed.

Lemma is_xdigit_upper c : is_xdigit (upper c) = is_xdigit c.
Proof. unfold is_xdigit. rewrite hexval_upper. reflexivity. Qed.

Lemma is_xdigit_Some c : is_xdigit c = true <-> exists v, hexval c = Some v.
Proof.
  unfold is_xdigit. destruct (hexval c) as [v|]; split; eauto; try discriminate.
  intros [v [=]].
Qed.

Lemma is_xdigit_range c :
  is_xdigit c = true <-> 48 <= c <= 57 \/ 65 <= c <= 70 \/ 97 <= c <= 102.
Proof.
  rewrite is_xdigit_Some. split.
  - intros [v Hv]. apply hexval_Some in Hv. lia.
  - intros H. destruct (hexval_cases c) as [[H1 E]|[[H1 E]|[[H1 E]|[H1 E]]]]; eauto. lia.
Qed.

Lemma is_upper_hex_range c : is_upper_hex c = true <-> 48 <= c <= 57 \/ 65 <= c <= 70.
Proof. unfold is_upper_hex. ncmp; split; intros; try lia; try reflexivity; discriminate. Qed.

Lemma is_upper_hex_xdigit c : is_upper_hex c = true -> is_xdigit c = true.
Proof. rewrite is_upper_hex_range, is_xdigit_range. lia. Qed.

Lemma is_upper_hex_upper c : is_upper_hex c = true -> upper c = c.
Proof.
  rewrite is_upper_hex_range. destruct (upper_cases c) as [[H ->]|[H ->]]; [lia|reflexivity].
Qed.

(* A character is a hex digit of either case iff its upper-casing is an upper-case hex digit. *)
Lemma is_upper_hex_of_upper c : is_upper_hex (upper c) = is_xdigit c.
Proof.
  apply eq_true_iff_eq. rewrite is_upper_hex_range, is_xdigit_range.
  destruct (upper_cases c) as [[H ->]|[H ->]]; lia.
Qed.

Lemma hexdigit_cases n : n < 16 -> (n < 10 /\ hexdigit n = 48 + n) \/ (10 <= n /\ hexdigit n = 55 + n).
Proof. intros H. unfold hexdigit. ncmp. Qed.

(* hexval (hexdigit n) = Some n on the finite domain n < 16. *)
Lemma hexval_hexdigit n : n < 16 -> hexval (hexdigit n) = Some n.
Proof.
  intros H. apply hexval_Some.
  destruct (hexdigit_cases n H) as [[H1 ->]|[H1 ->]]; lia.
Qed.

Lemma hexdigit_upper_hex n : n < 16 -> is_upper_hex (hexdigit n) = true.
Proof.
  intros H. apply is_upper_hex_range.
  destruct (hexdigit_cases n H) as [[H1 ->]|[H1 ->]]; lia.
Qed.

(* hexdigit n is the n-th character of "0123456789ABCDEF". *)
Definition HEX_DIGITS : list N := [48;49;50;51;52;53;54;55;56;57;65;66;67;68;69;70].

Lemma hexdigit_table n : n < 16 -> nth (N.to_nat n) HEX_DIGITS 0 = hexdigit n.
Proof.
  intros H.
  assert (E : nrangeb 16 (fun n => nth (N.to_nat n) HEX_DIGITS 0 =? hexdigit n) = true)
    by (vm_compute; reflexivity).
  apply N.eqb_eq. exact (nrangeb_spec 16 _ E n H).
Qed.

(* The digit printed for the value of a digit is that digit, upper-cased. *)
Lemma hexdigit_hexval c v : hexval c = Some v -> hexdigit v = upper c.
Proof.
  intros Hv. assert (Hlt := hexval_lt16 _ _ Hv). apply hexval_Some in Hv.
  destruct (hexdigit_cases v Hlt) as [[H1 ->]|[H1 ->]];
    destruct (upper_cases c) as [[H2 ->]|[H2 ->]]; lia.
Qed.

(* ------------------------------------------------------------------------- *)
(** * hex / unhex *)

Lemma hex_length bs : length (hex bs) = (2 * length bs)%nat.
Proof. induction bs as [|b t IH]; cbn [hex length]; lia. Qed.

Lemma hex_nlen bs : nlen (hex bs) = 2 * nlen bs.
Proof. unfold nlen. rewrite hex_length. lia. Qed.

Lemma hex_app a b : hex (a ++ b) = hex a ++ hex b.
Proof. induction a as [|x a IH]; cbn [hex app]; [reflexivity|]. rewrite IH. reflexivity. Qed.

Lemma hex_upper_hex bs :
  bytesb bs = true -> Forall (fun c => is_upper_hex c = true) (hex bs).
Proof.
  induction bs as [|b t IH]; cbn [hex]; [constructor|].
  rewrite bytesb_cons. intros [Hb Ht].
  constructor; [apply hexdigit_upper_hex; lia|].
  constructor; [apply hexdigit_upper_hex; lia|]. exact (IH Ht).
Qed.

Lemma hex_xdigit bs : bytesb bs = true -> forallb is_xdigit (hex bs) = true.
Proof.
  intros H. apply forallb_forall. intros c Hc.
  apply is_upper_hex_xdigit. pose proof (hex_upper_hex bs H) as F.
  rewrite Forall_forall in F. exact (F c Hc).
Qed.

Lemma map_upper_hex bs : bytesb bs = true -> map upper (hex bs) = hex bs.
Proof.
  intros H. pose proof (hex_upper_hex bs H) as F.
  induction F as [|c l Hc F IH]; cbn [map]; [reflexivity|].
  rewrite IH, (is_upper_hex_upper c Hc). reflexivity.
Qed.

Lemma unhex_hex bs : bytesb bs = true -> unhex (hex bs) = Some bs.
Proof.
  induction bs as [|b t IH]; [reflexivity|].
  rewrite bytesb_cons. intros [Hb Ht]. cbn [hex unhex].
  rewrite !hexval_hexdigit by lia. rewrite (IH Ht). f_equal. f_equal. lia.
Qed.

(* Case-insensitivity of the parser, for every input. *)
Lemma unhex_map_upper s : unhex (map upper s) = unhex s.
Proof.
  induction s as [| x | x y t IH] using pair_ind; [reflexivity|reflexivity|].
  cbn [map unhex]. rewrite !hexval_upper, IH. reflexivity.
Qed.

Lemma unhex_cons2_inv h l t bs :
  unhex (h :: l :: t) = Some bs ->
  exists a b r, hexval h = Some a /\ hexval l = Some b /\ unhex t = Some r /\ bs = 16 * a + b :: r.
Proof.
  cbn [unhex]. destruct (hexval h) as [a|]; [|discriminate].
  destruct (hexval l) as [b|]; [|discriminate].
  destruct (unhex t) as [r|]; [|discriminate].
  intros [= <-]. exists a, b, r. auto.
Qed.

Lemma unhex_Some s : forall bs,
  unhex s = Some bs ->
  length s = (2 * length bs)%nat /\ forallb is_xdigit s = true /\ bytesb bs = true
  /\ hex bs = map upper s.
Proof.
  induction s as [| x | x y t IH] using pair_ind; intros bs H.
  - injection H as <-. auto.
  - discriminate.
  - apply unhex_cons2_inv in H. destruct H as (a & b & r & Ha & Hb & Hr & ->).
    destruct (IH r Hr) as (L & X & B & U).
    assert (a < 16) by (eapply hexval_lt16; eauto).
    assert (b < 16) by (eapply hexval_lt16; eauto).
    repeat split.
    + cbn [length]. lia.
    + cbn [forallb]. unfold is_xdigit at 1 2. rewrite Ha, Hb, X. reflexivity.
    + apply bytesb_cons. split; [lia|exact B].
    + cbn [hex map]. rewrite U. f_equal; [|f_equal].
      * replace ((16 * a + b) / 16) with a by lia. eapply hexdigit_hexval; eauto.
      * replace ((16 * a + b) mod 16) with b by lia. eapply hexdigit_hexval; eauto.
Qed.

Lemma unhex_length s bs : unhex s = Some bs -> length s = (2 * length bs)%nat.
Proof. intros H. apply (unhex_Some s bs H). Qed.
Lemma unhex_nlen s bs : unhex s = Some bs -> nlen s = 2 * nlen bs.
Proof. intros H. unfold nlen. rewrite (unhex_length s bs H). lia. Qed.
Lemma unhex_xdigit s bs : unhex s = Some bs -> forallb is_xdigit s = true.
Proof. intros H. apply (unhex_Some s bs H). Qed.
Lemma unhex_bytes s bs : unhex s = Some bs -> bytesb bs = true.
Proof. intros H. apply (unhex_Some s bs H). Qed.
Lemma unhex_hex_upper s bs : unhex s = Some bs -> hex bs = map upper s.
Proof. intros H. apply (unhex_Some s bs H). Qed.

(* Conversely, text in upper-cased hex form parses to exactly those bytes. *)
Lemma hex_text_unhex text bs : bytesb bs = true -> map upper text = hex bs -> unhex text = Some bs.
Proof. intros B E. rewrite <- unhex_map_upper, E. apply unhex_hex, B. Qed.

Lemma N_even_add2 n : N.even (n + 1 + 1) = N.even n.
Proof.
  rewrite <- N.add_assoc, N.even_add. vm_eval (N.even (1 + 1)). destruct (N.even n); reflexivity.
Qed.

(* unhex cannot fail on an even number of hex digits: the unwrap in parse_hex never fires. *)
Lemma unhex_total s :
  forallb is_xdigit s = true -> N.even (nlen s) = true -> exists bs, unhex s = Some bs.
Proof.
  induction s as [| x | x y t IH] using pair_ind; intros X E.
  - exists []. reflexivity.
  - vm_compute in E. discriminate.
  - cbn [forallb] in X. apply andb_true_iff in X. destruct X as [Xx X].
    apply andb_true_iff in X. destruct X as [Xy X].
    rewrite !nlen_cons, N_even_add2 in E. destruct (IH X E) as [r Hr].
    apply is_xdigit_Some in Xx. destruct Xx as [a Ha].
    apply is_xdigit_Some in Xy. destruct Xy as [b Hb].
    exists (16 * a + b :: r). cbn [unhex]. rewrite Ha, Hb, Hr. reflexivity.
Qed.

(* ------------------------------------------------------------------------- *)
(** * Checksum *)

Lemma wsub_lt a b : wsub a b < 256.
Proof. unfold wsub. lia. Qed.

Lemma fold_wsub bs : forall acc, acc < 256 ->
  fold_left wsub bs acc = (acc + 256 - sumN bs mod 256) mod 256.
Proof.
  induction bs as [|b t IH]; intros acc H; cbn [fold_left].
  - cbn [sumN fold_right]. lia.
  - rewrite (IH _ (wsub_lt acc b)). rewrite sumN_cons. unfold wsub. lia.
Qed.

(* No byte-range hypothesis is needed: wsub reduces its argument mod 256 itself. *)
Lemma checksum_eq bs : checksum bs = (256 - sumN bs mod 256) mod 256.
Proof. unfold checksum. rewrite fold_wsub by lia. f_equal. Qed.

Lemma checksum_lt bs : checksum bs < 256.
Proof. rewrite checksum_eq. lia. Qed.

Lemma checksum_sum bs : (sumN bs + checksum bs) mod 256 = 0.
Proof. rewrite checksum_eq. lia. Qed.

Lemma checksum_lrc bs : lrc_ok (bs ++ [checksum bs]).
Proof.
  unfold lrc_ok. rewrite sumN_app. cbn [sumN fold_right]. rewrite N.add_0_r. apply checksum_sum.
Qed.

(* The checksum is the only byte that makes the sum vanish. *)
Lemma lrc_checksum bs ck : ck < 256 -> lrc_ok (bs ++ [ck]) -> ck = checksum bs.
Proof.
  unfold lrc_ok. rewrite sumN_app. cbn [sumN fold_right]. rewrite N.add_0_r, checksum_eq.
  intros H1 H2. lia.
Qed.

(* ------------------------------------------------------------------------- *)
(** * strip_crlf *)

Definition ends_crlf (s : list N) : Prop := exists p, s = p ++ [13; 10].

Lemma strip_crlf_cons3 x y z t : strip_crlf (x :: y :: z :: t) = x :: strip_crlf (y :: z :: t).
Proof. reflexivity. Qed.

(* Holds for every s (in particular when s itself ends in CR LF: only one is removed). *)
Lemma strip_crlf_app s : strip_crlf (s ++ [13; 10]) = s.
Proof.
  induction s as [|x s IH]; [reflexivity|].
  destruct s as [|y [|z t]]; [reflexivity|reflexivity|].
  cbn [app] in *. rewrite strip_crlf_cons3, IH. reflexivity.
Qed.

Lemma strip_crlf_cases s :
  s = strip_crlf s ++ [13; 10] \/ (strip_crlf s = s /\ ~ ends_crlf s).
Proof.
  induction s as [|x s IH].
  - right. split; [reflexivity|]. intros [p H]. destruct p; discriminate.
  - destruct s as [|y [|z t]].
    + right. split; [reflexivity|]. intros [p H]. destruct p as [|a [|b p]]; discriminate.
    + cbn [strip_crlf]. destruct (N.eqb_spec x 13) as [->|Hx]; cbn [andb].
      * destruct (N.eqb_spec y 10) as [->|Hy].
        -- left. reflexivity.
        -- right. split; [reflexivity|]. intros [p H].
           destruct p as [|a [|b [|c p]]]; cbn [app] in H; try discriminate. congruence.
      * right. split; [reflexivity|]. intros [p H].
        destruct p as [|a [|b [|c p]]]; cbn [app] in H; try discriminate. congruence.
    + rewrite strip_crlf_cons3. destruct IH as [E|[E NE]].
      * left. rewrite <- app_comm_cons. f_equal. exact E.
      * right. rewrite E. split; [reflexivity|]. intros [p H].
        destruct p as [|a p]; [discriminate|]. injection H as -> H. apply NE. exists p. exact H.
Qed.

Lemma strip_crlf_id s : ~ ends_crlf s -> strip_crlf s = s.
Proof.
  intros NE. destruct (strip_crlf_cases s) as [E|[E _]]; [|exact E].
  exfalso. apply NE. exists (strip_crlf s). exact E.
Qed.

(* Characterisation: the body is what precedes one trailing CR LF, or everything when there is
   no trailing CR LF. *)
Lemma strip_crlf_iff s body :
  strip_crlf s = body <-> s = body ++ [13; 10] \/ (s = body /\ ~ ends_crlf s).
Proof.
  split.
  - intros <-. destruct (strip_crlf_cases s) as [E|[E NE]]; [left; exact E|right].
    split; [symmetry; exact E|exact NE].
  - intros [->|[<- NE]]; [apply strip_crlf_app|apply strip_crlf_id, NE].
Qed.

Lemma strip_crlf_two s : s = strip_crlf s \/ s = strip_crlf s ++ [13; 10].
Proof. destruct (strip_crlf_cases s) as [E|[E _]]; [right; exact E|left; symmetry; exact E]. Qed.

(* Hex text contains neither CR nor LF. *)
Lemma xdigit_not_ends_crlf s : forallb is_xdigit s = true -> ~ ends_crlf s.
Proof.
  intros X [p ->]. rewrite forallb_app in X. apply andb_true_iff in X.
  destruct X as [_ X]. vm_compute in X. discriminate.
Qed.

Lemma strip_crlf_text text term :
  forallb is_xdigit text = true -> term = [] \/ term = [13; 10] ->
  strip_crlf (text ++ term) = text.
Proof.
  intros X [->| ->].
  - rewrite app_nil_r. apply strip_crlf_id, xdigit_not_ends_crlf, X.
  - apply strip_crlf_app.
Qed.

(* ------------------------------------------------------------------------- *)
(** * split_last *)

Lemma split_last_cons2 x y t :
  split_last (x :: y :: t) =
  match split_last (y :: t) with Some (d, c) => Some (x :: d, c) | None => None end.
Proof. reflexivity. Qed.

Lemma split_last_app d c : split_last (d ++ [c]) = Some (d, c).
Proof.
  induction d as [|x d IH]; [reflexivity|].
  cbn [app]. destruct (d ++ [c]) as [|y t] eqn:E; [destruct d; discriminate|].
  rewrite split_last_cons2, IH. reflexivity.
Qed.

Lemma split_last_Some l : forall d c, split_last l = Some (d, c) -> l = d ++ [c].
Proof.
  induction l as [|x l IH]; intros d c H; [discriminate|].
  destruct l as [|y t].
  - injection H as <- <-. reflexivity.
  - rewrite split_last_cons2 in H.
    destruct (split_last (y :: t)) as [[d' c']|] eqn:E; [|discriminate].
    injection H as <- <-. rewrite (IH d' c' eq_refl). reflexivity.
Qed.

Lemma split_last_None l : split_last l = None <-> l = [].
Proof.
  split; [|intros ->; reflexivity].
  intros H. destruct l as [|x t]; [reflexivity|].
  destruct (exists_last (l := x :: t)) as (d & c & E); [discriminate|].
  rewrite E, split_last_app in H. discriminate.
Qed.

Lemma split_last_iff l d c : split_last l = Some (d, c) <-> l = d ++ [c].
Proof. split; [apply split_last_Some|intros ->; apply split_last_app]. Qed.

(* ------------------------------------------------------------------------- *)
(** * Frames: well-formedness, payload, fields *)

Lemma wf_frame_iff f :
  wf_frame f <->
  f_addr f < 65536 /\ f_type f < 256 /\ bytesb (f_data f) = true /\ nlen (f_data f) <= 255.
Proof.
  unfold wf_frame, wf_frameb, is_u16, is_u8.
  rewrite !andb_true_iff, !N.ltb_lt, N.leb_le. tauto.
Qed.

(* The `as u8` truncations in payload are no-ops on well-formed frames. *)
Lemma payload_fields f : wf_frame f -> payload f = fields f.
Proof.
  rewrite wf_frame_iff. intros (Ha & Ht & Hd & Hl). unfold payload, fields.
  rewrite (N.mod_small (nlen (f_data f)) 256) by lia.
  rewrite (N.mod_small (f_addr f / 256) 256) by lia. reflexivity.
Qed.

Lemma fields_bytes f : wf_frame f -> bytesb (fields f) = true.
Proof.
  rewrite wf_frame_iff. intros (Ha & Ht & Hd & Hl). unfold fields. cbn [app].
  repeat (apply bytesb_cons; split; [lia|]). exact Hd.
Qed.

Lemma fields_nlen f : nlen (fields f) = nlen (f_data f) + 4.
Proof. unfold fields. cbn [app]. rewrite !nlen_cons. lia. Qed.

Lemma payload_mk len ah al ty data :
  nlen data = len -> len < 256 -> ah < 256 -> al < 256 ->
  payload {| f_addr := ah * 256 + al; f_type := ty; f_data := data |}
  = len :: ah :: al :: ty :: data.
Proof.
  intros Hn Hl Ha Hb. unfold payload. cbn [f_addr f_type f_data app]. rewrite Hn.
  f_equal; [lia|]. f_equal; [lia|]. f_equal. lia.
Qed.

(* ------------------------------------------------------------------------- *)
(** * check *)

Lemma check_eq len ah al ty data ck :
  len < 256 -> ah < 256 -> al < 256 ->
  check (len :: ah :: al :: ty :: data ++ [ck]) =
  if nlen data =? len then
    if checksum (len :: ah :: al :: ty :: data) =? ck
    then Ok {| f_addr := ah * 256 + al; f_type := ty; f_data := data |}
    else Err (BadChecksum ck (checksum (len :: ah :: al :: ty :: data)))
  else Err (DataMismatch len (nlen data)).
Proof.
  intros Hl Ha Hb. unfold check. rewrite split_last_app.
  destruct (N.eqb_spec (nlen data) len) as [E|NE]; [|reflexivity].
  unfold data_try_new. destruct (N.ltb_spec 255 (nlen data)) as [L|L]; [lia|].
  cbv zeta. rewrite (payload_mk len ah al ty data E Hl Ha Hb). reflexivity.
Qed.

Lemma bs_decomp (bs : list N) :
  5 <= nlen bs -> exists len ah al ty data ck, bs = len :: ah :: al :: ty :: data ++ [ck].
Proof.
  intros H. destruct bs as [|len [|ah [|al [|ty rest]]]];
    rewrite ?nlen_cons, ?(@nlen_nil N) in H; try lia.
  destruct rest as [|r rest]; [rewrite (@nlen_nil N) in H; lia|].
  destruct (exists_last (l := r :: rest)) as (data & ck & E); [discriminate|].
  exists len, ah, al, ty, data, ck. rewrite E. reflexivity.
Qed.

Lemma bs_parts len ah al ty data ck :
  let bs := len :: ah :: al :: ty :: data ++ [ck] in
  hd 0 bs = len /\ nlen bs - 5 = nlen data /\ last bs 0 = ck
  /\ removelast bs = len :: ah :: al :: ty :: data.
Proof.
  cbv zeta. split; [reflexivity|]. split; [|split].
  - rewrite !nlen_cons, nlen_app, nlen_cons, (@nlen_nil N). lia.
  - change (last ((len :: ah :: al :: ty :: data) ++ [ck]) 0 = ck). apply last_last.
  - change (removelast ((len :: ah :: al :: ty :: data) ++ [ck]) = len :: ah :: al :: ty :: data).
    apply removelast_last.
Qed.

(* ------------------------------------------------------------------------- *)
(** * shape and WellFormedText *)

Lemma shape_iff body :
  shape body = true <->
  forallb is_xdigit body = true /\ N.even (nlen body) = true /\ 10 <= nlen body.
Proof. unfold shape. rewrite !andb_true_iff, N.leb_le. tauto. Qed.

Lemma unhex_shape text bs : unhex text = Some bs -> 5 <= nlen bs -> shape text = true.
Proof.
  intros U L. apply shape_iff. split; [exact (unhex_xdigit _ _ U)|].
  rewrite (unhex_nlen _ _ U). split; [|lia]. rewrite N.even_mul. reflexivity.
Qed.

Lemma shape_unhex text : shape text = true -> exists bs, unhex text = Some bs /\ 5 <= nlen bs.
Proof.
  rewrite shape_iff. intros (X & E & L). destruct (unhex_total text X E) as [bs U].
  exists bs. split; [exact U|]. rewrite (unhex_nlen _ _ U) in L. lia.
Qed.

Lemma wft_inv s bs :
  WellFormedText s bs ->
  exists rest, s = 58 :: rest /\ shape (strip_crlf rest) = true
               /\ unhex (strip_crlf rest) = Some bs /\ 5 <= nlen bs.
Proof.
  intros (text & term & -> & T & U & L). exists (text ++ term).
  rewrite (strip_crlf_text text term (unhex_xdigit _ _ U) T).
  repeat split; [exact (unhex_shape _ _ U L)|exact U|exact L].
Qed.

Lemma wft_intro rest bs :
  unhex (strip_crlf rest) = Some bs -> 5 <= nlen bs -> WellFormedText (58 :: rest) bs.
Proof.
  intros U L. destruct (strip_crlf_two rest) as [E|E].
  - exists (strip_crlf rest), []. rewrite app_nil_r. split; [f_equal; exact E|]. auto.
  - exists (strip_crlf rest), [13; 10]. split; [f_equal; exact E|]. auto.
Qed.

(* The numbers of a well-formed text are determined by the string (hex text has no CR/LF, so
   the text/terminator decomposition is unique). *)
Lemma wft_unique s bs bs' : WellFormedText s bs -> WellFormedText s bs' -> bs = bs'.
Proof.
  intros H H'. destruct (wft_inv _ _ H) as (r & -> & _ & U & _).
  destruct (wft_inv _ _ H') as (r' & [= <-] & _ & U' & _). congruence.
Qed.

Lemma wft_bytes s bs : WellFormedText s bs -> bytesb bs = true /\ 5 <= nlen bs.
Proof. intros (text & term & _ & _ & U & L). split; [exact (unhex_bytes _ _ U)|exact L]. Qed.

Lemma wft_decomp s bs :
  WellFormedText s bs ->
  exists len ah al ty data ck,
    bs = len :: ah :: al :: ty :: data ++ [ck]
    /\ len < 256 /\ ah < 256 /\ al < 256 /\ ty < 256 /\ bytesb data = true /\ ck < 256.
Proof.
  intros H. destruct (wft_bytes _ _ H) as [B L].
  destruct (bs_decomp bs L) as (len & ah & al & ty & data & ck & ->).
  exists len, ah, al, ty, data, ck. split; [reflexivity|].
  apply bytesb_cons in B. destruct B as [? B]. apply bytesb_cons in B. destruct B as [? B].
  apply bytesb_cons in B. destruct B as [? B]. apply bytesb_cons in B. destruct B as [? B].
  apply bytesb_app in B. destruct B as [? B]. apply bytesb_cons in B. destruct B as [? _].
  auto 10.
Qed.

(* ------------------------------------------------------------------------- *)
(** * Structure of decode *)

Lemma decode_cons58 rest :
  decode (58 :: rest) =
  if shape (strip_crlf rest) then
    match unhex (strip_crlf rest) with Some bs => check bs | None => Err FPanic end
  else Err InvalidFrame.
Proof. reflexivity. Qed.

Lemma decode_wft s bs : WellFormedText s bs -> decode s = check bs.
Proof.
  intros H. destruct (wft_inv _ _ H) as (r & -> & S & U & _).
  rewrite decode_cons58, S, U. reflexivity.
Qed.

Lemma decode_not_wft s : ~ (exists bs, WellFormedText s bs) -> decode s = Err InvalidFrame.
Proof.
  intros H. destruct s as [|c rest]; [reflexivity|]. cbn [decode].
  destruct (N.eqb_spec c 58) as [->|NE]; [|reflexivity].
  destruct (shape (strip_crlf rest)) eqn:S; [|reflexivity].
  exfalso. apply H. destruct (shape_unhex _ S) as (bs & U & L).
  exists bs. exact (wft_intro rest bs U L).
Qed.

(* decode is: find the (unique) numbers of the documented textual form, then check them. *)
Lemma decode_spec s :
  (exists bs, WellFormedText s bs /\ decode s = check bs)
  \/ (~ (exists bs, WellFormedText s bs) /\ decode s = Err InvalidFrame).
Proof.
  destruct s as [|c rest].
  - right. split; [|reflexivity]. intros (bs & text & term & H & _). discriminate.
  - destruct (N.eqb_spec c 58) as [->|NE].
    + destruct (shape (strip_crlf rest)) eqn:S.
      * left. destruct (shape_unhex _ S) as (bs & U & L). exists bs.
        pose proof (wft_intro rest bs U L) as W. split; [exact W|apply decode_wft, W].
      * right. assert (NW : ~ (exists bs, WellFormedText (58 :: rest) bs)).
        { intros (bs & W). destruct (wft_inv _ _ W) as (r & [= <-] & S' & _). congruence. }
        split; [exact NW|apply decode_not_wft, NW].
    + right. assert (NW : ~ (exists bs, WellFormedText (c :: rest) bs)).
      { intros (bs & text & term & [= -> _] & _). congruence. }
      split; [exact NW|apply decode_not_wft, NW].
Qed.

(* The structure lemma, accepting direction ... *)
Lemma decode_Ok_inv s f :
  decode s = Ok f ->
  exists text, (s = 58 :: text \/ s = 58 :: text ++ [13; 10]) /\ shape text = true
               /\ exists bs, unhex text = Some bs /\ check bs = Ok f.
Proof.
  intros D. destruct (decode_spec s) as [(bs & W & E)|[_ E]]; [|congruence].
  destruct (wft_inv _ _ W) as (r & -> & S & U & _). exists (strip_crlf r).
  split; [|split; [exact S|exists bs; split; [exact U|congruence]]].
  destruct (strip_crlf_two r) as [R|R]; [left|right]; f_equal; exact R.
Qed.

(* ... and its converse. *)
Lemma decode_Ok_intro text bs f :
  unhex text = Some bs -> check bs = Ok f ->
  decode (58 :: text) = Ok f /\ decode (58 :: text ++ [13; 10]) = Ok f.
Proof.
  intros U C. assert (L : 5 <= nlen bs).
  { destruct bs as [|a [|b [|c [|d [|e t]]]]]; try discriminate.
    rewrite !nlen_cons. lia. }
  assert (X := unhex_xdigit _ _ U).
  split; rewrite <- C; apply decode_wft.
  - exists text, []. rewrite app_nil_r. auto.
  - exists text, [13; 10]. auto.
Qed.

(* ------------------------------------------------------------------------- *)
(** * Documented strings and the decoder *)

Lemma fields_mk len ah al ty data :
  nlen data = len -> al < 256 ->
  fields {| f_addr := ah * 256 + al; f_type := ty; f_data := data |}
  = len :: ah :: al :: ty :: data.
Proof.
  intros Hn Hb. unfold fields. cbn [f_addr f_type f_data app]. rewrite Hn.
  f_equal. f_equal; [lia|]. f_equal. lia.
Qed.

Lemma hex_text_xdigit text bs :
  bytesb bs = true -> map upper text = hex bs -> forallb is_xdigit text = true.
Proof. intros B E. exact (unhex_xdigit _ _ (hex_text_unhex text bs B E)). Qed.

Lemma fields_ck_bytes f ck : wf_frame f -> ck < 256 -> bytesb (fields f ++ [ck]) = true.
Proof.
  intros W H. apply bytesb_app. split; [apply fields_bytes, W|].
  apply bytesb_cons. split; [exact H|reflexivity].
Qed.

Lemma documented_wft s f :
  Documented s f ->
  exists ck, WellFormedText s (fields f ++ [ck]) /\ ck = checksum (fields f) /\ wf_frame f.
Proof.
  intros (text & term & ck & -> & T & Hx & Hck & Hl & W).
  exists ck. split; [|split; [apply lrc_checksum; assumption|exact W]].
  exists text, term. split; [reflexivity|]. split; [exact T|]. split.
  - apply hex_text_unhex; [|exact Hx]. apply fields_ck_bytes; assumption.
  - rewrite nlen_app, fields_nlen, nlen_cons, (@nlen_nil N). lia.
Qed.

Lemma check_fields f : wf_frame f -> check (fields f ++ [checksum (fields f)]) = Ok f.
Proof.
  intros W. pose proof W as W'. rewrite wf_frame_iff in W'. destruct W' as (Ha & Ht & Hd & Hl).
  unfold fields at 1. cbn [app]. rewrite check_eq by lia.
  rewrite N.eqb_refl.
  change (nlen (f_data f) :: f_addr f / 256 :: f_addr f mod 256 :: f_type f :: f_data f)
    with (fields f).
  rewrite N.eqb_refl. f_equal. destruct f as [a t d]. cbn [f_addr f_type f_data] in *.
  f_equal. lia.
Qed.

Lemma decode_documented s f : Documented s f -> decode s = Ok f.
Proof.
  intros D. destruct (documented_wft s f D) as (ck & W & -> & Wf).
  rewrite (decode_wft _ _ W). apply check_fields, Wf.
Qed.

Lemma documented_decode s f : decode s = Ok f -> Documented s f.
Proof.
  intros D. destruct (decode_spec s) as [(bs & W & E)|[_ E]]; [|congruence].
  rewrite D in E.
  destruct (wft_decomp s bs W) as (len & ah & al & ty & data & ck & -> & Hl & Ha & Hb & Ht & Hd & Hc).
  rewrite check_eq in E by assumption.
  destruct (N.eqb_spec (nlen data) len) as [En|]; [|discriminate].
  destruct (N.eqb_spec (checksum (len :: ah :: al :: ty :: data)) ck) as [Ec|]; [|discriminate].
  injection E as ->.
  destruct W as (text & term & -> & T & U & L). exists text, term, ck.
  split; [reflexivity|]. split; [exact T|]. rewrite (fields_mk len ah al ty data En Hb).
  split; [|split; [exact Hc|split]].
  - unfold hex_text_of. symmetry. exact (unhex_hex_upper _ _ U).
  - rewrite <- Ec. apply checksum_lrc.
  - apply wf_frame_iff. cbn [f_addr f_type f_data]. repeat split; try assumption; lia.
Qed.

(* ------------------------------------------------------------------------- *)
(** * C01 *)

Lemma C01_hexdigit_table n :
  n < 16 -> nth (N.to_nat n) [48;49;50;51;52;53;54;55;56;57;65;66;67;68;69;70] 0 = hexdigit n.
Proof. exact (hexdigit_table n). Qed.

Lemma payload_ck_bytes f : wf_frame f -> bytesb (payload f ++ [checksum (payload f)]) = true.
Proof.
  intros W. rewrite (payload_fields f W). apply fields_ck_bytes; [exact W|apply checksum_lt].
Qed.

Lemma C01_shape f :
  wf_frame f ->
  encode f = 58 :: hex (fields f ++ [checksum (payload f)])
  /\ Forall (fun c => is_upper_hex c = true) (tl (encode f))
  /\ encode_nl f = encode f ++ [13; 10]
  /\ payload f = fields f.
Proof.
  intros W. split; [|split; [|split]].
  - unfold encode. rewrite (payload_fields f W). reflexivity.
  - unfold encode. cbn [tl]. apply hex_upper_hex, payload_ck_bytes, W.
  - reflexivity.
  - apply payload_fields, W.
Qed.

Lemma C01_sum_zero f :
  wf_frame f ->
  lrc_ok (payload f ++ [checksum (payload f)])
  /\ bytesb (payload f ++ [checksum (payload f)]) = true.
Proof. intros W. split; [apply checksum_lrc|apply payload_ck_bytes, W]. Qed.

Lemma C01_documented f :
  wf_frame f -> Documented (encode f) f /\ Documented (encode_nl f) f.
Proof.
  intros W. pose proof (payload_ck_bytes f W) as B. rewrite (payload_fields f W) in B.
  assert (D : forall term, term = [] \/ term = [13; 10] ->
                           Documented (58 :: hex (fields f ++ [checksum (fields f)]) ++ term) f).
  { intros term T. exists (hex (fields f ++ [checksum (fields f)])), term, (checksum (fields f)).
    split; [reflexivity|]. split; [exact T|]. split; [apply map_upper_hex, B|].
    split; [apply checksum_lt|]. split; [apply checksum_lrc|exact W]. }
  unfold encode_nl, encode. rewrite (payload_fields f W). split.
  - rewrite <- (app_nil_r (hex _)). apply D. left. reflexivity.
  - apply (D [13; 10]). right. reflexivity.
Qed.

Lemma C01_roundtrip f :
  wf_frame f -> decode (encode f) = Ok f /\ decode (encode_nl f) = Ok f.
Proof.
  intros W. destruct (C01_documented f W) as [D1 D2].
  split; apply decode_documented; assumption.
Qed.

Lemma C01_no_truncation l :
  (data_try_new l = Ok l <-> nlen l <= 255)
  /\ (forall d, data_try_new l = Ok d -> d = l)
  /\ (255 < nlen l -> data_try_new l = Err (DataTooLong (nlen l))).
Proof.
  unfold data_try_new. destruct (N.ltb_spec 255 (nlen l)) as [H|H].
  - split; [split; [discriminate|lia]|]. split; [discriminate|reflexivity].
  - split; [split; [lia|reflexivity]|]. split; [intros d [= <-]; reflexivity|lia].
Qed.

Lemma data_try_new_by_len l :
  data_try_new l = match data_try_new_len (nlen l) with
                   | Some n => Err (DataTooLong n)
                   | None => Ok l
                   end.
Proof. unfold data_try_new, data_try_new_len. destruct (255 <? nlen l); reflexivity. Qed.

Lemma data_try_new_len_spec n : (data_try_new_len n = None <-> n <= 255) /\ (255 < n -> data_try_new_len n = Some n).
Proof.
  unfold data_try_new_len. destruct (N.ltb_spec 255 n) as [H|H].
  - split; [split; [discriminate|lia]|reflexivity].
  - split; [split; [lia|reflexivity]|lia].
Qed.

Lemma C01_length_byte f :
  wf_frame f -> hd_error (payload f) = Some (nlen (f_data f)).
Proof. intros W. rewrite (payload_fields f W). reflexivity. Qed.

Lemma C01_encode_inj f g :
  wf_frame f -> wf_frame g -> (encode f = encode g \/ encode_nl f = encode_nl g) -> f = g.
Proof.
  intros Wf Wg H. destruct (C01_roundtrip f Wf) as [F1 F2]. destruct (C01_roundtrip g Wg) as [G1 G2].
  destruct H as [H|H]; [rewrite H in F1|rewrite H in F2]; congruence.
Qed.

(* ------------------------------------------------------------------------- *)
(** * C03 *)

Lemma C03_accept_iff s f : decode s = Ok f <-> Documented s f.
Proof. split; [apply documented_decode|apply decode_documented]. Qed.

Lemma C03_wf_out s f : decode s = Ok f -> wf_frame f.
Proof. intros D. apply documented_decode in D. destruct D as (? & ? & ? & ? & ? & ? & ? & ? & W). exact W. Qed.

(* What [check] answers on the numbers of a well-formed text, in terms of the declared length
   (first number), the actual data length, the provided checksum (last number) and the
   computed one.  The order of the cases is the precedence. *)
Lemma check_classify s bs :
  WellFormedText s bs ->
  (hd 0 bs <> nlen bs - 5 /\ check bs = Err (DataMismatch (hd 0 bs) (nlen bs - 5)))
  \/ (hd 0 bs = nlen bs - 5 /\ last bs 0 <> checksum (removelast bs)
      /\ check bs = Err (BadChecksum (last bs 0) (checksum (removelast bs))))
  \/ (hd 0 bs = nlen bs - 5 /\ last bs 0 = checksum (removelast bs) /\ exists f, check bs = Ok f).
Proof.
  intros W.
  destruct (wft_decomp s bs W) as (len & ah & al & ty & data & ck & -> & Hl & Ha & Hb & Ht & Hd & Hc).
  pose proof (bs_parts len ah al ty data ck) as P. cbv zeta in P. destruct P as (P1 & P2 & P3 & P4).
  rewrite P1, P2, P3, P4, check_eq by assumption.
  destruct (N.eqb_spec (nlen data) len) as [En|En].
  - destruct (N.eqb_spec (checksum (len :: ah :: al :: ty :: data)) ck) as [Ec|Ec].
    + right; right. split; [congruence|]. split; [congruence|]. eexists. reflexivity.
    + right; left. split; [congruence|]. split; [congruence|]. reflexivity.
  - left. split; [congruence|reflexivity].
Qed.

Lemma C03_total s :
  decode s <> Err FPanic /\ (forall n, decode s <> Err (DataTooLong n)).
Proof.
  destruct (decode_spec s) as [(bs & W & E)|[_ E]]; rewrite E;
    [|split; [|intros n]; discriminate].
  destruct (check_classify s bs W) as [(_ & C)|[(_ & _ & C)|(_ & _ & f & C)]]; rewrite C;
    split; try intros n; discriminate.
Qed.

Lemma C03_invalid s :
  decode s = Err InvalidFrame <-> ~ exists bs, WellFormedText s bs.
Proof.
  split; [|apply decode_not_wft].
  intros H (bs & W). rewrite (decode_wft s bs W) in H.
  destruct (check_classify s bs W) as [(_ & C)|[(_ & _ & C)|(_ & _ & f & C)]]; rewrite C in H;
    discriminate.
Qed.

Lemma C03_mismatch s e a :
  decode s = Err (DataMismatch e a) <->
  exists bs, WellFormedText s bs /\ hd 0 bs = e /\ a = nlen bs - 5 /\ e <> a.
Proof.
  split.
  - intros H. destruct (decode_spec s) as [(bs & W & E)|[_ E]]; rewrite E in H; [|discriminate].
    destruct (check_classify s bs W) as [(N1 & C)|[(_ & _ & C)|(_ & _ & f & C)]]; rewrite C in H;
      try discriminate.
    injection H as <- <-. exists bs. auto.
  - intros (bs & W & <- & -> & NE). rewrite (decode_wft s bs W).
    destruct (check_classify s bs W) as [(_ & C)|[(N1 & _)|(N1 & _)]];
      [exact C|contradiction|contradiction].
Qed.

Lemma C03_badck s e a :
  decode s = Err (BadChecksum e a) <->
  exists bs, WellFormedText s bs /\ hd 0 bs = nlen bs - 5 /\ e = last bs 0
             /\ a = checksum (removelast bs) /\ e <> a.
Proof.
  split.
  - intros H. destruct (decode_spec s) as [(bs & W & E)|[_ E]]; rewrite E in H; [|discriminate].
    destruct (check_classify s bs W) as [(_ & C)|[(N1 & N2 & C)|(_ & _ & f & C)]]; rewrite C in H;
      try discriminate.
    injection H as <- <-. exists bs. auto.
  - intros (bs & W & Hh & -> & -> & NE). rewrite (decode_wft s bs W).
    destruct (check_classify s bs W) as [(N1 & _)|[(_ & _ & C)|(_ & N2 & _)]];
      [contradiction|exact C|contradiction].
Qed.

Lemma C03_reencode s f :
  decode s = Ok f ->
  encode f = 58 :: map upper (strip_crlf (tl s))
  /\ (s = 58 :: strip_crlf (tl s) \/ s = 58 :: strip_crlf (tl s) ++ [13; 10]).
Proof.
  intros D. apply documented_decode in D.
  destruct D as (text & term & ck & -> & T & Hx & Hck & Hl & W).
  assert (X : forallb is_xdigit text = true).
  { eapply hex_text_xdigit; [|exact Hx]. apply fields_ck_bytes; assumption. }
  cbn [tl]. rewrite (strip_crlf_text text term X T). split.
  - unfold encode. rewrite (payload_fields f W), <- (lrc_checksum (fields f) ck Hck Hl).
    unfold hex_text_of in Hx. rewrite Hx. reflexivity.
  - destruct T as [-> | ->]; [left; rewrite app_nil_r|right]; reflexivity.
Qed.

(* The numbers named in the classification theorems are unique for a given string. *)
Lemma C03_wft_unique s bs bs' : WellFormedText s bs -> WellFormedText s bs' -> bs = bs'.
Proof. exact (wft_unique s bs bs'). Qed.

(* Alias used by the message-layer proofs. *)
Lemma decode_encode_roundtrip :
  forall f, wf_frame f -> decode (encode f) = Ok f /\ decode (encode_nl f) = Ok f.
Proof. exact C01_roundtrip. Qed.
