(* VSignP.v — proofs about the virtual sign and the virtual sign bus (VSign.v):
   the invariant VInv0/VInv, no-panic (C12), the sign-side state machine (C13, against
   spec/SignSpec.v) and isolation of signs sharing a bus (C14). *)
From Flipdot Require Import Tactics.
From Flipdot Require Import Base Message Page SignType VSign CodeTable SignSpec PageP.
Local Open Scope N_scope.

(* ------------------------------------------------------------------------- *)
(** * Small helpers *)

Lemma vsign_eta s :
  s = {| v_addr := v_addr s; v_style := v_style s; v_state := v_state s; v_pages := v_pages s;
         v_pending := v_pending s; v_chunks := v_chunks s; v_w := v_w s; v_h := v_h s;
         v_type := v_type s |}.
Proof. destruct s; reflexivity. Qed.

Lemma winc_lt n : winc n < 65536.
Proof. unfold winc. lia. Qed.

Lemma in_nrange x n : In x (nrange n) -> x < n.
Proof.
  unfold nrange. intros H. apply in_map_iff in H. destruct H as (k & Hk & Hin).
  apply in_seq in Hin. lia.
Qed.

Lemma bytesb_app a b : bytesb (a ++ b) = bytesb a && bytesb b.
Proof. unfold bytesb. apply forallb_app. Qed.

(* ------------------------------------------------------------------------- *)
(** * The invariant *)

(* A complete page of the configured (non-empty) size. *)
Definition page_fits (w h : N) (p : page) : Prop :=
  p_w p = w /\ p_h p = h /\ nlen (p_bytes p) = total_bytes (p_w p) (p_h p) /\ 0 < w /\ 0 < h.

(* States in which no page can be stored yet. *)
Definition config_phase (st : state) : bool :=
  match st with
  | Unconfigured | ConfigInProgress | ConfigReceived | ConfigFailed => true
  | _ => false
  end.

(* States in which the receive buffer / chunk counter may be in use. *)
Definition buffering (st : state) : bool :=
  match st with
  | ConfigInProgress | PixelsInProgress | ReadyToReset => true
  | _ => false
  end.

(* Clauses 1-6: preserved by every message, enough for no-panic. *)
Definition VInv0 (s : vsign) : Prop :=
  Forall (page_fits (v_w s) (v_h s)) (v_pages s)
  /\ (config_phase (v_state s) = true -> v_pages s = [])
  /\ (buffering (v_state s) = false -> v_pending s = [] /\ v_chunks s = 0)
  /\ (v_state s = ConfigInProgress -> v_pending s = [])
  /\ (forall t, v_type s = Some t -> (v_w s, v_h s) = dimensions t)
  /\ v_chunks s < 65536
  /\ (v_state s = Unconfigured ->
      v_w s = 0 /\ v_h s = 0 /\ v_type s = None /\ v_pages s = [] /\ v_pending s = []
      /\ v_chunks s = 0).

(* Clause 7: byte hygiene; preserved under well-formed messages. *)
Definition VBytes (s : vsign) : Prop :=
  bytesb (v_pending s) = true
  /\ Forall (fun p => bytesb (p_bytes p) = true) (v_pages s)
  /\ v_w s <= 1020 /\ v_h s <= 255.

Definition VInv (s : vsign) : Prop := VInv0 s /\ VBytes s.

(* Projections *)
Lemma VInv_VInv0 s : VInv s -> VInv0 s.
Proof. intros H; exact (proj1 H). Qed.
Lemma VInv_VBytes s : VInv s -> VBytes s.
Proof. intros H; exact (proj2 H). Qed.

Lemma VInv0_pages s : VInv0 s -> Forall (page_fits (v_w s) (v_h s)) (v_pages s).
Proof. intros H; apply H. Qed.
Lemma VInv0_config_nopages s : VInv0 s -> config_phase (v_state s) = true -> v_pages s = [].
Proof. intros H; apply H. Qed.
Lemma VInv0_idle s : VInv0 s -> buffering (v_state s) = false ->
  v_pending s = [] /\ v_chunks s = 0.
Proof. intros H; apply H. Qed.
Lemma VInv0_cip s : VInv0 s -> v_state s = ConfigInProgress -> v_pending s = [].
Proof. intros H; apply H. Qed.
Lemma VInv0_type s t : VInv0 s -> v_type s = Some t -> (v_w s, v_h s) = dimensions t.
Proof. intros H; apply H. Qed.
Lemma VInv0_chunks s : VInv0 s -> v_chunks s < 65536.
Proof. intros H; apply H. Qed.
Lemma VInv0_unconf s : VInv0 s -> v_state s = Unconfigured ->
  v_w s = 0 /\ v_h s = 0 /\ v_type s = None /\ v_pages s = [] /\ v_pending s = []
  /\ v_chunks s = 0.
Proof. intros H; apply H. Qed.
Lemma VInv0_unconf_eq s : VInv0 s -> v_state s = Unconfigured -> s = vinit (v_addr s) (v_style s).
Proof.
  intros H Hst. destruct (VInv0_unconf s H Hst) as (Hw & Hh & Ht & Hp & Hb & Hc).
  rewrite (vsign_eta s) at 1. unfold vinit. rewrite Hst, Hw, Hh, Ht, Hp, Hb, Hc. reflexivity.
Qed.

Lemma VInv_pending_bytes s : VInv s -> bytesb (v_pending s) = true.
Proof. intros H; apply H. Qed.
Lemma VInv_pages_bytes s : VInv s -> Forall (fun p => bytesb (p_bytes p) = true) (v_pages s).
Proof. intros H; apply H. Qed.
Lemma VInv_w_le s : VInv s -> v_w s <= 1020.
Proof. intros H; apply H. Qed.
Lemma VInv_h_le s : VInv s -> v_h s <= 255.
Proof. intros H; apply H. Qed.

(* Stored pages of a VInv sign are well-formed pages of the configured size. *)
Lemma VInv_pages_wf s : VInv s ->
  Forall (fun p => wf_page p /\ p_w p = v_w s /\ p_h p = v_h s) (v_pages s).
Proof.
  intros [H0 (Hpb & Hpg & Hw & Hh)]. pose proof (VInv0_pages s H0) as Hf.
  rewrite Forall_forall in *. intros p Hin.
  destruct (Hf p Hin) as (Hpw & Hph & Hlen & _ & _). specialize (Hpg p Hin).
  split; [|split; assumption].
  apply wf_page_intro; try assumption; lia.
Qed.

Lemma VInv0_intro s :
  Forall (page_fits (v_w s) (v_h s)) (v_pages s) ->
  (config_phase (v_state s) = true -> v_pages s = []) ->
  (buffering (v_state s) = false -> v_pending s = [] /\ v_chunks s = 0) ->
  (v_state s = ConfigInProgress -> v_pending s = []) ->
  (forall t, v_type s = Some t -> (v_w s, v_h s) = dimensions t) ->
  v_chunks s < 65536 ->
  (v_state s = Unconfigured ->
      v_w s = 0 /\ v_h s = 0 /\ v_type s = None /\ v_pages s = [] /\ v_pending s = []
      /\ v_chunks s = 0) ->
  VInv0 s.
Proof. intros. unfold VInv0. repeat (split; [assumption|]). assumption. Qed.

Lemma VInv0_init a fs : VInv0 (vinit a fs).
Proof.
  apply VInv0_intro; cbn [vinit v_pages v_state v_pending v_chunks v_w v_h v_type];
    intros; try discriminate; repeat split; auto; try lia.
Qed.

Lemma VBytes_init a fs : VBytes (vinit a fs).
Proof.
  unfold VBytes; cbn [vinit v_pages v_state v_pending v_chunks v_w v_h v_type].
  repeat split; try constructor; lia.
Qed.

Lemma VInv_init a fs : VInv (vinit a fs).
Proof. split; [apply VInv0_init | apply VBytes_init]. Qed.

(* ------------------------------------------------------------------------- *)
(** * set_state *)

Lemma set_state_fields s st :
  v_addr (set_state s st) = v_addr s /\ v_style (set_state s st) = v_style s
  /\ v_state (set_state s st) = st /\ v_pages (set_state s st) = v_pages s
  /\ v_pending (set_state s st) = v_pending s /\ v_chunks (set_state s st) = v_chunks s
  /\ v_w (set_state s st) = v_w s /\ v_h (set_state s st) = v_h s
  /\ v_type (set_state s st) = v_type s.
Proof. repeat split. Qed.

Lemma VInv0_set_state s st :
  VInv0 s -> st <> Unconfigured ->
  (config_phase st = true -> v_pages s = []) ->
  (buffering st = false -> v_pending s = [] /\ v_chunks s = 0) ->
  (st = ConfigInProgress -> v_pending s = []) ->
  VInv0 (set_state s st).
Proof.
  intros H Hne Hc Hb Hcip.
  apply VInv0_intro; cbn [set_state v_pages v_state v_pending v_chunks v_w v_h v_type];
    try assumption.
  - apply H.
  - apply H.
  - apply H.
  - intros E; contradiction.
Qed.

Lemma VBytes_set_state s st : VBytes s -> VBytes (set_state s st).
Proof. intros H; exact H. Qed.

(* ------------------------------------------------------------------------- *)
(** * flush_pixels *)

Definition pending_page (s : vsign) : page :=
  {| p_w := v_w s; p_h := v_h s; p_bytes := v_pending s |}.

Definition pending_complete (s : vsign) : Prop :=
  0 < v_w s /\ 0 < v_h s /\ nlen (v_pending s) = total_bytes (v_w s) (v_h s).

(* The exact effect of a flush: the buffer is emptied; it becomes a page iff it is a
   complete page of the configured non-empty size. *)
Lemma flush_pixels_spec s :
  flush_pixels s =
  {| v_addr := v_addr s; v_style := v_style s; v_state := v_state s;
     v_pages := v_pages (flush_pixels s);
     v_pending := []; v_chunks := v_chunks s; v_w := v_w s; v_h := v_h s;
     v_type := v_type s |}
  /\ (pending_complete s -> v_pages (flush_pixels s) = v_pages s ++ [pending_page s])
  /\ (~ pending_complete s -> v_pages (flush_pixels s) = v_pages s).
Proof.
  unfold flush_pixels, pending_complete, pending_page.
  destruct (v_pending s) as [|b bs] eqn:Hp.
  - split; [rewrite <- Hp; apply vsign_eta|]. split; [|reflexivity].
    intros (_ & _ & Hl). rewrite nlen_nil in Hl.
    pose proof (total_bytes_ge16 (v_w s) (v_h s)). lia.
  - cbn [v_pages]. split; [reflexivity|].
    unfold page_from_bytes.
    destruct (N.ltb_spec 0 (v_w s)) as [Hw|Hw]; destruct (N.ltb_spec 0 (v_h s)) as [Hh|Hh];
      cbn [andb];
      try (split; [intros (? & ? & ?); lia | reflexivity]).
    destruct (N.eqb_spec (nlen (b :: bs)) (total_bytes (v_w s) (v_h s))) as [Hl|Hl].
    + split; [reflexivity|]. intros Hn. exfalso. apply Hn. auto.
    + split; [|reflexivity]. intros (_ & _ & Hl'). contradiction.
Qed.

Lemma flush_pixels_fields s :
  v_addr (flush_pixels s) = v_addr s /\ v_style (flush_pixels s) = v_style s
  /\ v_state (flush_pixels s) = v_state s /\ v_pending (flush_pixels s) = []
  /\ v_chunks (flush_pixels s) = v_chunks s
  /\ v_w (flush_pixels s) = v_w s /\ v_h (flush_pixels s) = v_h s
  /\ v_type (flush_pixels s) = v_type s.
Proof.
  destruct (flush_pixels_spec s) as (He & _ & _). rewrite He.
  cbn [v_addr v_style v_state v_pending v_chunks v_w v_h v_type]. repeat split.
Qed.

Lemma flush_pixels_pages_cases s :
  v_pages (flush_pixels s) = v_pages s
  \/ (pending_complete s /\ v_pages (flush_pixels s) = v_pages s ++ [pending_page s]).
Proof.
  destruct (flush_pixels_spec s) as (_ & Hy & Hn).
  assert (Hd : pending_complete s \/ ~ pending_complete s).
  { unfold pending_complete.
    destruct (N.ltb_spec 0 (v_w s)); destruct (N.ltb_spec 0 (v_h s));
      destruct (N.eqb_spec (nlen (v_pending s)) (total_bytes (v_w s) (v_h s)));
      try (left; repeat split; assumption); right; intros (? & ? & ?); try lia; contradiction. }
  destruct Hd as [Hd|Hd]; [right; split; [exact Hd|apply Hy; exact Hd] | left; apply Hn; exact Hd].
Qed.

Lemma flush_pixels_nil s : v_pending s = [] -> flush_pixels s = s.
Proof. intros H. unfold flush_pixels. rewrite H. reflexivity. Qed.

Lemma pending_page_fits s : pending_complete s -> page_fits (v_w s) (v_h s) (pending_page s).
Proof.
  intros (Hw & Hh & Hl). unfold page_fits, pending_page. cbn [p_w p_h p_bytes].
  repeat split; assumption.
Qed.

Lemma flush_pixels_pages_fit s :
  Forall (page_fits (v_w s) (v_h s)) (v_pages s) ->
  Forall (page_fits (v_w s) (v_h s)) (v_pages (flush_pixels s)).
Proof.
  intros H. destruct (flush_pixels_pages_cases s) as [E|[Hc E]]; rewrite E; [exact H|].
  apply Forall_app. split; [exact H|]. constructor; [|constructor].
  apply pending_page_fits; exact Hc.
Qed.

Lemma flush_pixels_pages_bytes s :
  bytesb (v_pending s) = true ->
  Forall (fun p => bytesb (p_bytes p) = true) (v_pages s) ->
  Forall (fun p => bytesb (p_bytes p) = true) (v_pages (flush_pixels s)).
Proof.
  intros Hb H. destruct (flush_pixels_pages_cases s) as [E|[Hc E]]; rewrite E; [exact H|].
  apply Forall_app. split; [exact H|]. constructor; [|constructor]. exact Hb.
Qed.

(* ------------------------------------------------------------------------- *)
(** * config_size never hits the index panic on a 16-element block *)

Lemma config_size_16 (data : list N) : length data = 16%nat -> config_size data <> None.
Proof.
  intros Hl.
  do 16 (destruct data as [|? data]; [discriminate Hl|]).
  unfold config_size. cbn [nth_error].
  destruct (n =? 4); [discriminate|]. destruct (n =? 8); discriminate.
Qed.

Lemma config_size_bytes data w h :
  bytesb data = true -> config_size data = Some (Some (w, h)) -> w <= 1020 /\ h <= 255.
Proof.
  intros Hb. unfold config_size.
  destruct (nth_error data 0) as [b0|] eqn:E0; [|discriminate].
  destruct (b0 =? 4).
  - destruct (nth_error data 4) as [x4|] eqn:E4; [|discriminate].
    destruct (nth_error data 5) as [x5|] eqn:E5; [|discriminate].
    destruct (nth_error data 6) as [x6|] eqn:E6; [|discriminate].
    destruct (nth_error data 7) as [x7|] eqn:E7; [|discriminate].
    destruct (nth_error data 8) as [x8|] eqn:E8; [|discriminate].
    intros H; injection H as Hw Hh.
    pose proof (bytesb_nth _ _ _ Hb E4). pose proof (bytesb_nth _ _ _ Hb E5).
    pose proof (bytesb_nth _ _ _ Hb E6). pose proof (bytesb_nth _ _ _ Hb E7).
    pose proof (bytesb_nth _ _ _ Hb E8). lia.
  - destruct (b0 =? 8); [|discriminate].
    destruct (nth_error data 7) as [x7|] eqn:E7; [|discriminate].
    destruct (nth_error data 5) as [x5|] eqn:E5; [|discriminate].
    intros H; injection H as Hw Hh.
    pose proof (bytesb_nth _ _ _ Hb E7). pose proof (bytesb_nth _ _ _ Hb E5). lia.
Qed.

Lemma recorded_type_dims data w h t : recorded_type data w h = Some t -> (w, h) = dimensions t.
Proof.
  unfold recorded_type. destruct (st_from_bytes data) as [t'|e]; [|discriminate].
  destruct (dimensions t') as [tw th] eqn:Hd.
  destruct (N.eqb_spec tw w) as [Hw|Hw]; destruct (N.eqb_spec th h) as [Hh|Hh]; cbn [andb];
    try discriminate.
  intros H; injection H as Ht. subst. symmetry; exact Hd.
Qed.

(* ------------------------------------------------------------------------- *)
(** * Stored pages can always be logged (page.id() and Display do not panic) *)

Lemma get_pixel_fits w h p x y : page_fits w h p -> x < w -> y < h -> get_pixel p x y <> None.
Proof.
  intros (Hw & Hh & Hl & _ & _) Hx Hy. subst w h.
  unfold get_pixel. rewrite (index_in p x y Hx Hy). cbv zeta.
  pose proof (index_lt _ _ _ _ Hx Hy) as Hi. pose proof (data_le_total (p_w p) (p_h p)) as Hd.
  destruct (nth_error_Some_lt (p_bytes p) (N.to_nat (4 + x * bpc (p_h p) + y / 8))) as [byte Hn].
  { apply nlen_lt_length. lia. }
  rewrite Hn. discriminate.
Qed.

Lemma log_page_ok_fits w h p : page_fits w h p -> log_page_ok p = true.
Proof.
  intros Hf. pose proof Hf as (Hw & Hh & Hl & _ & _).
  unfold log_page_ok, page_id.
  destruct (p_bytes p) as [|b bs] eqn:Hb.
  { rewrite nlen_nil in Hl. pose proof (total_bytes_ge16 (p_w p) (p_h p)). lia. }
  cbn [nth_error]. unfold display_ok.
  apply forallb_forall. intros y Hy. apply forallb_forall. intros x Hx.
  apply in_nrange in Hy. apply in_nrange in Hx.
  destruct (get_pixel p x y) eqn:Hg; [reflexivity|].
  exfalso. apply (get_pixel_fits w h p x y Hf); try lia. exact Hg.
Qed.

Lemma pages_loggable s : VInv0 s -> forallb log_page_ok (v_pages s) = true.
Proof.
  intros H. apply forallb_forall. intros p Hin.
  pose proof (VInv0_pages s H) as Hf. rewrite Forall_forall in Hf.
  exact (log_page_ok_fits _ _ p (Hf p Hin)).
Qed.

(* ------------------------------------------------------------------------- *)
(** * Handlers preserve the invariant *)

Ltac inv_fields :=
  cbn [set_state vinit vreset v_addr v_style v_pages v_state v_pending v_chunks v_w v_h v_type].

(* send_data *)
Lemma v_send_data_cases s off data s' :
  v_send_data s off data = Some s' ->
  s' = s
  \/ (v_state s = ConfigInProgress /\ off = 0 /\ nlen data = 16 /\
      exists w h, config_size data = Some (Some (w, h)) /\
        s' = {| v_addr := v_addr s; v_style := v_style s; v_state := v_state s;
                v_pages := v_pages s; v_pending := v_pending s;
                v_chunks := winc (v_chunks s); v_w := w; v_h := h;
                v_type := recorded_type data w h |})
  \/ (v_state s = PixelsInProgress /\
      exists s1, (s1 = s \/ s1 = flush_pixels s) /\
        s' = {| v_addr := v_addr s1; v_style := v_style s1; v_state := v_state s1;
                v_pages := v_pages s1; v_pending := v_pending s1 ++ data;
                v_chunks := winc (v_chunks s1); v_w := v_w s1; v_h := v_h s1;
                v_type := v_type s1 |}).
Proof.
  unfold v_send_data. destruct (v_state s) eqn:Hst;
    try (intros H; injection H as H; left; symmetry; exact H).
  - destruct (N.eqb_spec off 0) as [Ho|Ho]; destruct (N.eqb_spec (nlen data) 16) as [Hl|Hl];
      cbn [andb]; try (intros H; injection H as H; left; symmetry; exact H).
    destruct (config_size data) as [[[w h]|]|] eqn:Hc.
    + intros H; injection H as H. right; left. repeat split; try assumption.
      exists w, h. split; [reflexivity|]. symmetry; exact H.
    + intros H; injection H as H; left; symmetry; exact H.
    + discriminate.
  - intros H; injection H as H. right; right. split; [reflexivity|].
    exists (if off =? 0 then flush_pixels s else s). split; [|symmetry; exact H].
    destruct (off =? 0); auto.
Qed.

Lemma v_send_data_VInv0 s off data s' :
  VInv0 s -> v_send_data s off data = Some s' -> VInv0 s'.
Proof.
  intros H Hs. destruct (v_send_data_cases s off data s' Hs)
    as [E | [(Hst & _ & _ & w & h & Hc & E) | (Hst & s1 & Hs1 & E)]]; subst s'.
  - exact H.
  - pose proof (VInv0_config_nopages s H) as Hnp. rewrite Hst in Hnp. specialize (Hnp eq_refl).
    apply VInv0_intro; inv_fields; rewrite ?Hst, ?Hnp.
    + constructor.
    + reflexivity.
    + discriminate.
    + intros _. apply (VInv0_cip s H Hst).
    + intros t Ht. exact (recorded_type_dims _ _ _ _ Ht).
    + apply winc_lt.
    + discriminate.
  - assert (Hf : v_state s1 = PixelsInProgress /\ v_w s1 = v_w s /\ v_h s1 = v_h s
                 /\ v_type s1 = v_type s
                 /\ Forall (page_fits (v_w s) (v_h s)) (v_pages s1)).
    { destruct Hs1 as [E|E]; subst s1.
      - repeat split; try assumption. apply H.
      - destruct (flush_pixels_fields s) as (_ & _ & F3 & _ & _ & F6 & F7 & F8).
        rewrite F3, F6, F7, F8. repeat split; try assumption.
        apply flush_pixels_pages_fit. apply H. }
    destruct Hf as (F1 & F2 & F3 & F4 & F5).
    apply VInv0_intro; inv_fields; rewrite ?F1, ?F2, ?F3, ?F4.
    + exact F5.
    + discriminate.
    + discriminate.
    + discriminate.
    + apply H.
    + apply winc_lt.
    + discriminate.
Qed.

Lemma v_send_data_VBytes s off data s' :
  VBytes s -> bytesb data = true -> v_send_data s off data = Some s' -> VBytes s'.
Proof.
  intros H Hd Hs. destruct (v_send_data_cases s off data s' Hs)
    as [E | [(Hst & _ & _ & w & h & Hc & E) | (Hst & s1 & Hs1 & E)]]; subst s'.
  - exact H.
  - destruct H as (Hb & Hp & _ & _). destruct (config_size_bytes data w h Hd Hc) as [Hw Hh].
    unfold VBytes; inv_fields. repeat split; assumption.
  - assert (Hf : VBytes s1).
    { destruct Hs1 as [E|E]; subst s1; [exact H|].
      destruct H as (Hb & Hp & Hw & Hh).
      destruct (flush_pixels_fields s) as (_ & _ & _ & F4 & _ & F6 & F7 & _).
      unfold VBytes. rewrite F4, F6, F7. repeat split; try assumption.
      apply flush_pixels_pages_bytes; assumption. }
    destruct Hf as (Hb & Hp & Hw & Hh).
    unfold VBytes; inv_fields. repeat split; try assumption.
    rewrite bytesb_app, Hb, Hd. reflexivity.
Qed.

(* data_chunks_sent *)
Definition count_result (st : state) (ok : bool) : state :=
  match st with
  | ConfigInProgress => if ok then ConfigReceived else ConfigFailed
  | _ => if ok then PixelsReceived else PixelsFailed
  end.

Lemma v_data_chunks_sent_cases s n :
  (v_state s <> ConfigInProgress /\ v_state s <> PixelsInProgress /\ v_data_chunks_sent s n = s)
  \/ ((v_state s = ConfigInProgress \/ v_state s = PixelsInProgress) /\
      let s1 := flush_pixels (set_state s (count_result (v_state s) (v_chunks s =? n))) in
      v_data_chunks_sent s n =
      {| v_addr := v_addr s1; v_style := v_style s1; v_state := v_state s1;
         v_pages := v_pages s1; v_pending := v_pending s1; v_chunks := 0;
         v_w := v_w s1; v_h := v_h s1; v_type := v_type s1 |}).
Proof.
  unfold v_data_chunks_sent, count_result.
  destruct (v_state s) eqn:Hst;
    try (left; repeat split; discriminate);
    right; (split; [auto|]); reflexivity.
Qed.

(* the fields after a chunk count in a receiving state *)
Lemma v_data_chunks_sent_receiving s n :
  v_state s = ConfigInProgress \/ v_state s = PixelsInProgress ->
  let st := count_result (v_state s) (v_chunks s =? n) in
  v_data_chunks_sent s n =
  {| v_addr := v_addr s; v_style := v_style s; v_state := st;
     v_pages := v_pages (flush_pixels (set_state s st)); v_pending := []; v_chunks := 0;
     v_w := v_w s; v_h := v_h s; v_type := v_type s |}.
Proof.
  intros Hst st. destruct (v_data_chunks_sent_cases s n) as [(H1 & H2 & _)|[_ E]].
  { destruct Hst; contradiction. }
  cbv zeta in E. rewrite E. fold st.
  destruct (flush_pixels_fields (set_state s st)) as (F1 & F2 & F3 & F4 & F5 & F6 & F7 & F8).
  rewrite F1, F2, F3, F4, F6, F7, F8. reflexivity.
Qed.

Lemma v_data_chunks_sent_VInv0 s n : VInv0 s -> VInv0 (v_data_chunks_sent s n).
Proof.
  intros H. destruct (v_data_chunks_sent_cases s n) as [(_ & _ & E)|[Hst _]].
  { rewrite E; exact H. }
  rewrite (v_data_chunks_sent_receiving s n Hst). cbv zeta.
  set (st := count_result (v_state s) (v_chunks s =? n)).
  apply VInv0_intro; inv_fields.
  - apply (flush_pixels_pages_fit (set_state s st)). apply H.
  - intros Hc. destruct Hst as [Hst|Hst].
    + rewrite flush_pixels_nil by (apply (VInv0_cip s H Hst)). inv_fields.
      apply (VInv0_config_nopages s H). rewrite Hst. reflexivity.
    + exfalso. unfold st, count_result in Hc. rewrite Hst in Hc.
      destruct (v_chunks s =? n); discriminate.
  - auto.
  - reflexivity.
  - apply H.
  - lia.
  - intros Hu. exfalso. unfold st, count_result in Hu.
    destruct Hst as [Hst|Hst]; rewrite Hst in Hu; destruct (v_chunks s =? n); discriminate.
Qed.

Lemma v_data_chunks_sent_VBytes s n : VBytes s -> VBytes (v_data_chunks_sent s n).
Proof.
  intros H. destruct (v_data_chunks_sent_cases s n) as [(_ & _ & E)|[Hst _]].
  { rewrite E; exact H. }
  rewrite (v_data_chunks_sent_receiving s n Hst). cbv zeta.
  destruct H as (Hb & Hp & Hw & Hh).
  unfold VBytes; inv_fields. repeat split; try assumption.
  apply flush_pixels_pages_bytes; assumption.
Qed.

(* query_state *)
Lemma v_query_VInv0 s : VInv0 s -> VInv0 (fst (v_query s)).
Proof.
  intros H. unfold v_query. cbn [fst].
  destruct (v_state s) eqn:Hst; try exact H;
    (apply VInv0_set_state; [exact H | discriminate | discriminate | | discriminate]);
    intros _; apply (VInv0_idle s H); rewrite Hst; reflexivity.
Qed.

Lemma v_query_VBytes s : VBytes s -> VBytes (fst (v_query s)).
Proof.
  intros H. unfold v_query. cbn [fst]. destruct (v_state s); exact H.
Qed.

(* ------------------------------------------------------------------------- *)
(** * One step *)

Lemma vstep_foreign_or_own a' a : (a' =? a) = true \/ (a' =? a) = false.
Proof. destruct (a' =? a); auto. Qed.

Theorem VInv0_step s m s' r : VInv0 s -> vstep s m = Some (s', r) -> VInv0 s'.
Proof.
  intros H. unfold vstep. destruct m as [off data|n|a'|a'|a' st|a' o|a' o|a'|a'|f].
  - destruct (v_send_data s off data) as [s1|] eqn:Hs; [|discriminate].
    intros E; injection E as E _; subst s1. exact (v_send_data_VInv0 s off data s' H Hs).
  - intros E; injection E as E _; subst s'. apply v_data_chunks_sent_VInv0; exact H.
  - destruct (a' =? v_addr s); intros E; injection E as E _; subst s'; [|exact H].
    apply v_query_VInv0; exact H.
  - destruct (a' =? v_addr s); intros E; injection E as E _; subst s'; [|exact H].
    apply v_query_VInv0; exact H.
  - intros E; injection E as E _; subst s'; exact H.
  - destruct (a' =? v_addr s); [|intros E; injection E as E _; subst s'; exact H].
    destruct o.
    + destruct (v_state s) eqn:Hst; intros E; injection E as E _; subst s'; try exact H;
        (apply VInv0_set_state; [exact H | discriminate | | discriminate | ]); intros _.
      * apply (VInv0_config_nopages s H); rewrite Hst; reflexivity.
      * apply (VInv0_idle s H); rewrite Hst; reflexivity.
      * apply (VInv0_config_nopages s H); rewrite Hst; reflexivity.
      * apply (VInv0_idle s H); rewrite Hst; reflexivity.
    + destruct (receive_pixels_legal (v_state s)) eqn:Hl;
        intros E; injection E as E _; subst s'; [|exact H].
      assert (Hb : buffering (v_state s) = false) by (destruct (v_state s); try discriminate; reflexivity).
      destruct (VInv0_idle s H Hb) as [Hp Hc].
      apply VInv0_intro; inv_fields; try discriminate.
      * constructor.
      * apply H.
      * rewrite Hc; lia.
    + destruct (v_state s) eqn:Hst; intros E; injection E as E _; subst s'; try exact H.
      apply VInv0_set_state; [exact H | discriminate | discriminate | | discriminate].
      intros _. apply (VInv0_idle s H); rewrite Hst; reflexivity.
    + destruct (v_state s) eqn:Hst; intros E; injection E as E _; subst s'; try exact H.
      apply VInv0_set_state; [exact H | discriminate | discriminate | | discriminate].
      intros _. apply (VInv0_idle s H); rewrite Hst; reflexivity.
    + intros E; injection E as E _; subst s'.
      apply VInv0_set_state; [exact H | discriminate | discriminate | discriminate | discriminate].
    + destruct (v_state s) eqn:Hst; intros E; injection E as E _; subst s'; try exact H.
      apply VInv0_init.
  - intros E; injection E as E _; subst s'; exact H.
  - destruct (a' =? v_addr s); [|intros E; injection E as E _; subst s'; exact H].
    destruct (v_state s) eqn:Hst; try (intros E; injection E as E _; subst s'; exact H).
    destruct (forallb log_page_ok (v_pages s)); [|discriminate].
    intros E; injection E as E _; subst s'.
    assert (Hi : v_pending s = [] /\ v_chunks s = 0)
      by (apply (VInv0_idle s H); rewrite Hst; reflexivity).
    destruct (v_style s);
      (apply VInv0_set_state; [exact H | discriminate | discriminate | intros _; exact Hi | discriminate]).
  - destruct (a' =? v_addr s); intros E; injection E as E _; subst s'; [|exact H].
    apply VInv0_init.
  - intros E; injection E as E _; subst s'; exact H.
Qed.

Theorem VBytes_step s m s' r : VBytes s -> wf_msg m -> vstep s m = Some (s', r) -> VBytes s'.
Proof.
  intros H Hwf. unfold vstep. destruct m as [off data|n|a'|a'|a' st|a' o|a' o|a'|a'|f].
  - destruct (v_send_data s off data) as [s1|] eqn:Hs; [|discriminate].
    intros E; injection E as E _; subst s1.
    apply (v_send_data_VBytes s off data s' H); [|exact Hs].
    unfold wf_msg, wf_msgb in Hwf.
    apply andb_true_iff in Hwf. destruct Hwf as [Hwf _].
    apply andb_true_iff in Hwf. destruct Hwf as [_ Hwf]. exact Hwf.
  - intros E; injection E as E _; subst s'. apply v_data_chunks_sent_VBytes; exact H.
  - destruct (a' =? v_addr s); intros E; injection E as E _; subst s'; [|exact H].
    apply v_query_VBytes; exact H.
  - destruct (a' =? v_addr s); intros E; injection E as E _; subst s'; [|exact H].
    apply v_query_VBytes; exact H.
  - intros E; injection E as E _; subst s'; exact H.
  - destruct (a' =? v_addr s); [|intros E; injection E as E _; subst s'; exact H].
    destruct o.
    + destruct (v_state s); intros E; injection E as E _; subst s'; exact H.
    + destruct (receive_pixels_legal (v_state s));
        intros E; injection E as E _; subst s'; [|exact H].
      destruct H as (Hb & Hp & Hw & Hh). unfold VBytes; inv_fields.
      repeat split; try assumption. constructor.
    + destruct (v_state s); intros E; injection E as E _; subst s'; exact H.
    + destruct (v_state s); intros E; injection E as E _; subst s'; exact H.
    + intros E; injection E as E _; subst s'; exact H.
    + destruct (v_state s); intros E; injection E as E _; subst s'; try exact H.
      apply VBytes_init.
  - intros E; injection E as E _; subst s'; exact H.
  - destruct (a' =? v_addr s); [|intros E; injection E as E _; subst s'; exact H].
    destruct (v_state s); try (intros E; injection E as E _; subst s'; exact H).
    destruct (forallb log_page_ok (v_pages s)); [|discriminate].
    intros E; injection E as E _; subst s'. exact H.
  - destruct (a' =? v_addr s); intros E; injection E as E _; subst s'; [|exact H].
    apply VBytes_init.
  - intros E; injection E as E _; subst s'; exact H.
Qed.

Theorem VInv_step s m s' r : VInv s -> wf_msg m -> vstep s m = Some (s', r) -> VInv s'.
Proof.
  intros [H0 Hb] Hwf Hs. split.
  - exact (VInv0_step s m s' r H0 Hs).
  - exact (VBytes_step s m s' r Hb Hwf Hs).
Qed.

(* ------------------------------------------------------------------------- *)
(** * Address and style never change *)

Lemma v_send_data_addr_style s off data s' :
  v_send_data s off data = Some s' -> v_addr s' = v_addr s /\ v_style s' = v_style s.
Proof.
  intros Hs. destruct (v_send_data_cases s off data s' Hs)
    as [E | [(Hst & _ & _ & w & h & Hc & E) | (Hst & s1 & Hs1 & E)]]; subst s'.
  - auto.
  - inv_fields. auto.
  - inv_fields. destruct Hs1 as [E|E]; subst s1; [auto|].
    destruct (flush_pixels_fields s) as (F1 & F2 & _). auto.
Qed.

Lemma v_data_chunks_sent_addr_style s n :
  v_addr (v_data_chunks_sent s n) = v_addr s /\ v_style (v_data_chunks_sent s n) = v_style s.
Proof.
  destruct (v_data_chunks_sent_cases s n) as [(_ & _ & E)|[Hst _]].
  { rewrite E; auto. }
  rewrite (v_data_chunks_sent_receiving s n Hst). inv_fields. auto.
Qed.

Theorem vstep_addr_style s m s' r :
  vstep s m = Some (s', r) -> v_addr s' = v_addr s /\ v_style s' = v_style s.
Proof.
  unfold vstep. destruct m as [off data|n|a'|a'|a' st|a' o|a' o|a'|a'|f].
  - destruct (v_send_data s off data) as [s1|] eqn:Hs; [|discriminate].
    intros E; injection E as E _; subst s1. exact (v_send_data_addr_style s off data s' Hs).
  - intros E; injection E as E _; subst s'. apply v_data_chunks_sent_addr_style.
  - destruct (a' =? v_addr s); intros E; injection E as E _; subst s'; [|auto].
    unfold v_query; destruct (v_state s); auto.
  - destruct (a' =? v_addr s); intros E; injection E as E _; subst s'; [|auto].
    unfold v_query; destruct (v_state s); auto.
  - intros E; injection E as E _; subst s'; auto.
  - destruct (a' =? v_addr s); [|intros E; injection E as E _; subst s'; auto].
    destruct o.
    + destruct (v_state s); intros E; injection E as E _; subst s'; auto.
    + destruct (receive_pixels_legal (v_state s)); intros E; injection E as E _; subst s'; auto.
    + destruct (v_state s); intros E; injection E as E _; subst s'; auto.
    + destruct (v_state s); intros E; injection E as E _; subst s'; auto.
    + intros E; injection E as E _; subst s'; auto.
    + destruct (v_state s); intros E; injection E as E _; subst s'; auto.
  - intros E; injection E as E _; subst s'; auto.
  - destruct (a' =? v_addr s); [|intros E; injection E as E _; subst s'; auto].
    destruct (v_state s); try (intros E; injection E as E _; subst s'; auto).
    destruct (forallb log_page_ok (v_pages s)); [|discriminate].
    intros E; injection E as E _; subst s'; auto.
  - destruct (a' =? v_addr s); intros E; injection E as E _; subst s'; auto.
  - intros E; injection E as E _; subst s'; auto.
Qed.

(* ------------------------------------------------------------------------- *)
(** * No panic (C12) *)

Theorem no_panic_step s m : VInv0 s -> vstep s m <> None.
Proof.
  intros H. unfold vstep. destruct m as [off data|n|a'|a'|a' st|a' o|a' o|a'|a'|f];
    try discriminate.
  - destruct (v_send_data s off data) eqn:Hs; [discriminate|]. exfalso.
    unfold v_send_data in Hs. destruct (v_state s); try discriminate.
    destruct (N.eqb_spec off 0); destruct (N.eqb_spec (nlen data) 16) as [Hl|Hl];
      cbn [andb] in Hs; try discriminate.
    destruct (config_size data) as [[[w h]|]|] eqn:Hc; try discriminate.
    apply (config_size_16 data); [|exact Hc]. unfold nlen in Hl. lia.
  - destruct (a' =? v_addr s); discriminate.
  - destruct (a' =? v_addr s); discriminate.
  - destruct (a' =? v_addr s); [|discriminate].
    destruct o; try discriminate; try (destruct (v_state s); discriminate).
  - destruct (a' =? v_addr s); [|discriminate].
    destruct (v_state s); try discriminate.
    rewrite (pages_loggable s H). discriminate.
  - destruct (a' =? v_addr s); discriminate.
Qed.

(* ------------------------------------------------------------------------- *)
(** * Histories *)

Lemma vrun_cons s m t :
  vrun s (m :: t) =
  match vstep s m with
  | None => None
  | Some (s', r) => match vrun s' t with None => None | Some (s'', rs) => Some (s'', r :: rs) end
  end.
Proof. reflexivity. Qed.

Lemma vrun_cons_inv s m t s'' rs0 :
  vrun s (m :: t) = Some (s'', rs0) ->
  exists s' r rs, vstep s m = Some (s', r) /\ vrun s' t = Some (s'', rs) /\ rs0 = r :: rs.
Proof.
  rewrite vrun_cons. destruct (vstep s m) as [[s' r]|]; [|discriminate].
  destruct (vrun s' t) as [[s2 rs]|] eqn:Hr; [|discriminate].
  intros E; injection E as E1 E2; subst. exists s', r, rs. auto.
Qed.

Theorem VInv0_run h : forall s s' rs, VInv0 s -> vrun s h = Some (s', rs) -> VInv0 s'.
Proof.
  induction h as [|m t IH]; intros s s' rs H Hr.
  - cbn [vrun] in Hr. injection Hr as E _; subst; exact H.
  - apply vrun_cons_inv in Hr. destruct Hr as (s1 & r & rs1 & Hs & Hr & _).
    apply (IH s1 s' rs1); [|exact Hr]. exact (VInv0_step s m s1 r H Hs).
Qed.

Theorem VInv_run h : forall s s' rs,
  VInv s -> Forall wf_msg h -> vrun s h = Some (s', rs) -> VInv s'.
Proof.
  induction h as [|m t IH]; intros s s' rs H Hwf Hr.
  - cbn [vrun] in Hr. injection Hr as E _; subst; exact H.
  - apply vrun_cons_inv in Hr. destruct Hr as (s1 & r & rs1 & Hs & Hr & _).
    inversion Hwf as [|? ? Hm Ht]; subst.
    apply (IH s1 s' rs1); [|exact Ht|exact Hr]. exact (VInv_step s m s1 r H Hm Hs).
Qed.

Theorem no_panic_run h : forall s, VInv0 s -> vrun s h <> None.
Proof.
  induction h as [|m t IH]; intros s H.
  - discriminate.
  - rewrite vrun_cons. destruct (vstep s m) as [[s' r]|] eqn:Hs.
    + pose proof (IH s' (VInv0_step s m s' r H Hs)) as Hn.
      destruct (vrun s' t) as [[s2 rs]|]; [discriminate|contradiction].
    + exfalso. exact (no_panic_step s m H Hs).
Qed.

Theorem no_panic a fs h : vrun (vinit a fs) h <> None.
Proof. apply no_panic_run. apply VInv0_init. Qed.

Lemma vrun_length h : forall s s' rs, vrun s h = Some (s', rs) -> length rs = length h.
Proof.
  induction h as [|m t IH]; intros s s' rs Hr.
  - cbn [vrun] in Hr. injection Hr as _ E; subst; reflexivity.
  - apply vrun_cons_inv in Hr. destruct Hr as (s1 & r & rs1 & Hs & Hr & E). subst rs.
    cbn [length]. f_equal. exact (IH s1 s' rs1 Hr).
Qed.

Lemma vrun_addr_style h : forall s s' rs,
  vrun s h = Some (s', rs) -> v_addr s' = v_addr s /\ v_style s' = v_style s.
Proof.
  induction h as [|m t IH]; intros s s' rs Hr.
  - cbn [vrun] in Hr. injection Hr as E _; subst; auto.
  - apply vrun_cons_inv in Hr. destruct Hr as (s1 & r & rs1 & Hs & Hr & _).
    destruct (vstep_addr_style s m s1 r Hs) as [A1 A2].
    destruct (IH s1 s' rs1 Hr) as [B1 B2]. split; congruence.
Qed.

(* ------------------------------------------------------------------------- *)
(** * Buses *)

Lemma bus_step_cons s t m :
  bus_step (s :: t) m =
  match vstep s m with
  | None => None
  | Some (s', Some r) => Some (s' :: t, Some r)
  | Some (s', None) =>
      match bus_step t m with None => None | Some (t', r) => Some (s' :: t', r) end
  end.
Proof. reflexivity. Qed.

Lemma bus_run_cons b m t :
  bus_run b (m :: t) =
  match bus_step b m with
  | None => None
  | Some (b', r) => match bus_run b' t with None => None | Some (b'', rs) => Some (b'', r :: rs) end
  end.
Proof. reflexivity. Qed.

Lemma bus_run_cons_inv b m t b'' rs0 :
  bus_run b (m :: t) = Some (b'', rs0) ->
  exists b' r rs, bus_step b m = Some (b', r) /\ bus_run b' t = Some (b'', rs) /\ rs0 = r :: rs.
Proof.
  rewrite bus_run_cons. destruct (bus_step b m) as [[b' r]|]; [|discriminate].
  destruct (bus_run b' t) as [[b2 rs]|] eqn:Hr; [|discriminate].
  intros E; injection E as E1 E2; subst. exists b', r, rs. auto.
Qed.

(* A property preserved by vstep is preserved on a bus. *)
Lemma bus_step_Forall (P : vsign -> Prop) m :
  (forall s s' r, P s -> vstep s m = Some (s', r) -> P s') ->
  forall b b' r, Forall P b -> bus_step b m = Some (b', r) -> Forall P b'.
Proof.
  intros HP. induction b as [|s t IH]; intros b' r Hb Hs.
  - cbn [bus_step] in Hs. injection Hs as E _; subst; constructor.
  - rewrite bus_step_cons in Hs. inversion Hb as [|? ? Hs0 Ht]; subst.
    destruct (vstep s m) as [[s' [r0|]]|] eqn:Hv; [| |discriminate].
    + injection Hs as E _; subst. constructor; [exact (HP s s' _ Hs0 Hv)|exact Ht].
    + destruct (bus_step t m) as [[t' r1]|] eqn:Hbt; [|discriminate].
      injection Hs as E _; subst. constructor; [exact (HP s s' _ Hs0 Hv)|].
      exact (IH t' r1 Ht eq_refl).
Qed.

Theorem VInv0_bus_step b m b' r :
  Forall VInv0 b -> bus_step b m = Some (b', r) -> Forall VInv0 b'.
Proof. apply bus_step_Forall. intros s s' r0. apply VInv0_step. Qed.

Theorem VInv_bus_step b m b' r :
  Forall VInv b -> wf_msg m -> bus_step b m = Some (b', r) -> Forall VInv b'.
Proof.
  intros Hb Hwf. apply bus_step_Forall; [|exact Hb].
  intros s s' r0 Hs Hv. exact (VInv_step s m s' r0 Hs Hwf Hv).
Qed.

Theorem VInv0_bus_run h : forall b b' rs,
  Forall VInv0 b -> bus_run b h = Some (b', rs) -> Forall VInv0 b'.
Proof.
  induction h as [|m t IH]; intros b b' rs H Hr.
  - cbn [bus_run] in Hr. injection Hr as E _; subst; exact H.
  - apply bus_run_cons_inv in Hr. destruct Hr as (b1 & r & rs1 & Hs & Hr & _).
    apply (IH b1 b' rs1); [|exact Hr]. exact (VInv0_bus_step b m b1 r H Hs).
Qed.

Theorem VInv_bus_run h : forall b b' rs,
  Forall VInv b -> Forall wf_msg h -> bus_run b h = Some (b', rs) -> Forall VInv b'.
Proof.
  induction h as [|m t IH]; intros b b' rs H Hwf Hr.
  - cbn [bus_run] in Hr. injection Hr as E _; subst; exact H.
  - apply bus_run_cons_inv in Hr. destruct Hr as (b1 & r & rs1 & Hs & Hr & _).
    inversion Hwf as [|? ? Hm Ht]; subst.
    apply (IH b1 b' rs1); [|exact Ht|exact Hr]. exact (VInv_bus_step b m b1 r H Hm Hs).
Qed.

Theorem no_panic_bus_step m : forall b, Forall VInv0 b -> bus_step b m <> None.
Proof.
  induction b as [|s t IH]; intros Hb.
  - discriminate.
  - rewrite bus_step_cons. inversion Hb as [|? ? Hs0 Ht]; subst.
    destruct (vstep s m) as [[s' [r0|]]|] eqn:Hv.
    + discriminate.
    + specialize (IH Ht). destruct (bus_step t m) as [[t' r1]|]; [discriminate|contradiction].
    + exfalso. exact (no_panic_step s m Hs0 Hv).
Qed.

Theorem no_panic_bus h : forall b, Forall VInv0 b -> bus_run b h <> None.
Proof.
  induction h as [|m t IH]; intros b H.
  - discriminate.
  - rewrite bus_run_cons. destruct (bus_step b m) as [[b' r]|] eqn:Hs.
    + pose proof (IH b' (VInv0_bus_step b m b' r H Hs)) as Hn.
      destruct (bus_run b' t) as [[b2 rs]|]; [discriminate|contradiction].
    + exfalso. exact (no_panic_bus_step m b H Hs).
Qed.

Lemma Forall_VInv_init (l : list (N * flip_style)) :
  Forall VInv (map (fun '(a, fs) => vinit a fs) l).
Proof.
  induction l as [|[a fs] l IH]; cbn [map]; constructor; [apply VInv_init|exact IH].
Qed.

Lemma Forall_VInv0_init (l : list (N * flip_style)) :
  Forall VInv0 (map (fun '(a, fs) => vinit a fs) l).
Proof.
  induction l as [|[a fs] l IH]; cbn [map]; constructor; [apply VInv0_init|exact IH].
Qed.

Theorem no_panic_bus_init (l : list (N * flip_style)) h :
  bus_run (map (fun '(a, fs) => vinit a fs) l) h <> None.
Proof. apply no_panic_bus. apply Forall_VInv0_init. Qed.

(* Any 16 values are accepted as a configuration block: no index panic, no overflow. *)
Theorem any_config_block s data :
  v_state s = ConfigInProgress -> length data = 16%nat ->
  exists s', vstep s (SendData 0 data) = Some (s', None).
Proof.
  intros Hst Hl. unfold vstep, v_send_data. rewrite Hst.
  pose proof (config_size_16 data Hl) as Hc.
  destruct ((0 =? 0) && (nlen data =? 16)); [|eexists; reflexivity].
  destruct (config_size data) as [[[w h]|]|]; try (eexists; reflexivity). contradiction.
Qed.

(* A transfer ends, after the chunk count, in Received iff the counts agree, else Failed. *)
Theorem pixel_transfer_ends s n :
  v_state s = PixelsInProgress ->
  exists s', vstep s (DataChunksSent n) = Some (s', None)
    /\ (v_state s' = PixelsReceived \/ v_state s' = PixelsFailed)
    /\ (v_state s' = PixelsReceived <-> v_chunks s = n).
Proof.
  intros Hst. exists (v_data_chunks_sent s n). split; [reflexivity|].
  rewrite (v_data_chunks_sent_receiving s n (or_intror Hst)). inv_fields.
  rewrite Hst. unfold count_result.
  destruct (N.eqb_spec (v_chunks s) n) as [E|E].
  - split; [left; reflexivity|]. split; auto.
  - split; [right; reflexivity|]. split; [discriminate|contradiction].
Qed.

Theorem config_transfer_ends s n :
  v_state s = ConfigInProgress ->
  exists s', vstep s (DataChunksSent n) = Some (s', None)
    /\ (v_state s' = ConfigReceived \/ v_state s' = ConfigFailed)
    /\ (v_state s' = ConfigReceived <-> v_chunks s = n).
Proof.
  intros Hst. exists (v_data_chunks_sent s n). split; [reflexivity|].
  rewrite (v_data_chunks_sent_receiving s n (or_introl Hst)). inv_fields.
  rewrite Hst. unfold count_result.
  destruct (N.eqb_spec (v_chunks s) n) as [E|E].
  - split; [left; reflexivity|]. split; auto.
  - split; [right; reflexivity|]. split; [discriminate|contradiction].
Qed.

(* ------------------------------------------------------------------------- *)
(** * The sign-side state machine (C13) *)

Ltac eval_legal :=
  repeat match goal with
         | |- context [legal ?o ?st] =>
             let v := eval vm_compute in (legal o st) in change (legal o st) with v
         end.

(* The table read as a match (used only in proofs). *)
Lemma legal_cases o st :
  legal o st =
  match o, st with
  | ReceiveConfig, (Unconfigured | ConfigFailed) => true
  | ReceivePixels, (ConfigReceived | PixelsFailed | PageLoaded | PageLoadInProgress
                    | PageShown | PageShowInProgress | ShowingPages) => true
  | ShowLoadedPage, PageLoaded => true
  | LoadNextPage, PageShown => true
  | StartReset, _ => true
  | FinishReset, ReadyToReset => true
  | _, _ => false
  end.
Proof. destruct o, st; vm_compute; reflexivity. Qed.

(* The sign after acknowledging operation [o]. *)
Definition ack_result (s : vsign) (o : operation) : vsign :=
  match o with
  | ReceiveConfig => set_state s ConfigInProgress
  | ReceivePixels =>
      {| v_addr := v_addr s; v_style := v_style s; v_state := PixelsInProgress;
         v_pages := []; v_pending := v_pending s; v_chunks := v_chunks s;
         v_w := v_w s; v_h := v_h s; v_type := v_type s |}
  | ShowLoadedPage => set_state s PageShowInProgress
  | LoadNextPage => set_state s PageLoadInProgress
  | StartReset => set_state s ReadyToReset
  | FinishReset => vreset s
  end.

Lemma ack_result_state s o : v_state (ack_result s o) = after_ack o.
Proof. destruct o; reflexivity. Qed.

Lemma vstep_request s a' o :
  vstep s (RequestOperation a' o) =
  if (a' =? v_addr s) && legal o (v_state s)
  then Some (ack_result s o, Some (AckOperation (v_addr s) o))
  else Some (s, None).
Proof.
  unfold vstep. destruct (a' =? v_addr s); cbn [andb]; [|reflexivity].
  rewrite legal_cases. destruct o; destruct (v_state s); reflexivity.
Qed.

Theorem vstep_reply s m s' r :
  vstep s m = Some (s', r) -> r = spec_reply (v_state s) (v_addr s) m.
Proof.
  destruct m as [off data|n|a'|a'|a' st|a' o|a' o|a'|a'|f];
    try (rewrite vstep_request; cbn [spec_reply];
         destruct ((a' =? v_addr s) && legal o (v_state s));
         intros E; injection E as _ E; symmetry; exact E);
    unfold vstep; cbn [spec_reply].
  - destruct (v_send_data s off data); [|discriminate]. intros E; injection E as _ E; auto.
  - intros E; injection E as _ E; auto.
  - destruct (a' =? v_addr s); intros E; injection E as _ E; auto.
  - destruct (a' =? v_addr s); intros E; injection E as _ E; auto.
  - intros E; injection E as _ E; auto.
  - intros E; injection E as _ E; auto.
  - destruct (a' =? v_addr s); [|intros E; injection E as _ E; auto].
    destruct (v_state s); try (intros E; injection E as _ E; auto).
    destruct (forallb log_page_ok (v_pages s)); [|discriminate].
    intros E; injection E as _ E; auto.
  - destruct (a' =? v_addr s); intros E; injection E as _ E; auto.
  - intros E; injection E as _ E; auto.
Qed.

Lemma v_send_data_state s off data s' : v_send_data s off data = Some s' -> v_state s' = v_state s.
Proof.
  intros Hs. destruct (v_send_data_cases s off data s' Hs)
    as [E | [(Hst & _ & _ & w & h & Hc & E) | (Hst & s1 & Hs1 & E)]]; subst s'.
  - reflexivity.
  - reflexivity.
  - inv_fields. destruct Hs1 as [E|E]; subst s1; [reflexivity|].
    apply flush_pixels_fields.
Qed.

Lemma v_data_chunks_sent_state s n :
  v_state (v_data_chunks_sent s n) = after_count (v_state s) (v_chunks s =? n).
Proof.
  destruct (v_data_chunks_sent_cases s n) as [(H1 & H2 & E)|[Hst _]].
  { rewrite E. destruct (v_state s); try reflexivity; contradiction. }
  rewrite (v_data_chunks_sent_receiving s n Hst). inv_fields.
  destruct Hst as [Hst|Hst]; rewrite Hst; reflexivity.
Qed.

Theorem vstep_state s m s' r :
  vstep s m = Some (s', r) ->
  v_state s' = spec_state (v_style s) (v_state s)
                 (v_chunks s =? match m with DataChunksSent n => n | _ => 0 end) (v_addr s) m.
Proof.
  destruct m as [off data|n|a'|a'|a' st|a' o|a' o|a'|a'|f];
    try (rewrite vstep_request; cbn [spec_state];
         destruct ((a' =? v_addr s) && legal o (v_state s));
         intros E; injection E as E _; subst s'; [apply ack_result_state|reflexivity]);
    unfold vstep; cbn [spec_state].
  - destruct (v_send_data s off data) as [s1|] eqn:Hs; [|discriminate].
    intros E; injection E as E _; subst s1. exact (v_send_data_state s off data s' Hs).
  - intros E; injection E as E _; subst s'. apply v_data_chunks_sent_state.
  - destruct (a' =? v_addr s); intros E; injection E as E _; subst s'; [|reflexivity].
    destruct (v_state s) eqn:Hst; cbn [set_state v_state after_report]; try exact Hst; reflexivity.
  - destruct (a' =? v_addr s); intros E; injection E as E _; subst s'; [|reflexivity].
    destruct (v_state s) eqn:Hst; cbn [set_state v_state after_report]; try exact Hst; reflexivity.
  - intros E; injection E as E _; subst s'; reflexivity.
  - intros E; injection E as E _; subst s'; reflexivity.
  - destruct (a' =? v_addr s); [|intros E; injection E as E _; subst s'; reflexivity].
    destruct (v_state s) eqn:Hst;
      try (intros E; injection E as E _; subst s'; cbn [after_complete]; exact Hst).
    destruct (forallb log_page_ok (v_pages s)); [|discriminate].
    intros E; injection E as E _; subst s'. destruct (v_style s); reflexivity.
  - destruct (a' =? v_addr s); intros E; injection E as E _; subst s'; reflexivity.
  - intros E; injection E as E _; subst s'; reflexivity.
Qed.

(* The observable behaviour of any run is a trace of the specified state machine. *)
Theorem vrun_refines h : forall s s' rs,
  vrun s h = Some (s', rs) ->
  spec_trace (v_style s) (v_addr s) (v_state s) h rs (v_state s').
Proof.
  induction h as [|m t IH]; intros s s' rs Hr.
  - cbn [vrun] in Hr. injection Hr as E1 E2; subst. constructor.
  - apply vrun_cons_inv in Hr. destruct Hr as (s1 & r & rs1 & Hs & Hr & E). subst rs.
    rewrite (vstep_reply s m s1 r Hs).
    apply spec_trace_cons
      with (matches := v_chunks s =? match m with DataChunksSent n => n | _ => 0 end).
    rewrite <- (vstep_state s m s1 r Hs).
    destruct (vstep_addr_style s m s1 r Hs) as [A1 A2]. rewrite <- A1, <- A2.
    exact (IH s1 s' rs1 Hr).
Qed.

Theorem illegal_silent s o :
  legal o (v_state s) = false -> vstep s (RequestOperation (v_addr s) o) = Some (s, None).
Proof.
  intros H. rewrite vstep_request, H, andb_false_r. reflexivity.
Qed.

Theorem legal_ack s o :
  legal o (v_state s) = true ->
  exists s', vstep s (RequestOperation (v_addr s) o)
             = Some (s', Some (AckOperation (v_addr s) o))
             /\ v_state s' = after_ack o.
Proof.
  intros H. rewrite vstep_request, H, N.eqb_refl. cbn [andb].
  exists (ack_result s o). split; [reflexivity|apply ack_result_state].
Qed.

Theorem foreign_ignored s m a' :
  msg_target m = Some a' -> a' <> v_addr s -> vstep s m = Some (s, None).
Proof.
  intros Ht Hne. unfold vstep.
  destruct m as [off data|n|a|a|a st|a o|a o|a|a|f]; cbn [msg_target] in Ht;
    try discriminate; injection Ht as Ht; subst a';
    destruct (N.eqb_spec a (v_addr s)); try contradiction; reflexivity.
Qed.

Theorem not_for_signs_ignored s m : not_for_signs m = true -> vstep s m = Some (s, None).
Proof. destruct m; cbn [not_for_signs]; try discriminate; reflexivity. Qed.

Theorem finish_reset s :
  v_state s = ReadyToReset ->
  vstep s (RequestOperation (v_addr s) FinishReset)
  = Some (vinit (v_addr s) (v_style s), Some (AckOperation (v_addr s) FinishReset)).
Proof.
  intros Hst. rewrite vstep_request, N.eqb_refl, Hst. reflexivity.
Qed.

Theorem goodbye_resets s : vstep s (Goodbye (v_addr s)) = Some (vinit (v_addr s) (v_style s), None).
Proof. unfold vstep. rewrite N.eqb_refl. reflexivity. Qed.

Theorem reachable_pages_complete a fs h s' rs :
  vrun (vinit a fs) h = Some (s', rs) ->
  Forall (fun p => p_w p = v_w s' /\ p_h p = v_h s'
                   /\ nlen (p_bytes p) = total_bytes (v_w s') (v_h s')) (v_pages s')
  /\ (v_state s' <> ConfigInProgress -> v_state s' <> PixelsInProgress ->
      v_state s' <> ReadyToReset -> v_pending s' = [] /\ v_chunks s' = 0).
Proof.
  intros Hr. pose proof (VInv0_run h _ s' rs (VInv0_init a fs) Hr) as H. split.
  - pose proof (VInv0_pages s' H) as Hf. rewrite Forall_forall in *. intros p Hin.
    destruct (Hf p Hin) as (Hw & Hh & Hl & _ & _). rewrite Hw, Hh in Hl. auto.
  - intros H1 H2 H3. apply (VInv0_idle s' H).
    destruct (v_state s'); try reflexivity; contradiction.
Qed.

(* Assembly of chunks in arrival order *)
Definition chunk_msgs (l : list (N * list N)) : list msg :=
  map (fun od => SendData (fst od) (snd od)) l.

Lemma chunk_nonzero s o d :
  v_state s = PixelsInProgress -> o <> 0 ->
  vstep s (SendData o d) =
  Some ({| v_addr := v_addr s; v_style := v_style s; v_state := v_state s;
           v_pages := v_pages s; v_pending := v_pending s ++ d;
           v_chunks := winc (v_chunks s); v_w := v_w s; v_h := v_h s;
           v_type := v_type s |}, None).
Proof.
  intros Hst Ho. unfold vstep, v_send_data. rewrite Hst.
  destruct (N.eqb_spec o 0); [contradiction|]. cbv beta iota zeta. rewrite ?Hst. reflexivity.
Qed.

Lemma chunk_zero s d :
  v_state s = PixelsInProgress ->
  vstep s (SendData 0 d) =
  Some ({| v_addr := v_addr s; v_style := v_style s; v_state := v_state s;
           v_pages := v_pages (flush_pixels s); v_pending := d;
           v_chunks := winc (v_chunks s); v_w := v_w s; v_h := v_h s;
           v_type := v_type s |}, None).
Proof.
  intros Hst. unfold vstep, v_send_data. rewrite Hst. vm_eval (0 =? 0). cbv beta iota zeta.
  destruct (flush_pixels_fields s) as (F1 & F2 & F3 & F4 & F5 & F6 & F7 & F8).
  rewrite F1, F2, F3, F4, F5, F6, F7, F8, ?Hst. reflexivity.
Qed.

Theorem chunks_in_order : forall l s,
  v_state s = PixelsInProgress -> v_chunks s < 65536 ->
  Forall (fun od => fst od <> 0) l ->
  vrun s (chunk_msgs l) =
  Some ({| v_addr := v_addr s; v_style := v_style s; v_state := v_state s;
           v_pages := v_pages s; v_pending := v_pending s ++ concat (map snd l);
           v_chunks := (v_chunks s + nlen l) mod 65536; v_w := v_w s; v_h := v_h s;
           v_type := v_type s |}, repeat None (length l)).
Proof.
  induction l as [|[o d] l IH]; intros s Hst Hc Hl.
  - cbn [chunk_msgs map vrun concat length repeat]. rewrite app_nil_r, nlen_nil.
    replace ((v_chunks s + 0) mod 65536) with (v_chunks s) by lia.
    rewrite <- vsign_eta. reflexivity.
  - inversion Hl as [|? ? Ho Hl']; subst. cbn [fst] in Ho.
    unfold chunk_msgs. cbn [map fst snd]. rewrite vrun_cons.
    rewrite (chunk_nonzero s o d Hst Ho).
    fold (chunk_msgs l). rewrite IH; [|exact Hst|apply winc_lt|exact Hl'].
    inv_fields. cbn [concat length repeat]. rewrite <- app_assoc.
    replace ((winc (v_chunks s) + nlen l) mod 65536)
      with ((v_chunks s + nlen ((o, d) :: l)) mod 65536); [reflexivity|].
    rewrite nlen_cons. unfold winc. lia.
Qed.

Theorem chunk_at_zero s d :
  v_state s = PixelsInProgress ->
  exists s', vstep s (SendData 0 d) = Some (s', None)
    /\ v_pending s' = d /\ v_chunks s' = (v_chunks s + 1) mod 65536
    /\ v_state s' = v_state s /\ v_w s' = v_w s /\ v_h s' = v_h s /\ v_type s' = v_type s
    /\ v_addr s' = v_addr s /\ v_style s' = v_style s
    /\ ((0 < v_w s /\ 0 < v_h s /\ nlen (v_pending s) = total_bytes (v_w s) (v_h s)) ->
        v_pages s' = v_pages s ++ [{| p_w := v_w s; p_h := v_h s; p_bytes := v_pending s |}])
    /\ (~ (0 < v_w s /\ 0 < v_h s /\ nlen (v_pending s) = total_bytes (v_w s) (v_h s)) ->
        v_pages s' = v_pages s).
Proof.
  intros Hst. rewrite (chunk_zero s d Hst).
  eexists. split; [reflexivity|]. inv_fields. unfold winc.
  destruct (flush_pixels_spec s) as (_ & Hy & Hn).
  repeat (split; [reflexivity|]). split; [exact Hy|exact Hn].
Qed.

(* The chunk count ends the transfer and flushes the last buffer the same way. *)
Theorem count_flushes s n :
  v_state s = PixelsInProgress ->
  exists s', vstep s (DataChunksSent n) = Some (s', None)
    /\ v_pending s' = [] /\ v_chunks s' = 0
    /\ v_w s' = v_w s /\ v_h s' = v_h s /\ v_type s' = v_type s
    /\ v_addr s' = v_addr s /\ v_style s' = v_style s
    /\ ((0 < v_w s /\ 0 < v_h s /\ nlen (v_pending s) = total_bytes (v_w s) (v_h s)) ->
        v_pages s' = v_pages s ++ [{| p_w := v_w s; p_h := v_h s; p_bytes := v_pending s |}])
    /\ (~ (0 < v_w s /\ 0 < v_h s /\ nlen (v_pending s) = total_bytes (v_w s) (v_h s)) ->
        v_pages s' = v_pages s).
Proof.
  intros Hst. exists (v_data_chunks_sent s n). split; [reflexivity|].
  rewrite (v_data_chunks_sent_receiving s n (or_intror Hst)). inv_fields.
  repeat (split; [reflexivity|]).
  destruct (flush_pixels_spec (set_state s (count_result (v_state s) (v_chunks s =? n))))
    as (_ & Hy & Hn).
  split; [exact Hy|exact Hn].
Qed.

(* ------------------------------------------------------------------------- *)
(** * Signs sharing a bus are isolated (C14) *)

Lemma vstep_reply_target s m s' rm :
  vstep s m = Some (s', Some rm) -> msg_target m = Some (v_addr s) /\ msg_addr rm = v_addr s.
Proof.
  intros Hs. pose proof (vstep_reply s m s' _ Hs) as Hr. revert Hr.
  destruct m as [off data|n|a|a|a st|a o|a o|a|a|f]; cbn [spec_reply msg_target];
    try discriminate.
  - destruct (N.eqb_spec a (v_addr s)); [|discriminate].
    intros E; injection E as E; subst. auto.
  - destruct (N.eqb_spec a (v_addr s)); [|discriminate].
    intros E; injection E as E; subst. auto.
  - destruct (N.eqb_spec a (v_addr s)); cbn [andb]; [|discriminate].
    destruct (legal o (v_state s)); [|discriminate].
    intros E; injection E as E; subst. auto.
Qed.

Lemma vstep_unaddressed s m s' r :
  msg_target m = None -> vstep s m = Some (s', r) ->
  r = None /\ (v_state s <> ConfigInProgress -> v_state s <> PixelsInProgress -> s' = s).
Proof.
  intros Ht Hs. split.
  - destruct r as [rm|]; [|reflexivity].
    destruct (vstep_reply_target s m s' rm Hs) as [E _]. congruence.
  - intros H1 H2. revert Hs. unfold vstep.
    destruct m as [off data|n|a|a|a st|a o|a o|a|a|f]; cbn [msg_target] in Ht;
      try discriminate; try (intros E; injection E as E _; auto).
    + destruct (v_send_data s off data) as [s1|] eqn:Hd; [|discriminate].
      intros E; injection E as E _; subst s1.
      destruct (v_send_data_cases s off data s' Hd)
        as [E | [(Hst & _) | (Hst & _)]]; [exact E|contradiction|contradiction].
    + subst s'. destruct (v_data_chunks_sent_cases s n) as [(_ & _ & E)|[[Hst|Hst] _]];
        [exact E|contradiction|contradiction].
Qed.

(* A message for an address no sign on the bus has changes nothing. *)
Theorem bus_absent m a : msg_target m = Some a ->
  forall b, ~ In a (map v_addr b) -> bus_step b m = Some (b, None).
Proof.
  intros Ht. induction b as [|s t IH]; intros Hn.
  - reflexivity.
  - rewrite bus_step_cons. cbn [map In] in Hn.
    rewrite (foreign_ignored s m a Ht) by (intros E; apply Hn; left; symmetry; exact E).
    rewrite IH by (intros Hin; apply Hn; right; exact Hin). reflexivity.
Qed.

Lemma bus_step_app_foreign m a : msg_target m = Some a ->
  forall b1 rest, ~ In a (map v_addr b1) ->
  bus_step (b1 ++ rest) m =
  match bus_step rest m with None => None | Some (t', r) => Some (b1 ++ t', r) end.
Proof.
  intros Ht. induction b1 as [|s t IH]; intros rest Hn.
  - cbn [app]. destruct (bus_step rest m) as [[t' r]|]; reflexivity.
  - cbn [app]. rewrite bus_step_cons. cbn [map In] in Hn.
    rewrite (foreign_ignored s m a Ht) by (intros E; apply Hn; left; symmetry; exact E).
    rewrite IH by (intros Hin; apply Hn; right; exact Hin).
    destruct (bus_step rest m) as [[t' r]|]; reflexivity.
Qed.

Theorem bus_addressed b m a :
  NoDup (map v_addr b) -> msg_target m = Some a ->
  forall b1 s b2, b = b1 ++ s :: b2 -> v_addr s = a ->
  forall s' r, vstep s m = Some (s', r) -> bus_step b m = Some (b1 ++ s' :: b2, r).
Proof.
  intros Hnd Ht b1 s b2 Hb Ha s' r Hs. subst b.
  rewrite map_app in Hnd. cbn [map] in Hnd. apply NoDup_remove_2 in Hnd.
  rewrite Ha in Hnd.
  assert (H1 : ~ In a (map v_addr b1)) by (intros Hin; apply Hnd; apply in_or_app; auto).
  assert (H2 : ~ In a (map v_addr b2)) by (intros Hin; apply Hnd; apply in_or_app; auto).
  rewrite (bus_step_app_foreign m a Ht b1 (s :: b2) H1).
  rewrite bus_step_cons, Hs. destruct r as [rm|]; [reflexivity|].
  rewrite (bus_absent m a Ht b2 H2). reflexivity.
Qed.

Theorem bus_reply_address m : forall b b' rm,
  bus_step b m = Some (b', Some rm) ->
  exists a, msg_target m = Some a /\ msg_addr rm = a /\ In a (map v_addr b).
Proof.
  induction b as [|s t IH]; intros b' rm Hs.
  - discriminate.
  - rewrite bus_step_cons in Hs.
    destruct (vstep s m) as [[s' [r0|]]|] eqn:Hv; [| |discriminate].
    + injection Hs as _ E; subst r0.
      destruct (vstep_reply_target s m s' rm Hv) as [H1 H2].
      exists (v_addr s). cbn [map In]. auto.
    + destruct (bus_step t m) as [[t' r1]|] eqn:Hbt; [|discriminate].
      injection Hs as _ E; subst r1.
      destruct (IH t' rm eq_refl) as (a & H1 & H2 & H3).
      exists a. cbn [map In]. auto.
Qed.

Theorem bus_unaddressed m : msg_target m = None ->
  forall b, (forall s, In s b -> vstep s m <> None) ->
  exists b', bus_step b m = Some (b', None) /\ length b' = length b
    /\ forall i s, nth_error b i = Some s ->
         exists s', vstep s m = Some (s', None) /\ nth_error b' i = Some s'
           /\ (v_state s <> ConfigInProgress -> v_state s <> PixelsInProgress -> s' = s).
Proof.
  intros Ht. induction b as [|s0 t IH]; intros Hnp.
  - exists []. split; [reflexivity|]. split; [reflexivity|].
    intros i s Hi. destruct i; discriminate.
  - destruct (vstep s0 m) as [[s0' r0]|] eqn:Hv; [|exfalso; apply (Hnp s0); [left; reflexivity|exact Hv]].
    destruct (vstep_unaddressed s0 m s0' r0 Ht Hv) as [E Hsame]. subst r0.
    destruct IH as (t' & Hbt & Hlen & Hnth).
    { intros s Hin. apply Hnp. right; exact Hin. }
    exists (s0' :: t'). rewrite bus_step_cons, Hv, Hbt.
    split; [reflexivity|]. split; [cbn [length]; congruence|].
    intros i s Hi. destruct i as [|i]; cbn [nth_error] in *.
    + injection Hi as Hi; subst s0. exists s0'. auto.
    + exact (Hnth i s Hi).
Qed.

Lemma bus_step_projection m : forall b b' r,
  NoDup (map v_addr b) -> bus_step b m = Some (b', r) ->
  map v_addr b' = map v_addr b
  /\ forall i s, nth_error b i = Some s ->
       exists s' r_i, vstep s m = Some (s', r_i) /\ nth_error b' i = Some s'.
Proof.
  induction b as [|s0 t IH]; intros b' r Hnd Hs.
  - cbn [bus_step] in Hs. injection Hs as E _; subst b'. split; [reflexivity|].
    intros i s Hi. destruct i; discriminate.
  - rewrite bus_step_cons in Hs. cbn [map] in Hnd.
    inversion Hnd as [|? ? Hnotin Hnd']; subst.
    destruct (vstep s0 m) as [[s0' [r0|]]|] eqn:Hv; [| |discriminate].
    + injection Hs as E _; subst b'.
      destruct (vstep_addr_style s0 m s0' _ Hv) as [A _].
      destruct (vstep_reply_target s0 m s0' r0 Hv) as [Ht _].
      split; [cbn [map]; rewrite A; reflexivity|].
      intros i s Hi. destruct i as [|i]; cbn [nth_error] in *.
      * injection Hi as Hi; subst s0. exists s0', (Some r0). auto.
      * exists s, None. split; [|exact Hi].
        apply (foreign_ignored s m (v_addr s0) Ht).
        intros E. apply Hnotin. rewrite E. apply in_map. exact (nth_error_In _ _ Hi).
    + destruct (bus_step t m) as [[t' r1]|] eqn:Hbt; [|discriminate].
      injection Hs as E _; subst b'.
      destruct (vstep_addr_style s0 m s0' _ Hv) as [A _].
      destruct (IH t' r1 Hnd' eq_refl) as [Hm Hnth].
      split; [cbn [map]; rewrite A, Hm; reflexivity|].
      intros i s Hi. destruct i as [|i]; cbn [nth_error] in *.
      * injection Hi as Hi; subst s0. exists s0', None. auto.
      * exact (Hnth i s Hi).
Qed.

Theorem bus_projection h : forall b b' rs,
  NoDup (map v_addr b) -> bus_run b h = Some (b', rs) ->
  map v_addr b' = map v_addr b
  /\ forall i s, nth_error b i = Some s ->
       exists s' rs_i, vrun s h = Some (s', rs_i) /\ nth_error b' i = Some s'.
Proof.
  induction h as [|m t IH]; intros b b' rs Hnd Hr.
  - cbn [bus_run] in Hr. injection Hr as E _; subst b'. split; [reflexivity|].
    intros i s Hi. exists s, []. auto.
  - apply bus_run_cons_inv in Hr. destruct Hr as (b1 & r & rs1 & Hs & Hr & _).
    destruct (bus_step_projection m b b1 r Hnd Hs) as [Hm1 Hn1].
    assert (Hnd1 : NoDup (map v_addr b1)) by (rewrite Hm1; exact Hnd).
    destruct (IH b1 b' rs1 Hnd1 Hr) as [Hm2 Hn2].
    split; [congruence|].
    intros i s Hi. destruct (Hn1 i s Hi) as (s1 & r_i & Hv & Hi1).
    destruct (Hn2 i s1 Hi1) as (s2 & rs_i & Hv2 & Hi2).
    exists s2, (r_i :: rs_i). split; [|exact Hi2].
    rewrite vrun_cons, Hv, Hv2. reflexivity.
Qed.

(* ------------------------------------------------------------------------- *)
(** * The same results with the quantifier order used in props/ *)

Lemma no_panic_bus_bh : forall b h, Forall VInv0 b -> bus_run b h <> None.
Proof. intros b h. exact (no_panic_bus h b). Qed.

Lemma vrun_refines_sh : forall s h s' rs,
  vrun s h = Some (s', rs) ->
  spec_trace (v_style s) (v_addr s) (v_state s) h rs (v_state s').
Proof. intros s h. exact (vrun_refines h s). Qed.

Lemma bus_absent_bm : forall b m a,
  msg_target m = Some a -> ~ In a (map v_addr b) -> bus_step b m = Some (b, None).
Proof. intros b m a Ht. exact (bus_absent m a Ht b). Qed.

Lemma bus_reply_address_bm : forall b m b' rm,
  bus_step b m = Some (b', Some rm) ->
  exists a, msg_target m = Some a /\ msg_addr rm = a /\ In a (map v_addr b).
Proof. intros b m. exact (bus_reply_address m b). Qed.

Lemma bus_unaddressed_bm : forall b m,
  msg_target m = None -> (forall s, In s b -> vstep s m <> None) ->
  exists b', bus_step b m = Some (b', None) /\ length b' = length b
    /\ forall i s, nth_error b i = Some s ->
         exists s', vstep s m = Some (s', None) /\ nth_error b' i = Some s'
           /\ (v_state s <> ConfigInProgress -> v_state s <> PixelsInProgress -> s' = s).
Proof. intros b m Ht. exact (bus_unaddressed m Ht b). Qed.

Lemma bus_projection_bh : forall b h b' rs,
  NoDup (map v_addr b) -> bus_run b h = Some (b', rs) ->
  map v_addr b' = map v_addr b
  /\ forall i s, nth_error b i = Some s ->
       exists s' rs_i, vrun s h = Some (s', rs_i) /\ nth_error b' i = Some s'.
Proof. intros b h. exact (bus_projection h b). Qed.

Lemma VInv_run_sh : forall s h s' rs,
  VInv s -> Forall wf_msg h -> vrun s h = Some (s', rs) -> VInv s'.
Proof. intros s h. exact (VInv_run h s). Qed.

Lemma VInv_bus_run_bh : forall b h b' rs,
  Forall VInv b -> Forall wf_msg h -> bus_run b h = Some (b', rs) -> Forall VInv b'.
Proof. intros b h. exact (VInv_bus_run h b). Qed.
