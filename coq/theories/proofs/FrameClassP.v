(* The decoder as a function of the well-formed text: the three checks in their order of
   precedence, and the classification of every byte string into exactly the documented
   outcomes.  Corollaries of the characterisations in FrameP (property C03). *)
From Flipdot Require Import Tactics Base Hex Frame WireSpec FrameP.
Local Open Scope N_scope.

(* Every byte string falls in one of the four documented classes. *)
Lemma decode_classes s :
  (exists f, decode s = Ok f) \/ decode s = Err InvalidFrame
  \/ (exists e a, decode s = Err (DataMismatch e a))
  \/ (exists e a, decode s = Err (BadChecksum e a)).
Proof.
  destruct (C03_total s) as [Hp Hl].
  destruct (decode s) as [f|e] eqn:E.
  - left. exists f. reflexivity.
  - destruct e as [|e a|e a|n|].
    + right. left. reflexivity.
    + right. right. left. exists e, a. reflexivity.
    + right. right. right. exists e, a. reflexivity.
    + exfalso. apply (Hl n). reflexivity.
    + exfalso. apply Hp. reflexivity.
Qed.

(* Given the byte values the text spells, the outcome is decided by the length field first and
   the checksum second. *)
Lemma decode_precedence s bs :
  WellFormedText s bs ->
  (hd 0 bs <> nlen bs - 5 -> decode s = Err (DataMismatch (hd 0 bs) (nlen bs - 5)))
  /\ (hd 0 bs = nlen bs - 5 -> last bs 0 <> checksum (removelast bs) ->
      decode s = Err (BadChecksum (last bs 0) (checksum (removelast bs))))
  /\ (hd 0 bs = nlen bs - 5 -> last bs 0 = checksum (removelast bs) ->
      exists f, decode s = Ok f).
Proof.
  intros W. split; [|split].
  - intros Hne. apply C03_mismatch. exists bs. repeat split; auto.
  - intros Hl Hc. apply C03_badck. exists bs. repeat split; auto.
  - intros Hl Hc.
    destruct (decode_classes s) as [H|[H|[[e [a H]]|[e [a H]]]]].
    + exact H.
    + exfalso. apply C03_invalid in H. apply H. exists bs. exact W.
    + exfalso. apply C03_mismatch in H. destruct H as [bs' [W' [He [Ha Hne]]]].
      assert (bs' = bs) by (eapply C03_wft_unique; eauto). subst bs'.
      apply Hne. rewrite <- He, Ha. exact Hl.
    + exfalso. apply C03_badck in H. destruct H as [bs' [W' [_ [He [Ha Hne]]]]].
      assert (bs' = bs) by (eapply C03_wft_unique; eauto). subst bs'.
      apply Hne. rewrite He, Ha. exact Hc.
Qed.

(* The three rejections exclude one another and acceptance: decode is a function, so this is
   the statement that the classes of decode_classes are pairwise disjoint as sets of strings
   described by the specification alone. *)
Lemma spec_classes_disjoint s :
  ~ ((exists f, Documented s f) /\ ~ (exists bs, WellFormedText s bs)).
Proof.
  intros [[f D] N]. apply C03_accept_iff in D.
  assert (H : decode s = Err InvalidFrame) by (apply C03_invalid; exact N).
  rewrite D in H. discriminate.
Qed.
