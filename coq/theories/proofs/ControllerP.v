(* ControllerP.v — proofs about the controller model (model/Controller.v) and its relation to the
   protocol specification (spec/ProtoSpec.v): properties C09, C10, C11. *)
From Flipdot Require Import Tactics.
From Flipdot Require Import Base Message Page SignType VSign Controller ProtoSpec.
Local Open Scope N_scope.

(* ================================================================== *)
(* 0. Small list facts                                                 *)

Lemma nth_error_app_l {A} (l1 l2 : list A) i :
  (i < length l1)%nat -> nth_error (l1 ++ l2) i = nth_error l1 i.
Proof. intros H. apply nth_error_app1; exact H. Qed.

Lemma nth_error_app_r {A} (l1 l2 : list A) i :
  (length l1 <= i)%nat -> nth_error (l1 ++ l2) i = nth_error l2 (i - length l1).
Proof. intros H. apply nth_error_app2; exact H. Qed.

Lemma nth_error_Some_lt {A} (l : list A) i x : nth_error l i = Some x -> (i < length l)%nat.
Proof. intros H. apply nth_error_Some. rewrite H. discriminate. Qed.

Lemma skipn_add {A} (a b : nat) (l : list A) : skipn (a + b) l = skipn b (skipn a l).
Proof.
  revert l. induction a as [|a IH]; intros l; [reflexivity|].
  destruct l as [|x l]; cbn [skipn Nat.add].
  - destruct b; reflexivity.
  - apply IH.
Qed.

(* ================================================================== *)
(* 1. Equality tests of the model agree with Leibniz equality and with the spec's patterns *)

Lemma state_eqb_same x y : state_eqb x y = same_state x y.
Proof. destruct x, y; reflexivity. Qed.

Lemma operation_eqb_same x y : operation_eqb x y = same_operation x y.
Proof. destruct x, y; reflexivity. Qed.

Lemma same_state_spec x y : same_state x y = true <-> x = y.
Proof. split; [destruct x, y; cbn; congruence | intros ->; destruct y; reflexivity]. Qed.

Lemma same_operation_spec x y : same_operation x y = true <-> x = y.
Proof. split; [destruct x, y; cbn; congruence | intros ->; destruct y; reflexivity]. Qed.

Lemma same_state_refl x : same_state x x = true.
Proof. destruct x; reflexivity. Qed.
Lemma same_operation_refl x : same_operation x x = true.
Proof. destruct x; reflexivity. Qed.

Lemma omsg_eqb_none r : omsg_eqb r None = is_none r.
Proof. destruct r; reflexivity. Qed.

Lemma omsg_eqb_report r a st : omsg_eqb r (Some (ReportState a st)) = is_own_report a st r.
Proof.
  destruct r as [m|]; [|reflexivity]. destruct m; try reflexivity.
  cbn [omsg_eqb option_eqb msg_eqb is_own_report]. rewrite state_eqb_same. reflexivity.
Qed.

Lemma omsg_eqb_ack r a op : omsg_eqb r (Some (AckOperation a op)) = is_own_ack a op r.
Proof.
  destruct r as [m|]; [|reflexivity]. destruct m; try reflexivity.
  cbn [omsg_eqb option_eqb msg_eqb is_own_ack]. rewrite operation_eqb_same. reflexivity.
Qed.

Lemma is_own_report_true a st r :
  is_own_report a st r = true <-> r = Some (ReportState a st).
Proof.
  split.
  - destruct r as [m|]; [|discriminate]. destruct m; try discriminate.
    cbn [is_own_report]. intros H. apply andb_true_iff in H. destruct H as [Ha Hs].
    apply N.eqb_eq in Ha. apply same_state_spec in Hs. subst. reflexivity.
  - intros ->. cbn [is_own_report]. rewrite N.eqb_refl, same_state_refl. reflexivity.
Qed.

Lemma is_own_ack_true a op r :
  is_own_ack a op r = true <-> r = Some (AckOperation a op).
Proof.
  split.
  - destruct r as [m|]; [|discriminate]. destruct m; try discriminate.
    cbn [is_own_ack]. intros H. apply andb_true_iff in H. destruct H as [Ha Hs].
    apply N.eqb_eq in Ha. apply same_operation_spec in Hs. subst. reflexivity.
  - intros ->. cbn [is_own_ack]. rewrite N.eqb_refl, same_operation_refl. reflexivity.
Qed.

Lemma is_none_true r : is_none r = true <-> r = None.
Proof. destruct r; cbn; split; congruence. Qed.

(* ================================================================== *)
(* 2. run_script with the unread part of the script                    *)

Fixpoint run_script_rest {A : Type} (p : prog A) (script : list reply) : run A :=
  match p with
  | Ret a => ([], Done a, script)
  | Fail => ([], ProtoErr, script)
  | Crash => ([], Crashed, script)
  | Send m k =>
      match script with
      | [] => ([m], Blocked, [])
      | BusErr :: rest => ([m], BusFailed, rest)
      | Rep r :: script' =>
          let '(tr, o, rest) := run_script_rest (k r) script' in (m :: tr, o, rest)
      end
  end.

Lemma run_script_rest_fst {A} (p : prog A) script :
  fst (run_script_rest p script) = run_script p script.
Proof.
  revert script. induction p as [a| | |m k IH]; intros script; try reflexivity.
  destruct script as [|[|r] script']; try reflexivity.
  cbn [run_script_rest run_script]. rewrite <- IH.
  destruct (run_script_rest (k r) script') as [[tr o] rest]. reflexivity.
Qed.

Lemma run_script_rest_eq {A} (p : prog A) script tr o rest :
  run_script_rest p script = (tr, o, rest) -> run_script p script = (tr, o).
Proof. intros H. rewrite <- run_script_rest_fst, H. reflexivity. Qed.

Lemma run_script_rest_ex {A} (p : prog A) script tr o :
  run_script p script = (tr, o) -> exists rest, run_script_rest p script = (tr, o, rest).
Proof.
  intros H. rewrite <- run_script_rest_fst in H.
  destruct (run_script_rest p script) as [[tr' o'] rest]. cbn in H. inversion H; subst.
  exists rest. reflexivity.
Qed.

(* The number of messages sent is the number of replies read, except that a Blocked run has sent
   one message more than there were replies.  The replies read are a prefix of the script. *)
Lemma run_script_rest_consumed {A} (p : prog A) script tr o rest :
  run_script_rest p script = (tr, o, rest) ->
  (o <> Blocked -> script = firstn (length tr) script ++ rest
                   /\ (length tr + length rest = length script)%nat)
  /\ (o = Blocked -> rest = [] /\ length tr = S (length script)).
Proof.
  revert script tr o rest. induction p as [a| | |m k IH]; intros script tr o rest H.
  1-3: cbn in H; inversion H; subst; split; [intros _; split; reflexivity | discriminate].
  destruct script as [|[|r] script']; cbn [run_script_rest] in H.
  - inversion H; subst. split; [congruence | intros _; split; reflexivity].
  - inversion H; subst. split; [intros _; split; reflexivity | discriminate].
  - destruct (run_script_rest (k r) script') as [[tr' o'] rest'] eqn:E.
    inversion H; subst. destruct (IH r _ _ _ _ E) as [H1 H2]. split.
    + intros Ho. destruct (H1 Ho) as [Hs Hl]. cbn [length firstn app]. split.
      * f_equal. exact Hs.
      * lia.
    + intros Ho. destruct (H2 Ho) as [Hr Hl]. cbn [length]. split; [exact Hr | lia].
Qed.

(* bind *)
Lemma run_script_rest_bind {A B} (p : prog A) (f : A -> prog B) script :
  run_script_rest (bind p f) script
  = and_then (run_script_rest p script) (fun a rest => run_script_rest (f a) rest).
Proof.
  revert script. induction p as [a| | |m k IH]; intros script.
  - cbn [bind run_script_rest and_then].
    destruct (run_script_rest (f a) script) as [[tr o] rest]. reflexivity.
  - reflexivity.
  - reflexivity.
  - cbn [bind]. destruct script as [|[|r] script']; try reflexivity.
    cbn [run_script_rest]. rewrite IH.
    destruct (run_script_rest (k r) script') as [[tr o] rest].
    destruct o; try reflexivity.
    cbn [and_then]. destruct (run_script_rest (f a) rest) as [[tr' o'] rest']. reflexivity.
Qed.

(* the form asked for: on run_script, in terms of the unread script of the first part *)
Lemma run_script_bind {A B} (p : prog A) (f : A -> prog B) script :
  run_script (bind p f) script
  = match run_script_rest p script with
    | (tr, Done a, rest) => let '(tr', o) := run_script (f a) rest in (tr ++ tr', o)
    | (tr, ProtoErr, _) => (tr, ProtoErr)
    | (tr, BusFailed, _) => (tr, BusFailed)
    | (tr, Crashed, _) => (tr, Crashed)
    | (tr, Blocked, _) => (tr, Blocked)
    end.
Proof.
  rewrite <- run_script_rest_fst, run_script_rest_bind.
  destruct (run_script_rest p script) as [[tr o] rest]. destruct o; try reflexivity.
  cbn [and_then]. rewrite <- run_script_rest_fst.
  destruct (run_script_rest (f a) rest) as [[tr' o'] rest']. reflexivity.
Qed.

(* ================================================================== *)
(* 3. Fail-stop: a property of the interpreter, for any program (C11)   *)

Lemma fail_stop_gen {A} (p : prog A) script tr o :
  run_script p script = (tr, o) -> o <> Blocked ->
  (length tr <= length script)%nat
  /\ run_script p (firstn (length tr) script) = (tr, o)
  /\ (In BusErr (firstn (length tr) script) -> o = BusFailed)
  /\ (o = BusFailed -> nth_error script (length tr - 1) = Some BusErr).
Proof.
  revert script tr o. induction p as [a| | |m k IH]; intros script tr o H Hb.
  1-3: cbn in H; inversion H; subst; cbn; repeat split; try lia; try tauto; discriminate.
  destruct script as [|[|r] script']; cbn [run_script] in H.
  - inversion H; subst. congruence.
  - inversion H; subst. cbn. repeat split; try lia; tauto.
  - destruct (run_script (k r) script') as [tr' o'] eqn:E. inversion H; subst.
    destruct (IH r _ _ _ E Hb) as (H1 & H2 & H3 & H4).
    cbn [length firstn]. repeat split.
    + lia.
    + cbn [run_script]. rewrite H2. reflexivity.
    + intros [Hi|Hi]; [discriminate | exact (H3 Hi)].
    + intros Ho. specialize (H4 Ho).
      destruct tr' as [|m' tr'].
      * (* BusFailed needs at least one message *)
        exfalso. clear -E Ho. destruct (k r); cbn in E; try (inversion E; subst; discriminate).
        destruct script' as [|[|r'] s'']; try discriminate.
        destruct (run_script (k0 r') s''); discriminate.
      * cbn [length] in *. replace (S (S (length tr')) - 1)%nat with (S (length tr')) by lia.
        cbn [nth_error]. replace (S (length tr') - 1)%nat with (length tr') in H4 by lia.
        exact H4.
Qed.

(* Every reply read before the last one is a proper reply; the outcome is Blocked exactly when
   the script was used up. *)
Lemma run_script_blocked_length {A} (p : prog A) script tr :
  run_script p script = (tr, Blocked) -> length tr = S (length script).
Proof.
  intros H. destruct (run_script_rest_ex _ _ _ _ H) as [rest Hr].
  apply run_script_rest_consumed in Hr. destruct Hr as [_ Hr]. apply Hr. reflexivity.
Qed.

(* ================================================================== *)
(* 4. chunks16                                                          *)

Lemma chunks16_nil : chunks16 [] = [].
Proof. reflexivity. Qed.

Lemma n_slices_nil : n_slices [] = 0%nat.
Proof. reflexivity. Qed.

Lemma n_slices_step (l : list N) :
  l <> [] -> n_slices l = S (n_slices (skipn 16 l)).
Proof.
  intros Hl. unfold n_slices. rewrite skipn_length.
  assert (length l <> 0)%nat by (destruct l; [congruence | cbn; lia]).
  change (Nat.div ?a ?b) with (a / b)%nat. lia.
Qed.

Definition slices (l : list N) : list (list N) := map (slice l) (seq 0 (n_slices l)).

Lemma slice_S (l : list N) i : slice l (S i) = slice (skipn 16 l) i.
Proof.
  unfold slice. replace (16 * S i)%nat with (16 + 16 * i)%nat by lia.
  rewrite skipn_add. reflexivity.
Qed.

Lemma slices_step (l : list N) : l <> [] -> slices l = firstn 16 l :: slices (skipn 16 l).
Proof.
  intros Hl. unfold slices. rewrite (n_slices_step l Hl). cbn [seq map].
  f_equal. rewrite <- seq_shift, map_map. apply map_ext. intros i. apply slice_S.
Qed.

Lemma chunks_fuel_slices fuel (l : list N) :
  (length l <= fuel)%nat -> chunks_fuel fuel l = slices l.
Proof.
  revert l. induction fuel as [|fuel IH]; intros l Hl.
  - destruct l; [reflexivity | cbn in Hl; lia].
  - destruct l as [|x t]; [reflexivity|].
    cbn [chunks_fuel]. rewrite slices_step by discriminate. f_equal.
    apply IH. rewrite skipn_length. cbn [length] in *. lia.
Qed.

Lemma chunks16_slices (l : list N) : chunks16 l = slices l.
Proof. apply chunks_fuel_slices. lia. Qed.

Lemma chunks16_step (l : list N) : l <> [] -> chunks16 l = firstn 16 l :: chunks16 (skipn 16 l).
Proof. intros H. rewrite !chunks16_slices. apply slices_step; exact H. Qed.

(* induction principle following the chunking *)
Lemma chunk_ind (P : list N -> Prop) :
  P [] -> (forall l, l <> [] -> P (skipn 16 l) -> P l) -> forall l, P l.
Proof.
  intros H0 HS l. remember (length l) as n eqn:E.
  revert l E. induction n as [n IH] using lt_wf_ind. intros l E.
  destruct l as [|x t]; [exact H0|].
  apply HS; [discriminate|]. apply (IH (length (skipn 16 (x :: t)))); [|reflexivity].
  rewrite skipn_length. subst n. cbn [length]. lia.
Qed.

Lemma chunks16_concat (b : list N) : concat (chunks16 b) = b.
Proof.
  induction b as [|b Hb IH] using chunk_ind; [reflexivity|].
  rewrite chunks16_step by exact Hb. cbn [concat]. rewrite IH. apply firstn_skipn.
Qed.

Lemma chunks16_sizes (b : list N) : Forall (fun c => (1 <= length c <= 16)%nat) (chunks16 b).
Proof.
  induction b as [|b Hb IH] using chunk_ind; [constructor|].
  rewrite chunks16_step by exact Hb. constructor; [|exact IH].
  rewrite firstn_length. destruct b; [congruence | cbn [length]; lia].
Qed.

Lemma chunks16_length (b : list N) : length (chunks16 b) = ((length b + 15) / 16)%nat.
Proof. rewrite chunks16_slices. unfold slices. rewrite map_length, seq_length. reflexivity. Qed.

Lemma chunks16_nth (b : list N) i c :
  nth_error (chunks16 b) i = Some c -> c = firstn 16 (skipn (16 * i) b).
Proof.
  rewrite chunks16_slices. unfold slices. intros H.
  assert (Hi : (i < n_slices b)%nat).
  { apply nth_error_Some_lt in H. rewrite map_length, seq_length in H. exact H. }
  rewrite (nth_error_nth' _ [] ) in H by (rewrite map_length, seq_length; exact Hi).
  inversion H as [H']. clear H.
  rewrite (nth_indep _ [] (slice b 0)) by (rewrite map_length, seq_length; exact Hi).
  rewrite map_nth, seq_nth by exact Hi. reflexivity.
Qed.

(* all chunks but the last have exactly 16 bytes *)
Lemma chunks16_full (b : list N) i c :
  nth_error (chunks16 b) i = Some c -> (S i < length (chunks16 b))%nat -> length c = 16%nat.
Proof.
  intros H Hi. rewrite (chunks16_nth _ _ _ H). rewrite chunks16_length in Hi.
  rewrite firstn_length, skipn_length. lia.
Qed.

(* the last chunk holds the remainder *)
Lemma chunks16_last (b : list N) i c :
  nth_error (chunks16 b) i = Some c -> (S i = length (chunks16 b))%nat ->
  length c = (length b - 16 * i)%nat.
Proof.
  intros H Hi. rewrite (chunks16_nth _ _ _ H). rewrite chunks16_length in Hi.
  rewrite firstn_length, skipn_length. lia.
Qed.

(* ------------------------------------------------------------------ *)
(* The data messages of one item and of one attempt (C09)               *)

Fixpoint chunk_msgs_from (i : nat) (cs : list (list N)) : list msg :=
  match cs with
  | [] => []
  | c :: t => SendData ((16 * N.of_nat i) mod 65536) c :: chunk_msgs_from (S i) t
  end.

(* SendData ((16*i) mod 65536) c_i for the i-th chunk c_i of chunks16 item *)
Definition chunk_msgs (item : list N) : list msg := chunk_msgs_from 0 (chunks16 item).

Definition attempt_msgs (a : N) (op : operation) (items : list (list N)) : list msg :=
  [RequestOperation a op] ++ concat (map chunk_msgs items)
  ++ [DataChunksSent (N.of_nat (length (concat (map chunk_msgs items))))] ++ [QueryState a].

Definition total_chunks (items : list (list N)) : N :=
  N.of_nat (length (concat (map chunks16 items))).

Lemma chunk_msgs_from_length i cs : length (chunk_msgs_from i cs) = length cs.
Proof. revert i. induction cs as [|c t IH]; intros i; [reflexivity|]. cbn. rewrite IH. reflexivity. Qed.

Lemma chunk_msgs_from_nth k cs i :
  nth_error (chunk_msgs_from k cs) i
  = option_map (fun c => SendData ((16 * N.of_nat (k + i)) mod 65536) c) (nth_error cs i).
Proof.
  revert k i. induction cs as [|c t IH]; intros k i.
  - destruct i; reflexivity.
  - destruct i as [|i]; cbn [chunk_msgs_from nth_error option_map].
    + rewrite Nat.add_0_r. reflexivity.
    + rewrite IH. replace (S k + i)%nat with (k + S i)%nat by lia. reflexivity.
Qed.

Lemma chunk_msgs_from_map k cs :
  chunk_msgs_from k cs
  = map (fun ic => SendData ((16 * N.of_nat (fst ic)) mod 65536) (snd ic))
        (combine (seq k (length cs)) cs).
Proof.
  revert k. induction cs as [|c t IH]; intros k; [reflexivity|].
  cbn [chunk_msgs_from length seq combine map fst snd]. rewrite IH. reflexivity.
Qed.

Lemma chunk_msgs_length item : length (chunk_msgs item) = length (chunks16 item).
Proof. apply chunk_msgs_from_length. Qed.

(* the model's chunking is the specification's closed formula *)
Lemma chunk_msgs_item_msgs item : chunk_msgs item = item_msgs item.
Proof.
  unfold chunk_msgs, item_msgs. rewrite chunks16_slices. unfold slices.
  generalize (n_slices item) as n. generalize 0%nat as k.
  intros k n. revert k. induction n as [|n IH]; intros k; [reflexivity|].
  cbn [seq map chunk_msgs_from]. rewrite IH. reflexivity.
Qed.

Lemma data_msgs_chunk items : data_msgs items = concat (map chunk_msgs items).
Proof.
  unfold data_msgs. f_equal. apply map_ext. intros item. symmetry. apply chunk_msgs_item_msgs.
Qed.

Lemma total_chunks_msgs items :
  N.of_nat (length (concat (map chunk_msgs items))) = total_chunks items.
Proof.
  unfold total_chunks. f_equal.
  induction items as [|item t IH]; [reflexivity|].
  cbn [map concat]. rewrite !app_length, IH, chunk_msgs_length. reflexivity.
Qed.

Lemma chunk_guard_total items : chunk_guard items <-> total_chunks items < 65536.
Proof. unfold chunk_guard. rewrite data_msgs_chunk, total_chunks_msgs. tauto. Qed.

Lemma attempt_msgs_conv a op items :
  attempt_msgs a op items = map fst (attempt_conv a op items) ++ [QueryState a].
Proof.
  unfold attempt_msgs, attempt_conv. rewrite <- data_msgs_chunk.
  cbn [map fst app]. rewrite map_app, map_map. cbn [map fst].
  rewrite map_id, <- app_assoc. reflexivity.
Qed.

(* ================================================================== *)
(* 5. Algebra of the specification's runs                               *)

Lemma and_then_finish {A B} (a : A) rest (f : A -> list reply -> run B) :
  and_then ([], Done a, rest) f = f a rest.
Proof. cbn [and_then]. destruct (f a rest) as [[tr o] r]. reflexivity. Qed.

Lemma and_then_assoc {A B C} (x : run A) (f : A -> list reply -> run B)
      (g : B -> list reply -> run C) :
  and_then (and_then x f) g = and_then x (fun a r => and_then (f a r) g).
Proof.
  destruct x as [[tr o] rest]. destruct o; try reflexivity.
  cbn [and_then]. destruct (f a rest) as [[tr1 o1] rest1]. destruct o1; try reflexivity.
  cbn [and_then]. destruct (g a0 rest1) as [[tr2 o2] rest2]. rewrite app_assoc. reflexivity.
Qed.

Lemma and_then_ext {A B} (x : run A) (f g : A -> list reply -> run B) :
  (forall a r, f a r = g a r) -> and_then x f = and_then x g.
Proof.
  intros H. destruct x as [[tr o] rest]. destruct o; try reflexivity.
  cbn [and_then]. rewrite H. reflexivity.
Qed.

Lemma and_then_ret {A} (x : run A) : and_then x (fun a r => ([], Done a, r)) = x.
Proof.
  destruct x as [[tr o] rest]. destruct o; try reflexivity.
  cbn [and_then]. rewrite app_nil_r. reflexivity.
Qed.

Lemma expect_seq_nil script : expect_seq [] script = ([], Done tt, script).
Proof. reflexivity. Qed.

Lemma expect_seq_app c1 c2 script :
  expect_seq (c1 ++ c2) script
  = and_then (expect_seq c1 script) (fun _ rest => expect_seq c2 rest).
Proof.
  revert script. induction c1 as [|[m ok] c1 IH]; intros script.
  - cbn [app]. rewrite expect_seq_nil, and_then_finish. reflexivity.
  - cbn [app expect_seq]. rewrite and_then_assoc. apply and_then_ext. intros r rest.
    destruct (ok r); [apply IH | reflexivity].
Qed.

Lemma expect_seq_cons m ok c script :
  expect_seq ((m, ok) :: c) script
  = and_then (expect_seq [(m, ok)] script) (fun _ rest => expect_seq c rest).
Proof. apply (expect_seq_app [(m, ok)] c). Qed.

(* ================================================================== *)
(* 6. The model's building blocks in terms of the specification's runs  *)

Lemma rsr_send m script : run_script_rest (send m) script = ask m script.
Proof. destruct script as [|[|r] s]; reflexivity. Qed.

Lemma rsr_expect m e ok script :
  (forall r, omsg_eqb r e = ok r) ->
  run_script_rest (expect m e) script = expect_seq [(m, ok)] script.
Proof.
  intros H. unfold expect. rewrite run_script_rest_bind, rsr_send.
  cbn [expect_seq]. apply and_then_ext. intros r rest.
  unfold verify. rewrite H. destruct (ok r); reflexivity.
Qed.

Lemma rsr_expect_none m script :
  run_script_rest (expect m None) script = expect_seq [(m, is_none)] script.
Proof. apply rsr_expect. apply omsg_eqb_none. Qed.

Lemma rsr_expect_ack m a op script :
  run_script_rest (expect m (Some (AckOperation a op))) script
  = expect_seq [(m, is_own_ack a op)] script.
Proof. apply rsr_expect. intros r. apply omsg_eqb_ack. Qed.

Lemma rsr_expect_report m a st script :
  run_script_rest (expect m (Some (ReportState a st))) script
  = expect_seq [(m, is_own_report a st)] script.
Proof. apply rsr_expect. intros r. apply omsg_eqb_report. Qed.

Definition none_conv (ms : list msg) : conv := map (fun m => (m, is_none)) ms.

Lemma rsr_send_chunks cs i count script :
  count + N.of_nat (length cs) < 65536 ->
  run_script_rest (send_chunks cs (N.of_nat i) count) script
  = and_then (expect_seq (none_conv (chunk_msgs_from i cs)) script)
             (fun _ rest => ([], Done (count + N.of_nat (length cs)), rest)).
Proof.
  revert i count script. induction cs as [|c t IH]; intros i count script Hg.
  - cbn [send_chunks run_script_rest chunk_msgs_from none_conv map length].
    rewrite expect_seq_nil, and_then_finish. rewrite N.add_0_r. reflexivity.
  - cbn [send_chunks chunk_msgs_from none_conv map].
    rewrite expect_seq_cons, and_then_assoc.
    rewrite run_script_rest_bind, rsr_expect_none.
    replace (N.of_nat i * 16) with (16 * N.of_nat i) by lia.
    apply and_then_ext. intros _ rest.
    cbn [length] in Hg.
    destruct (N.ltb_spec (count + 1) 65536) as [Hlt|Hge]; [|lia].
    replace (N.of_nat i + 1) with (N.of_nat (S i)) by lia.
    rewrite IH by lia. apply and_then_ext. intros _ rest'.
    cbn [length]. do 2 f_equal. f_equal. lia.
Qed.

Lemma rsr_send_items items count script :
  count + N.of_nat (length (concat (map chunk_msgs items))) < 65536 ->
  run_script_rest (send_items items count) script
  = and_then (expect_seq (none_conv (concat (map chunk_msgs items))) script)
      (fun _ rest =>
         ([], Done (count + N.of_nat (length (concat (map chunk_msgs items)))), rest)).
Proof.
  revert count script. induction items as [|item t IH]; intros count script Hg.
  - cbn [send_items run_script_rest map concat none_conv length].
    rewrite expect_seq_nil, and_then_finish, N.add_0_r. reflexivity.
  - cbn [send_items map concat] in *. rewrite app_length in Hg.
    rewrite run_script_rest_bind. change 0 with (N.of_nat 0).
    rewrite rsr_send_chunks by (rewrite <- chunk_msgs_length; lia).
    unfold none_conv. rewrite map_app, expect_seq_app, !and_then_assoc.
    apply and_then_ext. intros _ rest. rewrite and_then_finish.
    fold (chunk_msgs item). rewrite <- chunk_msgs_length.
    rewrite IH by lia. apply and_then_ext. intros _ rest'.
    rewrite app_length. do 2 f_equal. f_equal. lia.
Qed.

Lemma rsr_attempt a op items script :
  chunk_guard items ->
  run_script_rest (attempt a op items) script
  = and_then (expect_seq (attempt_conv a op items) script)
             (fun _ rest => ask (QueryState a) rest).
Proof.
  intros Hg. unfold chunk_guard in Hg. rewrite data_msgs_chunk in Hg.
  unfold attempt, attempt_conv. rewrite data_msgs_chunk.
  rewrite expect_seq_cons, and_then_assoc.
  rewrite run_script_rest_bind, rsr_expect_ack. apply and_then_ext. intros _ rest.
  rewrite run_script_rest_bind, rsr_send_items by (rewrite N.add_0_l; exact Hg).
  rewrite expect_seq_app. rewrite !and_then_assoc. apply and_then_ext. intros _ rest1.
  rewrite and_then_finish, N.add_0_l.
  rewrite run_script_rest_bind, rsr_expect_none.
  apply and_then_ext. intros _ rest2. apply rsr_send.
Qed.

(* ================================================================== *)
(* 7. What a run of a conversation looks like                           *)

Lemma expect_seq_step_nil m ok c : expect_seq ((m, ok) :: c) [] = ([m], Blocked, []).
Proof. reflexivity. Qed.

Lemma expect_seq_step_err m ok c s : expect_seq ((m, ok) :: c) (BusErr :: s) = ([m], BusFailed, s).
Proof. reflexivity. Qed.

Lemma expect_seq_step_rep m ok c x s :
  expect_seq ((m, ok) :: c) (Rep x :: s)
  = if ok x then (let '(tr, o, rest) := expect_seq c s in (m :: tr, o, rest))
    else ([m], ProtoErr, s).
Proof. cbn [expect_seq ask and_then]. destruct (ok x); reflexivity. Qed.

Lemma expect_seq_shape c s tr o rest :
  expect_seq c s = (tr, o, rest) ->
  (exists more, map fst c = tr ++ more)
  /\ (c <> [] -> tr <> [])
  /\ o <> Crashed
  /\ (o = Done tt -> tr = map fst c /\ s = firstn (length c) s ++ rest
                     /\ (length c <= length s)%nat).
Proof.
  revert s tr o rest. induction c as [|[m ok] c IH]; intros s tr o rest H.
  - rewrite expect_seq_nil in H. inversion H; subst. cbn.
    repeat split; try congruence; try lia. exists []. reflexivity.
  - destruct s as [|[|x] s].
    + rewrite expect_seq_step_nil in H. inversion H; subst. cbn [map fst].
      repeat split; try congruence. exists (map fst c). reflexivity.
    + rewrite expect_seq_step_err in H. inversion H; subst. cbn [map fst].
      repeat split; try congruence. exists (map fst c). reflexivity.
    + rewrite expect_seq_step_rep in H. destruct (ok x).
      * destruct (expect_seq c s) as [[tr' o'] rest'] eqn:E. inversion H; subst.
        destruct (IH _ _ _ _ E) as ([more Hm] & _ & Hc & Hd). cbn [map fst].
        repeat split; try congruence.
        -- exists more. rewrite Hm. reflexivity.
        -- destruct (Hd H0) as (Ht & _ & _). rewrite Ht. reflexivity.
        -- destruct (Hd H0) as (_ & Hs & _). cbn [length firstn app]. f_equal. exact Hs.
        -- destruct (Hd H0) as (_ & _ & Hl). cbn [length]. lia.
      * inversion H; subst. cbn [map fst].
        repeat split; try congruence. exists (map fst c). reflexivity.
Qed.

(* every message that was followed by another one (or by Done) got a reply of its class *)
Lemma expect_seq_nth c s tr o rest i :
  expect_seq c s = (tr, o, rest) ->
  (S i < length tr)%nat \/ (o = Done tt /\ (i < length tr)%nat) ->
  exists m ok x, nth_error c i = Some (m, ok) /\ nth_error tr i = Some m
                 /\ nth_error s i = Some (Rep x) /\ ok x = true.
Proof.
  revert s tr o rest i. induction c as [|[m ok] c IH]; intros s tr o rest i H Hi.
  - rewrite expect_seq_nil in H. inversion H; subst. cbn in Hi. lia.
  - destruct s as [|[|x] s].
    + rewrite expect_seq_step_nil in H. inversion H; subst. cbn in Hi.
      destruct Hi as [Hi|[Hi _]]; [lia | discriminate].
    + rewrite expect_seq_step_err in H. inversion H; subst. cbn in Hi.
      destruct Hi as [Hi|[Hi _]]; [lia | discriminate].
    + rewrite expect_seq_step_rep in H. destruct (ok x) eqn:Hok.
      * destruct (expect_seq c s) as [[tr' o'] rest'] eqn:E. inversion H; subst.
        destruct i as [|i].
        -- exists m, ok, x. repeat split; try reflexivity; exact Hok.
        -- cbn [length nth_error] in *. apply (IH _ _ _ _ _ E).
           destruct Hi as [Hi|[Hi Hi']]; [left; lia | right; split; [exact Hi | lia]].
      * inversion H; subst. cbn in Hi. destruct Hi as [Hi|[Hi _]]; [lia | discriminate].
Qed.

(* ================================================================== *)
(* 8. One attempt, and the transfer loop (C09, C11)                     *)

Section Transfer.
Variables (a : N) (op : operation) (items : list (list N)).
Local Notation A := (attempt_msgs a op items).

Lemma attempt_msgs_length : length A = S (length (attempt_conv a op items)).
Proof. rewrite attempt_msgs_conv, app_length, map_length. cbn [length]. lia. Qed.

Lemma attempt_msgs_head : nth_error A 0 = Some (RequestOperation a op).
Proof. reflexivity. Qed.

Lemma attempt_msgs_last : nth_error A (length A - 1) = Some (QueryState a).
Proof.
  rewrite attempt_msgs_length. rewrite attempt_msgs_conv.
  rewrite nth_error_app_r by (rewrite map_length; lia).
  rewrite map_length. replace (_ - _)%nat with 0%nat by lia. reflexivity.
Qed.

(* the request is the first message of an attempt and occurs nowhere else in it *)
Lemma attempt_msgs_req i a' op' :
  nth_error A i = Some (RequestOperation a' op') -> i = 0%nat.
Proof.
  destruct i as [|i]; [reflexivity|]. unfold attempt_msgs. cbn [app nth_error].
  intros H. exfalso. apply nth_error_In in H. apply in_app_or in H. destruct H as [H|H].
  - apply in_concat in H. destruct H as (l & Hl & H). apply in_map_iff in Hl.
    destruct Hl as (item & <- & _). unfold chunk_msgs in H. rewrite chunk_msgs_from_map in H.
    apply in_map_iff in H. destruct H as (ic & H & _). discriminate.
  - cbn in H. destruct H as [H|[H|[]]]; discriminate.
Qed.

Lemma attempt_run s t o rest :
  chunk_guard items ->
  run_script_rest (attempt a op items) s = (t, o, rest) ->
  (exists more, A = t ++ more) /\ t <> [] /\ o <> Crashed
  /\ ((2 <= length t)%nat -> nth_error s 0 = Some (Rep (Some (AckOperation a op))))
  /\ (forall r, o = Done r ->
        t = A /\ exists pre, s = pre ++ Rep r :: rest /\ S (length pre) = length A).
Proof.
  intros Hg H. rewrite rsr_attempt in H by exact Hg.
  destruct (expect_seq (attempt_conv a op items) s) as [[t1 o1] r1] eqn:E.
  destruct (expect_seq_shape _ _ _ _ _ E) as ([more Hm] & Hne & Hc & Hd).
  assert (Hne1 : t1 <> []) by (apply Hne; discriminate).
  assert (Hack : (2 <= length t1)%nat \/ o1 = Done tt ->
                 nth_error s 0 = Some (Rep (Some (AckOperation a op)))).
  { intros Hc2. destruct (expect_seq_nth _ _ _ _ _ 0%nat E) as (m & ok & x & H1 & H2 & H3 & H4).
    - destruct Hc2 as [Hc2|Hc2]; [left; lia | right; split; [exact Hc2|]].
      destruct t1; [congruence | cbn; lia].
    - unfold attempt_conv in H1. cbn [nth_error] in H1. inversion H1; subst.
      apply is_own_ack_true in H4. subst. exact H3. }
  destruct o1 as [u| | | |]; cbn [and_then] in H.
  - destruct u. destruct (Hd eq_refl) as (Ht1 & Hs & Hl).
    assert (HA : A = t1 ++ [QueryState a]) by (rewrite attempt_msgs_conv, Ht1; reflexivity).
    assert (Hack' := Hack (or_intror eq_refl)).
    destruct r1 as [|[|x] r1]; cbn [ask] in H; inversion H; subst t o rest; clear H.
    + repeat split; try congruence.
      * exists []. rewrite app_nil_r. exact HA.
      * destruct t1; discriminate.
    + repeat split; try congruence.
      * exists []. rewrite app_nil_r. exact HA.
      * destruct t1; discriminate.
    + repeat split; try congruence.
      * exists []. rewrite app_nil_r. exact HA.
      * destruct t1; discriminate.
      * inversion H; subst r. exists (firstn (length (attempt_conv a op items)) s). split.
        -- exact Hs.
        -- rewrite firstn_length, attempt_msgs_length. lia.
  - inversion H; subst t o rest. repeat split; try congruence.
    + exists (more ++ [QueryState a]). rewrite attempt_msgs_conv, Hm, app_assoc. reflexivity.
    + intros H2. apply Hack. left. exact H2.
  - inversion H; subst t o rest. repeat split; try congruence.
    + exists (more ++ [QueryState a]). rewrite attempt_msgs_conv, Hm, app_assoc. reflexivity.
    + intros H2. apply Hack. left. exact H2.
  - congruence.
  - inversion H; subst t o rest. repeat split; try congruence.
    + exists (more ++ [QueryState a]). rewrite attempt_msgs_conv, Hm, app_assoc. reflexivity.
    + intros H2. apply Hack. left. exact H2.
Qed.

End Transfer.

Opaque attempt_msgs.

Section TransferLoop.
Variables (a : N) (op : operation) (items : list (list N)) (su fa : state).
Hypothesis Hg : chunk_guard items.
Local Notation A := (attempt_msgs a op items).
Local Notation ack := (Rep (Some (AckOperation a op))).
Local Notation TL n := (transfer_loop n a op items su fa).

Lemma rsr_verify_report st r rest :
  run_script_rest (verify (Some (ReportState a st)) r) rest
  = if is_own_report a st r then ([], Done tt, rest) else ([], ProtoErr, rest).
Proof. unfold verify. rewrite omsg_eqb_report. destruct (is_own_report a st r); reflexivity. Qed.

(* A run of the transfer loop is either its last attempt (incomplete, rejected or successful) or
   a complete attempt whose query was answered by the own failure report, followed by a run
   with one retry less on the rest of the script. *)
Lemma transfer_loop_cases n s tr o rest :
  run_script_rest (TL n) s = (tr, o, rest) ->
  ( (exists more, A = tr ++ more) /\ tr <> [] /\ o <> Crashed
    /\ ((2 <= length tr)%nat -> nth_error s 0 = Some ack)
    /\ (o = Done tt ->
        tr = A /\ nth_error s (length A - 1) = Some (Rep (Some (ReportState a su)))) )
  \/ (exists n' pre s' tr',
        n = S n' /\ s = pre ++ s' /\ length pre = length A /\ tr = A ++ tr'
        /\ nth_error pre 0 = Some ack
        /\ nth_error pre (length A - 1) = Some (Rep (Some (ReportState a fa)))
        /\ run_script_rest (TL n') s' = (tr', o, rest)).
Proof.
  intros H.
  assert (Hunf : run_script_rest (TL n) s
    = and_then (run_script_rest (attempt a op items) s)
        (fun r rest =>
           run_script_rest
             (match n with
              | S n' => if omsg_eqb r (Some (ReportState a fa)) then TL n'
                        else verify (Some (ReportState a su)) r
              | O => verify (Some (ReportState a su)) r
              end) rest)).
  { destruct n; cbn [transfer_loop]; apply run_script_rest_bind. }
  rewrite Hunf in H. clear Hunf.
  destruct (run_script_rest (attempt a op items) s) as [[t1 o1] r1] eqn:E.
  destruct (attempt_run _ _ _ _ _ _ _ Hg E) as (Hpre & Hne & Hc & Hack & Hd).
  destruct o1 as [r| | | |]; cbn [and_then] in H.
  - destruct (Hd r eq_refl) as (Ht & pre & Hs & Hl). subst t1.
    assert (Hfinal :
      (let '(tr', o0, rest') := run_script_rest (verify (Some (ReportState a su)) r) r1 in
       (A ++ tr', o0, rest')) = (tr, o, rest) ->
      (exists more, A = tr ++ more) /\ tr <> [] /\ o <> Crashed
      /\ ((2 <= length tr)%nat -> nth_error s 0 = Some ack)
      /\ (o = Done tt ->
          tr = A /\ nth_error s (length A - 1) = Some (Rep (Some (ReportState a su))))).
    { intros H'. rewrite rsr_verify_report in H'.
      assert (Hs0 : (2 <= length A)%nat -> nth_error s 0 = Some ack) by exact Hack.
      destruct (is_own_report a su r) eqn:Hr; injection H' as <- <- <-; rewrite app_nil_r.
      - apply is_own_report_true in Hr.
        split; [exists []; rewrite app_nil_r; reflexivity|].
        split; [exact Hne|]. split; [discriminate|]. split; [exact Hs0|].
        intros _. split; [reflexivity|].
        rewrite Hs, nth_error_app_r by lia.
        replace (_ - _)%nat with 0%nat by lia. cbn [nth_error]. subst r. reflexivity.
      - split; [exists []; rewrite app_nil_r; reflexivity|].
        split; [exact Hne|]. split; [discriminate|]. split; [exact Hs0|]. discriminate. }
    destruct n as [|n']; [left; exact (Hfinal H)|].
    rewrite omsg_eqb_report in H. destruct (is_own_report a fa r) eqn:Hf; [|left; exact (Hfinal H)].
    right. clear Hfinal. destruct (run_script_rest (TL n') r1) as [[tr' o'] rest'] eqn:E2.
    injection H as <- <- <-. apply is_own_report_true in Hf.
    exists n', (pre ++ [Rep r]), r1, tr'.
    split; [reflexivity|]. split; [|split; [|split; [reflexivity|split; [|split; [|exact E2]]]]].
    + rewrite <- app_assoc. exact Hs.
    + rewrite app_length. cbn [length]. lia.
    + assert (Hp : (2 <= length A)%nat) by (rewrite attempt_msgs_length; cbn; lia).
      specialize (Hack Hp). rewrite Hs in Hack.
      destruct pre as [|x pre]; [cbn in Hl; lia|]. exact Hack.
    + rewrite nth_error_app_r by lia. replace (_ - _)%nat with 0%nat by lia.
      cbn [nth_error]. subst r. reflexivity.
  - injection H as <- <- <-. left. repeat split; try congruence; assumption.
  - injection H as <- <- <-. left. repeat split; try congruence; assumption.
  - congruence.
  - injection H as <- <- <-. left. repeat split; try congruence; assumption.
Qed.

Lemma attempt_msgs_nonempty : A <> [].
Proof. intros H. pose proof (attempt_msgs_length a op items) as Hl. rewrite H in Hl. discriminate. Qed.

Lemma attempt_msgs_split : A = map fst (attempt_conv a op items) ++ [QueryState a].
Proof. apply attempt_msgs_conv. Qed.

Lemma transfer_loop_shape n s tr o rest :
  run_script_rest (TL n) s = (tr, o, rest) ->
  exists ts, tr = concat ts /\ (1 <= length ts <= S n)%nat
    /\ Forall (fun t => t <> [] /\ exists more, A = t ++ more) ts
    /\ Forall (fun t => t = A) (removelast ts)
    /\ o <> Crashed.
Proof.
  revert s tr o rest. induction n as [|n IH]; intros s tr o rest H;
    destruct (transfer_loop_cases _ _ _ _ _ H)
      as [(Hpre & Hne & Hc & _ & _) | (n' & pre & s' & tr' & Hn & Hs & Hl & Htr & _ & _ & H')];
    try discriminate Hn.
  - exists [tr]. cbn [concat removelast length]. rewrite app_nil_r.
    repeat split; try lia; try assumption. repeat constructor; assumption. constructor.
  - exists [tr]. cbn [concat removelast length]. rewrite app_nil_r.
    repeat split; try lia; try assumption. repeat constructor; assumption. constructor.
  - injection Hn as <-. destruct (IH _ _ _ _ H') as (ts & Hc1 & Hlen & Hall & Hrl & Hcr).
    exists (A :: ts). split; [cbn [concat]; rewrite Htr, Hc1; reflexivity|].
    split; [cbn [length]; lia|]. split.
    + constructor; [|exact Hall]. split; [apply attempt_msgs_nonempty|].
      exists []. rewrite app_nil_r. reflexivity.
    + split; [|exact Hcr]. destruct ts as [|t ts]; [cbn in Hlen; lia|].
      change (removelast (A :: t :: ts)) with (A :: removelast (t :: ts)).
      constructor; [reflexivity | exact Hrl].
Qed.

(* nothing is sent after a request unless the reply to it was the own acknowledgement *)
Lemma transfer_loop_ack n s tr o rest i :
  run_script_rest (TL n) s = (tr, o, rest) ->
  nth_error tr i = Some (RequestOperation a op) -> (S i < length tr)%nat ->
  nth_error s i = Some ack.
Proof.
  revert s tr o rest i. induction n as [|n IH]; intros s tr o rest i H Hi Hlt;
    destruct (transfer_loop_cases _ _ _ _ _ H)
      as [([more Hpre] & Hne & Hc & Hack & _)
         | (n' & pre & s' & tr' & Hn & Hs & Hl & Htr & Hp0 & _ & H')];
    try discriminate Hn.
  - assert (i = 0%nat).
    { apply (attempt_msgs_req a op items i a op). rewrite Hpre, nth_error_app_l by lia. exact Hi. }
    subst i. apply Hack. lia.
  - assert (i = 0%nat).
    { apply (attempt_msgs_req a op items i a op). rewrite Hpre, nth_error_app_l by lia. exact Hi. }
    subst i. apply Hack. lia.
  - injection Hn as <-. subst tr s. rewrite app_length in Hlt.
    destruct (Nat.lt_ge_cases i (length A)) as [Hlo|Hhi].
    + rewrite nth_error_app_l in Hi by exact Hlo.
      apply attempt_msgs_req in Hi. subst i. rewrite nth_error_app_l by lia. exact Hp0.
    + rewrite nth_error_app_r in Hi by exact Hhi.
      rewrite nth_error_app_r by lia. rewrite Hl.
      apply (IH _ _ _ _ _ H' Hi). lia.
Qed.

(* success is only reported after the own success report to the last query *)
Lemma transfer_loop_success n s tr rest :
  run_script_rest (TL n) s = (tr, Done tt, rest) ->
  exists tr0, tr = tr0 ++ [QueryState a]
    /\ nth_error s (length tr0) = Some (Rep (Some (ReportState a su))).
Proof.
  revert s tr rest. induction n as [|n IH]; intros s tr rest H;
    destruct (transfer_loop_cases _ _ _ _ _ H)
      as [(_ & _ & _ & _ & Hd)
         | (n' & pre & s' & tr' & Hn & Hs & Hl & Htr & _ & _ & H')];
    try discriminate Hn.
  - destruct (Hd eq_refl) as [-> Hq]. exists (map fst (attempt_conv a op items)).
    split; [apply attempt_msgs_split|].
    rewrite attempt_msgs_length in Hq. rewrite map_length.
    replace (S _ - 1)%nat with (length (attempt_conv a op items)) in Hq by lia. exact Hq.
  - destruct (Hd eq_refl) as [-> Hq]. exists (map fst (attempt_conv a op items)).
    split; [apply attempt_msgs_split|].
    rewrite attempt_msgs_length in Hq. rewrite map_length.
    replace (S _ - 1)%nat with (length (attempt_conv a op items)) in Hq by lia. exact Hq.
  - injection Hn as <-. destruct (IH _ _ _ H') as (tr0 & Ht0 & Hq).
    exists (A ++ tr0). split; [rewrite Htr, Ht0, app_assoc; reflexivity|].
    rewrite Hs, app_length, nth_error_app_r by lia.
    replace (_ - _)%nat with (length tr0) by lia. exact Hq.
Qed.

(* a further request is only sent right after the own failure report to the query *)
Lemma transfer_loop_retry n s tr o rest i :
  run_script_rest (TL n) s = (tr, o, rest) ->
  nth_error tr (S i) = Some (RequestOperation a op) ->
  nth_error tr i = Some (QueryState a)
  /\ nth_error s i = Some (Rep (Some (ReportState a fa))).
Proof.
  revert s tr o rest i. induction n as [|n IH]; intros s tr o rest i H Hi;
    destruct (transfer_loop_cases _ _ _ _ _ H)
      as [([more Hpre] & Hne & Hc & Hack & _)
         | (n' & pre & s' & tr' & Hn & Hs & Hl & Htr & _ & Hpl & H')];
    try discriminate Hn.
  - exfalso. assert (S i = 0%nat); [|lia].
    apply (attempt_msgs_req a op items (S i) a op). rewrite Hpre.
    rewrite nth_error_app_l by (apply nth_error_Some_lt in Hi; exact Hi). exact Hi.
  - exfalso. assert (S i = 0%nat); [|lia].
    apply (attempt_msgs_req a op items (S i) a op). rewrite Hpre.
    rewrite nth_error_app_l by (apply nth_error_Some_lt in Hi; exact Hi). exact Hi.
  - injection Hn as <-. subst tr s.
    destruct (Nat.lt_ge_cases (S i) (length A)) as [Hlo|Hhi].
    + exfalso. rewrite nth_error_app_l in Hi by exact Hlo.
      apply attempt_msgs_req in Hi. lia.
    + rewrite nth_error_app_r in Hi by exact Hhi.
      destruct (Nat.eq_dec (S i) (length A)) as [He|Hne].
      * rewrite !nth_error_app_l by lia. replace i with (length A - 1)%nat by lia.
        split; [apply attempt_msgs_last | exact Hpl].
      * replace (S i - length A)%nat with (S (i - length A)) in Hi by lia.
        destruct (IH _ _ _ _ _ H' Hi) as [H1 H2].
        rewrite !nth_error_app_r by lia. rewrite Hl. split; assumption.
Qed.

Lemma transfer_loop_head n s tr o rest :
  run_script_rest (TL n) s = (tr, o, rest) -> nth_error tr 0 = Some (RequestOperation a op).
Proof.
  intros H. destruct (transfer_loop_cases _ _ _ _ _ H)
      as [([more Hpre] & Hne & _) | (n' & pre & s' & tr' & _ & _ & _ & Htr & _)].
  - pose proof (attempt_msgs_head a op items) as Hh. rewrite Hpre in Hh.
    destruct tr; [congruence | exact Hh].
  - subst tr. rewrite nth_error_app_l; [apply attempt_msgs_head|].
    pose proof (attempt_msgs_length a op items). lia.
Qed.

End TransferLoop.

Transparent attempt_msgs.

(* ================================================================== *)
(* 9. C09: statements on run_script                                    *)

Lemma C09_chunks_lemma : forall b,
  concat (chunks16 b) = b
  /\ Forall (fun c => (1 <= length c <= 16)%nat) (chunks16 b)
  /\ (forall i c, nth_error (chunks16 b) i = Some c ->
        nth_error (chunk_msgs b) i = Some (SendData ((16 * N.of_nat i) mod 65536) c)).
Proof.
  intros b. split; [apply chunks16_concat|]. split; [apply chunks16_sizes|].
  intros i c H. unfold chunk_msgs. rewrite chunk_msgs_from_nth, H. reflexivity.
Qed.

Lemma C09_chunk_sizes_lemma : forall b,
  length (chunks16 b) = ((length b + 15) / 16)%nat
  /\ (forall i c, nth_error (chunks16 b) i = Some c -> (S i < length (chunks16 b))%nat ->
        length c = 16%nat)
  /\ (forall i c, nth_error (chunks16 b) i = Some c -> (S i = length (chunks16 b))%nat ->
        length c = (length b - 16 * i)%nat)
  /\ (forall i c, nth_error (chunks16 b) i = Some c -> c = firstn 16 (skipn (16 * i) b)).
Proof.
  intros b. split; [apply chunks16_length|]. split; [apply chunks16_full|].
  split; [apply chunks16_last | apply chunks16_nth].
Qed.

Lemma C09_offsets_nowrap_lemma : forall b i,
  nlen b <= 65536 -> (i < length (chunks16 b))%nat ->
  (16 * N.of_nat i) mod 65536 = 16 * N.of_nat i.
Proof.
  intros b i Hb Hi. rewrite chunks16_length in Hi. unfold nlen in Hb. apply N.mod_small. lia.
Qed.

Lemma transfer_rest a op items su fa script :
  total_chunks items < 65536 ->
  forall tr o, run_script (transfer a op items su fa) script = (tr, o) ->
  exists rest, run_script_rest (transfer_loop 2 a op items su fa) script = (tr, o, rest)
               /\ chunk_guard items.
Proof.
  intros Hg tr o H. apply chunk_guard_total in Hg.
  destruct (run_script_rest_ex _ _ _ _ H) as [rest Hr]. exists rest. split; assumption.
Qed.

Lemma C09_trace_shape_lemma : forall a op items success failure script,
  total_chunks items < 65536 ->
  exists ts,
    fst (run_script (transfer a op items success failure) script) = concat ts
    /\ (1 <= length ts <= 3)%nat
    /\ Forall (fun t => t <> [] /\ exists rest, attempt_msgs a op items = t ++ rest) ts
    /\ Forall (fun t => t = attempt_msgs a op items) (removelast ts).
Proof.
  intros a op items su fa script Hg.
  destruct (run_script (transfer a op items su fa) script) as [tr o] eqn:E.
  destruct (transfer_rest _ _ _ _ _ _ Hg _ _ E) as (rest & Hr & Hg').
  destruct (transfer_loop_shape _ _ _ _ _ Hg' _ _ _ _ _ Hr) as (ts & H1 & H2 & H3 & H4 & _).
  exists ts. cbn [fst]. repeat split; try assumption; lia.
Qed.

Lemma C09_crash_only_beyond_16bit_lemma : forall a op items success failure script,
  total_chunks items < 65536 ->
  snd (run_script (transfer a op items success failure) script) <> Crashed.
Proof.
  intros a op items su fa script Hg.
  destruct (run_script (transfer a op items su fa) script) as [tr o] eqn:E.
  destruct (transfer_rest _ _ _ _ _ _ Hg _ _ E) as (rest & Hr & Hg').
  destruct (transfer_loop_shape _ _ _ _ _ Hg' _ _ _ _ _ Hr) as (ts & _ & _ & _ & _ & Hc).
  exact Hc.
Qed.

(* Nothing (in particular no SendData) follows a request unless the reply read for that request
   was the own acknowledgement of the same operation. *)
Lemma C09_ack_before_data_lemma : forall a op items success failure script tr o i,
  total_chunks items < 65536 ->
  run_script (transfer a op items success failure) script = (tr, o) ->
  nth_error tr i = Some (RequestOperation a op) -> (S i < length tr)%nat ->
  nth_error script i = Some (Rep (Some (AckOperation a op))).
Proof.
  intros a op items su fa script tr o i Hg E Hi Hlt.
  destruct (transfer_rest _ _ _ _ _ _ Hg _ _ E) as (rest & Hr & Hg').
  exact (transfer_loop_ack _ _ _ _ _ Hg' _ _ _ _ _ _ Hr Hi Hlt).
Qed.

(* Within (a prefix of) an attempt: the count comes after the request and all data messages,
   the query comes last. *)
Lemma data_msgs_are_data items m :
  In m (concat (map chunk_msgs items)) -> exists off c, m = SendData off c.
Proof.
  intros H. apply in_concat in H. destruct H as (l & Hl & H). apply in_map_iff in Hl.
  destruct Hl as (item & <- & _). unfold chunk_msgs in H. rewrite chunk_msgs_from_map in H.
  apply in_map_iff in H. destruct H as (ic & <- & _). eauto.
Qed.

Lemma C09_prefix_order_lemma : forall a op items t rest,
  attempt_msgs a op items = t ++ rest ->
  (forall j n, nth_error t j = Some (DataChunksSent n) ->
     firstn j t = RequestOperation a op :: concat (map chunk_msgs items))
  /\ (forall j a', nth_error t j = Some (QueryState a') ->
     t = attempt_msgs a op items /\ S j = length t).
Proof.
  intros a op items t rest Ht.
  set (D := concat (map chunk_msgs items)) in *.
  assert (HA : attempt_msgs a op items
               = (RequestOperation a op :: D) ++ [DataChunksSent (N.of_nat (length D)); QueryState a]).
  { unfold attempt_msgs. fold D. cbn [app]. reflexivity. }
  assert (Hpos : forall j m, nth_error (attempt_msgs a op items) j = Some m ->
             (forall off c, m <> SendData off c) -> (forall a' o', m <> RequestOperation a' o') ->
             (j = S (length D) /\ m = DataChunksSent (N.of_nat (length D)))
             \/ (j = S (S (length D)) /\ m = QueryState a)).
  { intros j m Hj Hnd Hnr. rewrite HA in Hj.
    destruct (Nat.lt_ge_cases j (length (RequestOperation a op :: D))) as [Hlo|Hhi].
    - rewrite nth_error_app_l in Hj by exact Hlo. destruct j as [|j]; cbn [nth_error] in Hj.
      + inversion Hj; subst. exfalso. eapply Hnr. reflexivity.
      + apply nth_error_In in Hj. apply data_msgs_are_data in Hj.
        destruct Hj as (off & c & ->). exfalso. eapply Hnd. reflexivity.
    - rewrite nth_error_app_r in Hj by exact Hhi. cbn [length] in *.
      destruct (j - S (length D))%nat as [|[|k]] eqn:Ek; cbn [nth_error] in Hj.
      + left. inversion Hj. split; [lia | reflexivity].
      + right. inversion Hj. split; [lia | reflexivity].
      + destruct k; discriminate. }
  split.
  - intros j n Hj. assert (Hlt := nth_error_Some_lt _ _ _ Hj).
    assert (HjA : nth_error (attempt_msgs a op items) j = Some (DataChunksSent n))
      by (rewrite Ht, nth_error_app_l by exact Hlt; exact Hj).
    destruct (Hpos _ _ HjA) as [[Hj' _]|[_ Hq]]; try discriminate.
    replace (firstn j t) with (firstn j (t ++ rest)).
    + rewrite <- Ht, HA, Hj'.
      replace (S (length D)) with (length (RequestOperation a op :: D) + 0)%nat
        by (cbn [length]; lia).
      rewrite firstn_app_2. cbn [firstn]. apply app_nil_r.
    + rewrite firstn_app. replace (j - length t)%nat with 0%nat by lia.
      cbn [firstn]. apply app_nil_r.
  - intros j a' Hj. assert (Hlt := nth_error_Some_lt _ _ _ Hj).
    assert (HjA : nth_error (attempt_msgs a op items) j = Some (QueryState a'))
      by (rewrite Ht, nth_error_app_l by exact Hlt; exact Hj).
    destruct (Hpos _ _ HjA) as [[_ Hq]|[Hj' _]]; try discriminate.
    assert (Hlen : length (attempt_msgs a op items) = S (S (S (length D)))).
    { rewrite HA, app_length. cbn [length]. lia. }
    assert (Hl2 : (length t + length rest = S (S (S (length D))))%nat)
      by (rewrite <- Hlen, Ht, app_length; reflexivity).
    assert (rest = []) by (destruct rest; [reflexivity | cbn [length] in Hl2; lia]).
    subst rest. rewrite app_nil_r in Ht. split; [symmetry; exact Ht | lia].
Qed.

Definition is_send_data (m : msg) : bool :=
  match m with SendData _ _ => true | _ => false end.

Lemma filter_all {A} (f : A -> bool) l : (forall x, In x l -> f x = true) -> filter f l = l.
Proof.
  induction l as [|x l IH]; intros H; [reflexivity|]. cbn [filter].
  rewrite (H x (or_introl eq_refl)). f_equal. apply IH. intros y Hy. apply H. right. exact Hy.
Qed.

Lemma C09_count_lemma : forall a op items n,
  In (DataChunksSent n) (attempt_msgs a op items) ->
  n = N.of_nat (length (filter is_send_data (attempt_msgs a op items)))
  /\ n = total_chunks items
  /\ (total_chunks items < 65536 -> n mod 65536 = n).
Proof.
  intros a op items n Hin.
  set (D := concat (map chunk_msgs items)).
  assert (Hn : n = N.of_nat (length D)).
  { unfold attempt_msgs in Hin. fold D in Hin. cbn [app] in Hin.
    destruct Hin as [Hin|Hin]; [discriminate|]. apply in_app_or in Hin.
    destruct Hin as [Hin|Hin].
    - apply data_msgs_are_data in Hin. destruct Hin as (off & c & Hin). discriminate.
    - cbn in Hin. destruct Hin as [Hin|[Hin|[]]]; [inversion Hin; reflexivity | discriminate]. }
  assert (Hf : filter is_send_data (attempt_msgs a op items) = D).
  { unfold attempt_msgs. fold D. cbn [app filter is_send_data]. rewrite filter_app.
    cbn [filter is_send_data]. rewrite app_nil_r. apply filter_all.
    intros m Hm. apply data_msgs_are_data in Hm. destruct Hm as (off & c & ->). reflexivity. }
  rewrite Hf. split; [exact Hn|]. split.
  - rewrite Hn. apply total_chunks_msgs.
  - intros Hg. apply N.mod_small. rewrite Hn. unfold D. rewrite total_chunks_msgs. exact Hg.
Qed.

Lemma C09_config_block_lemma : forall a t,
  configure a t = (ensure_unconfigured a ;;;
                   transfer a ReceiveConfig [st_to_bytes t] ConfigReceived ConfigFailed)
  /\ length (st_to_bytes t) = 16%nat
  /\ chunk_msgs (st_to_bytes t) = [SendData 0 (st_to_bytes t)]
  /\ attempt_msgs a ReceiveConfig [st_to_bytes t]
     = [RequestOperation a ReceiveConfig; SendData 0 (st_to_bytes t); DataChunksSent 1;
        QueryState a]
  /\ total_chunks [st_to_bytes t] = 1.
Proof.
  intros a t. split; [reflexivity|]. destruct t; repeat split; reflexivity.
Qed.

Lemma C09_send_pages_items_lemma : forall a pages script,
  send_pages a pages
  = (transfer a ReceivePixels (map p_bytes pages) PixelsReceived PixelsFailed ;;;
     expect (PixelsComplete a) None ;;;
     r <- send (QueryState a) ;;
     match r with
     | Some (ReportState a' ShowingPages) => if a' =? a then Ret Automatic else Ret Manual
     | _ => Ret Manual
     end)
  /\ exists more,
       fst (run_script (send_pages a pages) script)
       = fst (run_script (transfer a ReceivePixels (map p_bytes pages) PixelsReceived
                                   PixelsFailed) script) ++ more
       /\ ((forall x, snd (run_script (transfer a ReceivePixels (map p_bytes pages)
                                 PixelsReceived PixelsFailed) script) <> Done x) -> more = []).
Proof.
  intros a pages script. split; [reflexivity|].
  unfold send_pages. rewrite run_script_bind. rewrite <- run_script_rest_fst.
  destruct (run_script_rest (transfer a ReceivePixels (map p_bytes pages) PixelsReceived
                                      PixelsFailed) script) as [[tr o] rest].
  cbn [fst snd]. destruct o.
  2-5: exists []; rewrite app_nil_r; split; reflexivity.
  match goal with |- context [run_script ?p rest] => destruct (run_script p rest) as [tr' o'] end.
  exists tr'. cbn [fst]. split; [reflexivity|]. intros H. exfalso. apply (H a0). reflexivity.
Qed.

(* ================================================================== *)
(* 10. C11                                                             *)

(* --- fail-stop (any program) --- *)
Lemma C11_fail_stop_lemma : forall (A : Type) (p : prog A) script tr o,
  run_script p script = (tr, o) -> o <> Blocked ->
  (length tr <= length script)%nat
  /\ run_script p (firstn (length tr) script) = (tr, o)
  /\ (In BusErr (firstn (length tr) script) -> o = BusFailed)
  /\ (o = BusFailed -> nth_error script (length tr - 1) = Some BusErr).
Proof. intros A p script tr o. apply fail_stop_gen. Qed.

Lemma C11_blocked_lemma : forall (A : Type) (p : prog A) script tr,
  run_script p script = (tr, Blocked) ->
  length tr = S (length script) /\ ~ In BusErr script.
Proof.
  intros A p script tr H. split; [exact (run_script_blocked_length _ _ _ H)|].
  revert script tr H. induction p as [a| | |m k IH]; intros script tr H; try discriminate.
  destruct script as [|[|r] script']; cbn [run_script] in H.
  - intros [].
  - discriminate.
  - destruct (run_script (k r) script') as [tr' o'] eqn:E. inversion H; subst.
    intros [Hi|Hi]; [discriminate | exact (IH _ _ _ E Hi)].
Qed.

(* --- success is confirmed --- *)
Lemma run_script_bind_Done {A B} (p : prog A) (f : A -> prog B) script tr v :
  run_script (bind p f) script = (tr, Done v) ->
  exists x t1 t2 pre r1,
    script = pre ++ r1 /\ length pre = length t1
    /\ run_script_rest p script = (t1, Done x, r1)
    /\ run_script (f x) r1 = (t2, Done v) /\ tr = t1 ++ t2.
Proof.
  rewrite run_script_bind. destruct (run_script_rest p script) as [[t1 o1] r1] eqn:E.
  destruct o1 as [x| | | |]; try discriminate.
  destruct (run_script (f x) r1) as [t2 o2] eqn:E2. intros H. inversion H; subst.
  destruct (run_script_rest_consumed _ _ _ _ _ E) as [Hc _].
  destruct Hc as [Hs Hl]; [discriminate|].
  exists x, t1, t2, (firstn (length t1) script), r1.
  repeat split; try assumption. rewrite firstn_length. lia.
Qed.

Lemma C11_confirmed_success_transfer_lemma : forall a op items success failure script tr,
  total_chunks items < 65536 ->
  run_script (transfer a op items success failure) script = (tr, Done tt) ->
  exists tr0, tr = tr0 ++ [QueryState a]
    /\ nth_error script (length tr0) = Some (Rep (Some (ReportState a success))).
Proof.
  intros a op items su fa script tr Hg E.
  destruct (transfer_rest _ _ _ _ _ _ Hg _ _ E) as (rest & Hr & Hg').
  exact (transfer_loop_success _ _ _ _ _ Hg' _ _ _ _ Hr).
Qed.

Lemma config_guard t : total_chunks [st_to_bytes t] < 65536.
Proof. destruct t; vm_compute; reflexivity. Qed.

Lemma C11_confirmed_success_configure_lemma : forall a t script tr,
  run_script (configure a t) script = (tr, Done tt) ->
  exists tr0, tr = tr0 ++ [QueryState a]
    /\ nth_error script (length tr0) = Some (Rep (Some (ReportState a ConfigReceived))).
Proof.
  intros a t script tr H. unfold configure in H.
  apply run_script_bind_Done in H.
  destruct H as (x & t1 & t2 & pre & r1 & Hs & Hl & _ & H2 & Htr).
  destruct (C11_confirmed_success_transfer_lemma _ _ _ _ _ _ _ (config_guard t) H2)
    as (tr0 & Ht0 & Hq).
  exists (t1 ++ tr0). split; [rewrite Htr, Ht0, app_assoc; reflexivity|].
  rewrite Hs, app_length, nth_error_app_r by lia.
  replace (_ - _)%nat with (length tr0) by lia. exact Hq.
Qed.

Lemma send_pages_style a (r : option msg) :
  match r with
  | Some (ReportState a' ShowingPages) => if a' =? a then Ret Automatic else Ret Manual
  | _ => Ret Manual
  end = Ret (if is_own_report a ShowingPages r then Automatic else Manual).
Proof.
  destruct r as [m|]; [|reflexivity]. destruct m; try reflexivity.
  cbn [is_own_report]. destruct s; cbn [same_state];
    rewrite ?andb_false_r, ?andb_true_r; try reflexivity.
  destruct (a0 =? a); reflexivity.
Qed.

Lemma C11_confirmed_success_send_pages_lemma : forall a pages script tr style,
  total_chunks (map p_bytes pages) < 65536 ->
  run_script (send_pages a pages) script = (tr, Done style) ->
  exists tr0 r,
    tr = tr0 ++ [QueryState a; PixelsComplete a; QueryState a]
    /\ nth_error script (length tr0) = Some (Rep (Some (ReportState a PixelsReceived)))
    /\ nth_error script (S (length tr0)) = Some (Rep None)
    /\ nth_error script (S (S (length tr0))) = Some (Rep r)
    /\ style = (if is_own_report a ShowingPages r then Automatic else Manual).
Proof.
  intros a pages script tr style Hg H. unfold send_pages in H.
  apply run_script_bind_Done in H.
  destruct H as ([] & t1 & t2 & pre & r1 & Hs & Hl & H1 & H2 & Htr).
  apply run_script_rest_eq in H1.
  destruct (C11_confirmed_success_transfer_lemma _ _ _ _ _ _ _ Hg H1) as (tr0 & Ht0 & Hq).
  apply run_script_bind_Done in H2.
  destruct H2 as ([] & t3 & t4 & pre2 & r2 & Hs2 & Hl2 & H3 & H4 & Ht2).
  rewrite rsr_expect_none in H3.
  destruct r1 as [|[|x] r1]; [discriminate H3 | discriminate H3 |].
  rewrite expect_seq_step_rep in H3. destruct (is_none x) eqn:Hx; [|discriminate H3].
  rewrite expect_seq_nil in H3. injection H3 as <- <-. apply is_none_true in Hx. subst x.
  destruct r1 as [|[|y] r1]; cbn [bind send run_script] in H4; try discriminate H4.
  rewrite send_pages_style in H4. cbn [run_script] in H4. injection H4 as <- <-.
  assert (Hlen : length t1 = S (length tr0)) by (rewrite Ht0, app_length; cbn; lia).
  exists tr0, y. split; [rewrite Htr, Ht2, Ht0, <- app_assoc; reflexivity|].
  split; [|split; [|split; [|reflexivity]]].
  - rewrite Hs, nth_error_app_l by lia.
    rewrite Hs, nth_error_app_l in Hq by lia. exact Hq.
  - rewrite Hs, nth_error_app_r by lia. replace (_ - _)%nat with 0%nat by lia. reflexivity.
  - rewrite Hs, nth_error_app_r by lia. replace (_ - _)%nat with 1%nat by lia. reflexivity.
Qed.

(* --- bounded retries --- *)
Definition is_request (a : N) (op : operation) (m : msg) : bool :=
  match m with
  | RequestOperation a' op' => (a' =? a) && same_operation op' op
  | _ => false
  end.

Lemma is_request_true a op m : is_request a op m = true <-> m = RequestOperation a op.
Proof.
  split.
  - destruct m; try discriminate. cbn [is_request]. intros H.
    apply andb_true_iff in H. destruct H as [Ha Ho]. apply N.eqb_eq in Ha.
    apply same_operation_spec in Ho. subst. reflexivity.
  - intros ->. cbn [is_request]. rewrite N.eqb_refl, same_operation_refl. reflexivity.
Qed.

Lemma filter_head_only {A} (f : A -> bool) (l : list A) :
  (forall i x, nth_error l i = Some x -> f x = true -> i = 0%nat) ->
  (length (filter f l) <= 1)%nat.
Proof.
  intros H. destruct l as [|x l]; [cbn; lia|].
  assert (Hl : filter f l = []).
  { destruct (filter f l) as [|y t] eqn:E; [reflexivity|]. exfalso.
    assert (Hy : In y (filter f l)) by (rewrite E; left; reflexivity).
    apply filter_In in Hy. destruct Hy as [Hy Hfy]. apply In_nth_error in Hy.
    destruct Hy as [j Hj]. specialize (H (S j) y Hj Hfy). discriminate. }
  cbn [filter]. destruct (f x); rewrite Hl; cbn; lia.
Qed.

Lemma C11_bounded_retries_lemma : forall a op items success failure script tr o,
  total_chunks items < 65536 ->
  run_script (transfer a op items success failure) script = (tr, o) ->
  (length (filter (is_request a op) tr) <= 3)%nat
  /\ nth_error tr 0 = Some (RequestOperation a op)
  /\ (forall i, nth_error tr (S i) = Some (RequestOperation a op) ->
        nth_error tr i = Some (QueryState a)
        /\ nth_error script i = Some (Rep (Some (ReportState a failure)))).
Proof.
  intros a op items su fa script tr o Hg E.
  destruct (transfer_rest _ _ _ _ _ _ Hg _ _ E) as (rest & Hr & Hg').
  split; [|split].
  - destruct (transfer_loop_shape _ _ _ _ _ Hg' _ _ _ _ _ Hr) as (ts & Hc & Hlen & Hall & _).
    subst tr. apply Nat.le_trans with (length ts); [|lia]. clear -Hall.
    induction Hall as [|t ts [_ [more Ht]] _ IH]; [cbn; lia|].
    cbn [concat length]. rewrite filter_app, app_length.
    assert (length (filter (is_request a op) t) <= 1)%nat; [|lia].
    apply filter_head_only. intros i x Hi Hx. apply is_request_true in Hx. subst x.
    apply (attempt_msgs_req a op items i a op). rewrite Ht.
    rewrite nth_error_app_l by (apply nth_error_Some_lt in Hi; exact Hi). exact Hi.
  - exact (transfer_loop_head _ _ _ _ _ Hg' _ _ _ _ _ Hr).
  - intros i Hi. exact (transfer_loop_retry _ _ _ _ _ Hg' _ _ _ _ _ _ Hr Hi).
Qed.

(* --- own address only --- *)
Definition addressed_ok (a : N) (m : msg) : Prop :=
  match m with
  | Hello a' | QueryState a' | RequestOperation a' _ | PixelsComplete a' | Goodbye a' => a' = a
  | SendData _ _ | DataChunksSent _ => True
  | ReportState _ _ | AckOperation _ _ | Unknown _ => False
  end.

Fixpoint all_sends {A : Type} (P : msg -> Prop) (p : prog A) : Prop :=
  match p with
  | Send m k => P m /\ forall r, all_sends P (k r)
  | _ => True
  end.

Lemma all_sends_run {A} (P : msg -> Prop) (p : prog A) script :
  all_sends P p -> Forall P (fst (run_script p script)).
Proof.
  revert script. induction p as [x| | |m k IH]; intros script H; try constructor.
  destruct H as [Hm Hk]. destruct script as [|[|r] script']; cbn [run_script].
  - repeat constructor. exact Hm.
  - repeat constructor. exact Hm.
  - specialize (IH r script' (Hk r)). destruct (run_script (k r) script') as [tr o].
    constructor; assumption.
Qed.

Lemma all_sends_bind {A B} (P : msg -> Prop) (p : prog A) (f : A -> prog B) :
  all_sends P p -> (forall x, all_sends P (f x)) -> all_sends P (bind p f).
Proof.
  intros Hp Hf. induction p as [x| | |m k IH]; cbn [bind all_sends] in *; auto.
  destruct Hp as [Hm Hk]. split; [exact Hm|]. intros r. apply IH. apply Hk.
Qed.

Lemma all_sends_send (P : msg -> Prop) m : P m -> all_sends P (send m).
Proof. intros H. cbn. split; [exact H | intros; exact I]. Qed.

Lemma all_sends_verify (P : msg -> Prop) e r : all_sends P (verify e r).
Proof. unfold verify. destruct (omsg_eqb r e); exact I. Qed.

Lemma all_sends_expect (P : msg -> Prop) m e : P m -> all_sends P (expect m e).
Proof.
  intros H. unfold expect. apply all_sends_bind; [apply all_sends_send; exact H|].
  intros r. apply all_sends_verify.
Qed.

Ltac sends_tac :=
  repeat first
    [ exact I
    | apply all_sends_verify
    | apply all_sends_expect; reflexivity
    | apply all_sends_send; reflexivity
    | apply all_sends_bind; [|intros ?]
    | match goal with |- all_sends _ (if ?b then _ else _) => destruct b end ].

Lemma own_ensure_unconfigured a : all_sends (addressed_ok a) (ensure_unconfigured a).
Proof.
  unfold ensure_unconfigured. apply all_sends_bind; [apply all_sends_send; reflexivity|].
  intros r. destruct r as [m|]; [destruct m; try destruct s|]; cbv beta iota zeta; sends_tac.
Qed.

Lemma own_send_chunks a cs i count : all_sends (addressed_ok a) (send_chunks cs i count).
Proof.
  revert i count. induction cs as [|c t IH]; intros i count; cbn [send_chunks]; [exact I|].
  apply all_sends_bind; [apply all_sends_expect; exact I|]. intros _.
  destruct (count + 1 <? 65536); [apply IH | exact I].
Qed.

Lemma own_send_items a items count : all_sends (addressed_ok a) (send_items items count).
Proof.
  revert count. induction items as [|item t IH]; intros count; cbn [send_items]; [exact I|].
  apply all_sends_bind; [apply own_send_chunks | intros c; apply IH].
Qed.

Lemma own_attempt a op items : all_sends (addressed_ok a) (attempt a op items).
Proof.
  unfold attempt. apply all_sends_bind; [apply all_sends_expect; reflexivity|]. intros _.
  apply all_sends_bind; [apply own_send_items|]. intros n.
  apply all_sends_bind; [apply all_sends_expect; exact I|]. intros _.
  apply all_sends_send. reflexivity.
Qed.

Lemma own_transfer_loop n a op items su fa :
  all_sends (addressed_ok a) (transfer_loop n a op items su fa).
Proof.
  induction n as [|n IH]; cbn [transfer_loop]; (apply all_sends_bind; [apply own_attempt|]);
    intros r; sends_tac. exact IH.
Qed.

Lemma own_configure a t : all_sends (addressed_ok a) (configure a t).
Proof.
  unfold configure. apply all_sends_bind; [apply own_ensure_unconfigured|]. intros _.
  apply own_transfer_loop.
Qed.

Lemma own_configure_if_needed a t : all_sends (addressed_ok a) (configure_if_needed a t).
Proof.
  unfold configure_if_needed. apply all_sends_bind; [apply all_sends_send; reflexivity|].
  intros r. destruct r as [m|]; [destruct m|]; cbv beta iota; try apply own_configure.
  destruct ((a0 =? a) && ready_state s); [exact I | apply own_configure].
Qed.

Lemma own_send_pages a pages : all_sends (addressed_ok a) (send_pages a pages).
Proof.
  unfold send_pages. apply all_sends_bind; [apply own_transfer_loop|]. intros _.
  apply all_sends_bind; [apply all_sends_expect; reflexivity|]. intros _.
  apply all_sends_bind; [apply all_sends_send; reflexivity|]. intros r.
  rewrite send_pages_style. exact I.
Qed.

Lemma own_switch_page fuel a tg tr op : all_sends (addressed_ok a) (switch_page fuel a tg tr op).
Proof.
  induction fuel as [|fuel IH]; cbn [switch_page]; [exact I|].
  apply all_sends_bind; [apply all_sends_send; reflexivity|]. intros r.
  destruct r as [m|]; [destruct m|]; cbv beta iota; try exact I.
  sends_tac; exact IH.
Qed.

Lemma own_shut_down a : all_sends (addressed_ok a) (shut_down a).
Proof. apply all_sends_expect. reflexivity. Qed.

Definition cop_addr (op : cop) : N :=
  match op with
  | OpConfigure a _ | OpConfigureIfNeeded a _ | OpSendPages a _
  | OpLoadNextPage a | OpShowLoadedPage a | OpShutDown a => a
  end.

Lemma C11_own_address_lemma : forall op fuel script,
  Forall (addressed_ok (cop_addr op)) (fst (run_script (model_of op fuel) script)).
Proof.
  intros op fuel script. apply all_sends_run. destruct op; cbn [model_of cop_addr].
  - apply own_configure.
  - apply own_configure_if_needed.
  - apply own_send_pages.
  - apply own_switch_page.
  - apply own_switch_page.
  - apply own_shut_down.
Qed.

(* --- replies carrying another address are never taken for the controller's own --- *)
Definition foreign (a : N) (m : msg) : Prop :=
  match m with
  | ReportState a' _ | AckOperation a' _ => a' <> a
  | _ => False
  end.

(* two replies are alike for the controller at [a]: equal, or both foreign reports/acks *)
Definition osim (a : N) (r1 r2 : option msg) : Prop :=
  r1 = r2 \/ exists m1 m2, r1 = Some m1 /\ r2 = Some m2 /\ foreign a m1 /\ foreign a m2.

Definition rsim (a : N) (x y : reply) : Prop :=
  x = y \/ exists m1 m2, x = Rep (Some m1) /\ y = Rep (Some m2) /\ foreign a m1 /\ foreign a m2.

Inductive sim_prog {A : Type} (a : N) (R : A -> A -> Prop) : prog A -> prog A -> Prop :=
| SimRet x y : R x y -> sim_prog a R (Ret x) (Ret y)
| SimFail : sim_prog a R Fail Fail
| SimCrash : sim_prog a R Crash Crash
| SimSend m k1 k2 :
    (forall r1 r2, osim a r1 r2 -> sim_prog a R (k1 r1) (k2 r2)) ->
    sim_prog a R (Send m k1) (Send m k2).

Lemma sim_run {A} a (p q : prog A) :
  sim_prog a eq p q ->
  forall s1 s2, Forall2 (rsim a) s1 s2 -> run_script p s1 = run_script q s2.
Proof.
  intros H. induction H as [x y Hxy| | |m k1 k2 Hk IH]; intros s1 s2 Hs.
  - subst. reflexivity.
  - reflexivity.
  - reflexivity.
  - destruct Hs as [|x y s1 s2 Hxy Hs]; [reflexivity|].
    destruct Hxy as [<-|(m1 & m2 & -> & -> & F1 & F2)].
    + destruct x as [|r]; [reflexivity|]. cbn [run_script].
      rewrite (IH r r (or_introl eq_refl) s1 s2 Hs). reflexivity.
    + cbn [run_script].
      rewrite (IH (Some m1) (Some m2)) with (s2 := s2); [reflexivity| |exact Hs].
      right. exists m1, m2. repeat split; assumption.
Qed.

Lemma sim_bind {A B} a (R : A -> A -> Prop) (R' : B -> B -> Prop) (p q : prog A)
      (f g : A -> prog B) :
  sim_prog a R p q -> (forall x y, R x y -> sim_prog a R' (f x) (g y)) ->
  sim_prog a R' (bind p f) (bind q g).
Proof.
  intros H Hf. induction H as [x y Hxy| | |m k1 k2 Hk IH]; cbn [bind].
  - apply Hf. exact Hxy.
  - constructor.
  - constructor.
  - constructor. intros r1 r2 Hr. apply IH. exact Hr.
Qed.

Lemma sim_send a m : sim_prog a (osim a) (send m) (send m).
Proof. constructor. intros r1 r2 H. constructor. exact H. Qed.

Definition expected_own (a : N) (e : option msg) : Prop :=
  match e with
  | None => True
  | Some (ReportState a' _) | Some (AckOperation a' _) => a' = a
  | _ => False
  end.

Lemma foreign_not_expected a m e :
  foreign a m -> expected_own a e -> omsg_eqb (Some m) e = false.
Proof.
  intros F E. destruct e as [e|]; [|reflexivity].
  destruct m; cbn in F; try contradiction; destruct e; cbn in E; try contradiction;
    try reflexivity; subst; cbn [omsg_eqb option_eqb msg_eqb];
    (destruct (N.eqb_spec a0 a); [contradiction | reflexivity]).
Qed.

Lemma sim_verify a e r1 r2 :
  expected_own a e -> osim a r1 r2 -> sim_prog a eq (verify e r1) (verify e r2).
Proof.
  intros E [<-|(m1 & m2 & -> & -> & F1 & F2)]; unfold verify.
  - destruct (omsg_eqb r1 e); constructor. reflexivity.
  - rewrite (foreign_not_expected a m1 e F1 E), (foreign_not_expected a m2 e F2 E). constructor.
Qed.

Lemma sim_expect a m e : expected_own a e -> sim_prog a eq (expect m e) (expect m e).
Proof.
  intros E. unfold expect. apply sim_bind with (R := osim a); [apply sim_send|].
  intros r1 r2 H. apply sim_verify; assumption.
Qed.

Lemma sim_ret {A} a (x : A) : sim_prog a eq (Ret x) (Ret x).
Proof. constructor. reflexivity. Qed.

Ltac blind_seq :=
  repeat first
    [ apply sim_ret
    | apply SimFail
    | apply SimCrash
    | apply sim_expect; exact I
    | apply sim_expect; reflexivity
    | apply sim_bind with (R := eq); [|intros ? ? <-] ].

Ltac foreign_cases F1 F2 m1 m2 :=
  destruct m1; cbn [foreign] in F1; try contradiction;
  destruct m2; cbn [foreign] in F2; try contradiction;
  repeat match goal with
         | H : ?x <> ?a |- context [?x =? ?a] =>
             destruct (N.eqb_spec x a); [contradiction|]
         end.

Lemma blind_ensure_unconfigured a :
  sim_prog a eq (ensure_unconfigured a) (ensure_unconfigured a).
Proof.
  unfold ensure_unconfigured. apply sim_bind with (R := osim a); [apply sim_send|].
  intros r1 r2 [<-|(m1 & m2 & -> & -> & F1 & F2)].
  - destruct r1 as [m|]; [destruct m; try destruct s|]; cbv beta iota zeta;
      try destruct (_ =? _); blind_seq.
  - foreign_cases F1 F2 m1 m2; try destruct s; try destruct s0; cbv beta iota zeta; blind_seq.
Qed.

Lemma blind_send_chunks a cs i count :
  sim_prog a eq (send_chunks cs i count) (send_chunks cs i count).
Proof.
  revert i count. induction cs as [|c t IH]; intros i count; cbn [send_chunks]; [apply sim_ret|].
  apply sim_bind with (R := eq); [apply sim_expect; exact I|]. intros ? ? <-.
  destruct (count + 1 <? 65536); [apply IH | apply SimCrash].
Qed.

Lemma blind_send_items a items count :
  sim_prog a eq (send_items items count) (send_items items count).
Proof.
  revert count. induction items as [|item t IH]; intros count; cbn [send_items]; [apply sim_ret|].
  apply sim_bind with (R := eq); [apply blind_send_chunks|]. intros c ? <-. apply IH.
Qed.

Lemma blind_attempt a op items :
  sim_prog a (osim a) (attempt a op items) (attempt a op items).
Proof.
  unfold attempt.
  apply sim_bind with (R := eq); [apply sim_expect; reflexivity|]. intros ? ? <-.
  apply sim_bind with (R := eq); [apply blind_send_items|]. intros n ? <-.
  apply sim_bind with (R := eq); [apply sim_expect; exact I|]. intros ? ? <-.
  apply sim_send.
Qed.

Lemma blind_transfer_loop n a op items su fa :
  sim_prog a eq (transfer_loop n a op items su fa) (transfer_loop n a op items su fa).
Proof.
  assert (Hv : forall r1 r2, osim a r1 r2 ->
            sim_prog a eq (verify (Some (ReportState a su)) r1)
                          (verify (Some (ReportState a su)) r2)).
  { intros r1 r2 H. apply sim_verify; [reflexivity | exact H]. }
  induction n as [|n IH]; cbn [transfer_loop];
    (apply sim_bind with (R := osim a); [apply blind_attempt|]); intros r1 r2 H.
  - apply Hv. exact H.
  - destruct H as [<-|(m1 & m2 & -> & -> & F1 & F2)].
    + destruct (omsg_eqb r1 _); [exact IH | apply Hv; left; reflexivity].
    + rewrite (foreign_not_expected a m1 _ F1), (foreign_not_expected a m2 _ F2)
        by reflexivity.
      apply Hv. right. exists m1, m2. repeat split; assumption.
Qed.

Lemma blind_configure a t : sim_prog a eq (configure a t) (configure a t).
Proof.
  unfold configure. apply sim_bind with (R := eq); [apply blind_ensure_unconfigured|].
  intros ? ? <-. apply blind_transfer_loop.
Qed.

Lemma blind_configure_if_needed a t :
  sim_prog a eq (configure_if_needed a t) (configure_if_needed a t).
Proof.
  unfold configure_if_needed. apply sim_bind with (R := osim a); [apply sim_send|].
  intros r1 r2 [<-|(m1 & m2 & -> & -> & F1 & F2)].
  - destruct r1 as [m|]; [destruct m|]; cbv beta iota; try apply blind_configure.
    destruct (_ && _); [apply sim_ret | apply blind_configure].
  - foreign_cases F1 F2 m1 m2; cbn [andb]; apply blind_configure.
Qed.

Lemma foreign_not_report a st m : foreign a m -> is_own_report a st (Some m) = false.
Proof.
  intros F. destruct m; cbn [foreign] in F; try contradiction; try reflexivity.
  cbn [is_own_report]. destruct (N.eqb_spec a0 a); [contradiction | reflexivity].
Qed.

Lemma blind_send_pages a pages : sim_prog a eq (send_pages a pages) (send_pages a pages).
Proof.
  unfold send_pages. apply sim_bind with (R := eq); [apply blind_transfer_loop|].
  intros ? ? <-. apply sim_bind with (R := eq); [apply sim_expect; exact I|].
  intros ? ? <-. apply sim_bind with (R := osim a); [apply sim_send|].
  intros r1 r2 H. rewrite !send_pages_style. constructor.
  destruct H as [<-|(m1 & m2 & -> & -> & F1 & F2)]; [reflexivity|].
  rewrite !foreign_not_report by assumption. reflexivity.
Qed.

Lemma blind_switch_page fuel a tg tr op :
  sim_prog a eq (switch_page fuel a tg tr op) (switch_page fuel a tg tr op).
Proof.
  induction fuel as [|fuel IH]; cbn [switch_page]; [apply SimCrash|].
  apply sim_bind with (R := osim a); [apply sim_send|].
  intros r1 r2 [<-|(m1 & m2 & -> & -> & F1 & F2)].
  - destruct r1 as [m|]; [destruct m|]; cbv beta iota; try apply SimFail.
    repeat match goal with
           | |- sim_prog _ _ (if ?b then _ else _) (if ?b then _ else _) => destruct b
           end; blind_seq; exact IH.
  - foreign_cases F1 F2 m1 m2; apply SimFail.
Qed.

Lemma blind_shut_down a : sim_prog a eq (shut_down a) (shut_down a).
Proof. apply sim_expect. exact I. Qed.

Lemma blind_model_of op fuel :
  sim_prog (cop_addr op) eq (model_of op fuel) (model_of op fuel).
Proof.
  destruct op; cbn [model_of cop_addr].
  - apply blind_configure.
  - apply blind_configure_if_needed.
  - apply blind_send_pages.
  - apply blind_switch_page.
  - apply blind_switch_page.
  - apply blind_shut_down.
Qed.

Lemma C11_foreign_blind_lemma : forall op fuel s1 s2,
  Forall2 (rsim (cop_addr op)) s1 s2 ->
  run_script (model_of op fuel) s1 = run_script (model_of op fuel) s2.
Proof. intros op fuel s1 s2 H. apply (sim_run _ _ _ (blind_model_of op fuel)). exact H. Qed.

Lemma rsim_refl_list a s : Forall2 (rsim a) s s.
Proof. induction s; constructor; [left; reflexivity | assumption]. Qed.

Lemma C11_foreign_blind_one_lemma : forall op fuel pre post m1 m2,
  foreign (cop_addr op) m1 -> foreign (cop_addr op) m2 ->
  run_script (model_of op fuel) (pre ++ Rep (Some m1) :: post)
  = run_script (model_of op fuel) (pre ++ Rep (Some m2) :: post).
Proof.
  intros op fuel pre post m1 m2 F1 F2. apply C11_foreign_blind_lemma.
  apply Forall2_app; [apply rsim_refl_list|]. constructor; [|apply rsim_refl_list].
  right. exists m1, m2. repeat split; assumption.
Qed.

(* and the general transfer, for any operation/states *)
Lemma C11_foreign_blind_transfer_lemma : forall a op items su fa s1 s2,
  Forall2 (rsim a) s1 s2 ->
  run_script (transfer a op items su fa) s1 = run_script (transfer a op items su fa) s2.
Proof. intros. apply (sim_run _ _ _ (blind_transfer_loop 2 a op items su fa)). assumption. Qed.

(* ================================================================== *)
(* 11. C10: the model refines the protocol specification                *)

Lemma rsr_expect_then m e ok (p : prog unit) c s :
  (forall r, omsg_eqb r e = ok r) ->
  (forall rest, run_script_rest p rest = expect_seq c rest) ->
  run_script_rest (expect m e ;;; p) s = expect_seq ((m, ok) :: c) s.
Proof.
  intros He Hp. rewrite run_script_rest_bind, (rsr_expect m e ok) by exact He.
  rewrite (expect_seq_cons m ok c). apply and_then_ext. intros _ rest. apply Hp.
Qed.

Lemma rsr_transfer_loop n a op items su fa s :
  su <> fa -> chunk_guard items ->
  run_script_rest (transfer_loop n a op items su fa) s = transfer_from n a op items su fa s.
Proof.
  intros Hne Hg. revert s. induction n as [|n IH]; intros s; cbn [transfer_loop transfer_from];
    rewrite run_script_rest_bind, rsr_attempt by exact Hg;
    rewrite and_then_assoc; apply and_then_ext; intros _ rest;
    apply and_then_ext; intros r rest'.
  - rewrite rsr_verify_report. unfold finish, reject.
    destruct (is_own_report a su r); [reflexivity|].
    destruct (is_own_report a fa r); reflexivity.
  - rewrite omsg_eqb_report. destruct (is_own_report a fa r) eqn:Hf.
    + apply is_own_report_true in Hf. subst r.
      assert (Hs : is_own_report a su (Some (ReportState a fa)) = false).
      { destruct (is_own_report a su (Some (ReportState a fa))) eqn:E; [|reflexivity].
        apply is_own_report_true in E. congruence. }
      rewrite Hs. apply IH.
    + rewrite rsr_verify_report. unfold finish, reject.
      destruct (is_own_report a su r); reflexivity.
Qed.

Lemma rsr_transfer a op items su fa s :
  su <> fa -> chunk_guard items ->
  run_script_rest (transfer a op items su fa) s = spec_transfer a op items su fa s.
Proof. apply rsr_transfer_loop. Qed.

Lemma rsr_finish_reset a s :
  run_script_rest
    (expect (RequestOperation a FinishReset) (Some (AckOperation a FinishReset)) ;;;
     expect (Hello a) (Some (ReportState a Unconfigured))) s
  = expect_seq (finish_reset a) s.
Proof.
  unfold finish_reset.
  apply rsr_expect_then; [intros r; apply omsg_eqb_ack | intros rest].
  apply rsr_expect_report.
Qed.

Lemma rsr_full_reset a s :
  run_script_rest
    (expect (RequestOperation a StartReset) (Some (AckOperation a StartReset)) ;;;
     expect (Hello a) (Some (ReportState a ReadyToReset)) ;;;
     expect (RequestOperation a FinishReset) (Some (AckOperation a FinishReset)) ;;;
     expect (Hello a) (Some (ReportState a Unconfigured))) s
  = expect_seq (full_reset a) s.
Proof.
  unfold full_reset. cbn [app].
  apply rsr_expect_then; [intros r; apply omsg_eqb_ack | intros rest].
  apply rsr_expect_then; [intros r; apply omsg_eqb_report | intros rest'].
  apply rsr_finish_reset.
Qed.

Lemma rsr_ensure_unconfigured a s :
  run_script_rest (ensure_unconfigured a) s = spec_reset a s.
Proof.
  unfold ensure_unconfigured, spec_reset. rewrite run_script_rest_bind, rsr_send.
  apply and_then_ext. intros r rest. cbv zeta. unfold reset_conv.
  destruct r as [m|]; [destruct m|]; try apply rsr_full_reset.
  cbn [is_own_report].
  destruct s0; cbn [same_state]; rewrite ?andb_false_r, ?andb_true_r; cbv beta iota;
    try apply rsr_full_reset.
  - destruct (a0 =? a); [reflexivity | apply rsr_full_reset].
  - destruct (a0 =? a); [apply rsr_finish_reset | apply rsr_full_reset].
Qed.

Lemma config_chunk_guard t : chunk_guard [st_to_bytes t].
Proof. apply chunk_guard_total. apply config_guard. Qed.

Lemma rsr_configure a t s : run_script_rest (configure a t) s = spec_configure a t s.
Proof.
  unfold configure, spec_configure. rewrite run_script_rest_bind, rsr_ensure_unconfigured.
  apply and_then_ext. intros _ rest.
  apply rsr_transfer; [discriminate | apply config_chunk_guard].
Qed.

Lemma rsr_configure_if_needed a t s :
  run_script_rest (configure_if_needed a t) s = spec_configure_if_needed a t s.
Proof.
  unfold configure_if_needed, spec_configure_if_needed.
  rewrite run_script_rest_bind, rsr_send. apply and_then_ext. intros r rest.
  destruct r as [m|]; [destruct m|]; cbn [existsb ready_states is_own_report orb];
    try apply rsr_configure.
  destruct s0; cbn [same_state ready_state];
    rewrite ?andb_false_r, ?andb_true_r, ?orb_false_r; cbn [orb];
    try apply rsr_configure;
    (destruct (a0 =? a); cbn [orb]; [reflexivity | apply rsr_configure]).
Qed.

Lemma rsr_send_pages a pages s :
  chunk_guard (map p_bytes pages) ->
  run_script_rest (send_pages a pages) s = spec_send_pages a pages s.
Proof.
  intros Hg. unfold send_pages, spec_send_pages.
  rewrite run_script_rest_bind, rsr_transfer by (try discriminate; exact Hg).
  apply and_then_ext. intros _ rest.
  rewrite run_script_rest_bind, rsr_expect_none. apply and_then_ext. intros _ rest1.
  rewrite run_script_rest_bind, rsr_send. apply and_then_ext. intros r rest2.
  rewrite send_pages_style. reflexivity.
Qed.

Section Switch.
Variables (a : N) (tg tr : state) (op : operation).

Lemma rsr_switch_requesting fuel s :
  (forall s', (length s' < fuel)%nat ->
     run_script_rest (switch_page fuel a tg tr op) s' = spec_switch a tg tr op Polling s') ->
  (length s <= fuel)%nat ->
  run_script_rest
    (expect (RequestOperation a op) (Some (AckOperation a op)) ;;; switch_page fuel a tg tr op) s
  = spec_switch a tg tr op Requesting s.
Proof.
  intros IH Hl. rewrite run_script_rest_bind, rsr_expect_ack.
  destruct s as [|[|r2] s']; [reflexivity | reflexivity |].
  rewrite expect_seq_step_rep. cbn [spec_switch].
  destruct (is_own_ack a op r2); [|reflexivity].
  rewrite expect_seq_nil. cbn [and_then]. cbn [length] in Hl. rewrite IH by lia.
  destruct (spec_switch a tg tr op Polling s') as [[t o] rest]. reflexivity.
Qed.

Lemma rsr_switch_page fuel s :
  (length s < fuel)%nat ->
  run_script_rest (switch_page fuel a tg tr op) s = spec_switch a tg tr op Polling s.
Proof.
  revert s. induction fuel as [|fuel IH]; intros s Hl; [lia|].
  cbn [switch_page]. destruct s as [|[|r] s']; [reflexivity | reflexivity |].
  cbn [length] in Hl.
  cbn [bind send run_script_rest]. cbn [spec_switch].
  destruct r as [m|]; [destruct m|]; try reflexivity.
  cbn [is_own_report]. unfold state_is. rewrite !state_eqb_same.
  destruct (a0 =? a); cbn [andb orb]; [|reflexivity].
  destruct (same_state s ShowingPages); cbn [orb]; [reflexivity|].
  destruct (same_state s tg); [reflexivity|].
  destruct (same_state s tr).
  - rewrite rsr_switch_requesting; [reflexivity | exact IH | lia].
  - destruct (same_state s PageLoadInProgress || same_state s PageShowInProgress);
      [|reflexivity].
    rewrite IH by lia. reflexivity.
Qed.

End Switch.

Lemma rsr_shut_down a s : run_script_rest (shut_down a) s = spec_shut_down a s.
Proof. apply rsr_expect_none. Qed.

Lemma C10_refines_rest : forall op script fuel,
  guard op -> (length script < fuel)%nat ->
  run_script_rest (model_of op fuel) script = spec_run_rest op script.
Proof.
  intros op script fuel Hg Hl. destruct op; cbn [model_of spec_run_rest].
  - apply rsr_configure.
  - apply rsr_configure_if_needed.
  - apply rsr_send_pages. exact Hg.
  - apply rsr_switch_page. exact Hl.
  - apply rsr_switch_page. exact Hl.
  - apply rsr_shut_down.
Qed.

Lemma C10_refines_lemma : forall op script fuel,
  guard op -> (length script < fuel)%nat ->
  run_script (model_of op fuel) script = spec_run op script.
Proof.
  intros op script fuel Hg Hl. unfold spec_run.
  rewrite <- C10_refines_rest with (fuel := fuel) by assumption.
  symmetry. apply run_script_rest_fst.
Qed.

(* ------------------------------------------------------------------ *)
(* The specification never yields Crashed; hence neither does the model under the guard. *)

Definition no_crash {A} (x : run A) : Prop := snd (fst x) <> Crashed.

Lemma no_crash_and_then {A B} (x : run A) (f : A -> list reply -> run B) :
  no_crash x -> (forall v r, no_crash (f v r)) -> no_crash (and_then x f).
Proof.
  unfold no_crash. destruct x as [[t o] rest]. destruct o; cbn [and_then fst snd]; intros Hx Hf;
    try discriminate; try congruence.
  specialize (Hf a rest). destruct (f a rest) as [[t' o'] rest']. exact Hf.
Qed.

Lemma no_crash_ask m s : no_crash (ask m s).
Proof. destruct s as [|[|r] s]; discriminate. Qed.

Lemma no_crash_expect_seq c s : no_crash (expect_seq c s).
Proof.
  destruct (expect_seq c s) as [[t o] rest] eqn:E.
  destruct (expect_seq_shape _ _ _ _ _ E) as (_ & _ & H & _). exact H.
Qed.

Lemma no_crash_transfer_from n a op items su fa s : no_crash (transfer_from n a op items su fa s).
Proof.
  revert s. induction n as [|n IH]; intros s; cbn [transfer_from];
    (apply no_crash_and_then; [apply no_crash_expect_seq|]); intros _ r1;
    (apply no_crash_and_then; [apply no_crash_ask|]); intros r r2;
    destruct (is_own_report a su r); try discriminate;
    destruct (is_own_report a fa r); try discriminate. apply IH.
Qed.

Lemma no_crash_spec_configure a t s : no_crash (spec_configure a t s).
Proof.
  unfold spec_configure, spec_reset.
  apply no_crash_and_then; [|intros; apply no_crash_transfer_from].
  apply no_crash_and_then; [apply no_crash_ask | intros; apply no_crash_expect_seq].
Qed.

Lemma no_crash_spec_switch a tg tr op st s : no_crash (spec_switch a tg tr op st s).
Proof.
  revert st. induction s as [|[|r] s IH]; intros st; try discriminate.
  assert (Hgo : forall st' m,
    no_crash (let '(t, o, rest') := spec_switch a tg tr op st' s in (m :: t, o, rest'))).
  { intros st' m. specialize (IH st'). destruct (spec_switch a tg tr op st' s) as [[t o] rest].
    exact IH. }
  cbn [spec_switch]. destruct st.
  - destruct (_ || _); [discriminate|]. destruct (is_own_report a tr r); [apply Hgo|].
    destruct (_ || _); [apply Hgo | discriminate].
  - destruct (is_own_ack a op r); [apply Hgo | discriminate].
Qed.

Lemma C10_spec_no_crash_lemma : forall op script, snd (spec_run op script) <> Crashed.
Proof.
  intros op script. unfold spec_run. change (no_crash (spec_run_rest op script)).
  destruct op; cbn [spec_run_rest].
  - apply no_crash_spec_configure.
  - unfold spec_configure_if_needed. apply no_crash_and_then; [apply no_crash_ask|].
    intros r rest. destruct (existsb _ _); [discriminate | apply no_crash_spec_configure].
  - unfold spec_send_pages.
    apply no_crash_and_then; [apply no_crash_transfer_from|]. intros _ r1.
    apply no_crash_and_then; [apply no_crash_expect_seq|]. intros _ r2.
    apply no_crash_and_then; [apply no_crash_ask|]. intros r r3. discriminate.
  - apply no_crash_spec_switch.
  - apply no_crash_spec_switch.
  - apply no_crash_expect_seq.
Qed.

Lemma C10_model_no_crash_lemma : forall op script fuel,
  guard op -> (length script < fuel)%nat ->
  snd (run_script (model_of op fuel) script) <> Crashed.
Proof.
  intros op script fuel Hg Hl. rewrite C10_refines_lemma by assumption.
  apply C10_spec_no_crash_lemma.
Qed.

(* Fuel irrelevance of the polling loop (toolkit) *)
Lemma switch_fuel_irrelevant : forall f1 f2 a tg tr op script,
  (length script < f1)%nat -> (length script < f2)%nat ->
  run_script (switch_page f1 a tg tr op) script = run_script (switch_page f2 a tg tr op) script.
Proof.
  intros f1 f2 a tg tr op script H1 H2.
  rewrite <- !run_script_rest_fst, !rsr_switch_page by assumption. reflexivity.
Qed.

Lemma switch_no_crash : forall f1 a tg tr op script,
  (length script < f1)%nat ->
  snd (run_script (switch_page f1 a tg tr op) script) <> Crashed.
Proof.
  intros f1 a tg tr op script H1.
  rewrite <- run_script_rest_fst, rsr_switch_page by assumption.
  apply no_crash_spec_switch.
Qed.

(* ================================================================== *)
(* 12. Script fragments used by the examples of props/C10.v (sign at address 3)  *)

Definition ex_attempt_ok : list reply :=
  [Rep (Some (AckOperation 3 ReceiveConfig)); Rep None; Rep None].
Definition ex_failed : reply := Rep (Some (ReportState 3 ConfigFailed)).
Definition ex_received : reply := Rep (Some (ReportState 3 ConfigReceived)).
Definition ex_attempt_msgs : list msg :=
  [RequestOperation 3 ReceiveConfig; SendData 0 (st_to_bytes Max3000Side90x7); DataChunksSent 1;
   QueryState 3].


(* ------------------------------------------------------------------------- *)
(** * Several calls on one Sign: what a call leaves of the script *)

(* Unless it is left waiting, a call reads exactly as many replies as it sends messages, from the front of the
   script: the next call starts at [skipn (length tr) script] -- which is how [run_cops_script] chains them. *)
Lemma run_script_leaves {A} (p : prog A) script tr o :
  run_script p script = (tr, o) -> o <> Blocked ->
  run_script_rest p script = (tr, o, skipn (length tr) script)
  /\ (length tr <= length script)%nat.
Proof.
  intros H Hb. destruct (run_script_rest_ex _ _ _ _ H) as [rest Hr].
  destruct (run_script_rest_consumed _ _ _ _ _ Hr) as [Hc _]. destruct (Hc Hb) as [Hs Hl].
  split; [|lia]. rewrite Hr. f_equal.
  apply (app_inv_head (firstn (length tr) script)).
  rewrite <- Hs. symmetry. apply firstn_skipn.
Qed.

(* Two calls in a row are the two programs run one after the other on the same script. *)
Lemma run_cops_two c1 c2 script tr1 v1 :
  run_script (cop_prog c1) script = (tr1, Done v1) ->
  run_cops_script [c1; c2] script
  = [(tr1, Done v1); run_script (cop_prog c2) (skipn (length tr1) script)]
  /\ run_script (cop_prog c1 ;;; cop_prog c2) script
     = (let '(tr2, o2) := run_script (cop_prog c2) (skipn (length tr1) script) in (tr1 ++ tr2, o2)).
Proof.
  intros H. split.
  - cbn [run_cops_script]. rewrite H.
    destruct (run_script (cop_prog c2) (skipn (length tr1) script)) as [tr2 o2].
    destruct o2; reflexivity.
  - rewrite run_script_bind.
    destruct (run_script_leaves _ _ _ _ H) as [Hr _]; [discriminate|]. rewrite Hr. reflexivity.
Qed.

(* Every call of a sequence on one bus is that call's own program run on what the earlier calls left of the script: so
   whatever is proved of a single call for EVERY script (the transfer shape of C09, the invariants of C11, the protocol
   automaton of C10) holds of each call of any sequence. *)
Lemma run_cops_script_each : forall cs script i c r,
  nth_error cs i = Some c ->
  nth_error (run_cops_script cs script) i = Some r ->
  exists k, (k <= length script)%nat /\ run_script (cop_prog c) (skipn k script) = r.
Proof.
  induction cs as [|c0 cs IH]; intros script i c r Hc Hr; [destruct i; discriminate|].
  cbn [run_cops_script] in Hr.
  destruct (run_script (cop_prog c0) script) as [tr o] eqn:E.
  destruct i as [|i].
  - cbn [nth_error] in Hc, Hr. injection Hc as <-. injection Hr as <-.
    exists 0%nat. split; [lia|]. cbn [skipn]. exact E.
  - cbn [nth_error] in Hc, Hr.
    assert (Hcont : nth_error (run_cops_script cs (skipn (length tr) script)) i = Some r
                    /\ o <> Blocked).
    { destruct o; try (split; [exact Hr|discriminate]); destruct i; discriminate. }
    destruct Hcont as [Hr' Hnb].
    destruct (IH _ _ _ _ Hc Hr') as (k & Hk & Hrun).
    destruct (run_script_leaves _ _ _ _ E Hnb) as [_ Hlen].
    exists (length tr + k)%nat. rewrite skipn_length in Hk. split; [lia|].
    rewrite <- Hrun. f_equal. apply skipn_add.
Qed.
