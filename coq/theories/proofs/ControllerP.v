(* ControllerP.v — proofs about the controller model (model/Controller.v) and its relation to the
   protocol specification (spec/ProtoSpec.v): properties C09, C10, C11. *)
From Flipdot Require Import Tactics.
From Flipdot Require Import Base Message Page SignType VSign Controller ProtoSpec.
Local Open Scope N_scope.

(* ================================================================== *)
(* 0. Small list facts                                                 *)

Lemma nth_error_app_l {A} (l1 l2 : list A) i :
  (i < length l1)%nat -> nth_error (l1 ++ l2) i = nth_error l1 i.
Proof. intros H. apply nth_error_app1; exact H. Qed.

Lemma nth_error_app_r {A} (l1 l2 : list A) i :
  (length l1 <= i)%nat -> nth_error (l1 ++ l2) i = nth_error l2 (i - length l1).
Proof. intros H. apply nth_error_app2; exact H. Qed.

Lemma nth_error_Some_lt {A} (l : list A) i x : nth_error l i = Some x -> (i < length l)%nat.
Proof. intros H. apply nth_error_Some. rewrite H. discriminate. Qed.

Lemma skipn_add {A} (a b : nat) (l : list A) : skipn (a + b) l = skipn b (skipn a l).
Proof.
  revert l. induction a as [|a IH]; intros l; [reflexivity|].
  destruct l as [|x l]; cbn [skipn Nat.add].
  - destruct b; reflexivity.
  - apply IH.
Qed.

(* ================================================================== *)
(* 1. Equality tests of the model agree with Leibniz equality and with the spec's patterns *)

Lemma state_eqb_same x y : state_eqb x y = same_state x y.
Proof. destruct x, y; reflexivity. Qed.

Lemma operation_eqb_same x y : operation_eqb x y = same_operation x y.
Proof. destruct x, y; reflexivity. Qed.

Lemma same_state_spec x y : same_state x y = true <-> x = y.
Proof. split; [destruct x, y; cbn; congruence | intros ->; destruct y; reflexivity]. Qed.

Lemma same_operation_spec x y : same_operation x y = true <-> x = y.
Proof. split; [destruct x, y; cbn; congruence | intros ->; destruct y; reflexivity]. Qed.

Lemma same_state_refl x : same_state x x = true.
Proof. destruct x; reflexivity. Qed.
Lemma same_operation_refl x : same_operation x x = true.
Proof. destruct x; reflexivity. Qed.

Lemma omsg_eqb_none r : omsg_eqb r None = is_none r.
Proof. destruct r; reflexivity. Qed.

Lemma omsg_eqb_report r a st : omsg_eqb r (Some (ReportState a st)) = is_own_report a st r.
Proof.
  destruct r as [m|]; [|reflexivity]. destruct m; try reflexivity.
  cbn [omsg_eqb option_eqb msg_eqb is_own_report]. rewrite state_eqb_same. reflexivity.
Qed.

Lemma omsg_eqb_ack r a op : omsg_eqb r (Some (AckOperation a op)) = is_own_ack a op r.
Proof.
  destruct r as [m|]; [|reflexivity]. destruct m; try reflexivity.
  cbn [omsg_eqb option_eqb msg_eqb is_own_ack]. rewrite operation_eqb_same. reflexivity.
Qed.

Lemma is_own_report_true a st r :
  is_own_report a st r = true <-> r = Some (ReportState a st).
Proof.
  split.
  - destruct r as [m|]; [|discriminate]. destruct m; try discriminate.
    cbn [is_own_report]. intros H. apply andb_true_iff in H. destruct H as [Ha Hs].
    apply N.eqb_eq in Ha. apply same_state_spec in Hs. subst. reflexivity.
  - intros ->. cbn [is_own_report]. rewrite N.eqb_refl, same_state_refl. reflexivity.
Qed.

Lemma is_own_ack_true a op r :
  is_own_ack a op r = true <-> r = Some (AckOperation a op).
Proof.
  split.
  - destruct r as [m|]; [|discriminate]. destruct m; try discriminate.
    cbn [is_own_ack]. intros H. apply andb_true_iff in H. destruct H as [Ha Hs].
    apply N.eqb_eq in Ha. apply same_operation_spec in Hs. subst. reflexivity.
  - intros ->. cbn [is_own_ack]. rewrite N.eqb_refl, same_operation_refl. reflexivity.
Qed.

Lemma is_none_true r : is_none r = true <-> r = None.
Proof. destruct r; cbn; split; congruence. Qed.

(* ================================================================== *)
(* 2. run_script with the unread part of the script                    *)

Fixpoint run_script_rest {A : Type} (p : prog A) (script : list reply) : run A :=
  match p with
  | Ret a => ([], Done a, script)
  | Fail => ([], ProtoErr, script)
  | Crash => ([], Crashed, script)
  | Send m k =>
      match script with
      | [] => ([m], Blocked, [])
      | BusErr :: rest => ([m], BusFailed, rest)
      | Rep r :: script' =>
          let '(tr, o, rest) := run_script_rest (k r) script' in (m :: tr, o, rest)
      end
  end.

Lemma run_script_rest_fst {A} (p : prog A) script :
  fst (run_script_rest p script) = run_script p script.
Proof.
  revert script. induction p as [a| | |m k IH]; intros script; try reflexivity.
  destruct script as [|[|r] script']; try reflexivity.
  cbn [run_script_rest run_script]. rewrite <- IH.
  destruct (run_script_rest (k r) script') as [[tr o] rest]. reflexivity.
Qed.

Lemma run_script_rest_eq {A} (p : prog A) script tr o rest :
  run_script_rest p script = (tr, o, rest) -> run_script p script = (tr, o).
Proof. intros H. rewrite <- run_script_rest_fst, H. reflexivity. Qed.

Lemma run_script_rest_ex {A} (p : prog A) script tr o :
  run_script p script = (tr, o) -> exists rest, run_script_rest p script = (tr, o, rest).
Proof.
  intros H. rewrite <- run_script_rest_fst in H.
  destruct (run_script_rest p script) as [[tr' o'] rest]. cbn in H. inversion H; subst.
  exists rest. reflexivity.
Qed.

(* The number of messages sent is the number of replies read, except that a Blocked run has sent
   one message more than there were replies.  The replies read are a prefix of the script. *)
Lemma run_script_rest_consumed {A} (p : prog A) script tr o rest :
  run_script_rest p script = (tr, o, rest) ->
  (o <> Blocked -> script = firstn (length tr) script ++ rest
                   /\ (length tr + length rest = length script)%nat)
  /\ (o = Blocked -> rest = [] /\ length tr = S (length script)).
Proof.
  revert script tr o rest. induction p as [a| | |m k IH]; intros script tr o rest H.
  1-3: cbn in H; inversion H; subst; split; [intros _; split; reflexivity | discriminate].
  destruct script as [|[|r] script']; cbn [run_script_rest] in H.
  - inversion H; subst. split; [congruence | intros _; split; reflexivity].
  - inversion H; subst. split; [intros _; split; reflexivity | discriminate].
  - destruct (run_script_rest (k r) script') as [[tr' o'] rest'] eqn:E.
    inversion H; subst. destruct (IH r _ _ _ _ E) as [H1 H2]. split.
    + intros Ho. destruct (H1 Ho) as [Hs Hl]. cbn [length firstn app]. split.
      * f_equal. exact Hs.
      * lia.
    + intros Ho. destruct (H2 Ho) as [Hr Hl]. cbn [length]. split; [exact Hr | lia].
Qed.

(* bind *)
Lemma run_script_rest_bind {A B} (p : prog A) (f : A -> prog B) script :
  run_script_rest (bind p f) script
  = and_then (run_script_rest p script) (fun a rest => run_script_rest (f a) rest).
Proof.
  revert script. induction p as [a| | |m k IH]; intros script.
  - cbn [bind run_script_rest and_then].
    destruct (run_script_rest (f a) script) as [[tr o] rest]. reflexivity.
  - reflexivity.
  - reflexivity.
  - cbn [bind]. destruct script as [|[|r] script']; try reflexivity.
    cbn [run_script_rest]. rewrite IH.
    destruct (run_script_rest (k r) script') as [[tr o] rest].
    destruct o; try reflexivity.
    cbn [and_then]. destruct (run_script_rest (f a) rest) as [[tr' o'] rest']. reflexivity.
Qed.

(* the form asked for: on run_script, in terms of the unread script of the first part *)
Lemma run_script_bind {A B} (p : prog A) (f : A -> prog B) script :
  run_script (bind p f) script
  = match run_script_rest p script with
    | (tr, Done a, rest) => let '(tr', o) := run_script (f a) rest in (tr ++ tr', o)
    | (tr, ProtoErr, _) => (tr, ProtoErr)
    | (tr, BusFailed, _) => (tr, BusFailed)
    | (tr, Crashed, _) => (tr, Crashed)
    | (tr, Blocked, _) => (tr, Blocked)
    end.
Proof.
  rewrite <- run_script_rest_fst, run_script_rest_bind.
  destruct (run_script_rest p script) as [[tr o] rest]. destruct o; try reflexivity.
  cbn [and_then]. rewrite <- run_script_rest_fst.
  destruct (run_script_rest (f a) rest) as [[tr' o'] rest']. reflexivity.
Qed.

(* ================================================================== *)
(* 3. Fail-stop: a property of the interpreter, for any program (C11)   *)

Lemma fail_stop_gen {A} (p : prog A) script tr o :
  run_script p script = (tr, o) -> o <> Blocked ->
  (length tr <= length script)%nat
  /\ run_script p (firstn (length tr) script) = (tr, o)
  /\ (In BusErr (firstn (length tr) script) -> o = BusFailed)
  /\ (o = BusFailed -> nth_error script (length tr - 1) = Some BusErr).
Proof.
  revert script tr o. induction p as [a| | |m k IH]; intros script tr o H Hb.
  1-3: cbn in H; inversion H; subst; cbn; repeat split; try lia; try tauto; discriminate.
  destruct script as [|[|r] script']; cbn [run_script] in H.
  - inversion H; subst. congruence.
  - inversion H; subst. cbn. repeat split; try lia; tauto.
  - destruct (run_script (k r) script') as [tr' o'] eqn:E. inversion H; subst.
    destruct (IH r _ _ _ E Hb) as (H1 & H2 & H3 & H4).
    cbn [length firstn]. repeat split.
    + lia.
    + cbn [run_script]. rewrite H2. reflexivity.
    + intros [Hi|Hi]; [discriminate | exact (H3 Hi)].
    + intros Ho. specialize (H4 Ho).
      destruct tr' as [|m' tr'].
      * (* BusFailed needs at least one message *)
        exfalso. clear -E Ho. destruct (k r); cbn in E; try (inversion E; subst; discriminate).
        destruct script' as [|[|r'] s'']; try discriminate.
        destruct (run_script (k0 r') s''); discriminate.
      * cbn [length] in *. replace (S (S (length tr')) - 1)%nat with (S (length tr')) by lia.
        cbn [nth_error]. replace (S (length tr') - 1)%nat with (length tr') in H4 by lia.
        exact H4.
Qed.

(* Every reply read before the last one is a proper reply; the outcome is Blocked exactly when
   the script was used up. *)
Lemma run_script_blocked_length {A} (p : prog A) script tr :
  run_script p script = (tr, Blocked) -> length tr = S (length script).
Proof.
  intros H. destruct (run_script_rest_ex _ _ _ _ H) as [rest Hr].
  apply run_script_rest_consumed in Hr. destruct Hr as [_ Hr]. apply Hr. reflexivity.
Qed.

(* ================================================================== *)
(* 4. chunks16                                                          *)

Lemma chunks16_nil : chunks16 [] = [].
Proof. reflexivity. Qed.

Lemma n_slices_nil : n_slices [] = 0%nat.
Proof. reflexivity. Qed.

Lemma n_slices_step (l : list N) :
  l <> [] -> n_slices l = S (n_slices (skipn 16 l)).
Proof.
  intros Hl. unfold n_slices. rewrite skipn_length.
  assert (length l <> 0)%nat by (destruct l; [congruence | cbn; lia]).
  change (Nat.div ?a ?b) with (a / b)%nat. lia.
Qed.

Definition slices (l : list N) : list (list N) := map (slice l) (seq 0 (n_slices l)).

Lemma slice_S (l : list N) i : slice l (S i) = slice (skipn 16 l) i.
Proof.
  unfold slice. replace (16 * S i)%nat with (16 + 16 * i)%nat by lia.
  rewrite skipn_add. reflexivity.
Qed.

Lemma slices_step (l : list N) : l <> [] -> slices l = firstn 16 l :: slices (skipn 16 l).
Proof.
  intros Hl. unfold slices. rewrite (n_slices_step l Hl). cbn [seq map].
  f_equal. rewrite <- seq_shift, map_map. apply map_ext. intros i. apply slice_S.
Qed.

Lemma chunks_fuel_slices fuel (l : list N) :
  (length l <= fuel)%nat -> chunks_fuel fuel l = slices l.
Proof.
  revert l. induction fuel as [|fuel IH]; intros l Hl.
  - destruct l; [reflexivity | cbn in Hl; lia].
  - destruct l as [|x t]; [reflexivity|].
    cbn [chunks_fuel]. rewrite slices_step by discriminate. f_equal.
    apply IH. rewrite skipn_length. cbn [length] in *. lia.
Qed.

Lemma chunks16_slices (l : list N) : chunks16 l = slices l.
Proof. apply chunks_fuel_slices. lia. Qed.

Lemma chunks16_step (l : list N) : l <> [] -> chunks16 l = firstn 16 l :: chunks16 (skipn 16 l).
Proof. intros H. rewrite !chunks16_slices. apply slices_step; exact H. Qed.

(* induction principle following the chunking *)
Lemma chunk_ind (P : list N -> Prop) :
  P [] -> (forall l, l <> [] -> P (skipn 16 l) -> P l) -> forall l, P l.
Proof.
  intros H0 HS l. remember (length l) as n eqn:E.
  revert l E. induction n as [n IH] using lt_wf_ind. intros l E.
  destruct l as [|x t]; [exact H0|].
  apply HS; [discriminate|]. apply (IH (length (skipn 16 (x :: t)))); [|reflexivity].
  rewrite skipn_length. subst n. cbn [length]. lia.
Qed.

Lemma chunks16_concat (b : list N) : concat (chunks16 b) = b.
Proof.
  induction b as [|b Hb IH] using chunk_ind; [reflexivity|].
  rewrite chunks16_step by exact Hb. cbn [concat]. rewrite IH. apply firstn_skipn.
Qed.

Lemma chunks16_sizes (b : list N) : Forall (fun c => (1 <= length c <= 16)%nat) (chunks16 b).
Proof.
  induction b as [|b Hb IH] using chunk_ind; [constructor|].
  rewrite chunks16_step by exact Hb. constructor; [|exact IH].
  rewrite firstn_length. destruct b; [congruence | cbn [length]; lia].
Qed.

Lemma chunks16_length (b : list N) : length (chunks16 b) = ((length b + 15) / 16)%nat.
Proof. rewrite chunks16_slices. unfold slices. rewrite map_length, seq_length. reflexivity. Qed.

Lemma chunks16_nth (b : list N) i c :
  nth_error (chunks16 b) i = Some c -> c = firstn 16 (skipn (16 * i) b).
Proof.
  rewrite chunks16_slices. unfold slices. intros H.
  assert (Hi : (i < n_slices b)%nat).
  { apply nth_error_Some_lt in H. rewrite map_length, seq_length in H. exact H. }
  rewrite (nth_error_nth' _ [] ) in H by (rewrite map_length, seq_length; exact Hi).
  inversion H as [H']. clear H.
  rewrite (nth_indep _ [] (slice b 0)) by (rewrite map_length, seq_length; exact Hi).
  rewrite map_nth, seq_nth by exact Hi. reflexivity.
Qed.

(* all chunks but the last have exactly 16 bytes *)
Lemma chunks16_full (b : list N) i c :
  nth_error (chunks16 b) i = Some c -> (S i < length (chunks16 b))%nat -> length c = 16%nat.
Proof.
  intros H Hi. rewrite (chunks16_nth _ _ _ H). rewrite chunks16_length in Hi.
  rewrite firstn_length, skipn_length. lia.
Qed.

(* the last chunk holds the remainder *)
Lemma chunks16_last (b : list N) i c :
  nth_error (chunks16 b) i = Some c -> (S i = length (chunks16 b))%nat ->
  length c = (length b - 16 * i)%nat.
Proof.
  intros H Hi. rewrite (chunks16_nth _ _ _ H). rewrite chunks16_length in Hi.
  rewrite firstn_length, skipn_length. lia.
Qed.

(* ------------------------------------------------------------------ *)
(* The data messages of one item and of one attempt (C09)               *)

Fixpoint chunk_msgs_from (i : nat) (cs : list (list N)) : list msg :=
  match cs with
  | [] => []
  | c :: t => SendData ((16 * N.of_nat i) mod 65536) c :: chunk_msgs_from (S i) t
  end.

(* SendData ((16*i) mod 65536) c_i for the i-th chunk c_i of chunks16 item *)
Definition chunk_msgs (item : list N) : list msg := chunk_msgs_from 0 (chunks16 item).

Definition attempt_msgs (a : N) (op : operation) (items : list (list N)) : list msg :=
  [RequestOperation a op] ++ concat (map chunk_msgs items)
  ++ [DataChunksSent (N.of_nat (length (concat (map chunk_msgs items))))] ++ [QueryState a].

Definition total_chunks (items : list (list N)) : N :=
  N.of_nat (length (concat (map chunks16 items))).

Lemma chunk_msgs_from_length i cs : length (chunk_msgs_from i cs) = length cs.
Proof. revert i. induction cs as [|c t IH]; intros i; [reflexivity|]. cbn. rewrite IH. reflexivity. Qed.

Lemma chunk_msgs_from_nth k cs i :
  nth_error (chunk_msgs_from k cs) i
  = option_map (fun c => SendData ((16 * N.of_nat (k + i)) mod 65536) c) (nth_error cs i).
Proof.
  revert k i. induction cs as [|c t IH]; intros k i.
  - destruct i; reflexivity.
  - destruct i as [|i]; cbn [chunk_msgs_from nth_error option_map].
    + rewrite Nat.add_0_r. reflexivity.
    + rewrite IH. replace (S k + i)%nat with (k + S i)%nat by lia. reflexivity.
Qed.

Lemma chunk_msgs_from_map k cs :
  chunk_msgs_from k cs
  = map (fun ic => SendData ((16 * N.of_nat (fst ic)) mod 65536) (snd ic))
        (combine (seq k (length cs)) cs).
Proof.
  revert k. induction cs as [|c t IH]; intros k; [reflexivity|].
  cbn [chunk_msgs_from length seq combine map fst snd]. rewrite IH. reflexivity.
Qed.

Lemma chunk_msgs_length item : length (chunk_msgs item) = length (chunks16 item).
Proof. apply chunk_msgs_from_length. Qed.

(* the model's chunking is the specification's closed formula *)
Lemma chunk_msgs_item_msgs item : chunk_msgs item = item_msgs item.
Proof.
  unfold chunk_msgs, item_msgs. rewrite chunks16_slices. unfold slices.
  generalize (n_slices item) as n. generalize 0%nat as k.
  intros k n. revert k. induction n as [|n IH]; intros k; [reflexivity|].
  cbn [seq map chunk_msgs_from]. rewrite IH. reflexivity.
Qed.

Lemma data_msgs_chunk items : data_msgs items = concat (map chunk_msgs items).
Proof.
  unfold data_msgs. f_equal. apply map_ext. intros item. symmetry. apply chunk_msgs_item_msgs.
Qed.

Lemma total_chunks_msgs items :
  N.of_nat (length (concat (map chunk_msgs items))) = total_chunks items.
Proof.
  unfold total_chunks. f_equal.
  induction items as [|item t IH]; [reflexivity|].
  cbn [map concat]. rewrite !app_length, IH, chunk_msgs_length. reflexivity.
Qed.

Lemma chunk_guard_total items : chunk_guard items <-> total_chunks items < 65536.
Proof. unfold chunk_guard. rewrite data_msgs_chunk, total_chunks_msgs. tauto. Qed.

Lemma attempt_msgs_conv a op items :
  attempt_msgs a op items = map fst (attempt_conv a op items) ++ [QueryState a].
Proof.
  unfold attempt_msgs, attempt_conv. rewrite <- data_msgs_chunk.
  cbn [map fst app]. rewrite map_app, map_map. cbn [map fst].
  rewrite map_id, <- app_assoc. reflexivity.
Qed.

(* ================================================================== *)
(* 5. Algebra of the specification's runs                               *)

Lemma and_then_finish {A B} (a : A) rest (f : A -> list reply -> run B) :
  and_then ([], Done a, rest) f = f a rest.
Proof. cbn [and_then]. destruct (f a rest) as [[tr o] r]. reflexivity. Qed.

Lemma and_then_assoc {A B C} (x : run A) (f : A -> list reply -> run B)
      (g : B -> list reply -> run C) :
  and_then (and_then x f) g = and_then x (fun a r => and_then (f a r) g).
Proof.
  destruct x as [[tr o] rest]. destruct o; try reflexivity.
  cbn [and_then]. destruct (f a rest) as [[tr1 o1] rest1]. destruct o1; try reflexivity.
  cbn [and_then]. destruct (g a0 rest1) as [[tr2 o2] rest2]. rewrite app_assoc. reflexivity.
Qed.

Lemma and_then_ext {A B} (x : run A) (f g : A -> list reply -> run B) :
  (forall a r, f a r = g a r) -> and_then x f = and_then x g.
Proof.
  intros H. destruct x as [[tr o] rest]. destruct o; try reflexivity.
  cbn [and_then]. rewrite H. reflexivity.
Qed.

Lemma and_then_ret {A} (x : run A) : and_then x (fun a r => ([], Done a, r)) = x.
Proof.
  destruct x as [[tr o] rest]. destruct o; try reflexivity.
  cbn [and_then]. rewrite app_nil_r. reflexivity.
Qed.

Lemma expect_seq_nil script : expect_seq [] script = ([], Done tt, script).
Proof. reflexivity. Qed.

Lemma expect_seq_app c1 c2 script :
  expect_seq (c1 ++ c2) script
  = and_then (expect_seq c1 script) (fun _ rest => expect_seq c2 rest).
Proof.
  revert script. induction c1 as [|[m ok] c1 IH]; intros script.
  - cbn [app]. rewrite expect_seq_nil, and_then_finish. reflexivity.
  - cbn [app expect_seq]. rewrite and_then_assoc. apply and_then_ext. intros r rest.
    destruct (ok r); [apply IH | reflexivity].
Qed.

Lemma expect_seq_cons m ok c script :
  expect_seq ((m, ok) :: c) script
  = and_then (expect_seq [(m, ok)] script) (fun _ rest => expect_seq c rest).
Proof. apply (expect_seq_app [(m, ok)] c). Qed.

(* ================================================================== *)
(* 6. The model's building blocks in terms of the specification's runs  *)

Lemma rsr_send m script : run_script_rest (send m) script = ask m script.
Proof. destruct script as [|[|r] s]; reflexivity. Qed.

Lemma rsr_expect m e ok script :
  (forall r, omsg_eqb r e = ok r) ->
  run_script_rest (expect m e) script = expect_seq [(m, ok)] script.
Proof.
  intros H. unfold expect. rewrite run_script_rest_bind, rsr_send.
  cbn [expect_seq]. apply and_then_ext. intros r rest.
  unfold verify. rewrite H. destruct (ok r); reflexivity.
Qed.

Lemma rsr_expect_none m script :
  run_script_rest (expect m None) script = expect_seq [(m, is_none)] script.
Proof. apply rsr_expect. apply omsg_eqb_none. Qed.

Lemma rsr_expect_ack m a op script :
  run_script_rest (expect m (Some (AckOperation a op))) script
  = expect_seq [(m, is_own_ack a op)] script.
Proof. apply rsr_expect. intros r. apply omsg_eqb_ack. Qed.

Lemma rsr_expect_report m a st script :
  run_script_rest (expect m (Some (ReportState a st))) script
  = expect_seq [(m, is_own_report a st)] script.
Proof. apply rsr_expect. intros r. apply omsg_eqb_report. Qed.

Definition none_conv (ms : list msg) : conv := map (fun m => (m, is_none)) ms.

Lemma rsr_send_chunks cs i count script :
  count + N.of_nat (length cs) < 65536 ->
  run_script_rest (send_chunks cs (N.of_nat i) count) script
  = and_then (expect_seq (none_conv (chunk_msgs_from i cs)) script)
             (fun _ rest => ([], Done (count + N.of_nat (length cs)), rest)).
Proof.
  revert i count script. induction cs as [|c t IH]; intros i count script Hg.
  - cbn [send_chunks run_script_rest chunk_msgs_from none_conv map length].
    rewrite expect_seq_nil, and_then_finish. rewrite N.add_0_r. reflexivity.
  - cbn [send_chunks chunk_msgs_from none_conv map].
    rewrite expect_seq_cons, and_then_assoc.
    rewrite run_script_rest_bind, rsr_expect_none.
    replace (N.of_nat i * 16) with (16 * N.of_nat i) by lia.
    apply and_then_ext. intros _ rest.
    cbn [length] in Hg.
    destruct (N.ltb_spec (count + 1) 65536) as [Hlt|Hge]; [|lia].
    replace (N.of_nat i + 1) with (N.of_nat (S i)) by lia.
    rewrite IH by lia. apply and_then_ext. intros _ rest'.
    cbn [length]. do 2 f_equal. f_equal. lia.
Qed.

Lemma rsr_send_items items count script :
  count + N.of_nat (length (concat (map chunk_msgs items))) < 65536 ->
  run_script_rest (send_items items count) script
  = and_then (expect_seq (none_conv (concat (map chunk_msgs items))) script)
      (fun _ rest =>
         ([], Done (count + N.of_nat (length (concat (map chunk_msgs items)))), rest)).
Proof.
  revert count script. induction items as [|item t IH]; intros count script Hg.
  - cbn [send_items run_script_rest map concat none_conv length].
    rewrite expect_seq_nil, and_then_finish, N.add_0_r. reflexivity.
  - cbn [send_items map concat] in *. rewrite app_length in Hg.
    rewrite run_script_rest_bind. change 0 with (N.of_nat 0).
    rewrite rsr_send_chunks by (rewrite <- chunk_msgs_length; lia).
    unfold none_conv. rewrite map_app, expect_seq_app, !and_then_assoc.
    apply and_then_ext. intros _ rest. rewrite and_then_finish.
    fold (chunk_msgs item). rewrite <- chunk_msgs_length.
    rewrite IH by lia. apply and_then_ext. intros _ rest'.
    rewrite app_length. do 2 f_equal. f_equal. lia.
Qed.

Lemma rsr_attempt a op items script :
  chunk_guard items ->
  run_script_rest (attempt a op items) script
  = and_then (expect_seq (attempt_conv a op items) script)
             (fun _ rest => ask (QueryState a) rest).
Proof.
  intros Hg. unfold chunk_guard in Hg. rewrite data_msgs_chunk in Hg.
  unfold attempt, attempt_conv. rewrite data_msgs_chunk.
  rewrite expect_seq_cons, and_then_assoc.
  rewrite run_script_rest_bind, rsr_expect_ack. apply and_then_ext. intros _ rest.
  rewrite run_script_rest_bind, rsr_send_items by (rewrite N.add_0_l; exact Hg).
  rewrite expect_seq_app. rewrite !and_then_assoc. apply and_then_ext. intros _ rest1.
  rewrite and_then_finish, N.add_0_l.
  rewrite run_script_rest_bind, rsr_expect_none.
  apply and_then_ext. intros _ rest2. apply rsr_send.
Qed.
