(* SignTypeP.v — proofs about sign-type configuration blocks (property C19). *)
From Flipdot Require Import Tactics.
From Flipdot Require Import Message Page SignType VSign.
Local Open Scope N_scope.

Ltac eqb_cases :=
  repeat match goal with
         | |- context [N.eqb ?x ?y] =>
             destruct (N.eqb_spec x y); try lia; try subst; cbn [andb orb negb]
         end.

(* ------------------------------------------------------------------ *)
(* The 11 blocks                                                       *)
(* ------------------------------------------------------------------ *)

Lemma all_sign_types_complete t : In t all_sign_types.
Proof. destruct t; cbn; tauto. Qed.

Lemma st_len16 t :
  length (st_to_bytes t) = 16%nat /\ (forall b, In b (st_to_bytes t) -> b < 256).
Proof.
  split.
  - destruct t; reflexivity.
  - assert (Hb : bytesb (st_to_bytes t) = true) by (destruct t; reflexivity).
    unfold bytesb in Hb. rewrite forallb_forall in Hb.
    intros b Hin. specialize (Hb b Hin). unfold is_u8 in Hb. lia.
Qed.

Lemma st_nlen16 t : nlen (st_to_bytes t) = 16.
Proof. destruct t; reflexivity. Qed.

Lemma st_roundtrip t : st_from_bytes (st_to_bytes t) = Ok t.
Proof. destruct t; reflexivity. Qed.

Lemma st_family t : nth 0 (st_to_bytes t) 0 = 4 \/ nth 0 (st_to_bytes t) 0 = 8.
Proof. destruct t; cbn [st_to_bytes nth]; auto. Qed.

Lemma st_fields_max3000 t w h :
  dimensions t = (w, h) ->
  nth 0 (st_to_bytes t) 0 = 4 ->
  nth 4 (st_to_bytes t) 0 = h
  /\ nth 5 (st_to_bytes t) 0 + nth 6 (st_to_bytes t) 0
     + nth 7 (st_to_bytes t) 0 + nth 8 (st_to_bytes t) 0 = w
  /\ nth 9 (st_to_bytes t) 0 = 8 * bpc h.
Proof.
  intros Hd. destruct t; cbn [dimensions] in Hd; inversion Hd; subst w h;
    cbn [st_to_bytes nth]; intros Hk; try discriminate Hk;
    repeat split; reflexivity.
Qed.

Lemma st_fields_horizon t w h :
  dimensions t = (w, h) ->
  nth 0 (st_to_bytes t) 0 = 8 ->
  nth 5 (st_to_bytes t) 0 = h
  /\ nth 7 (st_to_bytes t) 0 = w
  /\ nth 8 (st_to_bytes t) 0 * nth 10 (st_to_bytes t) 0
     + nth 9 (st_to_bytes t) 0 * nth 11 (st_to_bytes t) 0 = w.
Proof.
  intros Hd. destruct t; cbn [dimensions] in Hd; inversion Hd; subst w h;
    cbn [st_to_bytes nth]; intros Hk; try discriminate Hk;
    repeat split; reflexivity.
Qed.

(* ------------------------------------------------------------------ *)
(* The virtual sign derives the size and type from a block             *)
(* ------------------------------------------------------------------ *)

Lemma vsign_derives t :
  config_size (st_to_bytes t) = Some (Some (dimensions t))
  /\ recorded_type (st_to_bytes t) (fst (dimensions t)) (snd (dimensions t)) = Some t.
Proof. destruct t; split; reflexivity. Qed.

Lemma vsign_step_derives s t :
  v_state s = ConfigInProgress ->
  exists s', vstep s (SendData 0 (st_to_bytes t)) = Some (s', None)
             /\ (v_w s', v_h s') = dimensions t
             /\ v_type s' = Some t
             /\ v_state s' = ConfigInProgress.
Proof.
  intros Hst. destruct (vsign_derives t) as [Hcs Hrt].
  unfold vstep, v_send_data. rewrite Hst, Hcs, st_nlen16.
  vm_eval ((0 =? 0) && (16 =? 16)). cbv iota.
  destruct (dimensions t) as [w h] eqn:Hdim. cbn [fst snd] in Hrt. rewrite Hrt.
  eexists. split; [reflexivity|]. cbn [v_w v_h v_type v_state].
  repeat split.
Qed.

(* ------------------------------------------------------------------ *)
(* The decoder on arbitrary byte lists                                 *)
(* ------------------------------------------------------------------ *)

Lemma nlen_eq_16 {A} (l : list A) : nlen l = 16 <-> length l = 16%nat.
Proof. unfold nlen. lia. Qed.

(* The key of a block: its first two bytes. *)
Lemma st_of_key_iff b0 b1 t :
  st_of_key b0 b1 = Some t <-> [b0; b1] = firstn 2 (st_to_bytes t).
Proof.
  split.
  - unfold st_of_key. eqb_cases; intros H; inversion H; reflexivity.
  - destruct t; cbn [st_to_bytes firstn]; intros H; inversion H; reflexivity.
Qed.

Lemma st_keys_distinct t1 t2 :
  firstn 2 (st_to_bytes t1) = firstn 2 (st_to_bytes t2) -> t1 = t2.
Proof.
  intros H.
  assert (H1 : st_of_key (nth 0 (st_to_bytes t1) 0) (nth 1 (st_to_bytes t1) 0) = Some t1)
    by (destruct t1; reflexivity).
  assert (H2 : [nth 0 (st_to_bytes t1) 0; nth 1 (st_to_bytes t1) 0] = firstn 2 (st_to_bytes t1))
    by (destruct t1; reflexivity).
  rewrite H in H2. apply st_of_key_iff in H2. congruence.
Qed.

Lemma st_decode_total bs : st_from_bytes bs <> Err STPanic.
Proof.
  unfold st_from_bytes. destruct (N.eqb_spec (nlen bs) 16) as [Hl|Hl]; [|discriminate].
  destruct bs as [|b0 [|b1 r]]; try (vm_compute in Hl; discriminate Hl).
  destruct (st_of_key b0 b1); discriminate.
Qed.

Lemma st_len_rejected bs :
  length bs <> 16%nat -> st_from_bytes bs = Err (WrongConfigLength 16 (nlen bs)).
Proof.
  intros Hl. unfold st_from_bytes.
  destruct (N.eqb_spec (nlen bs) 16) as [He|He]; [|reflexivity].
  apply nlen_eq_16 in He. contradiction.
Qed.

Lemma st_accept_iff bs t :
  st_from_bytes bs = Ok t <-> length bs = 16%nat /\ firstn 2 bs = firstn 2 (st_to_bytes t).
Proof.
  unfold st_from_bytes. destruct (N.eqb_spec (nlen bs) 16) as [Hl|Hl].
  - apply nlen_eq_16 in Hl.
    destruct bs as [|b0 [|b1 r]]; try discriminate Hl.
    change (firstn 2 (b0 :: b1 :: r)) with [b0; b1].
    pose proof (st_of_key_iff b0 b1 t) as Hk.
    destruct (st_of_key b0 b1) as [t'|]; split.
    + intros H. inversion H; subst t'. split; [exact Hl|]. apply Hk. reflexivity.
    + intros [_ H]. apply Hk in H. inversion H. reflexivity.
    + discriminate.
    + intros [_ H]. apply Hk in H. discriminate H.
  - split; [discriminate|]. intros [Hlen _]. apply nlen_eq_16 in Hlen. contradiction.
Qed.

Lemma st_unknown bs :
  length bs = 16%nat -> (forall t, firstn 2 bs <> firstn 2 (st_to_bytes t)) ->
  st_from_bytes bs = Err UnknownConfig.
Proof.
  intros Hl Hk. unfold st_from_bytes. apply nlen_eq_16 in Hl. rewrite Hl.
  vm_eval (16 =? 16). cbv iota. apply nlen_eq_16 in Hl.
  destruct bs as [|b0 [|b1 r]]; try discriminate Hl.
  destruct (st_of_key b0 b1) as [t|] eqn:Hkey; [|reflexivity].
  apply st_of_key_iff in Hkey. exfalso. apply (Hk t). exact Hkey.
Qed.
