(* MessageP.v — proofs about the Frame <-> Message conversions (properties C04 and C05). *)
From Flipdot Require Import Tactics.
From Flipdot Require Import Hex Frame Message CodeTable.
Local Open Scope N_scope.

(* Case split on every N.eqb test in the goal; closed tests are decided by lia. *)
Ltac eqb_cases :=
  repeat match goal with
         | |- context [N.eqb ?x ?y] =>
             destruct (N.eqb_spec x y); try lia; try subst; cbn [andb orb negb]
         end.

(* ------------------------------------------------------------------ *)
(* The code tables                                                     *)
(* ------------------------------------------------------------------ *)

Lemma lookup_in_fst {A} (k : N) (l : list (N * A)) :
  In k (map fst l) <-> exists v, lookup k l = Some v.
Proof.
  induction l as [|[k' v'] l IH]; cbn [map fst In lookup].
  - split; [intros []|intros [v Hv]; discriminate].
  - destruct (N.eqb_spec k k') as [->|Hne].
    + split; [intros _; eauto|intros _; left; reflexivity].
    + rewrite <- IH. split; [intros [Heq|Hin]; [congruence|exact Hin]|intros Hin; right; exact Hin].
Qed.

(* The decoders of the model are literally look-ups in the documented table. *)
Lemma state_of_code_lookup b : state_of_code b = lookup b state_table.
Proof. reflexivity. Qed.
Lemma request_of_code_lookup b : request_of_code b = lookup b request_table.
Proof. reflexivity. Qed.
Lemma ack_of_code_lookup b : ack_of_code b = lookup b ack_table.
Proof. reflexivity. Qed.

Lemma state_table_keys_nodup : NoDup (map fst state_table).
Proof. cbn [map fst state_table]. repeat constructor; cbn [In]; lia. Qed.
Lemma state_table_vals_nodup : NoDup (map snd state_table).
Proof. cbn [map snd state_table]. repeat constructor; cbn [In]; intuition discriminate. Qed.
Lemma state_table_covers : map snd state_table = all_states /\ length state_table = 13%nat.
Proof. split; reflexivity. Qed.
Lemma all_states_complete s : In s all_states.
Proof. destruct s; cbn; tauto. Qed.

Lemma request_table_keys_nodup : NoDup (map fst request_table).
Proof. cbn [map fst request_table]. repeat constructor; cbn [In]; lia. Qed.
Lemma request_table_vals_nodup : NoDup (map snd request_table).
Proof. cbn [map snd request_table]. repeat constructor; cbn [In]; intuition discriminate. Qed.
Lemma request_table_covers : map snd request_table = all_operations /\ length request_table = 6%nat.
Proof. split; reflexivity. Qed.

Lemma ack_table_keys_nodup : NoDup (map fst ack_table).
Proof. cbn [map fst ack_table]. repeat constructor; cbn [In]; lia. Qed.
Lemma ack_table_vals_nodup : NoDup (map snd ack_table).
Proof. cbn [map snd ack_table]. repeat constructor; cbn [In]; intuition discriminate. Qed.
Lemma ack_table_covers : map snd ack_table = all_operations /\ length ack_table = 6%nat.
Proof. split; reflexivity. Qed.
Lemma all_operations_complete o : In o all_operations.
Proof. destruct o; cbn; tauto. Qed.

Lemma state_code_lookup s : lookup (state_code s) state_table = Some s.
Proof. destruct s; reflexivity. Qed.
Lemma request_code_lookup o : lookup (request_code o) request_table = Some o.
Proof. destruct o; reflexivity. Qed.
Lemma ack_code_lookup o : lookup (ack_code o) ack_table = Some o.
Proof. destruct o; reflexivity. Qed.

(* Exactness of the three code maps (both directions). *)
Lemma state_of_code_iff b s : state_of_code b = Some s <-> b = state_code s.
Proof.
  split.
  - unfold state_of_code. eqb_cases; intros H; inversion H; reflexivity.
  - intros ->. destruct s; reflexivity.
Qed.
Lemma request_of_code_iff b o : request_of_code b = Some o <-> b = request_code o.
Proof.
  split.
  - unfold request_of_code. eqb_cases; intros H; inversion H; reflexivity.
  - intros ->. destruct o; reflexivity.
Qed.
Lemma ack_of_code_iff b o : ack_of_code b = Some o <-> b = ack_code o.
Proof.
  split.
  - unfold ack_of_code. eqb_cases; intros H; inversion H; reflexivity.
  - intros ->. destruct o; reflexivity.
Qed.

(* ------------------------------------------------------------------ *)
(* C04: Frame -> Message -> Frame                                      *)
(* ------------------------------------------------------------------ *)

(* Unfold msg_of_frame on a destructed frame and split on the shape of the data. *)
Ltac mof_cases f :=
  let a := fresh "a" in let t := fresh "t" in let d := fresh "d" in
  let b := fresh "b" in let c := fresh "c" in
  destruct f as [a t d]; unfold msg_of_frame; cbn [f_addr f_type f_data];
  destruct d as [|b [|c d]].

Lemma frame_msg_frame f : frame_of_msg (msg_of_frame f) = f.
Proof.
  mof_cases f; eqb_cases; try reflexivity.
  - destruct (state_of_code b) as [s|] eqn:Hs; [|reflexivity].
    apply state_of_code_iff in Hs. subst b. reflexivity.
  - destruct (request_of_code b) as [o|] eqn:Ho; [|reflexivity].
    apply request_of_code_iff in Ho. subst b. reflexivity.
  - destruct (ack_of_code b) as [o|] eqn:Ho; [|reflexivity].
    apply ack_of_code_iff in Ho. subst b. reflexivity.
Qed.

Lemma msg_of_frame_table f :
  msg_of_frame f = match table_msg f with Some m => m | None => Unknown f end.
Proof.
  mof_cases f; unfold table_msg; cbn [f_addr f_type f_data]; eqb_cases; try reflexivity.
  - rewrite state_of_code_lookup. destruct (lookup b state_table); reflexivity.
  - rewrite request_of_code_lookup. destruct (lookup b request_table); reflexivity.
  - rewrite ack_of_code_lookup. destruct (lookup b ack_table); reflexivity.
Qed.

Lemma table_msg_specific f m : table_msg f = Some m -> specific m.
Proof.
  destruct f as [a t d]. unfold table_msg; cbn [f_addr f_type f_data].
  destruct d as [|b [|c d]]; eqb_cases; intros H;
    repeat match type of H with
           | option_map _ ?x = _ => destruct x; cbn [option_map] in H
           end;
    inversion H; exact I.
Qed.

Lemma specific_iff_table f : specific (msg_of_frame f) <-> exists m, table_msg f = Some m.
Proof.
  rewrite msg_of_frame_table. destruct (table_msg f) as [m|] eqn:Ht.
  - split; [eauto|intros _; eapply table_msg_specific; eassumption].
  - cbn [specific]. split; [intros []|intros [m Hm]; discriminate].
Qed.

Lemma recognised_iff_table f : recognised f <-> exists m, table_msg f = Some m.
Proof.
  destruct f as [a t d]. unfold recognised, table_msg. cbn [f_addr f_type f_data].
  split.
  - intros [Ht|[[Ht Hd]|[[Ht [b [Hd Hb]]]|[[Ht [b [Hd Hb]]]|[[Ht [b [Hd Hb]]]|[[Ht [b [Hd Hb]]]|[Ht Hd]]]]]]];
      subst t; try subst d.
    + eqb_cases. eauto.
    + eqb_cases. eauto.
    + cbn [In] in Hb. destruct Hb as [Hb|[Hb|[Hb|[]]]]; subst b; eqb_cases; eauto.
    + apply lookup_in_fst in Hb. destruct Hb as [o Ho]. rewrite Ho. eqb_cases. cbn; eauto.
    + apply lookup_in_fst in Hb. destruct Hb as [o Ho]. rewrite Ho. eqb_cases. cbn; eauto.
    + apply lookup_in_fst in Hb. destruct Hb as [s Hs]. rewrite Hs. eqb_cases. cbn; eauto.
    + eqb_cases. eauto.
  - intros [m Hm]. revert Hm.
    destruct (N.eqb_spec t 0) as [->|Ht0]; [intros _; left; reflexivity|].
    destruct d as [|b [|c d]].
    + destruct (N.eqb_spec t 1) as [->|Ht1]; [intros _|discriminate].
      right; left; split; reflexivity.
    + destruct (N.eqb_spec t 2) as [->|Ht2].
      { intros Hm. right; right; left. split; [reflexivity|]. exists b. split; [reflexivity|].
        cbn [In]. revert Hm. eqb_cases; try discriminate; tauto. }
      destruct (N.eqb_spec t 3) as [->|Ht3].
      { intros Hm. right; right; right; left. split; [reflexivity|]. exists b. split; [reflexivity|].
        apply lookup_in_fst. destruct (lookup b request_table); [eauto|discriminate]. }
      destruct (N.eqb_spec t 5) as [->|Ht5].
      { intros Hm. right; right; right; right; left. split; [reflexivity|]. exists b.
        split; [reflexivity|].
        apply lookup_in_fst. destruct (lookup b ack_table); [eauto|discriminate]. }
      destruct (N.eqb_spec t 4) as [->|Ht4].
      { intros Hm. right; right; right; right; right; left. split; [reflexivity|]. exists b.
        split; [reflexivity|].
        apply lookup_in_fst. destruct (lookup b state_table); [eauto|discriminate]. }
      destruct (N.eqb_spec t 6) as [->|Ht6]; [|discriminate].
      destruct (N.eqb_spec b 0) as [->|Hb0]; [|discriminate].
      intros _. right; right; right; right; right; right. split; reflexivity.
    + discriminate.
Qed.

Lemma specific_iff_recognised f : specific (msg_of_frame f) <-> recognised f.
Proof. rewrite specific_iff_table, recognised_iff_table. reflexivity. Qed.

Lemma unknown_is_same f g : msg_of_frame f = Unknown g -> g = f.
Proof.
  intros H. rewrite <- (frame_msg_frame f). rewrite H. reflexivity.
Qed.

Lemma msg_addr_of_frame f : msg_addr (msg_of_frame f) = f_addr f.
Proof.
  mof_cases f; eqb_cases; try reflexivity.
  - destruct (state_of_code b); reflexivity.
  - destruct (request_of_code b); reflexivity.
  - destruct (ack_of_code b); reflexivity.
Qed.

Lemma wf_frame_parts f :
  wf_frame f <->
  is_u16 (f_addr f) = true /\ is_u8 (f_type f) = true /\ bytesb (f_data f) = true
  /\ (nlen (f_data f) <=? 255) = true.
Proof.
  unfold wf_frame, wf_frameb. rewrite !andb_true_iff. tauto.
Qed.

Lemma wf_msg_of_frame f : wf_frame f -> wf_msg (msg_of_frame f).
Proof.
  intros Hwf. pose proof Hwf as Hparts. apply wf_frame_parts in Hparts.
  destruct Hparts as (Ha & Ht & Hd & Hl). revert Hwf Ha Ht Hd Hl.
  mof_cases f; cbn [f_addr f_type f_data]; intros Hwf Ha Ht Hd Hl; eqb_cases;
    repeat match goal with
           | |- context [match ?x with Some _ => _ | None => _ end] => destruct x
           end;
    unfold wf_msg; cbn [wf_msgb];
    try exact Hwf; try exact Ha;
    rewrite Ha, Hd, Hl; reflexivity.
Qed.

Lemma state_code_u8 s : is_u8 (state_code s) = true.
Proof. destruct s; reflexivity. Qed.
Lemma request_code_u8 o : is_u8 (request_code o) = true.
Proof. destruct o; reflexivity. Qed.
Lemma ack_code_u8 o : is_u8 (ack_code o) = true.
Proof. destruct o; reflexivity. Qed.

Lemma wf_frame_of_msg m : wf_msg m -> wf_frame (frame_of_msg m).
Proof.
  unfold wf_msg, wf_frame.
  destruct m as [off d|n|a|a|a s|a o|a o|a|a|f]; cbn [wf_msgb frame_of_msg]; intros H;
    try exact H; unfold wf_frameb, mkframe; cbn [f_addr f_type f_data].
  - rewrite !andb_true_iff in H. destruct H as [[H1 H2] H3]. rewrite H1, H2, H3. reflexivity.
  - rewrite H. reflexivity.
  - rewrite H. reflexivity.
  - rewrite H. reflexivity.
  - rewrite H. unfold bytesb. cbn [forallb]. rewrite state_code_u8. reflexivity.
  - rewrite H. unfold bytesb. cbn [forallb]. rewrite request_code_u8. reflexivity.
  - rewrite H. unfold bytesb. cbn [forallb]. rewrite ack_code_u8. reflexivity.
  - rewrite H. reflexivity.
  - rewrite H. reflexivity.
Qed.

(* ------------------------------------------------------------------ *)
(* C05: Message -> Frame -> wire -> Frame -> Message                   *)
(* ------------------------------------------------------------------ *)

(* No well-formedness is needed for the conversion pair itself. *)
Lemma msg_frame_msg m : specific m -> msg_of_frame (frame_of_msg m) = m.
Proof.
  destruct m as [off d|n|a|a|a s|a o|a o|a|a|f]; cbn [specific]; intros Hs;
    try contradiction; try reflexivity.
  - unfold msg_of_frame. cbn [frame_of_msg mkframe f_addr f_type f_data].
    destruct d as [|b [|c d]]; reflexivity.
  - destruct s; reflexivity.
  - destruct o; reflexivity.
  - destruct o; reflexivity.
Qed.

Lemma frame_of_msg_inj m1 m2 :
  specific m1 -> specific m2 -> frame_of_msg m1 = frame_of_msg m2 -> m1 = m2.
Proof.
  intros H1 H2 Heq. rewrite <- (msg_frame_msg m1 H1), <- (msg_frame_msg m2 H2), Heq. reflexivity.
Qed.

(* What the receiving end reconstructs from the bytes the sender writes. *)
Definition wire_trip (nl : bool) (m : msg) : option msg :=
  match decode ((if nl then encode_nl else encode) (frame_of_msg m)) with
  | Ok f => Some (msg_of_frame f)
  | Err _ => None
  end.

Section WithCodec.
  (* Supplied by FrameP (property C01); instantiated in props/C05.v. *)
  Hypothesis codec_roundtrip :
    forall f, wf_frame f -> decode (encode f) = Ok f /\ decode (encode_nl f) = Ok f.

  Lemma wire_trip_roundtrip m nl : specific m -> wf_msg m -> wire_trip nl m = Some m.
  Proof.
    intros Hs Hwf. unfold wire_trip.
    destruct (codec_roundtrip _ (wf_frame_of_msg m Hwf)) as [He Hn].
    destruct nl; [rewrite Hn|rewrite He]; rewrite (msg_frame_msg m Hs); reflexivity.
  Qed.

  Lemma wire_injective m1 m2 :
    specific m1 -> specific m2 -> wf_msg m1 -> wf_msg m2 ->
    (encode (frame_of_msg m1) = encode (frame_of_msg m2)
     \/ encode_nl (frame_of_msg m1) = encode_nl (frame_of_msg m2)) ->
    m1 = m2.
  Proof.
    intros Hs1 Hs2 Hw1 Hw2 Heq.
    destruct (codec_roundtrip _ (wf_frame_of_msg m1 Hw1)) as [He1 Hn1].
    destruct (codec_roundtrip _ (wf_frame_of_msg m2 Hw2)) as [He2 Hn2].
    apply frame_of_msg_inj; [exact Hs1|exact Hs2|].
    destruct Heq as [Heq|Heq].
    - rewrite Heq in He1. rewrite He1 in He2. inversion He2. reflexivity.
    - rewrite Heq in Hn1. rewrite Hn1 in Hn2. inversion Hn2. reflexivity.
  Qed.
End WithCodec.
