(* PageP.v — toolkit and proofs about the page model (Page.v) against Bitmap.v.
   Properties C06 and C07 are restated in props/C06.v and props/C07.v. *)
From Flipdot Require Import Tactics.
From Flipdot Require Import Base Page Bitmap.
Local Open Scope N_scope.

(* ------------------------------------------------------------------------- *)
(** * Arithmetic of bpc / data_bytes / total_bytes *)

Lemma bpc_div h y : y < h -> y / 8 < bpc h.
Proof. unfold bpc. intros Hy. lia. Qed.

Lemma bpc_bound h : h < 4294967296 -> bpc h <= 536870912.
Proof. unfold bpc. intros Hh. lia. Qed.

Lemma data_bytes_ge4 w h : 4 <= data_bytes w h.
Proof. unfold data_bytes. lia. Qed.

Lemma data_bytes_sub4 w h : data_bytes w h - 4 = w * bpc h.
Proof. unfold data_bytes. lia. Qed.

Lemma total_bytes_mod16 w h : total_bytes w h mod 16 = 0.
Proof. unfold total_bytes. generalize (data_bytes w h). intros d. lia. Qed.

Lemma data_le_total w h : data_bytes w h <= total_bytes w h.
Proof. unfold total_bytes. generalize (data_bytes w h). intros d. lia. Qed.

Lemma total_lt_data16 w h : total_bytes w h < data_bytes w h + 16.
Proof. unfold total_bytes. generalize (data_bytes w h). intros d. lia. Qed.

Lemma total_bytes_ge16 w h : 16 <= total_bytes w h.
Proof.
  pose proof (data_bytes_ge4 w h) as H4. revert H4.
  unfold total_bytes. generalize (data_bytes w h). intros d H4. lia.
Qed.

(* total_bytes is the least multiple of 16 that is >= data_bytes. *)
Lemma total_bytes_least w h m : m mod 16 = 0 -> data_bytes w h <= m -> total_bytes w h <= m.
Proof.
  unfold total_bytes. generalize (data_bytes w h). intros d Hm Hd. lia.
Qed.

Lemma data_bytes_bound w h :
  w < 4294967296 -> h < 4294967296 -> data_bytes w h <= 4 + 4294967295 * 536870912.
Proof.
  intros Hw Hh. unfold data_bytes. pose proof (bpc_bound h Hh) as HB.
  assert (Hm : w * bpc h <= 4294967295 * 536870912).
  { apply N.mul_le_mono; lia. }
  lia.
Qed.

Lemma total_bytes_bound w h :
  w < 4294967296 -> h < 4294967296 -> total_bytes w h < 4611686018427387904.
Proof.
  intros Hw Hh. pose proof (data_bytes_bound w h Hw Hh) as Hd.
  pose proof (total_lt_data16 w h) as Ht. lia.
Qed.

Lemma index_lt w h x y : x < w -> y < h -> 4 + x * bpc h + y / 8 < data_bytes w h.
Proof.
  intros Hx Hy. pose proof (bpc_div h y Hy) as Hb. unfold data_bytes.
  assert (Hm : (x + 1) * bpc h <= w * bpc h) by (apply N.mul_le_mono_r; lia).
  lia.
Qed.

Lemma index_ge4 h x y : 4 <= 4 + x * bpc h + y / 8.
Proof. lia. Qed.

(* Mixed-radix uniqueness of (byte index, bit index). *)
Lemma index_inj_raw B x y x' y' :
  y / 8 < B -> y' / 8 < B ->
  4 + x * B + y / 8 = 4 + x' * B + y' / 8 -> y mod 8 = y' mod 8 ->
  x = x' /\ y = y'.
Proof.
  intros Hy Hy' Hi Hb.
  assert (Hx : x = x').
  { destruct (N.lt_trichotomy x x') as [Hlt | [Heq | Hgt]]; [exfalso | exact Heq | exfalso].
    - assert (Hm : (x + 1) * B <= x' * B) by (apply N.mul_le_mono_r; lia). lia.
    - assert (Hm : (x' + 1) * B <= x * B) by (apply N.mul_le_mono_r; lia). lia. }
  split; [exact Hx|]. subst x'. lia.
Qed.

Lemma index_inj_arith w h x y x' y' :
  x < w -> y < h -> x' < w -> y' < h ->
  4 + x * bpc h + y / 8 = 4 + x' * bpc h + y' / 8 -> y mod 8 = y' mod 8 ->
  x = x' /\ y = y'.
Proof.
  intros _ Hy _ Hy'. apply index_inj_raw; apply bpc_div; assumption.
Qed.

(* ------------------------------------------------------------------------- *)
(** * Lists: repeatN, set_nth, firstn/skipn, forallb *)

Lemma repeatN_length {A} (x : A) n : length (repeatN x n) = N.to_nat n.
Proof. unfold repeatN. apply repeat_length. Qed.

Lemma repeatN_nlen {A} (x : A) n : nlen (repeatN x n) = n.
Proof. unfold nlen. rewrite repeatN_length. lia. Qed.

Lemma nth_error_repeat' {A} (x : A) n i : (i < n)%nat -> nth_error (repeat x n) i = Some x.
Proof.
  revert i. induction n as [|n IH]; intros i Hi; [lia|].
  destruct i as [|i]; cbn [repeat nth_error]; [reflexivity|]. apply IH. lia.
Qed.

Lemma repeatN_nth {A} (x : A) n i : (i < N.to_nat n)%nat -> nth_error (repeatN x n) i = Some x.
Proof. unfold repeatN. apply nth_error_repeat'. Qed.

Lemma forallb_repeat {A} (P : A -> bool) x n : P x = true -> forallb P (repeat x n) = true.
Proof.
  intros Hx. induction n as [|n IH]; cbn [repeat forallb]; [reflexivity|].
  rewrite Hx, IH. reflexivity.
Qed.

Lemma forallb_repeatN {A} (P : A -> bool) x n : P x = true -> forallb P (repeatN x n) = true.
Proof. unfold repeatN. apply forallb_repeat. Qed.

Lemma forallb_firstn {A} (P : A -> bool) n l : forallb P l = true -> forallb P (firstn n l) = true.
Proof.
  revert l. induction n as [|n IH]; intros l Hl; [reflexivity|].
  destruct l as [|a l]; [reflexivity|]. cbn [firstn forallb] in *.
  apply andb_true_iff in Hl. destruct Hl as [Ha Hl]. rewrite Ha, (IH l Hl). reflexivity.
Qed.

Lemma forallb_skipn {A} (P : A -> bool) n l : forallb P l = true -> forallb P (skipn n l) = true.
Proof.
  revert l. induction n as [|n IH]; intros l Hl; [exact Hl|].
  destruct l as [|a l]; [reflexivity|]. cbn [skipn forallb] in *.
  apply andb_true_iff in Hl. destruct Hl as [Ha Hl]. exact (IH l Hl).
Qed.

Lemma forallb_nth_error {A} (P : A -> bool) l i x :
  forallb P l = true -> nth_error l i = Some x -> P x = true.
Proof.
  intros Hl Hn. rewrite forallb_forall in Hl. apply Hl. eapply nth_error_In. exact Hn.
Qed.

Lemma firstn_app_exact {A} n (l1 l2 : list A) : length l1 = n -> firstn n (l1 ++ l2) = l1.
Proof.
  intros <-. rewrite firstn_app, Nat.sub_diag, firstn_all. cbn [firstn]. apply app_nil_r.
Qed.

Lemma skipn_app_exact {A} n (l1 l2 : list A) : length l1 = n -> skipn n (l1 ++ l2) = l2.
Proof.
  intros <-. rewrite skipn_app, Nat.sub_diag, skipn_all. reflexivity.
Qed.

Lemma set_nth_Some {A} i (x : A) l : (i < length l)%nat -> exists l', set_nth i x l = Some l'.
Proof.
  revert i. induction l as [|a l IH]; intros i Hi; cbn [length] in Hi; [lia|].
  destruct i as [|i]; cbn [set_nth]; [eexists; reflexivity|].
  destruct (IH i) as [l' Hl']; [lia|]. rewrite Hl'. eexists; reflexivity.
Qed.

Lemma set_nth_lt {A} i (x : A) l l' : set_nth i x l = Some l' -> (i < length l)%nat.
Proof.
  revert i l'. induction l as [|a l IH]; intros i l' H; [destruct i; discriminate|].
  destruct i as [|i]; cbn [set_nth length] in *; [lia|].
  destruct (set_nth i x l) as [t|] eqn:E; [|discriminate].
  specialize (IH i t E). lia.
Qed.

Lemma set_nth_Some_iff {A} i (x : A) l : (exists l', set_nth i x l = Some l') <-> (i < length l)%nat.
Proof.
  split; [intros [l' H]; eapply set_nth_lt; exact H | apply set_nth_Some].
Qed.

Lemma set_nth_None_iff {A} i (x : A) l : set_nth i x l = None <-> (length l <= i)%nat.
Proof.
  split.
  - intros H. destruct (Nat.lt_ge_cases i (length l)) as [Hlt|Hge]; [|exact Hge].
    destruct (set_nth_Some i x l Hlt) as [l' Hl']. congruence.
  - intros H. destruct (set_nth i x l) as [l'|] eqn:E; [|reflexivity].
    apply set_nth_lt in E. lia.
Qed.

Lemma set_nth_length {A} i (x : A) l l' : set_nth i x l = Some l' -> length l' = length l.
Proof.
  revert i l'. induction l as [|a l IH]; intros i l' H; [destruct i; discriminate|].
  destruct i as [|i]; cbn [set_nth] in H.
  - injection H as <-. reflexivity.
  - destruct (set_nth i x l) as [t|] eqn:E; [|discriminate]. injection H as <-.
    cbn [length]. f_equal. exact (IH i t E).
Qed.

Lemma set_nth_nlen {A} i (x : A) l l' : set_nth i x l = Some l' -> nlen l' = nlen l.
Proof. intros H. unfold nlen. rewrite (set_nth_length _ _ _ _ H). reflexivity. Qed.

Lemma set_nth_same {A} i (x : A) l l' : set_nth i x l = Some l' -> nth_error l' i = Some x.
Proof.
  revert i l'. induction l as [|a l IH]; intros i l' H; [destruct i; discriminate|].
  destruct i as [|i]; cbn [set_nth] in H.
  - injection H as <-. reflexivity.
  - destruct (set_nth i x l) as [t|] eqn:E; [|discriminate]. injection H as <-.
    cbn [nth_error]. exact (IH i t E).
Qed.

Lemma set_nth_other {A} i (x : A) l l' j :
  set_nth i x l = Some l' -> j <> i -> nth_error l' j = nth_error l j.
Proof.
  revert i l' j. induction l as [|a l IH]; intros i l' j H Hj; [destruct i; discriminate|].
  destruct i as [|i]; cbn [set_nth] in H.
  - injection H as <-. destruct j as [|j]; [congruence|reflexivity].
  - destruct (set_nth i x l) as [t|] eqn:E; [|discriminate]. injection H as <-.
    destruct j as [|j]; [reflexivity|]. cbn [nth_error]. apply (IH i t j E). congruence.
Qed.

Lemma set_nth_firstn {A} i (x : A) l l' n :
  set_nth i x l = Some l' -> (n <= i)%nat -> firstn n l' = firstn n l.
Proof.
  revert i l' n. induction l as [|a l IH]; intros i l' n H Hn; [destruct i; discriminate|].
  destruct i as [|i]; cbn [set_nth] in H.
  - assert (n = 0%nat) by lia. subst n. reflexivity.
  - destruct (set_nth i x l) as [t|] eqn:E; [|discriminate]. injection H as <-.
    destruct n as [|n]; [reflexivity|]. cbn [firstn]. f_equal. apply (IH i t n E). lia.
Qed.

Lemma set_nth_skipn {A} i (x : A) l l' n :
  set_nth i x l = Some l' -> (i < n)%nat -> skipn n l' = skipn n l.
Proof.
  revert i l' n. induction l as [|a l IH]; intros i l' n H Hn; [destruct i; discriminate|].
  destruct n as [|n]; [lia|].
  destruct i as [|i]; cbn [set_nth] in H.
  - injection H as <-. reflexivity.
  - destruct (set_nth i x l) as [t|] eqn:E; [|discriminate]. injection H as <-.
    cbn [skipn]. apply (IH i t n E). lia.
Qed.

Lemma set_nth_forallb {A} (P : A -> bool) i x l l' :
  forallb P l = true -> P x = true -> set_nth i x l = Some l' -> forallb P l' = true.
Proof.
  revert i l'. induction l as [|a l IH]; intros i l' Hl Hx H; [destruct i; discriminate|].
  cbn [forallb] in Hl. apply andb_true_iff in Hl. destruct Hl as [Ha Hl].
  destruct i as [|i]; cbn [set_nth] in H.
  - injection H as <-. cbn [forallb]. rewrite Hx, Hl. reflexivity.
  - destruct (set_nth i x l) as [t|] eqn:E; [|discriminate]. injection H as <-.
    cbn [forallb]. rewrite Ha, (IH i t Hl Hx E). reflexivity.
Qed.

Lemma nth_error_Some_lt {A} (l : list A) i : (i < length l)%nat -> exists x, nth_error l i = Some x.
Proof.
  intros Hi. destruct (nth_error l i) as [x|] eqn:E; [eexists; reflexivity|].
  apply nth_error_None in E. lia.
Qed.

(* ------------------------------------------------------------------------- *)
(** * Byte / bit facts: finite sweep over b < 256, k < 8, k' < 8 *)

Definition bit_factsb (b k k' : N) : bool :=
  let m := N.shiftl 1 k in
  let m' := N.shiftl 1 k' in
  let bs := N.lor b m in
  let bc := N.land b (N.lxor 255 m) in
  (N.land bs m =? m)
  && negb (N.land bc m =? m)
  && (bs <? 256) && (bc <? 256)
  && (if k' =? k then true
      else Bool.eqb (N.land bs m' =? m') (N.land b m' =? m')
           && Bool.eqb (N.land bc m' =? m') (N.land b m' =? m'))
  && Bool.eqb (N.land b m =? m) (N.testbit b k).

Lemma bit_facts_sweep :
  nrangeb 256 (fun b => nrangeb 8 (fun k => nrangeb 8 (fun k' => bit_factsb b k k'))) = true.
Proof. vm_compute. reflexivity. Qed.

Lemma bit_facts b k k' : b < 256 -> k < 8 -> k' < 8 -> bit_factsb b k k' = true.
Proof.
  intros Hb Hk Hk'.
  pose proof (nrangeb_spec 256 _ bit_facts_sweep b Hb) as H1. cbv beta in H1.
  pose proof (nrangeb_spec 8 _ H1 k Hk) as H2. cbv beta in H2.
  exact (nrangeb_spec 8 _ H2 k' Hk').
Qed.

Lemma bit_facts_inv b k k' : b < 256 -> k < 8 -> k' < 8 ->
  (N.land (N.lor b (N.shiftl 1 k)) (N.shiftl 1 k) =? N.shiftl 1 k) = true
  /\ (N.land (N.land b (N.lxor 255 (N.shiftl 1 k))) (N.shiftl 1 k) =? N.shiftl 1 k) = false
  /\ N.lor b (N.shiftl 1 k) < 256
  /\ N.land b (N.lxor 255 (N.shiftl 1 k)) < 256
  /\ (k' <> k ->
      (N.land (N.lor b (N.shiftl 1 k)) (N.shiftl 1 k') =? N.shiftl 1 k')
        = (N.land b (N.shiftl 1 k') =? N.shiftl 1 k')
      /\ (N.land (N.land b (N.lxor 255 (N.shiftl 1 k))) (N.shiftl 1 k') =? N.shiftl 1 k')
        = (N.land b (N.shiftl 1 k') =? N.shiftl 1 k'))
  /\ (N.land b (N.shiftl 1 k) =? N.shiftl 1 k) = N.testbit b k.
Proof.
  intros Hb Hk Hk'. pose proof (bit_facts b k k' Hb Hk Hk') as H.
  unfold bit_factsb in H. cbv zeta in H.
  repeat (apply andb_true_iff in H; let H' := fresh "H" in destruct H as [H H']).
  repeat split.
  - assumption.
  - apply negb_true_iff. assumption.
  - apply N.ltb_lt. assumption.
  - apply N.ltb_lt. assumption.
  - destruct (N.eqb_spec k' k) as [E|E]; [congruence|].
    match goal with X : (_ && _)%bool = true |- _ => apply andb_true_iff in X; destruct X as [X _];
      apply eqb_prop in X; exact X end.
  - destruct (N.eqb_spec k' k) as [E|E]; [congruence|].
    match goal with X : (_ && _)%bool = true |- _ => apply andb_true_iff in X; destruct X as [_ X];
      apply eqb_prop in X; exact X end.
  - apply eqb_prop. assumption.
Qed.

Lemma bit_set_get b k : b < 256 -> k < 8 ->
  (N.land (N.lor b (N.shiftl 1 k)) (N.shiftl 1 k) =? N.shiftl 1 k) = true.
Proof. intros Hb Hk. apply (bit_facts_inv b k k Hb Hk Hk). Qed.

Lemma bit_clear_get b k : b < 256 -> k < 8 ->
  (N.land (N.land b (N.lxor 255 (N.shiftl 1 k))) (N.shiftl 1 k) =? N.shiftl 1 k) = false.
Proof. intros Hb Hk. apply (bit_facts_inv b k k Hb Hk Hk). Qed.

Lemma bit_set_lt b k : b < 256 -> k < 8 -> N.lor b (N.shiftl 1 k) < 256.
Proof. intros Hb Hk. apply (bit_facts_inv b k k Hb Hk Hk). Qed.

Lemma bit_clear_lt b k : b < 256 -> k < 8 -> N.land b (N.lxor 255 (N.shiftl 1 k)) < 256.
Proof. intros Hb Hk. apply (bit_facts_inv b k k Hb Hk Hk). Qed.

Lemma bit_set_other b k k' : b < 256 -> k < 8 -> k' < 8 -> k' <> k ->
  (N.land (N.lor b (N.shiftl 1 k)) (N.shiftl 1 k') =? N.shiftl 1 k')
  = (N.land b (N.shiftl 1 k') =? N.shiftl 1 k').
Proof. intros Hb Hk Hk' Hne. apply (bit_facts_inv b k k' Hb Hk Hk'). exact Hne. Qed.

Lemma bit_clear_other b k k' : b < 256 -> k < 8 -> k' < 8 -> k' <> k ->
  (N.land (N.land b (N.lxor 255 (N.shiftl 1 k))) (N.shiftl 1 k') =? N.shiftl 1 k')
  = (N.land b (N.shiftl 1 k') =? N.shiftl 1 k').
Proof. intros Hb Hk Hk' Hne. apply (bit_facts_inv b k k' Hb Hk Hk'). exact Hne. Qed.

Lemma bit_test b k : b < 256 -> k < 8 ->
  (N.land b (N.shiftl 1 k) =? N.shiftl 1 k) = N.testbit b k.
Proof. intros Hb Hk. apply (bit_facts_inv b k k Hb Hk Hk). Qed.

(* The byte written by set_pixel, as a function. *)
Definition put_bit (b k : N) (v : bool) : N :=
  if v then N.lor b (N.shiftl 1 k) else N.land b (N.lxor 255 (N.shiftl 1 k)).

Lemma put_bit_lt b k v : b < 256 -> k < 8 -> put_bit b k v < 256.
Proof. intros Hb Hk. destruct v; [apply bit_set_lt | apply bit_clear_lt]; assumption. Qed.

Lemma put_bit_get b k v : b < 256 -> k < 8 ->
  (N.land (put_bit b k v) (N.shiftl 1 k) =? N.shiftl 1 k) = v.
Proof. intros Hb Hk. destruct v; [apply bit_set_get | apply bit_clear_get]; assumption. Qed.

Lemma put_bit_other b k k' v : b < 256 -> k < 8 -> k' < 8 -> k' <> k ->
  (N.land (put_bit b k v) (N.shiftl 1 k') =? N.shiftl 1 k')
  = (N.land b (N.shiftl 1 k') =? N.shiftl 1 k').
Proof.
  intros Hb Hk Hk' Hne. destruct v; [apply bit_set_other | apply bit_clear_other]; assumption.
Qed.

Lemma testbit_255 k : k < 8 -> N.testbit 255 k = true.
Proof.
  intros Hk.
  assert (H : nrangeb 8 (fun k => N.testbit 255 k) = true) by (vm_compute; reflexivity).
  exact (nrangeb_spec 8 _ H k Hk).
Qed.

Lemma testbit_0 k : N.testbit 0 k = false.
Proof. apply N.bits_0. Qed.

(* ------------------------------------------------------------------------- *)
(** * Well-formed pages, index, get_pixel *)

Lemma wf_page_inv p : wf_page p ->
  p_w p < 4294967296 /\ p_h p < 4294967296 /\ bytesb (p_bytes p) = true
  /\ nlen (p_bytes p) = total_bytes (p_w p) (p_h p).
Proof.
  unfold wf_page, wf_pageb, is_u32. intros H.
  repeat (apply andb_true_iff in H; let H' := fresh "H" in destruct H as [H H']).
  repeat split; try (apply N.ltb_lt; assumption); try assumption.
  apply N.eqb_eq. assumption.
Qed.

Lemma wf_page_intro p :
  p_w p < 4294967296 -> p_h p < 4294967296 -> bytesb (p_bytes p) = true ->
  nlen (p_bytes p) = total_bytes (p_w p) (p_h p) -> wf_page p.
Proof.
  intros Hw Hh Hb Hl. unfold wf_page, wf_pageb, is_u32.
  apply N.ltb_lt in Hw. apply N.ltb_lt in Hh. apply N.eqb_eq in Hl.
  rewrite Hw, Hh, Hb, Hl. reflexivity.
Qed.

Lemma bytesb_nth l i b : bytesb l = true -> nth_error l i = Some b -> b < 256.
Proof.
  unfold bytesb. intros Hl Hn. apply N.ltb_lt.
  exact (forallb_nth_error is_u8 l i b Hl Hn).
Qed.

Lemma nlen_lt_length {A} (l : list A) i : i < nlen l -> (N.to_nat i < length l)%nat.
Proof. unfold nlen. lia. Qed.

Lemma index_in p x y : x < p_w p -> y < p_h p ->
  index p x y = Some (4 + x * bpc (p_h p) + y / 8, y mod 8).
Proof.
  intros Hx Hy. unfold index. apply N.ltb_lt in Hx. apply N.ltb_lt in Hy.
  rewrite Hx, Hy. reflexivity.
Qed.

Lemma index_out p x y : p_w p <= x \/ p_h p <= y -> index p x y = None.
Proof.
  intros H. unfold index.
  destruct (N.ltb_spec x (p_w p)) as [Hx|Hx]; destruct (N.ltb_spec y (p_h p)) as [Hy|Hy];
    cbn [andb]; try reflexivity. lia.
Qed.

Lemma index_None_iff p x y : index p x y = None <-> (p_w p <= x \/ p_h p <= y).
Proof.
  split; [|apply index_out]. unfold index.
  destruct (N.ltb_spec x (p_w p)) as [Hx|Hx]; destruct (N.ltb_spec y (p_h p)) as [Hy|Hy];
    cbn [andb]; intros H; try discriminate; lia.
Qed.

Lemma index_inj p x y x' y' :
  x < p_w p -> y < p_h p -> x' < p_w p -> y' < p_h p ->
  index p x y = index p x' y' -> x = x' /\ y = y'.
Proof.
  intros Hx Hy Hx' Hy' H. rewrite (index_in p x y Hx Hy), (index_in p x' y' Hx' Hy') in H.
  injection H as Hi Hb.
  exact (index_inj_arith (p_w p) (p_h p) x y x' y' Hx Hy Hx' Hy' Hi Hb).
Qed.

(* The byte index of an in-bounds pixel addresses an existing byte (< 256) of a wf page. *)
Lemma wf_index_byte p x y : wf_page p -> x < p_w p -> y < p_h p ->
  exists byte, nth_error (p_bytes p) (N.to_nat (4 + x * bpc (p_h p) + y / 8)) = Some byte
               /\ byte < 256.
Proof.
  intros Hwf Hx Hy. destruct (wf_page_inv p Hwf) as (Hw & Hh & Hb & Hl).
  pose proof (index_lt _ _ _ _ Hx Hy) as Hi. pose proof (data_le_total (p_w p) (p_h p)) as Hd.
  destruct (nth_error_Some_lt (p_bytes p) (N.to_nat (4 + x * bpc (p_h p) + y / 8))) as [byte Hn].
  { apply nlen_lt_length. lia. }
  exists byte. split; [exact Hn|]. exact (bytesb_nth _ _ _ Hb Hn).
Qed.

Lemma mod8_lt y : y mod 8 < 8.
Proof. lia. Qed.

Lemma get_pixel_in p x y : wf_page p -> x < p_w p -> y < p_h p ->
  exists byte, nth_error (p_bytes p) (N.to_nat (4 + x * bpc (p_h p) + y / 8)) = Some byte
               /\ byte < 256
               /\ get_pixel p x y = Some (N.testbit byte (y mod 8)).
Proof.
  intros Hwf Hx Hy. destruct (wf_index_byte p x y Hwf Hx Hy) as (byte & Hn & Hb).
  exists byte. split; [exact Hn|]. split; [exact Hb|].
  unfold get_pixel. rewrite (index_in p x y Hx Hy). cbv zeta. rewrite Hn.
  rewrite (bit_test byte (y mod 8) Hb (mod8_lt y)). reflexivity.
Qed.

Lemma get_pixel_out p x y : p_w p <= x \/ p_h p <= y -> get_pixel p x y = None.
Proof. intros H. unfold get_pixel. rewrite (index_out p x y H). reflexivity. Qed.

Lemma get_pixel_None_iff p x y : wf_page p ->
  (get_pixel p x y = None <-> (p_w p <= x \/ p_h p <= y)).
Proof.
  intros Hwf. split; [|apply get_pixel_out].
  intros H. destruct (N.lt_ge_cases x (p_w p)) as [Hx|Hx]; [|left; exact Hx].
  destruct (N.lt_ge_cases y (p_h p)) as [Hy|Hy]; [|right; exact Hy].
  destruct (get_pixel_in p x y Hwf Hx Hy) as (byte & _ & _ & Hg). congruence.
Qed.

(* get_pixel only depends on dimensions and the addressed byte. *)
Lemma get_pixel_ext p q x y :
  p_w q = p_w p -> p_h q = p_h p ->
  nth_error (p_bytes q) (N.to_nat (4 + x * bpc (p_h p) + y / 8))
  = nth_error (p_bytes p) (N.to_nat (4 + x * bpc (p_h p) + y / 8)) ->
  get_pixel q x y = get_pixel p x y.
Proof.
  intros Hw Hh Hn. unfold get_pixel, index. rewrite Hw, Hh.
  destruct ((x <? p_w p) && (y <? p_h p))%bool; [|reflexivity].
  cbv zeta. rewrite Hn. reflexivity.
Qed.

(* ------------------------------------------------------------------------- *)
(** * same_frame *)

Lemma same_frame_refl p : same_frame p p.
Proof. unfold same_frame. repeat split; reflexivity. Qed.

Lemma same_frame_trans p q r : same_frame p q -> same_frame q r -> same_frame p r.
Proof.
  unfold same_frame. intros (Hw1 & Hh1 & Hl1 & Hf1 & Hs1) (Hw2 & Hh2 & Hl2 & Hf2 & Hs2).
  rewrite Hw1, Hh1 in *. repeat split; congruence.
Qed.

(* ------------------------------------------------------------------------- *)
(** * set_pixel *)

(* Complete description of a successful set_pixel. *)
Lemma set_pixel_Some_inv p x y v p' : set_pixel p x y v = Some p' ->
  x < p_w p /\ y < p_h p /\
  exists byte bs,
    nth_error (p_bytes p) (N.to_nat (4 + x * bpc (p_h p) + y / 8)) = Some byte
    /\ set_nth (N.to_nat (4 + x * bpc (p_h p) + y / 8)) (put_bit byte (y mod 8) v) (p_bytes p) = Some bs
    /\ p' = {| p_w := p_w p; p_h := p_h p; p_bytes := bs |}.
Proof.
  unfold set_pixel. intros H.
  destruct (index p x y) as [[i b]|] eqn:Ei; [|discriminate].
  assert (Hxy : x < p_w p /\ y < p_h p).
  { destruct (N.lt_ge_cases x (p_w p)) as [Hx|Hx];
      [destruct (N.lt_ge_cases y (p_h p)) as [Hy|Hy]; [split; assumption|]|];
      rewrite index_out in Ei by (auto); discriminate. }
  destruct Hxy as [Hx Hy]. rewrite (index_in p x y Hx Hy) in Ei. injection Ei as <- <-.
  split; [exact Hx|]. split; [exact Hy|]. cbv zeta in H.
  destruct (nth_error (p_bytes p) _) as [byte|] eqn:En; [|discriminate].
  fold (put_bit byte (y mod 8) v) in H.
  destruct (set_nth _ _ (p_bytes p)) as [bs|] eqn:Es; [|discriminate].
  injection H as <-. exists byte, bs. repeat split; assumption.
Qed.

Lemma set_pixel_in p x y v : wf_page p -> x < p_w p -> y < p_h p ->
  exists byte bs,
    nth_error (p_bytes p) (N.to_nat (4 + x * bpc (p_h p) + y / 8)) = Some byte
    /\ byte < 256
    /\ set_nth (N.to_nat (4 + x * bpc (p_h p) + y / 8)) (put_bit byte (y mod 8) v) (p_bytes p) = Some bs
    /\ set_pixel p x y v = Some {| p_w := p_w p; p_h := p_h p; p_bytes := bs |}.
Proof.
  intros Hwf Hx Hy. destruct (wf_index_byte p x y Hwf Hx Hy) as (byte & Hn & Hb).
  destruct (set_nth_Some (N.to_nat (4 + x * bpc (p_h p) + y / 8))
              (put_bit byte (y mod 8) v) (p_bytes p)) as [bs Hs].
  { apply nth_error_Some. congruence. }
  exists byte, bs. split; [exact Hn|]. split; [exact Hb|]. split; [exact Hs|].
  unfold set_pixel. rewrite (index_in p x y Hx Hy). cbv zeta. rewrite Hn.
  fold (put_bit byte (y mod 8) v). rewrite Hs. reflexivity.
Qed.

Lemma set_pixel_out p x y v : p_w p <= x \/ p_h p <= y -> set_pixel p x y v = None.
Proof. intros H. unfold set_pixel. rewrite (index_out p x y H). reflexivity. Qed.

(* The byte-at-a-time view of set_pixel: exactly what set_pixel does to byte i, for every i, and the same panic. *)
Lemma set_pixel_byte_view_spec p x y v i : wf_page p ->
  set_pixel_byte_view (p_w p) (p_h p) x y v i (nth_error (p_bytes p) (N.to_nat i))
  = option_map (fun p' => nth_error (p_bytes p') (N.to_nat i)) (set_pixel p x y v).
Proof.
  intros Hwf. unfold set_pixel_byte_view.
  destruct (N.ltb_spec x (p_w p)) as [Hx|Hx]; [destruct (N.ltb_spec y (p_h p)) as [Hy|Hy]|]; cbn [andb].
  - destruct (set_pixel_in p x y v Hwf Hx Hy) as (byte & bs & Hn & Hb & Hs & ->). cbn [option_map p_bytes].
    f_equal. destruct (N.eqb_spec i (4 + x * bpc (p_h p) + y / 8)) as [->|Hi].
    + rewrite Hn. cbv zeta. fold (put_bit byte (y mod 8) v). symmetry. exact (set_nth_same _ _ _ _ Hs).
    + symmetry. apply (set_nth_other _ _ _ _ _ Hs). intros E. apply Hi. apply N2Nat.inj. exact E.
  - rewrite set_pixel_out by (right; exact Hy). reflexivity.
  - rewrite set_pixel_out by (left; exact Hx). reflexivity.
Qed.

Lemma zero_bytes_view_spec w h i :
  nth_error (repeatN 0 (total_bytes w h)) (N.to_nat i) = zero_bytes_view w h i.
Proof.
  unfold zero_bytes_view. destruct (N.ltb_spec i (total_bytes w h)) as [H|H].
  - apply repeatN_nth. lia.
  - apply nth_error_None. rewrite repeatN_length. lia.
Qed.

Lemma zero_page_wf w h : w < 4294967296 -> h < 4294967296 ->
  wf_page {| p_w := w; p_h := h; p_bytes := repeatN 0 (total_bytes w h) |}.
Proof.
  intros Hw Hh. unfold wf_page, wf_pageb, is_u32. cbn [p_w p_h p_bytes].
  rewrite repeatN_nlen, N.eqb_refl.
  destruct (N.ltb_spec w 4294967296); [|lia]. destruct (N.ltb_spec h 4294967296); [|lia].
  cbn [andb]. rewrite Bool.andb_true_r. apply forallb_repeatN. reflexivity.
Qed.


Lemma set_pixel_None_iff p x y v : wf_page p ->
  (set_pixel p x y v = None <-> (p_w p <= x \/ p_h p <= y)).
Proof.
  intros Hwf. split; [|apply set_pixel_out].
  intros H. destruct (N.lt_ge_cases x (p_w p)) as [Hx|Hx]; [|left; exact Hx].
  destruct (N.lt_ge_cases y (p_h p)) as [Hy|Hy]; [|right; exact Hy].
  destruct (set_pixel_in p x y v Hwf Hx Hy) as (byte & bs & _ & _ & _ & Hs). congruence.
Qed.

Lemma set_pixel_wf p x y v p' : wf_page p -> set_pixel p x y v = Some p' -> wf_page p'.
Proof.
  intros Hwf H. destruct (set_pixel_Some_inv p x y v p' H) as (Hx & Hy & byte & bs & Hn & Hs & ->).
  destruct (wf_page_inv p Hwf) as (Hw & Hh & Hb & Hl).
  apply wf_page_intro; cbn [p_w p_h p_bytes]; try assumption.
  - unfold bytesb. apply (set_nth_forallb is_u8 _ _ _ _ Hb) in Hs; [exact Hs|].
    apply N.ltb_lt. apply put_bit_lt; [exact (bytesb_nth _ _ _ Hb Hn) | apply mod8_lt].
  - rewrite (set_nth_nlen _ _ _ _ Hs). exact Hl.
Qed.

Lemma set_pixel_get_same p x y v p' : wf_page p -> set_pixel p x y v = Some p' ->
  get_pixel p' x y = Some v.
Proof.
  intros Hwf H. destruct (set_pixel_Some_inv p x y v p' H) as (Hx & Hy & byte & bs & Hn & Hs & ->).
  destruct (wf_page_inv p Hwf) as (Hw & Hh & Hb & Hl).
  unfold get_pixel. rewrite index_in by (cbn [p_w p_h]; assumption). cbn [p_w p_h p_bytes]. cbv zeta.
  rewrite (set_nth_same _ _ _ _ Hs).
  rewrite put_bit_get; [reflexivity | exact (bytesb_nth _ _ _ Hb Hn) | apply mod8_lt].
Qed.

Lemma set_pixel_get_other p p' x y v x' y' :
  wf_page p -> set_pixel p x y v = Some p' -> (x', y') <> (x, y) ->
  get_pixel p' x' y' = get_pixel p x' y'.
Proof.
  intros Hwf H Hne.
  destruct (set_pixel_Some_inv p x y v p' H) as (Hx & Hy & byte & bs & Hn & Hs & ->).
  destruct (wf_page_inv p Hwf) as (Hw & Hh & Hb & Hl).
  destruct (N.lt_ge_cases x' (p_w p)) as [Hx'|Hx'];
    [|rewrite !get_pixel_out by (cbn [p_w p_h]; auto); reflexivity].
  destruct (N.lt_ge_cases y' (p_h p)) as [Hy'|Hy'];
    [|rewrite !get_pixel_out by (cbn [p_w p_h]; auto); reflexivity].
  destruct (N.eq_dec (4 + x' * bpc (p_h p) + y' / 8) (4 + x * bpc (p_h p) + y / 8)) as [Ei|Ei].
  - (* same byte, different bit *)
    assert (Hbit : y' mod 8 <> y mod 8).
    { intros Eb. destruct (index_inj_arith _ _ _ _ _ _ Hx' Hy' Hx Hy Ei Eb). congruence. }
    unfold get_pixel. rewrite !index_in by (cbn [p_w p_h]; assumption).
    cbn [p_w p_h p_bytes]. cbv zeta. rewrite Ei, (set_nth_same _ _ _ _ Hs), Hn.
    rewrite put_bit_other; [reflexivity | exact (bytesb_nth _ _ _ Hb Hn) | apply mod8_lt
                            | apply mod8_lt | exact Hbit].
  - (* different byte *)
    apply get_pixel_ext; cbn [p_w p_h p_bytes]; try reflexivity.
    apply (set_nth_other _ _ _ _ _ Hs). lia.
Qed.

Lemma set_pixel_frame p p' x y v : wf_page p -> set_pixel p x y v = Some p' ->
  same_frame p p' /\ page_id p' = page_id p
  /\ (forall i, i <> N.to_nat (4 + x * bpc (p_h p) + y / 8) ->
                nth_error (p_bytes p') i = nth_error (p_bytes p) i).
Proof.
  intros Hwf H.
  destruct (set_pixel_Some_inv p x y v p' H) as (Hx & Hy & byte & bs & Hn & Hs & ->).
  pose proof (index_lt _ _ _ _ Hx Hy) as Hi.
  split; [|split].
  - unfold same_frame. cbn [p_w p_h p_bytes]. repeat split.
    + exact (set_nth_length _ _ _ _ Hs).
    + apply (set_nth_firstn _ _ _ _ _ Hs). lia.
    + apply (set_nth_skipn _ _ _ _ _ Hs). lia.
  - unfold page_id. cbn [p_bytes]. apply (set_nth_other _ _ _ _ _ Hs). lia.
  - intros i Hne. cbn [p_bytes]. exact (set_nth_other _ _ _ _ _ Hs Hne).
Qed.

(* ------------------------------------------------------------------------- *)
(** * set_all_pixels *)

Definition fill_byte (v : bool) : N := if v then 255 else 0.

Lemma fill_byte_lt v : fill_byte v < 256.
Proof. destruct v; cbn [fill_byte]; lia. Qed.

Lemma fill_byte_testbit v k : k < 8 -> N.testbit (fill_byte v) k = v.
Proof. intros Hk. destruct v; cbn [fill_byte]; [apply testbit_255; exact Hk | apply testbit_0]. Qed.

Definition fill_bytes (p : page) (v : bool) : list N :=
  firstn 4 (p_bytes p)
  ++ repeatN (fill_byte v) (data_bytes (p_w p) (p_h p) - 4)
  ++ skipn (N.to_nat (data_bytes (p_w p) (p_h p))) (p_bytes p).

Lemma set_all_pixels_eq p v : wf_page p ->
  set_all_pixels p v = Some {| p_w := p_w p; p_h := p_h p; p_bytes := fill_bytes p v |}.
Proof.
  intros Hwf. destruct (wf_page_inv p Hwf) as (Hw & Hh & Hb & Hl).
  pose proof (data_le_total (p_w p) (p_h p)) as Hd.
  unfold set_all_pixels. cbv zeta.
  destruct (N.leb_spec (data_bytes (p_w p) (p_h p)) (nlen (p_bytes p))) as [_|Hlt]; [|lia].
  reflexivity.
Qed.

Lemma fill_bytes_firstn_length p : wf_page p -> length (firstn 4 (p_bytes p)) = 4%nat.
Proof.
  intros Hwf. destruct (wf_page_inv p Hwf) as (Hw & Hh & Hb & Hl).
  pose proof (total_bytes_ge16 (p_w p) (p_h p)) as H16.
  rewrite firstn_length. unfold nlen in Hl. lia.
Qed.

Lemma fill_bytes_prefix_length p v : wf_page p ->
  length (firstn 4 (p_bytes p) ++ repeatN (fill_byte v) (data_bytes (p_w p) (p_h p) - 4))
  = N.to_nat (data_bytes (p_w p) (p_h p)).
Proof.
  intros Hwf. rewrite app_length, (fill_bytes_firstn_length p Hwf), repeatN_length.
  pose proof (data_bytes_ge4 (p_w p) (p_h p)) as H4. lia.
Qed.

Lemma fill_bytes_length p v : wf_page p -> length (fill_bytes p v) = length (p_bytes p).
Proof.
  intros Hwf. destruct (wf_page_inv p Hwf) as (Hw & Hh & Hb & Hl).
  pose proof (data_le_total (p_w p) (p_h p)) as Hd.
  unfold fill_bytes. rewrite app_assoc, app_length, (fill_bytes_prefix_length p v Hwf), skipn_length.
  unfold nlen in Hl. lia.
Qed.

Lemma fill_bytes_bytesb p v : wf_page p -> bytesb (fill_bytes p v) = true.
Proof.
  intros Hwf. destruct (wf_page_inv p Hwf) as (Hw & Hh & Hb & Hl).
  unfold bytesb, fill_bytes in *. rewrite !forallb_app.
  rewrite (forallb_firstn _ _ _ Hb), (forallb_skipn _ _ _ Hb), forallb_repeatN; [reflexivity|].
  apply N.ltb_lt. apply fill_byte_lt.
Qed.

Lemma fill_bytes_nth p v i : wf_page p ->
  4 <= i -> i < data_bytes (p_w p) (p_h p) ->
  nth_error (fill_bytes p v) (N.to_nat i) = Some (fill_byte v).
Proof.
  intros Hwf H4 Hi. unfold fill_bytes.
  rewrite nth_error_app2 by (rewrite (fill_bytes_firstn_length p Hwf); lia).
  rewrite (fill_bytes_firstn_length p Hwf).
  rewrite nth_error_app1 by (rewrite repeatN_length; lia).
  apply repeatN_nth. lia.
Qed.

Lemma set_all_pixels_spec p v : wf_page p ->
  exists p', set_all_pixels p v = Some p' /\ wf_page p' /\ same_frame p p'
             /\ page_id p' = page_id p
             /\ (forall x y, x < p_w p -> y < p_h p -> get_pixel p' x y = Some v).
Proof.
  intros Hwf. destruct (wf_page_inv p Hwf) as (Hw & Hh & Hb & Hl).
  exists {| p_w := p_w p; p_h := p_h p; p_bytes := fill_bytes p v |}.
  split; [exact (set_all_pixels_eq p v Hwf)|].
  assert (Hwf' : wf_page {| p_w := p_w p; p_h := p_h p; p_bytes := fill_bytes p v |}).
  { apply wf_page_intro; cbn [p_w p_h p_bytes]; try assumption.
    - exact (fill_bytes_bytesb p v Hwf).
    - unfold nlen. rewrite (fill_bytes_length p v Hwf). exact Hl. }
  split; [exact Hwf'|]. split; [|split].
  - unfold same_frame. cbn [p_w p_h p_bytes]. repeat split.
    + exact (fill_bytes_length p v Hwf).
    + unfold fill_bytes. apply firstn_app_exact. exact (fill_bytes_firstn_length p Hwf).
    + unfold fill_bytes. rewrite app_assoc. apply skipn_app_exact.
      exact (fill_bytes_prefix_length p v Hwf).
  - unfold page_id. cbn [p_bytes]. unfold fill_bytes.
    rewrite nth_error_app1 by (rewrite (fill_bytes_firstn_length p Hwf); lia).
    pose proof (fill_bytes_firstn_length p Hwf) as H4.
    destruct (p_bytes p) as [|a l]; [discriminate H4|]. reflexivity.
  - intros x y Hx Hy.
    destruct (get_pixel_in _ x y Hwf') as (byte & Hn & _ & Hg); cbn [p_w p_h]; try assumption.
    cbn [p_w p_h p_bytes] in Hn, Hg. rewrite Hg.
    rewrite (fill_bytes_nth p v _ Hwf (index_ge4 _ _ _) (index_lt _ _ _ _ Hx Hy)) in Hn.
    injection Hn as <-. rewrite fill_byte_testbit by apply mod8_lt. reflexivity.
Qed.

(* ------------------------------------------------------------------------- *)
(** * page_new / page_from_bytes *)

Lemma page_new_bytes id w h :
  p_bytes (page_new id w h)
  = [id; 16; 0; 0] ++ repeatN 0 (w * bpc h) ++ repeatN 255 (total_bytes w h - data_bytes w h)
  /\ p_w (page_new id w h) = w /\ p_h (page_new id w h) = h.
Proof.
  unfold page_new. cbn [p_w p_h p_bytes]. rewrite data_bytes_sub4. repeat split.
Qed.

Lemma page_new_wf id w h : id < 256 -> w < 4294967296 -> h < 4294967296 -> wf_page (page_new id w h).
Proof.
  intros Hid Hw Hh. destruct (page_new_bytes id w h) as (Hb & Hpw & Hph).
  apply wf_page_intro; rewrite ?Hpw, ?Hph, ?Hb; try assumption.
  - unfold bytesb. rewrite !forallb_app, !forallb_repeatN by reflexivity.
    cbn [forallb]. unfold is_u8. apply N.ltb_lt in Hid. rewrite Hid. reflexivity.
  - rewrite !nlen_app, !repeatN_nlen. change (nlen [id; 16; 0; 0]) with 4.
    pose proof (data_le_total w h) as Hd. pose proof (data_bytes_sub4 w h) as H4.
    pose proof (data_bytes_ge4 w h) as Hg. lia.
Qed.

Lemma total_arith w h :
  total_bytes w h mod 16 = 0 /\ data_bytes w h <= total_bytes w h
  /\ total_bytes w h < data_bytes w h + 16
  /\ (w < 4294967296 -> h < 4294967296 -> total_bytes w h < 4611686018427387904).
Proof.
  split; [apply total_bytes_mod16|]. split; [apply data_le_total|].
  split; [apply total_lt_data16|]. apply total_bytes_bound.
Qed.

Lemma pixel_location p x y : wf_page p -> x < p_w p -> y < p_h p ->
  exists byte, nth_error (p_bytes p) (N.to_nat (4 + x * bpc (p_h p) + y / 8)) = Some byte
               /\ get_pixel p x y = Some (N.testbit byte (y mod 8))
               /\ 4 + x * bpc (p_h p) + y / 8 < data_bytes (p_w p) (p_h p).
Proof.
  intros Hwf Hx Hy. destruct (get_pixel_in p x y Hwf Hx Hy) as (byte & Hn & _ & Hg).
  exists byte. split; [exact Hn|]. split; [exact Hg|]. exact (index_lt _ _ _ _ Hx Hy).
Qed.

Lemma from_bytes_iff w h bs :
  (exists p, page_from_bytes w h bs = Ok p) <-> nlen bs = total_bytes w h.
Proof.
  unfold page_from_bytes. destruct (N.eqb_spec (nlen bs) (total_bytes w h)) as [E|E]; split.
  - intros _. exact E.
  - intros _. eexists; reflexivity.
  - intros [p Hp]. discriminate.
  - intros E'. contradiction.
Qed.

Lemma from_bytes_err w h bs : nlen bs <> total_bytes w h ->
  page_from_bytes w h bs = Err (WrongPageLength w h (total_bytes w h) (nlen bs)).
Proof.
  intros Hne. unfold page_from_bytes.
  destruct (N.eqb_spec (nlen bs) (total_bytes w h)) as [E|E]; [contradiction|reflexivity].
Qed.

Lemma from_bytes_exposes w h bs p : page_from_bytes w h bs = Ok p ->
  p_bytes p = bs /\ p_w p = w /\ p_h p = h.
Proof.
  unfold page_from_bytes. destruct (nlen bs =? total_bytes w h); [|discriminate].
  intros H. injection H as <-. repeat split.
Qed.

Lemma from_as_bytes p : wf_page p -> page_from_bytes (p_w p) (p_h p) (p_bytes p) = Ok p.
Proof.
  intros Hwf. destruct (wf_page_inv p Hwf) as (Hw & Hh & Hb & Hl).
  unfold page_from_bytes. apply N.eqb_eq in Hl. rewrite Hl. destruct p; reflexivity.
Qed.

(* A page accepted by from_bytes is wf whenever the Rust types are respected
   (u32 dimensions, u8 bytes). *)
Lemma from_bytes_wf w h bs p : w < 4294967296 -> h < 4294967296 -> bytesb bs = true ->
  page_from_bytes w h bs = Ok p -> wf_page p.
Proof.
  intros Hw Hh Hb H. pose proof (proj1 (from_bytes_iff w h bs) (ex_intro _ p H)) as Hl.
  destruct (from_bytes_exposes w h bs p H) as (Eb & Ew & Eh).
  apply wf_page_intro; rewrite ?Eb, ?Ew, ?Eh; assumption.
Qed.

Lemma new_blank id w h x y :
  id < 256 -> w < 4294967296 -> h < 4294967296 -> x < w -> y < h ->
  get_pixel (page_new id w h) x y = Some false.
Proof.
  intros Hid Hw Hh Hx Hy. pose proof (page_new_wf id w h Hid Hw Hh) as Hwf.
  destruct (page_new_bytes id w h) as (Hb & Hpw & Hph).
  destruct (get_pixel_in (page_new id w h) x y Hwf) as (byte & Hn & _ & Hg);
    rewrite ?Hpw, ?Hph; try assumption.
  rewrite Hg. rewrite Hph, Hb in Hn.
  pose proof (index_lt w h x y Hx Hy) as Hi. pose proof (data_bytes_sub4 w h) as H4.
  rewrite nth_error_app2 in Hn by (cbn [length]; lia).
  rewrite nth_error_app1 in Hn by (rewrite repeatN_length; cbn [length]; lia).
  rewrite repeatN_nth in Hn by (cbn [length]; lia).
  injection Hn as <-. rewrite testbit_0. reflexivity.
Qed.

Lemma new_id id w h : page_id (page_new id w h) = Some id.
Proof. reflexivity. Qed.

(* ------------------------------------------------------------------------- *)
(** * C06 wrappers *)

Lemma set_ok p x y v : wf_page p -> x < p_w p -> y < p_h p ->
  exists p', set_pixel p x y v = Some p' /\ wf_page p' /\ get_pixel p' x y = Some v.
Proof.
  intros Hwf Hx Hy. destruct (set_pixel_in p x y v Hwf Hx Hy) as (byte & bs & _ & _ & _ & Hs).
  eexists. split; [exact Hs|]. split.
  - exact (set_pixel_wf _ _ _ _ _ Hwf Hs).
  - exact (set_pixel_get_same _ _ _ _ _ Hwf Hs).
Qed.

(* Refinement of the abstract bitmap, generalised over the abstract state. *)
Lemma refines_gen ops : forall p b, wf_page p ->
  (forall x y, x < p_w p -> y < p_h p -> get_pixel p x y = Some (b x y)) ->
  let p' := fold_left page_apply ops p in
  wf_page p' /\ same_frame p p' /\ page_id p' = page_id p
  /\ (forall x y, x < p_w p -> y < p_h p ->
        get_pixel p' x y = Some (fold_left (bm_apply (p_w p) (p_h p)) ops b x y)).
Proof.
  induction ops as [|o ops IH]; intros p b Hwf Hb; cbn [fold_left].
  - split; [exact Hwf|]. split; [apply same_frame_refl|]. split; [reflexivity|]. exact Hb.
  - (* one step *)
    assert (Hstep : wf_page (page_apply p o) /\ same_frame p (page_apply p o)
                    /\ page_id (page_apply p o) = page_id p
                    /\ (forall x y, x < p_w p -> y < p_h p ->
                          get_pixel (page_apply p o) x y
                          = Some (bm_apply (p_w p) (p_h p) b o x y))).
    { destruct o as [x0 y0 v|v]; cbn [page_apply bm_apply].
      - destruct (set_pixel p x0 y0 v) as [q|] eqn:Es.
        + destruct (set_pixel_Some_inv _ _ _ _ _ Es) as (Hx0 & Hy0 & _).
          destruct (set_pixel_frame _ _ _ _ _ Hwf Es) as (Hf & Hid & _).
          split; [exact (set_pixel_wf _ _ _ _ _ Hwf Es)|]. split; [exact Hf|].
          split; [exact Hid|]. intros x y Hx Hy.
          apply N.ltb_lt in Hx0. apply N.ltb_lt in Hy0. rewrite Hx0, Hy0. cbn [andb].
          destruct (N.eqb_spec x x0) as [Ex|Ex]; [destruct (N.eqb_spec y y0) as [Ey|Ey]|]; cbn [andb].
          * subst x y. exact (set_pixel_get_same _ _ _ _ _ Hwf Es).
          * rewrite (set_pixel_get_other _ _ _ _ _ x y Hwf Es) by congruence. apply Hb; assumption.
          * rewrite (set_pixel_get_other _ _ _ _ _ x y Hwf Es) by congruence. apply Hb; assumption.
        + apply (set_pixel_None_iff _ _ _ _ Hwf) in Es.
          split; [exact Hwf|]. split; [apply same_frame_refl|]. split; [reflexivity|].
          intros x y Hx Hy.
          replace ((x0 <? p_w p) && (y0 <? p_h p))%bool with false; [apply Hb; assumption|].
          symmetry. apply andb_false_iff. rewrite !N.ltb_ge. exact Es.
      - destruct (set_all_pixels_spec p v Hwf) as (q & Hq & Hwfq & Hf & Hid & Hg).
        rewrite Hq. split; [exact Hwfq|]. split; [exact Hf|]. split; [exact Hid|]. exact Hg. }
    destruct Hstep as (Hwf1 & Hf1 & Hid1 & Hg1).
    pose proof Hf1 as (Ew & Eh & _).
    specialize (IH (page_apply p o) (bm_apply (p_w p) (p_h p) b o) Hwf1).
    rewrite Ew, Eh in IH. specialize (IH Hg1). cbv zeta in IH.
    destruct IH as (Hwf2 & Hf2 & Hid2 & Hg2).
    split; [exact Hwf2|]. split; [exact (same_frame_trans _ _ _ Hf1 Hf2)|].
    split; [congruence|]. exact Hg2.
Qed.

Lemma abs_page_in p x y : wf_page p -> x < p_w p -> y < p_h p ->
  get_pixel p x y = Some (abs_page p x y).
Proof.
  intros Hwf Hx Hy. unfold abs_page.
  destruct (get_pixel_in p x y Hwf Hx Hy) as (byte & _ & _ & Hg). rewrite Hg. reflexivity.
Qed.

Lemma refines_bitmap ops p : wf_page p ->
  let p' := fold_left page_apply ops p in
  wf_page p' /\ same_frame p p' /\ page_id p' = page_id p
  /\ (forall x y, x < p_w p -> y < p_h p ->
        get_pixel p' x y = Some (fold_left (bm_apply (p_w p) (p_h p)) ops (abs_page p) x y)).
Proof.
  intros Hwf. apply refines_gen; [exact Hwf|]. intros x y. apply abs_page_in. exact Hwf.
Qed.

(* ------------------------------------------------------------------------- *)
(** * Combined statements used by props/C06.v and props/C07.v *)

Lemma oob_panics_iff :
  (forall p x y, wf_page p -> (get_pixel p x y = None <-> (p_w p <= x \/ p_h p <= y)))
  /\ (forall p x y v, wf_page p -> (set_pixel p x y v = None <-> (p_w p <= x \/ p_h p <= y))).
Proof. split; [exact get_pixel_None_iff | exact set_pixel_None_iff]. Qed.

Lemma from_bytes_iff_err :
  (forall w h bs, (exists p, page_from_bytes w h bs = Ok p) <-> nlen bs = total_bytes w h)
  /\ (forall w h bs, nlen bs <> total_bytes w h ->
        page_from_bytes w h bs = Err (WrongPageLength w h (total_bytes w h) (nlen bs))).
Proof. split; [exact from_bytes_iff | exact from_bytes_err]. Qed.

Lemma new_blank_id :
  (forall id w h x y, id < 256 -> w < 4294967296 -> h < 4294967296 -> x < w -> y < h ->
     get_pixel (page_new id w h) x y = Some false)
  /\ (forall id w h, page_id (page_new id w h) = Some id).
Proof. split; [exact new_blank | exact new_id]. Qed.

(* ------------------------------------------------------------------------- *)
(** * A redundant edit changes nothing *)

Lemma put_bit_same_sweep :
  nrangeb 256 (fun b => nrangeb 8 (fun k => put_bit b k (N.testbit b k) =? b)) = true.
Proof. vm_compute. reflexivity. Qed.

Lemma put_bit_same b k : b < 256 -> k < 8 -> put_bit b k (N.testbit b k) = b.
Proof.
  intros Hb Hk.
  pose proof (nrangeb_spec 256 _ put_bit_same_sweep b Hb) as H1. cbv beta in H1.
  pose proof (nrangeb_spec 8 _ H1 k Hk) as H2. cbv beta in H2.
  apply N.eqb_eq. exact H2.
Qed.

Lemma set_nth_same_value {A} : forall i (x : A) l, nth_error l i = Some x -> set_nth i x l = Some l.
Proof.
  induction i as [|i IH]; intros x [|y l] H; try discriminate.
  - cbn in H. injection H as ->. reflexivity.
  - cbn in H. cbn [set_nth]. rewrite (IH x l H). reflexivity.
Qed.

(* Setting a pixel to the value it already has leaves the page exactly as it was: bytes, header, padding, size. *)
Lemma set_pixel_redundant p x y v :
  wf_page p -> get_pixel p x y = Some v -> set_pixel p x y v = Some p.
Proof.
  intros Hwf Hg.
  assert (Hin : x < p_w p /\ y < p_h p).
  { destruct (N.lt_ge_cases x (p_w p)) as [Hx|Hx]; [destruct (N.lt_ge_cases y (p_h p)) as [Hy|Hy]; [split; assumption|]|];
      rewrite get_pixel_out in Hg by auto; discriminate. }
  destruct Hin as [Hx Hy].
  destruct (get_pixel_in p x y Hwf Hx Hy) as (byte & Hn & Hb & Hget).
  rewrite Hget in Hg. injection Hg as <-.
  unfold set_pixel. rewrite (index_in p x y Hx Hy). cbv zeta. rewrite Hn.
  fold (put_bit byte (y mod 8) (N.testbit byte (y mod 8))).
  rewrite (put_bit_same byte (y mod 8) Hb (mod8_lt y)).
  rewrite (set_nth_same_value _ _ _ Hn). destruct p; reflexivity.
Qed.
