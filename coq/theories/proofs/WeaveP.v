(* WeaveP.v — a program for sign [a] with conversations for OTHER signs woven into it (what send_pages does when the
   caller's page iterator talks to other signs on the same bus while it is being drained).

   [weave a P Q]: P is Q with sends addressed to other signs woven in; the replies to those may steer further such
   sends but not Q.  On a bus of virtual signs with distinct addresses, P then does to the sign with address [a] exactly
   what Q does to that sign alone, with Q's outcome ([weave_lift], which has ClosedLoopP.lift as the case P = Q).
   Unaddressed messages (data chunks, chunk counts) are heard by every sign, so they are NOT foreign: a page source that
   transfers data to another sign while its own transfer is open does disturb it, and the model shows it. *)
From Flipdot Require Import Tactics.
From Flipdot Require Import Base Message Page SignType VSign Controller CodeTable SignSpec
  PageP SignTypeP VSignP ControllerP ClosedLoopP SourceP.
Local Open Scope N_scope.

Definition foreign_msg (a : N) (m : msg) : Prop := exists a', msg_target m = Some a' /\ a' <> a.
Definition own_msg (a : N) (m : msg) : Prop := msg_target m = Some a \/ msg_target m = None.

Inductive weave {A : Type} (a : N) : prog A -> prog A -> Prop :=
| weave_ret x : weave a (Ret x) (Ret x)
| weave_fail : weave a Fail Fail
| weave_crash : weave a Crash Crash
| weave_own m k k' : own_msg a m -> (forall r, weave a (k r) (k' r)) -> weave a (Send m k) (Send m k')
| weave_foreign m k Q : foreign_msg a m -> (forall r, weave a (k r) Q) -> weave a (Send m k) Q.

Lemma weave_refl {A} a (p : prog A) : sends_only a p -> weave a p p.
Proof.
  induction p as [x| | |m k IH]; intros H; try constructor.
  - cbn [sends_only] in H. exact (proj1 H).
  - intros r. apply IH. cbn [sends_only] in H. exact (proj2 H r).
Qed.

Lemma weave_bind {A B} a (P Q : prog A) (f g : A -> prog B) :
  weave a P Q -> (forall x, weave a (f x) (g x)) -> weave a (bind P f) (bind Q g).
Proof.
  intros H Hf. induction H as [x| | |m k k' Hm _ IH|m k Q Hm _ IH]; cbn [bind].
  - apply Hf.
  - constructor.
  - constructor.
  - apply weave_own; [exact Hm|exact IH].
  - apply weave_foreign; [exact Hm|exact IH].
Qed.

(* Programs all of whose sends are addressed to signs other than [a], and which cannot panic. *)
Fixpoint foreign_only {A : Type} (a : N) (p : prog A) : Prop :=
  match p with
  | Send m k => foreign_msg a m /\ forall r, foreign_only a (k r)
  | Crash => False
  | _ => True
  end.

(* Such a program, run under [catch] in front of P, is woven into whatever P is a weaving of. *)
Lemma weave_prelude {A B} a (p : prog A) (P Q : prog B) :
  foreign_only a p -> weave a P Q -> weave a (bind (catch p) (fun _ => P)) Q.
Proof.
  intros Hp HP. induction p as [x| | |m k IH]; cbn [catch bind].
  - exact HP.
  - exact HP.
  - destruct Hp.
  - cbn [foreign_only] in Hp. destruct Hp as [Hm Hk].
    apply weave_foreign; [exact Hm|]. intros r. apply IH. apply Hk.
Qed.

(* A message for another sign leaves the sign with address [a] as it is. *)
Lemma bus_step_foreign b a s m :
  NoDup (map v_addr b) -> Forall VInv0 b -> target b a = Some s -> foreign_msg a m ->
  exists b' r, bus_step b m = Some (b', r) /\ target b' a = Some s
    /\ Forall VInv0 b' /\ map v_addr b' = map v_addr b.
Proof.
  intros Hnd Hinv Ht (a' & Hm & Hne).
  destruct (bus_step b m) as [[b' r]|] eqn:Hbs; [|exfalso; exact (no_panic_bus_step m b Hinv Hbs)].
  exists b', r. split; [reflexivity|].
  destruct (bus_step_projection m b b' r Hnd Hbs) as [Hmap Hnth].
  split; [|split; [exact (VInv0_bus_step b m b' r Hinv Hbs)|exact Hmap]].
  destruct (target_In b a s Ht) as [Hin Ha].
  destruct (In_nth_error b s Hin) as [i Hi].
  destruct (Hnth i s Hi) as (s1 & r1 & Hv & Hi').
  rewrite (foreign_ignored s m a' Hm) in Hv by (rewrite Ha; exact Hne).
  injection Hv as <- _. rewrite <- Ha.
  apply (target_nth b' i s); [rewrite Hmap; exact Hnd|exact Hi'].
Qed.

(* The lifting theorem for weavings. *)
Theorem weave_lift {A : Type} a (P Q : prog A) : weave a P Q ->
  forall b s, NoDup (map v_addr b) -> Forall VInv0 b -> target b a = Some s ->
  exists b', run_bus P b = (b', snd (run_one Q s))
    /\ target b' a = Some (fst (run_one Q s))
    /\ Forall VInv0 b' /\ map v_addr b' = map v_addr b.
Proof.
  induction 1 as [x| | |m k k' Hm _ IH|m k Q Hm _ IH]; intros b s Hnd Hinv Ht;
    try solve [exists b; cbn [run_bus run_one fst snd]; auto].
  - pose proof (target_VInv0 b a s Hinv Ht) as Hs0.
    cbn [run_bus run_one].
    destruct (vstep s m) as [[s' r]|] eqn:Hs; [|exfalso; exact (no_panic_step s m Hs0 Hs)].
    destruct (bus_step_target b a s m s' r Hnd Hinv Ht Hm Hs) as (b1 & Hbs & Ht1 & Hinv1 & Hmap1).
    rewrite Hbs.
    destruct (IH r b1 s' (eq_ind_r (fun l => NoDup l) Hnd Hmap1) Hinv1 Ht1)
      as (b' & Hr & Ht' & Hinv' & Hmap').
    exists b'. split; [exact Hr|]. split; [exact Ht'|]. split; [exact Hinv'|]. congruence.
  - destruct (bus_step_foreign b a s m Hnd Hinv Ht Hm) as (b1 & r & Hbs & Ht1 & Hinv1 & Hmap1).
    cbn [run_bus]. rewrite Hbs.
    destruct (IH r b1 s (eq_ind_r (fun l => NoDup l) Hnd Hmap1) Hinv1 Ht1)
      as (b' & Hr & Ht' & Hinv' & Hmap').
    exists b'. split; [exact Hr|]. split; [exact Ht'|]. split; [exact Hinv'|]. congruence.
Qed.

(* ------------------------------------------------------------------ *)
(* send_pages over a source that talks to other signs only is a weaving of send_pages over the plain list. *)

(* What a page source may do before it yields an item: any number of such programs, each under [catch]. *)
Inductive fpre (a : N) : prog unit -> Prop :=
| fpre_nil : fpre a (Ret tt)
| fpre_cons A (p : prog A) q : foreign_only a p -> fpre a q -> fpre a (bind (catch p) (fun _ => q)).

Lemma weave_prelude2 {A B} a (p : prog A) (q : prog unit) (P Q : prog B) :
  foreign_only a p -> weave a (bind q (fun _ => P)) Q ->
  weave a (bind (bind (catch p) (fun _ => q)) (fun _ => P)) Q.
Proof.
  intros Hp HP. induction p as [x| | |m k IH]; cbn [catch bind].
  - exact HP.
  - exact HP.
  - destruct Hp.
  - cbn [foreign_only] in Hp. destruct Hp as [Hm Hk].
    apply weave_foreign; [exact Hm|]. intros r. apply IH. apply Hk.
Qed.

Lemma weave_fpre {B} a pre (P Q : prog B) :
  fpre a pre -> weave a P Q -> weave a (bind pre (fun _ => P)) Q.
Proof.
  intros Hpre HP. induction Hpre as [|A p q Hp _ IH]; [exact HP|].
  apply weave_prelude2; [exact Hp|exact IH].
Qed.

Lemma weave_send_items a : forall src count,
  Forall (fun it => fpre a (fst it)) src ->
  weave a (send_items_with src count) (send_items (map snd src) count).
Proof.
  induction src as [|[pre item] src IH]; intros count Hsrc; [apply weave_refl; exact I|].
  pose proof (Forall_inv Hsrc) as Hpre. pose proof (Forall_inv_tail Hsrc) as Hsrc'.
  cbn [fst] in Hpre. cbn [send_items_with map snd send_items].
  apply weave_fpre; [exact Hpre|].
  apply weave_bind; [apply weave_refl; apply so_send_chunks|].
  intros c. apply IH. exact Hsrc'.
Qed.

Lemma weave_attempt a op src :
  Forall (fun it => fpre a (fst it)) src ->
  weave a (attempt_with a op src) (attempt a op (map snd src)).
Proof.
  intros Hsrc. unfold attempt_with, attempt.
  apply weave_bind; [apply weave_refl; apply so_expect; left; reflexivity|]. intros _.
  apply weave_bind; [apply weave_send_items; exact Hsrc|]. intros n.
  apply weave_refl. apply sends_only_bind; [apply so_expect; right; reflexivity|].
  intros _. apply so_send. left. reflexivity.
Qed.

Lemma weave_transfer_loop a op src su fa : forall n,
  Forall (fun it => fpre a (fst it)) src ->
  weave a (transfer_loop_with n a op src su fa) (transfer_loop n a op (map snd src) su fa).
Proof.
  induction n as [|n IH]; intros Hsrc; cbn [transfer_loop_with transfer_loop].
  - apply weave_bind; [apply weave_attempt; exact Hsrc|]. intros r. apply weave_refl. apply so_verify.
  - apply weave_bind; [apply weave_attempt; exact Hsrc|]. intros r.
    destruct (omsg_eqb r (Some (ReportState a fa))); [apply IH; exact Hsrc|apply weave_refl; apply so_verify].
Qed.

Theorem weave_send_pages a src :
  Forall (fun it => fpre a (fst it)) src ->
  weave a (send_pages_gen a src)
          (transfer a ReceivePixels (map snd src) PixelsReceived PixelsFailed ;;;
           expect (PixelsComplete a) None ;;;
           r <- send (QueryState a) ;;
           match r with
           | Some (ReportState a' ShowingPages) => if a' =? a then Ret Automatic else Ret Manual
           | _ => Ret Manual
           end).
Proof.
  intros Hsrc. unfold send_pages_gen, transfer.
  apply weave_bind; [apply weave_transfer_loop; exact Hsrc|]. intros _.
  apply weave_refl.
  apply sends_only_bind; [apply so_expect; left; reflexivity|]. intros _.
  apply sends_only_bind; [apply so_send; left; reflexivity|]. intros r.
  destruct r as [[ | | | |a' st| | | | | ]|]; try exact I.
  destruct st; try exact I. destruct (a' =? a); exact I.
Qed.

(* ------------------------------------------------------------------ *)
(* Pages arrive bit-exact (C08) also from a source that talks to other signs while it is drained. *)

Theorem closed_send_pages_foreign_source : forall b a src ps s,
  NoDup (map v_addr b) -> Forall VInv0 b -> target b a = Some s ->
  receive_pixels_legal (v_state s) = true -> 0 < v_w s -> 0 < v_h s ->
  Forall (fun p => p_w p = v_w s /\ p_h p = v_h s
                   /\ nlen (p_bytes p) = total_bytes (v_w s) (v_h s)) ps ->
  total_bytes (v_w s) (v_h s) <= 65536 ->
  N.of_nat (length ps) * (total_bytes (v_w s) (v_h s) / 16) < 65536 ->
  Forall (fun it => fpre a (fst it)) src -> map snd src = map p_bytes ps ->
  exists b' s',
    run_bus (send_pages_gen a src) b = (b', Done (v_style s)) /\ target b' a = Some s'
    /\ v_pages s' = ps
    /\ v_state s' = match v_style s with Manual => PageLoaded | Automatic => ShowingPages end
    /\ v_type s' = v_type s /\ (v_w s', v_h s') = (v_w s, v_h s)
    /\ v_pending s' = [] /\ v_chunks s' = 0
    /\ v_addr s' = a /\ v_style s' = v_style s
    /\ Forall VInv0 b' /\ map v_addr b' = map v_addr b.
Proof.
  intros b a src ps s Hnd Hinv Ht Hlegal Hw Hh Hps HT Hcnt Hsrc Hbytes.
  destruct (target_In b a s Ht) as [_ Ha].
  pose proof (one_send_pages a ps s (target_VInv0 b a s Hinv Ht) Ha Hlegal Hw Hh Hps HT Hcnt)
    as Hone.
  pose proof (weave_send_pages a src Hsrc) as Hweave. rewrite Hbytes in Hweave.
  fold (send_pages a ps) in Hweave.
  destruct (weave_lift a _ _ Hweave b s Hnd Hinv Ht) as (b' & H1 & H2 & H3 & H4).
  rewrite Hone in H1, H2. cbn [fst snd] in H1, H2.
  exists b', (loaded s ps). split; [exact H1|]. split; [exact H2|].
  unfold loaded. cbn [v_addr v_style v_state v_pages v_pending v_chunks v_w v_h v_type].
  repeat split; try assumption; try reflexivity.
Qed.

(* The calls a source may make under this theorem: saying goodbye to other signs (one addressed message each).  Calls
   that transfer data (configure, send_pages) are not among them -- data chunks are heard by every sign --, and the page
   flips are left out because the model bounds their polling loop by fuel (running out of it is a [Crash]). *)
Definition foreign_call (a : N) (c : cop) : Prop :=
  match c with
  | CopShutDown a' => a' <> a
  | _ => False
  end.

Lemma foreign_call_only a c : foreign_call a c -> foreign_only a (cop_prog c).
Proof.
  destruct c as [a' t|a' t|a' ps|fuel a'|fuel a'|a']; cbn [foreign_call]; intros H; try contradiction.
  cbn. split; [exists a'; split; [reflexivity|exact H]|]. intros r. unfold verify. destruct (omsg_eqb r None); exact I.
Qed.

Lemma fpre_prelude a cs : Forall (foreign_call a) cs -> fpre a (prelude cs).
Proof.
  induction 1 as [|c cs Hc _ IH]; cbn [prelude]; [constructor|].
  apply fpre_cons; [apply foreign_call_only; exact Hc|exact IH].
Qed.

Theorem closed_send_pages_with_foreign_calls : forall b a items s,
  NoDup (map v_addr b) -> Forall VInv0 b -> target b a = Some s ->
  receive_pixels_legal (v_state s) = true -> 0 < v_w s -> 0 < v_h s ->
  Forall (fun p => p_w p = v_w s /\ p_h p = v_h s
                   /\ nlen (p_bytes p) = total_bytes (v_w s) (v_h s)) (map snd items) ->
  total_bytes (v_w s) (v_h s) <= 65536 ->
  N.of_nat (length items) * (total_bytes (v_w s) (v_h s) / 16) < 65536 ->
  Forall (fun it => Forall (foreign_call a) (fst it)) items ->
  exists b' s',
    run_bus (send_pages_with a items) b = (b', Done (v_style s)) /\ target b' a = Some s'
    /\ v_pages s' = map snd items
    /\ v_state s' = match v_style s with Manual => PageLoaded | Automatic => ShowingPages end
    /\ v_type s' = v_type s /\ (v_w s', v_h s') = (v_w s, v_h s)
    /\ Forall VInv0 b' /\ map v_addr b' = map v_addr b.
Proof.
  intros b a items s Hnd Hinv Ht Hlegal Hw Hh Hps HT Hcnt Hcalls.
  destruct (closed_send_pages_foreign_source b a
              (map (fun it => (prelude (fst it), p_bytes (snd it))) items) (map snd items) s
              Hnd Hinv Ht Hlegal Hw Hh Hps HT)
    as (b' & s' & H1 & H2 & H3 & H4 & H5 & H6 & _ & _ & _ & _ & H7 & H8).
  - rewrite map_length. exact Hcnt.
  - apply Forall_map. cbn [fst]. revert Hcalls. apply Forall_impl. intros it Hit. apply fpre_prelude. exact Hit.
  - rewrite !map_map. reflexivity.
  - exists b', s'. unfold send_pages_with. repeat split; assumption.
Qed.

(* ------------------------------------------------------------------ *)
(* The same with conversations that may panic -- in the model: the page flips, whose polling loop is bounded by fuel,
   running out of which is a [Crash].  Then either such a conversation panicked (the whole call panics; in the model
   alone this also stands for "the real loop would still be polling"), or everything is as above. *)

Inductive weavec {A : Type} (a : N) : prog A -> prog A -> Prop :=
| weavec_ret x : weavec a (Ret x) (Ret x)
| weavec_fail : weavec a Fail Fail
| weavec_crash : weavec a Crash Crash
| weavec_own m k k' : own_msg a m -> (forall r, weavec a (k r) (k' r)) -> weavec a (Send m k) (Send m k')
| weavec_foreign m k Q : foreign_msg a m -> (forall r, weavec a (k r) Q) -> weavec a (Send m k) Q
| weavec_foreign_crash Q : weavec a Crash Q.

Lemma weavec_refl {A} a (p : prog A) : sends_only a p -> weavec a p p.
Proof.
  induction p as [x| | |m k IH]; intros H; try constructor.
  - cbn [sends_only] in H. exact (proj1 H).
  - intros r. apply IH. cbn [sends_only] in H. exact (proj2 H r).
Qed.

Lemma weavec_bind {A B} a (P Q : prog A) (f g : A -> prog B) :
  weavec a P Q -> (forall x, weavec a (f x) (g x)) -> weavec a (bind P f) (bind Q g).
Proof.
  intros H Hf. induction H as [x| | |m k k' Hm _ IH|m k Q Hm _ IH|Q]; cbn [bind].
  - apply Hf.
  - constructor.
  - constructor.
  - apply weavec_own; [exact Hm|exact IH].
  - apply weavec_foreign; [exact Hm|exact IH].
  - apply weavec_foreign_crash.
Qed.

(* Programs all of whose sends are addressed to signs other than [a] (they may panic). *)
Fixpoint foreign_sends {A : Type} (a : N) (p : prog A) : Prop :=
  match p with
  | Send m k => foreign_msg a m /\ forall r, foreign_sends a (k r)
  | _ => True
  end.

Inductive fprec (a : N) : prog unit -> Prop :=
| fprec_nil : fprec a (Ret tt)
| fprec_cons A (p : prog A) q : foreign_sends a p -> fprec a q -> fprec a (bind (catch p) (fun _ => q)).

Lemma weavec_prelude2 {A B} a (p : prog A) (q : prog unit) (P Q : prog B) :
  foreign_sends a p -> weavec a (bind q (fun _ => P)) Q ->
  weavec a (bind (bind (catch p) (fun _ => q)) (fun _ => P)) Q.
Proof.
  intros Hp HP. induction p as [x| | |m k IH]; cbn [catch bind].
  - exact HP.
  - exact HP.
  - apply weavec_foreign_crash.
  - cbn [foreign_sends] in Hp. destruct Hp as [Hm Hk].
    apply weavec_foreign; [exact Hm|]. intros r. apply IH. apply Hk.
Qed.

Lemma weavec_fprec {B} a pre (P Q : prog B) :
  fprec a pre -> weavec a P Q -> weavec a (bind pre (fun _ => P)) Q.
Proof.
  intros Hpre HP. induction Hpre as [|A p q Hp _ IH]; [exact HP|].
  apply weavec_prelude2; [exact Hp|exact IH].
Qed.

Theorem weavec_lift {A : Type} a (P Q : prog A) : weavec a P Q ->
  forall b s, NoDup (map v_addr b) -> Forall VInv0 b -> target b a = Some s ->
  snd (run_bus P b) = Crashed
  \/ exists b', run_bus P b = (b', snd (run_one Q s))
       /\ target b' a = Some (fst (run_one Q s))
       /\ Forall VInv0 b' /\ map v_addr b' = map v_addr b.
Proof.
  induction 1 as [x| | |m k k' Hm _ IH|m k Q Hm _ IH|Q]; intros b s Hnd Hinv Ht;
    try solve [right; exists b; cbn [run_bus run_one fst snd]; auto].
  - pose proof (target_VInv0 b a s Hinv Ht) as Hs0.
    cbn [run_bus run_one].
    destruct (vstep s m) as [[s' r]|] eqn:Hs; [|exfalso; exact (no_panic_step s m Hs0 Hs)].
    destruct (bus_step_target b a s m s' r Hnd Hinv Ht Hm Hs) as (b1 & Hbs & Ht1 & Hinv1 & Hmap1).
    rewrite Hbs.
    destruct (IH r b1 s' (eq_ind_r (fun l => NoDup l) Hnd Hmap1) Hinv1 Ht1)
      as [Hc|(b' & Hr & Ht' & Hinv' & Hmap')]; [left; exact Hc|].
    right. exists b'. split; [exact Hr|]. split; [exact Ht'|]. split; [exact Hinv'|]. congruence.
  - destruct (bus_step_foreign b a s m Hnd Hinv Ht Hm) as (b1 & r & Hbs & Ht1 & Hinv1 & Hmap1).
    cbn [run_bus]. rewrite Hbs.
    destruct (IH r b1 s (eq_ind_r (fun l => NoDup l) Hnd Hmap1) Hinv1 Ht1)
      as [Hc|(b' & Hr & Ht' & Hinv' & Hmap')]; [left; exact Hc|].
    right. exists b'. split; [exact Hr|]. split; [exact Ht'|]. split; [exact Hinv'|]. congruence.
  - left. reflexivity.
Qed.

Lemma weavec_send_items a : forall src count,
  Forall (fun it => fprec a (fst it)) src ->
  weavec a (send_items_with src count) (send_items (map snd src) count).
Proof.
  induction src as [|[pre item] src IH]; intros count Hsrc; [apply weavec_refl; exact I|].
  pose proof (Forall_inv Hsrc) as Hpre. pose proof (Forall_inv_tail Hsrc) as Hsrc'.
  cbn [fst] in Hpre. cbn [send_items_with map snd send_items].
  apply weavec_fprec; [exact Hpre|].
  apply weavec_bind; [apply weavec_refl; apply so_send_chunks|].
  intros c. apply IH. exact Hsrc'.
Qed.

Lemma weavec_attempt a op src :
  Forall (fun it => fprec a (fst it)) src ->
  weavec a (attempt_with a op src) (attempt a op (map snd src)).
Proof.
  intros Hsrc. unfold attempt_with, attempt.
  apply weavec_bind; [apply weavec_refl; apply so_expect; left; reflexivity|]. intros _.
  apply weavec_bind; [apply weavec_send_items; exact Hsrc|]. intros n.
  apply weavec_refl. apply sends_only_bind; [apply so_expect; right; reflexivity|].
  intros _. apply so_send. left. reflexivity.
Qed.

Lemma weavec_transfer_loop a op src su fa : forall n,
  Forall (fun it => fprec a (fst it)) src ->
  weavec a (transfer_loop_with n a op src su fa) (transfer_loop n a op (map snd src) su fa).
Proof.
  induction n as [|n IH]; intros Hsrc; cbn [transfer_loop_with transfer_loop].
  - apply weavec_bind; [apply weavec_attempt; exact Hsrc|]. intros r. apply weavec_refl. apply so_verify.
  - apply weavec_bind; [apply weavec_attempt; exact Hsrc|]. intros r.
    destruct (omsg_eqb r (Some (ReportState a fa))); [apply IH; exact Hsrc|apply weavec_refl; apply so_verify].
Qed.

Lemma weavec_send_pages a src ps :
  Forall (fun it => fprec a (fst it)) src -> map snd src = map p_bytes ps ->
  weavec a (send_pages_gen a src) (send_pages a ps).
Proof.
  intros Hsrc Hb. unfold send_pages_gen, send_pages, transfer. rewrite <- Hb.
  apply weavec_bind; [apply weavec_transfer_loop; exact Hsrc|]. intros _.
  apply weavec_refl.
  apply sends_only_bind; [apply so_expect; left; reflexivity|]. intros _.
  apply sends_only_bind; [apply so_send; left; reflexivity|]. intros r.
  destruct r as [[ | | | |a' st| | | | | ]|]; try exact I.
  destruct st; try exact I. destruct (a' =? a); exact I.
Qed.

(* Calls for other signs that send addressed messages only: goodbye and the page flips. *)
Definition foreign_flip_call (a : N) (c : cop) : Prop :=
  match c with
  | CopShutDown a' | CopShow _ a' | CopLoadNext _ a' => a' <> a
  | _ => False
  end.

Lemma foreign_sends_bind {A B} a (p : prog A) (f : A -> prog B) :
  foreign_sends a p -> (forall x, foreign_sends a (f x)) -> foreign_sends a (bind p f).
Proof.
  induction p as [x| | |m k IH]; intros Hp Hf; cbn [bind foreign_sends]; auto.
  cbn [foreign_sends] in Hp. destruct Hp as [Hm Hk]. split; [exact Hm|]. intros r. apply IH; [apply Hk|exact Hf].
Qed.

Lemma fs_send a a' m : msg_target m = Some a' -> a' <> a -> foreign_sends a (send m).
Proof. intros Hm Hne. unfold send. cbn [foreign_sends]. split; [exists a'; auto|]. intros r. exact I. Qed.

Lemma fs_expect a a' m e : msg_target m = Some a' -> a' <> a -> foreign_sends a (expect m e).
Proof.
  intros Hm Hne. unfold expect. apply foreign_sends_bind; [apply (fs_send a a'); assumption|].
  intros r. unfold verify. destruct (omsg_eqb r e); exact I.
Qed.

Lemma fs_switch_page a a' tg tr op : a' <> a -> forall fuel, foreign_sends a (switch_page fuel a' tg tr op).
Proof.
  intros Hne. induction fuel as [|fuel IH]; cbn [switch_page]; [exact I|].
  apply foreign_sends_bind; [apply (fs_send a a'); [reflexivity|exact Hne]|].
  intros r. destruct r as [[ | | | |a2 st| | | | | ]|]; try exact I.
  destruct (a2 =? a'); [|exact I].
  destruct (state_is st ShowingPages); [exact I|].
  destruct (state_is st tg); [exact I|].
  destruct (state_is st tr).
  - apply foreign_sends_bind; [apply (fs_expect a a'); [reflexivity|exact Hne]|]. intros _. exact IH.
  - destruct (state_is st PageLoadInProgress || state_is st PageShowInProgress); [exact IH|exact I].
Qed.

Lemma foreign_flip_call_sends a c : foreign_flip_call a c -> foreign_sends a (cop_prog c).
Proof.
  destruct c as [a' t|a' t|a' ps|fuel a'|fuel a'|a']; cbn [foreign_flip_call]; intros H; try contradiction;
    cbn [cop_prog]; (apply foreign_sends_bind; [|intros _; exact I]).
  - apply fs_switch_page. exact H.
  - apply fs_switch_page. exact H.
  - apply (fs_expect a a'); [reflexivity|exact H].
Qed.

Lemma fprec_prelude a cs : Forall (foreign_flip_call a) cs -> fprec a (prelude cs).
Proof.
  induction 1 as [|c cs Hc _ IH]; cbn [prelude]; [constructor|].
  apply fprec_cons; [apply foreign_flip_call_sends; exact Hc|exact IH].
Qed.

Theorem closed_send_pages_with_flip_calls : forall b a items s,
  NoDup (map v_addr b) -> Forall VInv0 b -> target b a = Some s ->
  receive_pixels_legal (v_state s) = true -> 0 < v_w s -> 0 < v_h s ->
  Forall (fun p => p_w p = v_w s /\ p_h p = v_h s
                   /\ nlen (p_bytes p) = total_bytes (v_w s) (v_h s)) (map snd items) ->
  total_bytes (v_w s) (v_h s) <= 65536 ->
  N.of_nat (length items) * (total_bytes (v_w s) (v_h s) / 16) < 65536 ->
  Forall (fun it => Forall (foreign_flip_call a) (fst it)) items ->
  snd (run_bus (send_pages_with a items) b) = Crashed
  \/ exists b' s',
       run_bus (send_pages_with a items) b = (b', Done (v_style s)) /\ target b' a = Some s'
       /\ v_pages s' = map snd items
       /\ v_state s' = match v_style s with Manual => PageLoaded | Automatic => ShowingPages end
       /\ v_type s' = v_type s /\ (v_w s', v_h s') = (v_w s, v_h s)
       /\ Forall VInv0 b' /\ map v_addr b' = map v_addr b.
Proof.
  intros b a items s Hnd Hinv Ht Hlegal Hw Hh Hps HT Hcnt Hcalls.
  destruct (target_In b a s Ht) as [_ Ha].
  assert (Hcnt' : N.of_nat (length (map snd items)) * (total_bytes (v_w s) (v_h s) / 16) < 65536)
    by (rewrite map_length; exact Hcnt).
  pose proof (one_send_pages a (map snd items) s (target_VInv0 b a s Hinv Ht) Ha Hlegal Hw Hh Hps HT Hcnt')
    as Hone.
  assert (Hweave : weavec a (send_pages_with a items) (send_pages a (map snd items))).
  { unfold send_pages_with. apply weavec_send_pages.
    - apply Forall_map. cbn [fst]. revert Hcalls. apply Forall_impl. intros it Hit. apply fprec_prelude. exact Hit.
    - rewrite !map_map. reflexivity. }
  destruct (weavec_lift a _ _ Hweave b s Hnd Hinv Ht) as [Hc|(b' & H1 & H2 & H3 & H4)]; [left; exact Hc|].
  rewrite Hone in H1, H2. cbn [fst snd] in H1, H2.
  right. exists b', (loaded s (map snd items)). split; [exact H1|]. split; [exact H2|].
  unfold loaded. cbn [v_addr v_style v_state v_pages v_pending v_chunks v_w v_h v_type].
  repeat split; try assumption; try reflexivity.
Qed.

(* ------------------------------------------------------------------ *)
(* The same on a scripted bus: what a weaving P sends that is not for other signs is what Q sends -- against the replies
   P's own messages got ([own_script]) -- or a prefix of it when P's run ended inside a conversation for another sign
   (a bus error or the end of the script there). *)

Definition foreignb (a : N) (m : msg) : bool :=
  match msg_target m with
  | Some a' => negb (a' =? a)
  | None => false
  end.

Lemma foreignb_own a m : own_msg a m -> foreignb a m = false.
Proof.
  unfold own_msg, foreignb. intros [H|H]; rewrite H; [|reflexivity].
  rewrite N.eqb_refl. reflexivity.
Qed.

Lemma foreignb_foreign a m : foreign_msg a m -> foreignb a m = true.
Proof.
  unfold foreign_msg, foreignb. intros (a' & H & Hne). rewrite H.
  destruct (N.eqb_spec a' a) as [E|_]; [contradiction|reflexivity].
Qed.

(* the replies that P's own messages got, in order *)
Fixpoint own_script {A : Type} (a : N) (p : prog A) (script : list reply) : list reply :=
  match p with
  | Send m k =>
      match script with
      | Rep r :: s' => if foreignb a m then own_script a (k r) s' else Rep r :: own_script a (k r) s'
      | BusErr :: _ => if foreignb a m then [] else [BusErr]
      | [] => []
      end
  | _ => []
  end.

Definition own_part (a : N) (tr : list msg) : list msg := filter (fun m => negb (foreignb a m)) tr.

Theorem weave_script {A : Type} a (P Q : prog A) : weave a P Q ->
  forall script,
    (own_part a (fst (run_script P script)) = fst (run_script Q (own_script a P script))
     /\ snd (run_script P script) = snd (run_script Q (own_script a P script)))
    \/ ((snd (run_script P script) = BusFailed \/ snd (run_script P script) = Blocked)
        /\ exists rest, fst (run_script Q (own_script a P script)) = own_part a (fst (run_script P script)) ++ rest).
Proof.
  induction 1 as [x| | |m k k' Hm _ IH|m k Q Hm _ IH]; intros script;
    try (left; split; reflexivity).
  - pose proof (foreignb_own a m Hm) as Hf.
    destruct script as [|[|r] s'].
    + left. cbn [run_script own_script fst snd own_part filter]. rewrite Hf. cbn [negb]. split; reflexivity.
    + left. cbn [run_script own_script fst snd own_part filter]. rewrite Hf. cbn [negb run_script fst snd].
      split; reflexivity.
    + cbn [own_script]. rewrite Hf. cbn [run_script].
      destruct (run_script (k r) s') as [trP oP] eqn:EP.
      destruct (run_script (k' r) (own_script a (k r) s')) as [trQ oQ] eqn:EQ.
      specialize (IH r s'). rewrite EP, EQ in IH. cbn [fst snd] in IH |- *.
      unfold own_part in *. cbn [filter]. rewrite Hf. cbn [negb].
      destruct IH as [[H1 H2]|[H1 [rest H2]]].
      * left. split; [f_equal; exact H1|exact H2].
      * right. split; [exact H1|]. exists rest. cbn [app]. f_equal. exact H2.
  - pose proof (foreignb_foreign a m Hm) as Hf.
    destruct script as [|[|r] s'].
    + right. cbn [run_script own_script fst snd]. split; [right; reflexivity|].
      unfold own_part. cbn [filter]. rewrite Hf. cbn [negb app]. eexists. reflexivity.
    + right. cbn [run_script own_script fst snd]. rewrite Hf. split; [left; reflexivity|].
      unfold own_part. cbn [filter]. rewrite Hf. cbn [negb app]. eexists. reflexivity.
    + cbn [own_script]. rewrite Hf. cbn [run_script].
      destruct (run_script (k r) s') as [trP oP] eqn:EP.
      specialize (IH r s'). rewrite EP in IH. cbn [fst snd] in IH |- *.
      unfold own_part in *. cbn [filter]. rewrite Hf. cbn [negb]. exact IH.
Qed.

(* For send_pages over a source that talks to other signs only: what the call itself sends is what send_pages over the
   plain list sends (C09's shape theorems are about that), or a prefix of it. *)
Corollary send_pages_gen_own_part a src ps script :
  Forall (fun it => fpre a (fst it)) src -> map snd src = map p_bytes ps ->
  exists rest,
    fst (run_script (send_pages a ps) (own_script a (send_pages_gen a src) script))
    = own_part a (fst (run_script (send_pages_gen a src) script)) ++ rest.
Proof.
  intros Hsrc Hb. pose proof (weave_send_pages a src Hsrc) as Hw. rewrite Hb in Hw.
  fold (send_pages a ps) in Hw.
  destruct (weave_script a _ _ Hw script) as [[H1 _]|[_ [rest H2]]].
  - exists []. rewrite app_nil_r. symmetry. exact H1.
  - exists rest. exact H2.
Qed.
