(* IoP.v — proofs about Frame::read / Frame::write over scheduled streams (property C15).
   Part 1: [first_line] and list helpers.
   Part 2: the read loop.   Part 3: the write loop.   Part 4: back-to-back reads. *)
From Flipdot Require Import Tactics.
From Flipdot Require Import Base Hex Frame Io FrameP.
Local Open Scope N_scope.

(* ------------------------------------------------------------------------- *)
(** * first_line *)

(* (prefix up to and including the first LF, rest); (content, []) when there is no LF. *)
Fixpoint first_line (content : list N) : list N * list N :=
  match content with
  | [] => ([], [])
  | b :: t => if b =? 10 then ([b], t) else (b :: fst (first_line t), snd (first_line t))
  end.

(* Number of successful one-byte reads Frame::read needs to finish: one per byte of the first
   line, plus one more that observes EOF when the content has no LF. *)
Fixpoint reads_needed (content : list N) : nat :=
  match content with
  | [] => 1
  | b :: t => if b =? 10 then 1 else S (reads_needed t)
  end.

Definition has_lf (content : list N) : bool := existsb (N.eqb 10) content.

Lemma first_line_nil : first_line [] = ([], []).
Proof. reflexivity. Qed.

Lemma first_line_lf t : first_line (10 :: t) = ([10], t).
Proof. reflexivity. Qed.

Lemma first_line_other b t :
  b <> 10 -> first_line (b :: t) = (b :: fst (first_line t), snd (first_line t)).
Proof. intros Hb. cbn [first_line]. destruct (N.eqb_spec b 10); [contradiction|reflexivity]. Qed.

Lemma first_line_app content :
  fst (first_line content) ++ snd (first_line content) = content.
Proof.
  induction content as [|b t IH]; [reflexivity|].
  cbn [first_line]. destruct (N.eqb_spec b 10); cbn [fst snd app]; [reflexivity|].
  rewrite IH. reflexivity.
Qed.

Lemma first_line_length content :
  (length (fst (first_line content)) <= length content)%nat.
Proof.
  rewrite <- (first_line_app content) at 2. rewrite app_length. lia.
Qed.

Lemma first_line_snd_skipn content :
  snd (first_line content) = skipn (length (fst (first_line content))) content.
Proof.
  rewrite <- (first_line_app content) at 3.
  rewrite skipn_app, skipn_all, Nat.sub_diag. reflexivity.
Qed.

Lemma first_line_fst_firstn content :
  fst (first_line content) = firstn (length (fst (first_line content))) content.
Proof.
  rewrite <- (first_line_app content) at 3.
  rewrite firstn_app, firstn_all, Nat.sub_diag. cbn [firstn]. rewrite app_nil_r. reflexivity.
Qed.

(* A prefix of the content no longer than the first line is a prefix of the first line. *)
Lemma firstn_first_line k content :
  (k <= length (fst (first_line content)))%nat ->
  firstn k content = firstn k (fst (first_line content)).
Proof.
  intros Hk. rewrite <- (first_line_app content) at 1.
  rewrite firstn_app. replace (k - length (fst (first_line content)))%nat with 0%nat by lia.
  cbn [firstn]. rewrite app_nil_r. reflexivity.
Qed.

Lemma first_line_no_lf content : ~ In 10 content -> first_line content = (content, []).
Proof.
  induction content as [|b t IH]; intros H; [reflexivity|].
  rewrite first_line_other by (intros ->; apply H; left; reflexivity).
  rewrite IH by (intros Hin; apply H; right; exact Hin). reflexivity.
Qed.

Lemma first_line_lf_app a rest :
  ~ In 10 a -> first_line (a ++ 10 :: rest) = (a ++ [10], rest).
Proof.
  induction a as [|b t IH]; intros H; [reflexivity|].
  cbn [app]. rewrite first_line_other by (intros ->; apply H; left; reflexivity).
  rewrite IH by (intros Hin; apply H; right; exact Hin). reflexivity.
Qed.

(* The first line is everything through the first LF, or everything when there is no LF. *)
Lemma first_line_shape content :
  (exists a, ~ In 10 a /\ content = a ++ 10 :: snd (first_line content)
             /\ fst (first_line content) = a ++ [10])
  \/ (~ In 10 content /\ first_line content = (content, [])).
Proof.
  induction content as [|b t IH].
  - right. split; [intros []|reflexivity].
  - destruct (N.eq_dec b 10) as [->|Hb].
    + left. exists []. rewrite first_line_lf. cbn [fst snd app]. repeat split. intros [].
    + rewrite first_line_other by exact Hb. cbn [fst snd].
      destruct IH as [(a & Ha & Hc & Hf)|[Hn Hf]].
      * left. exists (b :: a). repeat split.
        -- intros [E|Hin]; [congruence|contradiction].
        -- cbn [app]. rewrite <- Hc. reflexivity.
        -- rewrite Hf. reflexivity.
      * right. split.
        -- intros [E|Hin]; [congruence|contradiction].
        -- rewrite Hf. reflexivity.
Qed.

Lemma C15_first_line content :
  fst (first_line content) ++ snd (first_line content) = content
  /\ ((exists a, ~ In 10 a /\ content = a ++ 10 :: snd (first_line content)
                 /\ fst (first_line content) = a ++ [10])
      \/ (~ In 10 content /\ first_line content = (content, []))).
Proof. split; [apply first_line_app|apply first_line_shape]. Qed.

Lemma has_lf_In content : has_lf content = true <-> In 10 content.
Proof.
  unfold has_lf. rewrite existsb_exists. split.
  - intros (x & Hin & Hx). apply N.eqb_eq in Hx. subst x. exact Hin.
  - intros Hin. exists 10. split; [exact Hin|apply N.eqb_refl].
Qed.

Lemma reads_needed_eq content :
  reads_needed content
  = (length (fst (first_line content)) + if has_lf content then 0 else 1)%nat.
Proof.
  induction content as [|b t IH]; [reflexivity|].
  unfold has_lf in *. cbn [reads_needed first_line existsb].
  rewrite (N.eqb_sym 10 b).
  destruct (N.eqb_spec b 10); cbn [orb fst length]; [reflexivity|].
  rewrite IH. lia.
Qed.

Lemma reads_needed_pos content : (1 <= reads_needed content)%nat.
Proof. destruct content as [|b t]; cbn [reads_needed]; [lia|]. destruct (b =? 10); lia. Qed.

Lemma reads_needed_le content :
  (reads_needed content <= S (length (fst (first_line content))))%nat.
Proof. rewrite reads_needed_eq. destruct (has_lf content); lia. Qed.

(* ------------------------------------------------------------------------- *)
(** * List helpers *)

Lemma firstn_add {A} (k k' : nat) (l : list A) :
  firstn (k + k') l = firstn k l ++ firstn k' (skipn k l).
Proof.
  revert l. induction k as [|k IH]; intros l; [reflexivity|].
  destruct l as [|x l]; cbn [Nat.add firstn skipn app].
  - rewrite firstn_nil. reflexivity.
  - rewrite IH. reflexivity.
Qed.

Lemma skipn_add {A} (k k' : nat) (l : list A) :
  skipn (k + k') l = skipn k' (skipn k l).
Proof.
  revert l. induction k as [|k IH]; intros l; [reflexivity|].
  destruct l as [|x l]; cbn [Nat.add skipn].
  - rewrite skipn_nil. reflexivity.
  - apply IH.
Qed.

Lemma skipn_skipn_S {A} (j : nat) (x : A) (l : list A) : skipn j l = skipn (S j) (x :: l).
Proof. reflexivity. Qed.

(* ------------------------------------------------------------------------- *)
(** * One read call of the one-byte BufReader *)

Definition one_read (r : reader) : rd_res * reader :=
  match r_sched r with
  | RIntr :: t => (RdIntr, {| r_content := r_content r; r_sched := t |})
  | RFail :: t => (RdErr, {| r_content := r_content r; r_sched := t |})
  | s =>
      match r_content r with
      | [] => (RdOk [], {| r_content := []; r_sched := tl s |})
      | b :: c => (RdOk [b], {| r_content := c; r_sched := tl s |})
      end
  end.

Lemma reader_read_one r : reader_read r 1 = one_read r.
Proof.
  destruct r as [c s]. unfold reader_read, one_read. cbn [r_sched r_content].
  destruct s as [|[n| |] t]; try reflexivity.
  - destruct c as [|b c].
    + replace (N.to_nat (N.min 1 (nlen (@nil N)))) with 0%nat by (unfold nlen; cbn [length]; lia).
      reflexivity.
    + replace (N.to_nat (N.min 1 (nlen (b :: c)))) with 1%nat by (unfold nlen; cbn [length]; lia).
      reflexivity.
  - destruct c as [|b c].
    + replace (N.to_nat (N.min (N.min 1 (n + 1)) (nlen (@nil N)))) with 0%nat
        by (unfold nlen; cbn [length]; lia).
      reflexivity.
    + replace (N.to_nat (N.min (N.min 1 (n + 1)) (nlen (b :: c)))) with 1%nat
        by (unfold nlen; cbn [length]; lia).
      reflexivity.
Qed.

Lemma rul_step fuel r acc :
  read_until_lf (S fuel) r acc =
  match one_read r with
  | (RdIntr, r') => read_until_lf fuel r' acc
  | (RdErr, r') => Some (Err tt, r')
  | (RdOk [], r') => Some (Ok acc, r')
  | (RdOk (b :: _), r') =>
      if b =? 10 then Some (Ok (acc ++ [b]), r') else read_until_lf fuel r' (acc ++ [b])
  end.
Proof. cbn [read_until_lf]. rewrite reader_read_one. reflexivity. Qed.

Definition data_head (s : list rd_ev) : Prop :=
  match s with [] | RData _ :: _ => True | _ => False end.

Lemma rul_step_data fuel c s acc :
  data_head s ->
  read_until_lf (S fuel) {| r_content := c; r_sched := s |} acc =
  match c with
  | [] => Some (Ok acc, {| r_content := []; r_sched := tl s |})
  | b :: c' =>
      if b =? 10 then Some (Ok (acc ++ [b]), {| r_content := c'; r_sched := tl s |})
      else read_until_lf fuel {| r_content := c'; r_sched := tl s |} (acc ++ [b])
  end.
Proof.
  intros Hs. rewrite rul_step. unfold one_read. cbn [r_sched r_content].
  destruct s as [|[n| |] t]; try contradiction; destruct c; reflexivity.
Qed.

Lemma rul_step_intr fuel c t acc :
  read_until_lf (S fuel) {| r_content := c; r_sched := RIntr :: t |} acc
  = read_until_lf fuel {| r_content := c; r_sched := t |} acc.
Proof. rewrite rul_step. reflexivity. Qed.

Lemma rul_step_fail fuel c t acc :
  read_until_lf (S fuel) {| r_content := c; r_sched := RFail :: t |} acc
  = Some (Err tt, {| r_content := c; r_sched := t |}).
Proof. rewrite rul_step. reflexivity. Qed.

Definition mkr (c : list N) (s : list rd_ev) : reader := {| r_content := c; r_sched := s |}.

(* Number of calls in a schedule prefix that deliver a byte (or EOF). *)
Fixpoint data_reads (s : list rd_ev) : nat :=
  match s with
  | [] => 0
  | RData _ :: t => S (data_reads t)
  | _ :: t => data_reads t
  end.

(* ------------------------------------------------------------------------- *)
(** * The read loop *)

Lemma rul_total : forall fuel content sched acc,
  (length content + length sched < fuel)%nat ->
  read_until_lf fuel (mkr content sched) acc <> None.
Proof.
  unfold mkr.
  induction fuel as [|fuel IH]; intros content sched acc Hf; [lia|].
  destruct sched as [|[n| |] t]; cbn [length] in *.
  - rewrite rul_step_data by exact I. cbn [tl].
    destruct content as [|b c]; [discriminate|].
    destruct (N.eqb_spec b 10); [discriminate|]. apply IH. cbn [length] in *. lia.
  - rewrite rul_step_data by exact I. cbn [tl].
    destruct content as [|b c]; [discriminate|].
    destruct (N.eqb_spec b 10); [discriminate|]. apply IH. cbn [length] in *. lia.
  - rewrite rul_step_intr. apply IH. lia.
  - rewrite rul_step_fail. discriminate.
Qed.

(* Whatever the schedule: either exactly the first line was read and consumed, or a hard error
   was hit after consuming only a prefix of the first line. *)
Lemma rul_spec : forall fuel content sched acc res r',
  read_until_lf fuel (mkr content sched) acc = Some (res, r') ->
  (exists j, r_sched r' = skipn j sched) /\
  ((res = Ok (acc ++ fst (first_line content)) /\ r_content r' = snd (first_line content))
   \/ (res = Err tt /\ In RFail sched /\
       exists k, (k <= length (fst (first_line content)))%nat /\ r_content r' = skipn k content)).
Proof.
  unfold mkr.
  induction fuel as [|fuel IH]; intros content sched acc res r' H; [discriminate H|].
  assert (Hdata : forall t,
    match content with
    | [] => Some (Ok acc, {| r_content := []; r_sched := t |})
    | b :: c =>
        if b =? 10 then Some (Ok (acc ++ [b]), {| r_content := c; r_sched := t |})
        else read_until_lf fuel {| r_content := c; r_sched := t |} (acc ++ [b])
    end = Some (res, r') ->
    (exists j, r_sched r' = skipn j t) /\
    ((res = Ok (acc ++ fst (first_line content)) /\ r_content r' = snd (first_line content))
     \/ (res = Err tt /\ In RFail t /\
         exists k, (k <= length (fst (first_line content)))%nat /\ r_content r' = skipn k content))).
  { intros t Ht. destruct content as [|b c].
    - injection Ht as <- <-. cbn [r_sched r_content first_line fst snd]. split.
      + exists 0%nat. reflexivity.
      + left. rewrite app_nil_r. split; reflexivity.
    - cbn [first_line]. destruct (N.eqb_spec b 10) as [Hb|Hb].
      + injection Ht as <- <-. cbn [r_sched r_content fst snd]. split.
        * exists 0%nat. reflexivity.
        * left. split; reflexivity.
      + apply IH in Ht. destruct Ht as [Hj [[Hres Hc]|(Hres & Hin & k & Hk & Hc)]].
        * split; [exact Hj|]. left. cbn [fst snd]. rewrite <- app_assoc in Hres.
          split; [exact Hres|exact Hc].
        * split; [exact Hj|]. right. split; [exact Hres|]. split; [exact Hin|].
          exists (S k). cbn [fst length skipn]. split; [lia|exact Hc]. }
  destruct sched as [|[n| |] t].
  - rewrite rul_step_data in H by exact I. cbn [tl] in H. apply Hdata in H. exact H.
  - rewrite rul_step_data in H by exact I. cbn [tl] in H.
    apply Hdata in H. destruct H as [[j Hj] Hrest]. split.
    + exists (S j). exact Hj.
    + destruct Hrest as [Hok|(Hres & Hin & Hk)]; [left; exact Hok|].
      right. split; [exact Hres|]. split; [right; exact Hin|exact Hk].
  - rewrite rul_step_intr in H. apply IH in H. destruct H as [[j Hj] Hrest]. split.
    + exists (S j). exact Hj.
    + destruct Hrest as [Hok|(Hres & Hin & Hk)]; [left; exact Hok|].
      right. split; [exact Hres|]. split; [right; exact Hin|exact Hk].
  - rewrite rul_step_fail in H. injection H as <- <-. cbn [r_sched r_content]. split.
    + exists 1%nat. reflexivity.
    + right. split; [reflexivity|]. split; [left; reflexivity|].
      exists 0%nat. split; [lia|reflexivity].
Qed.

(* A hard error scheduled before the line is complete: Err, and exactly the bytes delivered
   before the failure have been consumed. *)
Lemma rul_error : forall pre post fuel content acc,
  ~ In RFail pre ->
  (data_reads pre < reads_needed content)%nat ->
  (length pre < fuel)%nat ->
  read_until_lf fuel (mkr content (pre ++ RFail :: post)) acc
  = Some (Err tt, mkr (skipn (data_reads pre) content) post).
Proof.
  unfold mkr.
  induction pre as [|ev pre IH]; intros post fuel content acc Hclean Hd Hf;
    (destruct fuel as [|fuel]; [cbn [length] in Hf; lia|]); cbn [app].
  - rewrite rul_step_fail. reflexivity.
  - assert (Hclean' : ~ In RFail pre) by (intros Hin; apply Hclean; right; exact Hin).
    cbn [length] in Hf.
    destruct ev as [n| |]; cbn [data_reads] in *.
    + rewrite rul_step_data by exact I. cbn [tl].
      destruct content as [|b c]; cbn [reads_needed] in Hd; [lia|].
      destruct (N.eqb_spec b 10) as [Hb|Hb]; [lia|].
      rewrite IH by (try assumption; lia). reflexivity.
    + rewrite rul_step_intr. apply IH; try assumption; lia.
    + exfalso. apply Hclean. left. reflexivity.
Qed.

(* Enough successful reads before any hard error: the line is read completely. *)
Lemma rul_ok_pre : forall pre post fuel content acc,
  ~ In RFail pre ->
  (reads_needed content <= data_reads pre)%nat ->
  (length pre <= fuel)%nat ->
  exists r', read_until_lf fuel (mkr content (pre ++ post)) acc
             = Some (Ok (acc ++ fst (first_line content)), r')
             /\ r_content r' = snd (first_line content)
             /\ exists j, r_sched r' = skipn j (pre ++ post).
Proof.
  unfold mkr.
  induction pre as [|ev pre IH]; intros post fuel content acc Hclean Hd Hf.
  - pose proof (reads_needed_pos content). cbn [data_reads] in Hd. lia.
  - destruct fuel as [|fuel]; [cbn [length] in Hf; lia|]. cbn [app].
    assert (Hclean' : ~ In RFail pre) by (intros Hin; apply Hclean; right; exact Hin).
    cbn [length] in Hf.
    destruct ev as [n| |]; cbn [data_reads] in *.
    + rewrite rul_step_data by exact I. cbn [tl].
      destruct content as [|b c]; cbn [reads_needed first_line] in *.
      * eexists. split; [rewrite app_nil_r; reflexivity|]. cbn [r_content r_sched fst snd].
        split; [reflexivity|]. exists 1%nat. reflexivity.
      * destruct (N.eqb_spec b 10) as [Hb|Hb].
        -- eexists. split; [reflexivity|]. cbn [r_content r_sched fst snd].
           split; [reflexivity|]. exists 1%nat. reflexivity.
        -- destruct (IH post fuel c (acc ++ [b]) Hclean' ltac:(lia) ltac:(lia))
             as (r' & Hr & Hc & j & Hj).
           exists r'. cbn [fst snd]. rewrite <- app_assoc in Hr. split; [exact Hr|].
           split; [exact Hc|]. exists (S j). exact Hj.
    + rewrite rul_step_intr.
      destruct (IH post fuel content acc Hclean' ltac:(lia) ltac:(lia))
        as (r' & Hr & Hc & j & Hj).
      exists r'. split; [exact Hr|]. split; [exact Hc|]. exists (S j). exact Hj.
    + exfalso. apply Hclean. left. reflexivity.
Qed.

(* ------------------------------------------------------------------------- *)
(** * Frame::read *)

(* The outcome of Frame::read when it got [line] from read_until. *)
Definition read_result (line : list N) : result rerr frame :=
  match decode line with Ok f => Ok f | Err e => Err (RFrame e) end.

Lemma frame_read_unfold r :
  frame_read r =
  match read_until_lf (read_fuel r) r [] with
  | None => None
  | Some (Err _, r') => Some (Err RIo, r')
  | Some (Ok line, r') => Some (read_result line, r')
  end.
Proof.
  unfold frame_read, read_result.
  destruct (read_until_lf (read_fuel r) r []) as [[[line|e] r']|]; try reflexivity.
  destruct (decode line); reflexivity.
Qed.

Lemma C15_read_total r : frame_read r <> None.
Proof.
  rewrite frame_read_unfold.
  pose proof (rul_total (read_fuel r) (r_content r) (r_sched r) []) as H.
  unfold mkr in H. destruct r as [c s]. cbn [r_content r_sched] in H.
  destruct (read_until_lf _ _ _) as [[[line|e] r']|]; try discriminate.
  exfalso. apply H; [unfold read_fuel; cbn [r_content r_sched]; lia|reflexivity].
Qed.

(* Every outcome of Frame::read, for every schedule. *)
Lemma C15_read_cases r res r' :
  frame_read r = Some (res, r') ->
  (exists j, r_sched r' = skipn j (r_sched r)) /\
  ((res = read_result (fst (first_line (r_content r)))
    /\ r_content r' = snd (first_line (r_content r)))
   \/ (res = Err RIo /\ In RFail (r_sched r) /\
       exists k, (k <= length (fst (first_line (r_content r))))%nat
                 /\ r_content r' = skipn k (r_content r))).
Proof.
  rewrite frame_read_unfold. destruct r as [c s]. cbn [r_content r_sched].
  destruct (read_until_lf _ _ _) as [[res0 r0]|] eqn:E; [|discriminate].
  apply (rul_spec _ c s []) in E. destruct E as [Hj Hcases].
  destruct Hcases as [[Hres Hc]|(Hres & Hin & Hk)]; subst res0; intros H; injection H as <- <-.
  - split; [exact Hj|]. left. split; [reflexivity|exact Hc].
  - split; [exact Hj|]. right. split; [reflexivity|]. split; [exact Hin|exact Hk].
Qed.

Lemma C15_read_exact content sched :
  ~ In RFail sched ->
  exists r',
    frame_read {| r_content := content; r_sched := sched |}
    = Some (match decode (fst (first_line content)) with
            | Ok f => Ok f
            | Err e => Err (RFrame e)
            end, r')
    /\ r_content r' = snd (first_line content)
    /\ exists j, r_sched r' = skipn j sched.
Proof.
  intros Hclean.
  destruct (frame_read {| r_content := content; r_sched := sched |}) as [[res r']|] eqn:E;
    [|exfalso; exact (C15_read_total _ E)].
  pose proof (C15_read_cases _ _ _ E) as [Hj Hcases]. cbn [r_content r_sched] in *.
  destruct Hcases as [[Hres Hc]|(_ & Hin & _)]; [|contradiction].
  exists r'. subst res. split; [reflexivity|]. split; [exact Hc|exact Hj].
Qed.

(* The same when a hard error is scheduled, but only after enough successful reads. *)
Lemma C15_read_exact_before_fail content pre post :
  ~ In RFail pre ->
  (reads_needed content <= data_reads pre)%nat ->
  exists r',
    frame_read {| r_content := content; r_sched := pre ++ post |}
    = Some (match decode (fst (first_line content)) with
            | Ok f => Ok f
            | Err e => Err (RFrame e)
            end, r')
    /\ r_content r' = snd (first_line content).
Proof.
  intros Hclean Hd. rewrite frame_read_unfold.
  destruct (rul_ok_pre pre post (read_fuel (mkr content (pre ++ post))) content [] Hclean Hd)
    as (r' & Hr & Hc & _).
  { unfold read_fuel, mkr. cbn [r_content r_sched]. rewrite app_length. lia. }
  unfold mkr in Hr. rewrite Hr. exists r'. split; [reflexivity|exact Hc].
Qed.

Lemma C15_read_error content pre post :
  ~ In RFail pre ->
  (data_reads pre < reads_needed content)%nat ->
  frame_read {| r_content := content; r_sched := pre ++ RFail :: post |}
  = Some (Err RIo, {| r_content := skipn (data_reads pre) content; r_sched := post |})
  /\ (data_reads pre <= length (fst (first_line content)))%nat
  /\ (In 10 content -> (data_reads pre < length (fst (first_line content)))%nat).
Proof.
  intros Hclean Hd. split; [|split].
  - rewrite frame_read_unfold.
    pose proof (rul_error pre post (read_fuel (mkr content (pre ++ RFail :: post))) content []
                  Hclean Hd) as H.
    unfold mkr in H. rewrite H; [reflexivity|].
    unfold read_fuel. cbn [r_content r_sched]. rewrite app_length. lia.
  - pose proof (reads_needed_le content). lia.
  - intros Hin. apply has_lf_In in Hin. rewrite reads_needed_eq, Hin in Hd. lia.
Qed.

(* ------------------------------------------------------------------------- *)
(** * The write loop *)

Definition mkw (o : list N) (s : list wr_ev) : writer := {| w_out := o; w_sched := s |}.

(* Bytes a schedule prefix is willing to take. *)
Fixpoint capacity (s : list wr_ev) : N :=
  match s with
  | [] => 0
  | WAccept n :: t => n + 1 + capacity t
  | _ :: t => capacity t
  end.

Definition wr_clean (s : list wr_ev) : Prop := forall ev, In ev s -> ev <> WFail /\ ev <> WZero.

Lemma wr_clean_tl ev s : wr_clean (ev :: s) -> wr_clean s.
Proof. intros H e He. apply H. right. exact He. Qed.

Lemma wa_nil fuel w : write_all fuel w [] = Some (Ok tt, w).
Proof. destruct fuel; reflexivity. Qed.

Lemma wa_step_full fuel out x b :
  write_all (S fuel) (mkw out []) (x :: b) = Some (Ok tt, mkw (out ++ x :: b) []).
Proof.
  cbn [write_all mkw writer_write w_sched w_out length skipn].
  rewrite skipn_all. apply wa_nil.
Qed.

Definition accepted (n : N) (buf : list N) : nat := N.to_nat (N.min (n + 1) (nlen buf)).

Lemma accepted_pos n x b : (1 <= accepted n (x :: b) <= length (x :: b))%nat.
Proof. unfold accepted. rewrite nlen_cons. unfold nlen. cbn [length]. lia. Qed.

Lemma wa_step_accept fuel out n t x b :
  write_all (S fuel) (mkw out (WAccept n :: t)) (x :: b)
  = write_all fuel (mkw (out ++ firstn (accepted n (x :: b)) (x :: b)) t)
      (skipn (accepted n (x :: b)) (x :: b)).
Proof.
  pose proof (accepted_pos n x b) as Hk.
  cbn [write_all mkw writer_write w_sched w_out]. fold (accepted n (x :: b)).
  destruct (accepted n (x :: b)) as [|k]; [lia|reflexivity].
Qed.

Lemma wa_step_intr fuel out t x b :
  write_all (S fuel) (mkw out (WIntr :: t)) (x :: b) = write_all fuel (mkw out t) (x :: b).
Proof. reflexivity. Qed.

Lemma wa_step_zero fuel out t x b :
  write_all (S fuel) (mkw out (WZero :: t)) (x :: b) = Some (Err tt, mkw out t).
Proof. reflexivity. Qed.

Lemma wa_step_fail fuel out t x b :
  write_all (S fuel) (mkw out (WFail :: t)) (x :: b) = Some (Err tt, mkw out t).
Proof. reflexivity. Qed.

Lemma wa_total : forall fuel out sched buf,
  (length buf + length sched < fuel)%nat ->
  write_all fuel (mkw out sched) buf <> None.
Proof.
  induction fuel as [|fuel IH]; intros out sched buf Hf; [lia|].
  destruct buf as [|x b]; [rewrite wa_nil; discriminate|].
  destruct sched as [|[n| | |] t]; cbn [length] in Hf.
  - rewrite wa_step_full. discriminate.
  - rewrite wa_step_accept. apply IH. rewrite skipn_length.
    pose proof (accepted_pos n x b). cbn [length] in *. lia.
  - rewrite wa_step_intr. apply IH. cbn [length]. lia.
  - rewrite wa_step_zero. discriminate.
  - rewrite wa_step_fail. discriminate.
Qed.

(* Whatever the schedule: either everything was delivered, or a WFail/WZero was hit and a strict
   prefix was delivered. *)
Lemma wa_spec : forall fuel out sched buf res w',
  write_all fuel (mkw out sched) buf = Some (res, w') ->
  (exists j, w_sched w' = skipn j sched) /\
  ((res = Ok tt /\ w_out w' = out ++ buf)
   \/ (res = Err tt /\ (In WFail sched \/ In WZero sched) /\
       exists k, (k < length buf)%nat /\ w_out w' = out ++ firstn k buf)).
Proof.
  induction fuel as [|fuel IH]; intros out sched buf res w' H.
  - destruct buf as [|x b]; [|discriminate H]. rewrite wa_nil in H. injection H as <- <-.
    cbn [mkw w_sched w_out]. split; [exists 0%nat; reflexivity|].
    left. rewrite app_nil_r. split; reflexivity.
  - destruct buf as [|x b].
    { rewrite wa_nil in H. injection H as <- <-.
      cbn [mkw w_sched w_out]. split; [exists 0%nat; reflexivity|].
      left. rewrite app_nil_r. split; reflexivity. }
    destruct sched as [|[n| | |] t].
    + rewrite wa_step_full in H. injection H as <- <-. cbn [mkw w_sched w_out].
      split; [exists 0%nat; reflexivity|]. left. split; reflexivity.
    + rewrite wa_step_accept in H. pose proof (accepted_pos n x b) as Hk.
      set (k := accepted n (x :: b)) in *. set (buf := x :: b) in *.
      apply IH in H. destruct H as [[j Hj] Hcases]. split; [exists (S j); exact Hj|].
      destruct Hcases as [[Hres Ho]|(Hres & Hin & k' & Hk' & Ho)].
      * left. split; [exact Hres|]. rewrite Ho, <- app_assoc, firstn_skipn. reflexivity.
      * right. split; [exact Hres|]. split; [destruct Hin; [left|right]; right; assumption|].
        exists (k + k')%nat. rewrite skipn_length in Hk'. split; [lia|].
        rewrite Ho, <- app_assoc, firstn_add. reflexivity.
    + rewrite wa_step_intr in H. apply IH in H. destruct H as [[j Hj] Hcases].
      split; [exists (S j); exact Hj|].
      destruct Hcases as [Hok|(Hres & Hin & Hk)]; [left; exact Hok|].
      right. split; [exact Hres|]. split; [destruct Hin; [left|right]; right; assumption|exact Hk].
    + rewrite wa_step_zero in H. injection H as <- <-. cbn [mkw w_sched w_out].
      split; [exists 1%nat; reflexivity|]. right. split; [reflexivity|].
      split; [right; left; reflexivity|]. exists 0%nat. cbn [length firstn].
      rewrite app_nil_r. split; [lia|reflexivity].
    + rewrite wa_step_fail in H. injection H as <- <-. cbn [mkw w_sched w_out].
      split; [exists 1%nat; reflexivity|]. right. split; [reflexivity|].
      split; [left; left; reflexivity|]. exists 0%nat. cbn [length firstn].
      rewrite app_nil_r. split; [lia|reflexivity].
Qed.

(* A WFail/WZero scheduled before the prefix has taken everything: Err, and exactly the
   capacity of the prefix has been delivered. *)
Lemma wa_error : forall pre bad post fuel out buf,
  wr_clean pre -> (bad = WFail \/ bad = WZero) ->
  capacity pre < nlen buf ->
  (length pre < fuel)%nat ->
  write_all fuel (mkw out (pre ++ bad :: post)) buf
  = Some (Err tt, mkw (out ++ firstn (N.to_nat (capacity pre)) buf) post).
Proof.
  induction pre as [|ev pre IH]; intros bad post fuel out buf Hclean Hbad Hcap Hf;
    (destruct fuel as [|fuel]; [cbn [length] in Hf; lia|]);
    (destruct buf as [|x b]; [unfold nlen in Hcap; cbn [length] in Hcap; lia|]); cbn [app].
  - cbn [capacity]. change (N.to_nat 0) with 0%nat. cbn [firstn]. rewrite app_nil_r.
    destruct Hbad as [-> | ->]; reflexivity.
  - pose proof (wr_clean_tl _ _ Hclean) as Hclean'. cbn [length] in Hf.
    destruct ev as [n| | |]; cbn [capacity] in *.
    + rewrite wa_step_accept.
      assert (Hk : accepted n (x :: b) = N.to_nat (n + 1)) by (unfold accepted; lia).
      rewrite Hk. rewrite IH; try assumption; try lia.
      * rewrite <- app_assoc, <- firstn_add.
        replace (N.to_nat (n + 1 + capacity pre))
          with (N.to_nat (n + 1) + N.to_nat (capacity pre))%nat by lia.
        reflexivity.
      * unfold nlen in *. rewrite skipn_length. lia.
    + rewrite wa_step_intr. apply IH; try assumption. lia.
    + exfalso. destruct (Hclean WZero) as [_ H]; [left; reflexivity|]. apply H. reflexivity.
    + exfalso. destruct (Hclean WFail) as [H _]; [left; reflexivity|]. apply H. reflexivity.
Qed.

(* Enough capacity before any WFail/WZero: everything is delivered. *)
Lemma wa_ok_pre : forall pre post fuel out buf,
  wr_clean pre ->
  nlen buf <= capacity pre ->
  (length pre <= fuel)%nat ->
  exists w', write_all fuel (mkw out (pre ++ post)) buf = Some (Ok tt, w')
             /\ w_out w' = out ++ buf.
Proof.
  induction pre as [|ev pre IH]; intros post fuel out buf Hclean Hcap Hf.
  - cbn [capacity] in Hcap. destruct buf as [|x b]; [|rewrite nlen_cons in Hcap; lia].
    rewrite wa_nil. eexists. split; [reflexivity|]. cbn [mkw w_out]. rewrite app_nil_r. reflexivity.
  - destruct buf as [|x b].
    { rewrite wa_nil. eexists. split; [reflexivity|]. cbn [mkw w_out]. rewrite app_nil_r.
      reflexivity. }
    destruct fuel as [|fuel]; [cbn [length] in Hf; lia|]. cbn [length] in Hf.
    pose proof (wr_clean_tl _ _ Hclean) as Hclean'. cbn [app].
    destruct ev as [n| | |]; cbn [capacity] in *.
    + rewrite wa_step_accept.
      destruct (IH post fuel (out ++ firstn (accepted n (x :: b)) (x :: b))
                  (skipn (accepted n (x :: b)) (x :: b)) Hclean') as (w' & Hw & Ho).
      * unfold nlen in *. rewrite skipn_length. unfold accepted, nlen. lia.
      * lia.
      * exists w'. split; [exact Hw|]. rewrite Ho, <- app_assoc, firstn_skipn. reflexivity.
    + rewrite wa_step_intr. apply IH; try assumption. lia.
    + exfalso. destruct (Hclean WZero) as [_ H]; [left; reflexivity|]. apply H. reflexivity.
    + exfalso. destruct (Hclean WFail) as [H _]; [left; reflexivity|]. apply H. reflexivity.
Qed.

(* ------------------------------------------------------------------------- *)
(** * Frame::write *)

Lemma frame_write_unfold f w :
  frame_write f w =
  match write_all (write_fuel w (encode_nl f)) w (encode_nl f) with
  | None => None
  | Some (Ok _, w') => Some (Ok tt, w')
  | Some (Err _, w') => Some (Err RIo, w')
  end.
Proof. reflexivity. Qed.

Lemma C15_write_total f w : frame_write f w <> None.
Proof.
  rewrite frame_write_unfold. destruct w as [o s].
  pose proof (wa_total (write_fuel (mkw o s) (encode_nl f)) o s (encode_nl f)) as H.
  unfold mkw in H.
  destruct (write_all _ _ _) as [[[u|u] w']|]; try discriminate.
  exfalso. apply H; [unfold write_fuel; cbn [w_sched]; lia|reflexivity].
Qed.

Lemma C15_fuel_enough :
  (forall r, frame_read r <> None) /\ (forall f w, frame_write f w <> None).
Proof. split; [exact C15_read_total|exact C15_write_total]. Qed.

(* Every outcome of Frame::write, for every schedule. *)
Lemma C15_write_cases f w res w' :
  frame_write f w = Some (res, w') ->
  (exists j, w_sched w' = skipn j (w_sched w)) /\
  ((res = Ok tt /\ w_out w' = w_out w ++ encode_nl f)
   \/ (res = Err RIo /\ (In WFail (w_sched w) \/ In WZero (w_sched w)) /\
       exists k, (k < length (encode_nl f))%nat /\ w_out w' = w_out w ++ firstn k (encode_nl f))).
Proof.
  rewrite frame_write_unfold. destruct w as [o s]. cbn [w_out w_sched].
  destruct (write_all _ _ _) as [[res0 w0]|] eqn:E; [|discriminate].
  apply (wa_spec _ o s) in E. destruct E as [Hj Hcases].
  destruct Hcases as [[Hres Ho]|(Hres & Hin & Hk)]; subst res0; intros H; injection H as <- <-.
  - split; [exact Hj|]. left. split; [reflexivity|exact Ho].
  - split; [exact Hj|]. right. split; [reflexivity|]. split; [exact Hin|exact Hk].
Qed.

Lemma C15_write_all f out sched :
  (forall ev, In ev sched -> ev <> WFail /\ ev <> WZero) ->
  exists w',
    frame_write f {| w_out := out; w_sched := sched |} = Some (Ok tt, w')
    /\ w_out w' = out ++ encode_nl f.
Proof.
  intros Hclean.
  destruct (frame_write f {| w_out := out; w_sched := sched |}) as [[res w']|] eqn:E;
    [|exfalso; exact (C15_write_total _ _ E)].
  pose proof (C15_write_cases _ _ _ _ E) as [_ Hcases]. cbn [w_out w_sched] in *.
  destruct Hcases as [[Hres Ho]|(_ & Hin & _)].
  - exists w'. subst res. split; [reflexivity|exact Ho].
  - exfalso. destruct Hin as [Hin|Hin]; destruct (Hclean _ Hin) as [H1 H2]; congruence.
Qed.

Lemma C15_write_all_before_fail f out pre post :
  (forall ev, In ev pre -> ev <> WFail /\ ev <> WZero) ->
  nlen (encode_nl f) <= capacity pre ->
  exists w',
    frame_write f {| w_out := out; w_sched := pre ++ post |} = Some (Ok tt, w')
    /\ w_out w' = out ++ encode_nl f.
Proof.
  intros Hclean Hcap. rewrite frame_write_unfold.
  destruct (wa_ok_pre pre post (write_fuel (mkw out (pre ++ post)) (encode_nl f)) out
              (encode_nl f) Hclean Hcap) as (w' & Hw & Ho).
  { unfold write_fuel, mkw. cbn [w_sched]. rewrite app_length. lia. }
  unfold mkw in Hw. rewrite Hw. exists w'. split; [reflexivity|exact Ho].
Qed.

Lemma C15_write_error f w res w' :
  frame_write f w = Some (res, w') ->
  (exists k, w_out w' = w_out w ++ firstn k (encode_nl f))
  /\ (res = Err RIo \/ (res = Ok tt /\ w_out w' = w_out w ++ encode_nl f)).
Proof.
  intros H. apply C15_write_cases in H. destruct H as [_ [[Hres Ho]|(Hres & _ & k & Hk & Ho)]].
  - split; [|right; split; assumption].
    exists (length (encode_nl f)). rewrite firstn_all. exact Ho.
  - split; [exists k; exact Ho|left; exact Hres].
Qed.

Lemma C15_write_fault f out pre bad post :
  (forall ev, In ev pre -> ev <> WFail /\ ev <> WZero) ->
  bad = WFail \/ bad = WZero ->
  capacity pre < nlen (encode_nl f) ->
  frame_write f {| w_out := out; w_sched := pre ++ bad :: post |}
  = Some (Err RIo, {| w_out := out ++ firstn (N.to_nat (capacity pre)) (encode_nl f);
                      w_sched := post |}).
Proof.
  intros Hclean Hbad Hcap. rewrite frame_write_unfold.
  pose proof (wa_error pre bad post (write_fuel (mkw out (pre ++ bad :: post)) (encode_nl f)) out
                (encode_nl f) Hclean Hbad Hcap) as H.
  unfold mkw in H. rewrite H; [reflexivity|].
  unfold write_fuel. cbn [w_sched]. rewrite app_length. lia.
Qed.

(* ------------------------------------------------------------------------- *)
(** * Frames back to back *)

Lemma hexdigit_ge n : 48 <= hexdigit n.
Proof. unfold hexdigit. destruct (N.ltb_spec n 10); lia. Qed.

Lemma hex_no_lf bs : ~ In 10 (hex bs).
Proof.
  induction bs as [|b t IH]; cbn [hex]; [intros []|].
  intros [H|[H|H]].
  - pose proof (hexdigit_ge (b / 16)). lia.
  - pose proof (hexdigit_ge (b mod 16)). lia.
  - exact (IH H).
Qed.

(* The wire form of any frame contains exactly one LF: its last byte. *)
Lemma encode_nl_one_lf f : encode_nl f = (encode f ++ [13]) ++ [10] /\ ~ In 10 (encode f ++ [13]).
Proof.
  split.
  - unfold encode_nl. rewrite <- app_assoc. reflexivity.
  - unfold encode. intros H. apply in_app_or in H. destruct H as [[H|H]|[H|[]]]; try lia.
    exact (hex_no_lf _ H).
Qed.

Lemma first_line_encode_nl f rest : first_line (encode_nl f ++ rest) = (encode_nl f, rest).
Proof.
  destruct (encode_nl_one_lf f) as [E Hn]. rewrite E, <- app_assoc. cbn [app].
  apply first_line_lf_app. exact Hn.
Qed.

Lemma In_skipn {A} (x : A) j l : In x (skipn j l) -> In x l.
Proof. intros H. rewrite <- (firstn_skipn j l). apply in_or_app. right. exact H. Qed.

(* Frame::read called n times in a row. *)
Fixpoint read_n (n : nat) (r : reader) : option (list (result rerr frame) * reader) :=
  match n with
  | O => Some ([], r)
  | S n' =>
      match frame_read r with
      | None => None
      | Some (res, r') =>
          match read_n n' r' with
          | None => None
          | Some (l, r'') => Some (res :: l, r'')
          end
      end
  end.

Lemma C15_read_back_to_back : forall (fs : list frame) trailing sched,
  Forall wf_frame fs -> ~ In RFail sched ->
  exists r',
    read_n (length fs) {| r_content := concat (map encode_nl fs) ++ trailing; r_sched := sched |}
    = Some (map (fun f => Ok f) fs, r')
    /\ r_content r' = trailing.
Proof.
  induction fs as [|f fs IH]; intros trailing sched Hwf Hclean.
  - eexists. split; reflexivity.
  - inversion Hwf as [|f0 fs0 Hf Hfs]; subst f0 fs0.
    cbn [length map concat read_n]. rewrite <- app_assoc.
    destruct (C15_read_exact (encode_nl f ++ concat (map encode_nl fs) ++ trailing) sched Hclean)
      as (r1 & Hr & Hc & j & Hj).
    rewrite Hr. rewrite first_line_encode_nl in *. cbn [fst snd] in *.
    destruct (C01_roundtrip f Hf) as [_ Hdec]. rewrite Hdec.
    destruct r1 as [c1 s1]. cbn [r_content r_sched] in Hc, Hj. subst c1 s1.
    destruct (IH trailing (skipn j sched) Hfs) as (r' & Hn & Ht).
    { intros Hin. apply Hclean. exact (In_skipn _ _ _ Hin). }
    rewrite Hn. exists r'. split; [reflexivity|exact Ht].
Qed.
