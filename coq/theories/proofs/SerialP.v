(* SerialP.v — proofs about SerialSignBus::process_message (properties C16, C18).
   Built on IoP.v (C15).  The Odk/wire part of Serial.v is not treated here. *)
From Flipdot Require Import Tactics.
From Flipdot Require Import Base Hex Frame Message Io Serial FrameP IoP.
Local Open Scope N_scope.

(* ------------------------------------------------------------------------- *)
(** * delivered / consumed *)

Lemma delivered_app w w' x : w_out w' = w_out w ++ x -> delivered w w' = x.
Proof.
  intros H. unfold delivered. rewrite H, skipn_app, skipn_all, Nat.sub_diag. reflexivity.
Qed.

Lemma consumed_skipn r r' k :
  r_content r' = skipn k (r_content r) -> (k <= length (r_content r))%nat ->
  consumed r r' = firstn k (r_content r).
Proof.
  intros H Hk. unfold consumed. rewrite H, skipn_length. f_equal. lia.
Qed.

Lemma consumed_first_line r r' :
  r_content r' = snd (first_line (r_content r)) ->
  consumed r r' = fst (first_line (r_content r)).
Proof.
  intros H. rewrite first_line_snd_skipn in H.
  rewrite (consumed_skipn _ _ _ H (first_line_length _)).
  symmetry. apply first_line_fst_firstn.
Qed.

Lemma consumed_same r : consumed r r = [].
Proof. unfold consumed. rewrite Nat.sub_diag. reflexivity. Qed.

(* ------------------------------------------------------------------------- *)
(** * Which messages expect a reply, which impose a delay *)

Lemma response_expected_iff m :
  response_expected m = true <->
  (exists a, m = Hello a) \/ (exists a, m = QueryState a) \/ (exists a o, m = RequestOperation a o).
Proof.
  split.
  - destruct m; cbn [response_expected]; intros H; try discriminate H; eauto.
  - intros [[a ->]|[[a ->]|(a & o & ->)]]; reflexivity.
Qed.

Lemma delay_after_send_iff m :
  (delay_after_send m = Some 30 <-> exists o d, m = SendData o d)
  /\ (delay_after_send m = None <-> ~ exists o d, m = SendData o d)
  /\ (delay_after_send m = Some 30 \/ delay_after_send m = None).
Proof.
  assert (Hno : delay_after_send m = None -> ~ exists o d, m = SendData o d).
  { intros H (o & d & ->). discriminate H. }
  destruct (delay_after_send m) eqn:E.
  - assert (n = 30 /\ exists o d, m = SendData o d) as [-> Hex].
    { destruct m; try discriminate E. injection E as <-. eauto. }
    split; [|split].
    + split; [intros _; exact Hex|reflexivity].
    + split; [discriminate|]. intros H. contradiction.
    + left. reflexivity.
  - split; [|split].
    + split; [discriminate|]. intros H. exfalso. exact (Hno eq_refl H).
    + split; [intros _; exact (Hno eq_refl)|reflexivity].
    + right. reflexivity.
Qed.

Definition in_progress (r : msg) : Prop :=
  exists a, r = ReportState a PageLoadInProgress \/ r = ReportState a PageShowInProgress.

Lemma delay_after_receive_iff r :
  (delay_after_receive r = Some 100 <-> in_progress r)
  /\ (delay_after_receive r = None <-> ~ in_progress r)
  /\ (delay_after_receive r = Some 100 \/ delay_after_receive r = None).
Proof.
  unfold in_progress.
  assert (Hno : forall r', delay_after_receive r' = None ->
            ~ exists a, r' = ReportState a PageLoadInProgress \/ r' = ReportState a PageShowInProgress).
  { intros r' H (a & [-> | ->]); discriminate H. }
  destruct (delay_after_receive r) eqn:E.
  - assert (n = 100 /\ exists a, r = ReportState a PageLoadInProgress \/ r = ReportState a PageShowInProgress)
      as [-> Hex].
    { destruct r; try discriminate E. destruct s; try discriminate E;
        injection E as <-; (split; [reflexivity|]); eauto. }
    split; [|split].
    + split; [intros _; exact Hex|reflexivity].
    + split; [discriminate|]. intros H. contradiction.
    + left. reflexivity.
  - split; [|split].
    + split; [discriminate|]. intros H. exfalso. exact (Hno r E H).
    + split; [intros _; exact (Hno r E)|reflexivity].
    + right. reflexivity.
Qed.

(* ------------------------------------------------------------------------- *)
(** * Every outcome of process_message *)

Definition sent (m : msg) : list N := encode_nl (frame_of_msg m).
Definition line_in (p : port) : list N := fst (first_line (r_content (pt_in p))).
Definition wr_fault (p : port) : Prop :=
  In WFail (w_sched (pt_out p)) \/ In WZero (w_sched (pt_out p)).

Inductive serial_outcome (m : msg) (p : port)
  : result rerr (option msg) -> port -> list sev -> Prop :=
| SoWriteErr w' k :
    wr_fault p ->
    (k < length (sent m))%nat ->
    w_out w' = w_out (pt_out p) ++ firstn k (sent m) ->
    (exists j, w_sched w' = skipn j (w_sched (pt_out p))) ->
    serial_outcome m p (Err RIo) {| pt_in := pt_in p; pt_out := w' |}
      [EvWrite (firstn k (sent m))]
| SoNoReply w' :
    response_expected m = false ->
    w_out w' = w_out (pt_out p) ++ sent m ->
    (exists j, w_sched w' = skipn j (w_sched (pt_out p))) ->
    serial_outcome m p (Ok None) {| pt_in := pt_in p; pt_out := w' |}
      (EvWrite (sent m) :: sleep_ev (delay_after_send m))
| SoReadErr w' r' k :
    response_expected m = true ->
    w_out w' = w_out (pt_out p) ++ sent m ->
    (exists j, w_sched w' = skipn j (w_sched (pt_out p))) ->
    In RFail (r_sched (pt_in p)) ->
    (k <= length (line_in p))%nat ->
    r_content r' = skipn k (r_content (pt_in p)) ->
    (exists j, r_sched r' = skipn j (r_sched (pt_in p))) ->
    serial_outcome m p (Err RIo) {| pt_in := r'; pt_out := w' |}
      (EvWrite (sent m) :: sleep_ev (delay_after_send m) ++ [EvRead (firstn k (line_in p))])
| SoBadLine w' r' e :
    response_expected m = true ->
    w_out w' = w_out (pt_out p) ++ sent m ->
    (exists j, w_sched w' = skipn j (w_sched (pt_out p))) ->
    r_content r' = snd (first_line (r_content (pt_in p))) ->
    (exists j, r_sched r' = skipn j (r_sched (pt_in p))) ->
    decode (line_in p) = Err e ->
    serial_outcome m p (Err (RFrame e)) {| pt_in := r'; pt_out := w' |}
      (EvWrite (sent m) :: sleep_ev (delay_after_send m) ++ [EvRead (line_in p)])
| SoReply w' r' fr :
    response_expected m = true ->
    w_out w' = w_out (pt_out p) ++ sent m ->
    (exists j, w_sched w' = skipn j (w_sched (pt_out p))) ->
    r_content r' = snd (first_line (r_content (pt_in p))) ->
    (exists j, r_sched r' = skipn j (r_sched (pt_in p))) ->
    decode (line_in p) = Ok fr ->
    serial_outcome m p (Ok (Some (msg_of_frame fr))) {| pt_in := r'; pt_out := w' |}
      (EvWrite (sent m) :: sleep_ev (delay_after_send m) ++ [EvRead (line_in p)]
         ++ sleep_ev (delay_after_receive (msg_of_frame fr))).

Lemma serial_process_outcome m p res p' evs :
  serial_process m p = Some (res, p', evs) -> serial_outcome m p res p' evs.
Proof.
  unfold serial_process.
  destruct (frame_write (frame_of_msg m) (pt_out p)) as [[wres w']|] eqn:Ew; [|discriminate].
  pose proof (C15_write_cases _ _ _ _ Ew) as [Hwj Hw].
  destruct Hw as [[-> Ho]|(-> & Hbad & k & Hk & Ho)].
  - rewrite (delivered_app _ _ _ Ho).
    destruct (response_expected m) eqn:Er.
    + destruct (frame_read (pt_in p)) as [[rres r']|] eqn:Erd; [|discriminate].
      pose proof (C15_read_cases _ _ _ Erd) as [Hrj Hr].
      destruct Hr as [[-> Hc]|(-> & Hin & k & Hk & Hc)].
      * rewrite (consumed_first_line _ _ Hc). unfold read_result.
        destruct (decode (fst (first_line (r_content (pt_in p))))) as [fr|e] eqn:Ed;
          intros H; injection H as <- <- <-.
        -- apply SoReply; assumption.
        -- apply SoBadLine; assumption.
      * intros H; injection H as <- <- <-.
        rewrite (consumed_skipn _ _ _ Hc)
          by (pose proof (first_line_length (r_content (pt_in p))); lia).
        rewrite (firstn_first_line k _ Hk).
        apply SoReadErr; assumption.
    + intros H; injection H as <- <- <-. apply SoNoReply; assumption.
  - rewrite (delivered_app _ _ _ Ho). intros H; injection H as <- <- <-.
    apply SoWriteErr; assumption.
Qed.

Lemma C16_total m p : serial_process m p <> None.
Proof.
  unfold serial_process.
  destruct (frame_write (frame_of_msg m) (pt_out p)) as [[[u|e] w']|] eqn:Ew.
  - destruct (response_expected m); [|discriminate].
    destruct (frame_read (pt_in p)) as [[[f|e] r']|] eqn:Erd; try discriminate.
    exfalso. exact (C15_read_total _ Erd).
  - discriminate.
  - exfalso. exact (C15_write_total _ _ Ew).
Qed.

Lemma serial_outcome_exists m p :
  exists res p' evs, serial_process m p = Some (res, p', evs) /\ serial_outcome m p res p' evs.
Proof.
  destruct (serial_process m p) as [[[res p'] evs]|] eqn:E; [|exfalso; exact (C16_total _ _ E)].
  exists res, p', evs. split; [reflexivity|]. apply serial_process_outcome. exact E.
Qed.

(* ------------------------------------------------------------------------- *)
(** * C16 *)

Definition wr_clean_port (p : port) : Prop :=
  forall ev, In ev (w_sched (pt_out p)) -> ev <> WFail /\ ev <> WZero.

Lemma wr_clean_no_fault p : wr_clean_port p -> ~ wr_fault p.
Proof. intros Hc [H|H]; destruct (Hc _ H) as [H1 H2]; congruence. Qed.

Lemma strict_prefix_neq {A} (a x : list A) k : (k < length x)%nat -> a ++ firstn k x <> a ++ x.
Proof.
  intros Hk H. apply app_inv_head in H. apply (f_equal (@length A)) in H.
  rewrite firstn_length in H. lia.
Qed.

(* Events of a trace, by kind. *)
Fixpoint read_events (evs : list sev) : list (list N) :=
  match evs with
  | [] => []
  | EvRead c :: t => c :: read_events t
  | _ :: t => read_events t
  end.

Fixpoint write_events (evs : list sev) : list (list N) :=
  match evs with
  | [] => []
  | EvWrite d :: t => d :: write_events t
  | _ :: t => write_events t
  end.

Lemma read_events_app a b : read_events (a ++ b) = read_events a ++ read_events b.
Proof.
  induction a as [|[d|ms|c] a IH]; cbn [app read_events]; [reflexivity|exact IH|exact IH|].
  rewrite IH. reflexivity.
Qed.

Lemma write_events_app a b : write_events (a ++ b) = write_events a ++ write_events b.
Proof.
  induction a as [|[d|ms|c] a IH]; cbn [app write_events]; [reflexivity| |exact IH|exact IH].
  rewrite IH. reflexivity.
Qed.

Lemma read_events_sleep d : read_events (sleep_ev d) = [].
Proof. destruct d; reflexivity. Qed.

Lemma write_events_sleep d : write_events (sleep_ev d) = [].
Proof. destruct d; reflexivity. Qed.

Lemma read_events_In c evs : In (EvRead c) evs <-> In c (read_events evs).
Proof.
  induction evs as [|[d|ms|c'] evs IH]; cbn [read_events In].
  - tauto.
  - rewrite <- IH. split; [intros [H|H]; [discriminate H|exact H]|auto].
  - rewrite <- IH. split; [intros [H|H]; [discriminate H|exact H]|auto].
  - rewrite <- IH. split; [intros [H|H]; [injection H as ->; auto|auto]|intros [->|H]; auto].
Qed.

(* Exactly one write per call; its bytes are a prefix of that message's frame text, and all of
   it unless the sink fails. *)
Lemma C16_written m p res p' evs :
  serial_process m p = Some (res, p', evs) ->
  (exists k, w_out (pt_out p') = w_out (pt_out p) ++ firstn k (encode_nl (frame_of_msg m)))
  /\ write_events evs = [delivered (pt_out p) (pt_out p')]
  /\ ((forall ev, In ev (w_sched (pt_out p)) -> ev <> WFail /\ ev <> WZero) ->
      w_out (pt_out p') = w_out (pt_out p) ++ encode_nl (frame_of_msg m))
  /\ ((forall x, res = Ok x -> w_out (pt_out p') = w_out (pt_out p) ++ encode_nl (frame_of_msg m))
      /\ (forall e, res = Err (RFrame e) ->
          w_out (pt_out p') = w_out (pt_out p) ++ encode_nl (frame_of_msg m))).
Proof.
  intros H. apply serial_process_outcome in H. fold (sent m).
  assert (Hfull : forall w', w_out w' = w_out (pt_out p) ++ sent m ->
            exists k, w_out w' = w_out (pt_out p) ++ firstn k (sent m)).
  { intros w' Ho. exists (length (sent m)). rewrite firstn_all. exact Ho. }
  destruct H as [w' k Hbad Hk Ho Hj | w' Hr Ho Hj | w' r' k Hr Ho Hj Hin Hk Hc Hrj
                 | w' r' e Hr Ho Hj Hc Hrj Hd | w' r' fr Hr Ho Hj Hc Hrj Hd];
    cbn [pt_out pt_in];
    repeat (progress (rewrite ?write_events_app, ?write_events_sleep; cbn [write_events app]));
    try rewrite (delivered_app _ _ _ Ho);
    (split; [eauto|]); (split; [reflexivity|]); (split; [|split]); try (intros; assumption);
    try discriminate.
  intros Hclean. exfalso. exact (wr_clean_no_fault p Hclean Hbad).
Qed.

(* A read happens exactly when a reply is due and the write succeeded; then it takes exactly one
   line (or a prefix of it when the port fails). *)
Lemma C16_read_iff m p res p' evs :
  serial_process m p = Some (res, p', evs) ->
  (response_expected m = false -> pt_in p' = pt_in p /\ read_events evs = [])
  /\ (w_out (pt_out p') <> w_out (pt_out p) ++ encode_nl (frame_of_msg m) ->
      pt_in p' = pt_in p /\ read_events evs = [])
  /\ (response_expected m = true ->
      w_out (pt_out p') = w_out (pt_out p) ++ encode_nl (frame_of_msg m) ->
      read_events evs = [consumed (pt_in p) (pt_in p')]
      /\ (exists k, (k <= length (fst (first_line (r_content (pt_in p)))))%nat
                    /\ r_content (pt_in p') = skipn k (r_content (pt_in p)))
      /\ (~ In RFail (r_sched (pt_in p)) ->
          r_content (pt_in p') = snd (first_line (r_content (pt_in p)))
          /\ consumed (pt_in p) (pt_in p') = fst (first_line (r_content (pt_in p))))
      /\ (res <> Err RIo ->
          r_content (pt_in p') = snd (first_line (r_content (pt_in p)))
          /\ consumed (pt_in p) (pt_in p') = fst (first_line (r_content (pt_in p))))).
Proof.
  intros H. apply serial_process_outcome in H. fold (sent m).
  destruct H as [w' k Hbad Hk Ho Hj | w' Hr Ho Hj | w' r' k Hr Ho Hj Hin Hk Hc Hrj
                 | w' r' e Hr Ho Hj Hc Hrj Hd | w' r' fr Hr Ho Hj Hc Hrj Hd];
    cbn [pt_out pt_in];
    repeat (progress (rewrite ?read_events_app, ?read_events_sleep; cbn [read_events app])).
  - split; [intros _; split; reflexivity|]. split; [intros _; split; reflexivity|].
    intros _ Hfull. exfalso. rewrite Ho in Hfull. exact (strict_prefix_neq _ _ _ Hk Hfull).
  - split; [intros _; split; reflexivity|]. split; [intros _; split; reflexivity|].
    intros Hr'. congruence.
  - split; [intros Hr'; congruence|]. split; [intros Hne; contradiction|].
    intros _ _. unfold line_in in *.
    assert (Hcons : consumed (pt_in p) r' = firstn k (fst (first_line (r_content (pt_in p))))).
    { rewrite (consumed_skipn _ _ _ Hc)
        by (pose proof (first_line_length (r_content (pt_in p))); lia).
      apply firstn_first_line. exact Hk. }
    rewrite Hcons. split; [reflexivity|]. split; [exists k; split; assumption|].
    split; [intros Hn; contradiction|intros Hn; exfalso; apply Hn; reflexivity].
  - split; [intros Hr'; congruence|]. split; [intros Hne; contradiction|].
    intros _ _. unfold line_in in *. rewrite (consumed_first_line _ _ Hc).
    split; [reflexivity|]. split.
    { exists (length (fst (first_line (r_content (pt_in p))))). split; [lia|].
      rewrite Hc. apply first_line_snd_skipn. }
    split; intros _; split; solve [exact Hc|reflexivity].
  - split; [intros Hr'; congruence|]. split; [intros Hne; contradiction|].
    intros _ _. unfold line_in in *. rewrite (consumed_first_line _ _ Hc).
    split; [reflexivity|]. split.
    { exists (length (fst (first_line (r_content (pt_in p))))). split; [lia|].
      rewrite Hc. apply first_line_snd_skipn. }
    split; intros _; split; solve [exact Hc|reflexivity].
Qed.

(* With a healthy port the result is determined by the message and the first input line. *)
Lemma C16_reply m p :
  (forall ev, In ev (w_sched (pt_out p)) -> ev <> WFail /\ ev <> WZero) ->
  (response_expected m = false ->
   exists p' evs, serial_process m p = Some (Ok None, p', evs))
  /\ (response_expected m = true -> ~ In RFail (r_sched (pt_in p)) ->
      exists p' evs,
        serial_process m p
        = Some (match decode (fst (first_line (r_content (pt_in p)))) with
                | Ok f => Ok (Some (msg_of_frame f))
                | Err e => Err (RFrame e)
                end, p', evs)).
Proof.
  intros Hclean. pose proof (wr_clean_no_fault p Hclean) as Hnf.
  destruct (serial_outcome_exists m p) as (res & p' & evs & E & H). rewrite E.
  unfold line_in in H.
  destruct H as [w' k Hbad Hk Ho Hj | w' Hr Ho Hj | w' r' k Hr Ho Hj Hin Hk Hc Hrj
                 | w' r' e Hr Ho Hj Hc Hrj Hd | w' r' fr Hr Ho Hj Hc Hrj Hd];
    try contradiction; (split; [intros Hr'; try congruence|intros Hr' Hnr; try congruence]).
  - eauto.
  - unfold line_in in Hd. rewrite Hd. eauto.
  - unfold line_in in Hd. rewrite Hd. eauto.
Qed.

(* A missing reply is never invented and an error is never turned into "no reply". *)
Lemma C16_errors m p res p' evs :
  serial_process m p = Some (res, p', evs) ->
  (res = Ok None -> response_expected m = false)
  /\ (forall reply, res = Ok (Some reply) ->
      response_expected m = true
      /\ consumed (pt_in p) (pt_in p') = fst (first_line (r_content (pt_in p)))
      /\ exists f, decode (consumed (pt_in p) (pt_in p')) = Ok f /\ reply = msg_of_frame f)
  /\ (forall e, res = Err (RFrame e) ->
      response_expected m = true
      /\ consumed (pt_in p) (pt_in p') = fst (first_line (r_content (pt_in p)))
      /\ decode (consumed (pt_in p) (pt_in p')) = Err e)
  /\ (res = Err RIo ->
      (In WFail (w_sched (pt_out p)) \/ In WZero (w_sched (pt_out p)))
      \/ (response_expected m = true /\ In RFail (r_sched (pt_in p)))).
Proof.
  intros H. apply serial_process_outcome in H. unfold line_in in H.
  destruct H as [w' k Hbad Hk Ho Hj | w' Hr Ho Hj | w' r' k Hr Ho Hj Hin Hk Hc Hrj
                 | w' r' e Hr Ho Hj Hc Hrj Hd | w' r' fr Hr Ho Hj Hc Hrj Hd];
    cbn [pt_in pt_out]; unfold line_in in *;
    (split; [intros Hres|split; [intros reply Hres|split; [intros e' Hres|intros Hres]]]);
    try discriminate Hres.
  - left. exact Hbad.
  - exact Hr.
  - right. split; assumption.
  - injection Hres as <-. rewrite (consumed_first_line _ _ Hc).
    split; [exact Hr|]. split; [reflexivity|exact Hd].
  - injection Hres as <-. rewrite (consumed_first_line _ _ Hc).
    split; [exact Hr|]. split; [reflexivity|]. exists fr. split; [exact Hd|reflexivity].
Qed.

(* Forward direction of the error cases, with the schedule split at the first fault. *)
Lemma C16_write_fault m r out pre bad post :
  (forall ev, In ev pre -> ev <> WFail /\ ev <> WZero) ->
  bad = WFail \/ bad = WZero ->
  capacity pre < nlen (encode_nl (frame_of_msg m)) ->
  serial_process m {| pt_in := r; pt_out := {| w_out := out; w_sched := pre ++ bad :: post |} |}
  = Some (Err RIo,
          {| pt_in := r;
             pt_out := {| w_out := out ++ firstn (N.to_nat (capacity pre)) (encode_nl (frame_of_msg m));
                          w_sched := post |} |},
          [EvWrite (firstn (N.to_nat (capacity pre)) (encode_nl (frame_of_msg m)))]).
Proof.
  intros Hclean Hbad Hcap. unfold serial_process. cbn [pt_out pt_in].
  rewrite (C15_write_fault _ out pre bad post Hclean Hbad Hcap).
  rewrite (delivered_app _ _ (firstn (N.to_nat (capacity pre)) (encode_nl (frame_of_msg m))))
    by reflexivity.
  reflexivity.
Qed.

Lemma C16_read_fault m content pre post w :
  (forall ev, In ev (w_sched w) -> ev <> WFail /\ ev <> WZero) ->
  response_expected m = true ->
  ~ In RFail pre ->
  (data_reads pre < reads_needed content)%nat ->
  exists w',
    serial_process m {| pt_in := {| r_content := content; r_sched := pre ++ RFail :: post |};
                        pt_out := w |}
    = Some (Err RIo,
            {| pt_in := {| r_content := skipn (data_reads pre) content; r_sched := post |};
               pt_out := w' |},
            EvWrite (encode_nl (frame_of_msg m)) :: sleep_ev (delay_after_send m)
              ++ [EvRead (firstn (data_reads pre) content)])
    /\ w_out w' = w_out w ++ encode_nl (frame_of_msg m).
Proof.
  intros Hclean Hr Hpre Hd. unfold serial_process. cbn [pt_out pt_in]. rewrite Hr.
  destruct w as [out ws]. cbn [w_sched w_out] in *.
  destruct (C15_write_all (frame_of_msg m) out ws Hclean) as (w' & Hw & Ho).
  rewrite Hw. destruct (C15_read_error content pre post Hpre Hd) as (Hrd & Hle & _).
  rewrite Hrd. exists w'. split; [|exact Ho].
  rewrite (delivered_app _ _ (encode_nl (frame_of_msg m))) by exact Ho.
  rewrite (consumed_skipn _ _ (data_reads pre)); cbn [r_content]; [reflexivity|reflexivity|].
  pose proof (first_line_length content). lia.
Qed.

(* Nothing arrives (timeout reported as EOF): the empty line is not a frame. *)
Lemma C16_no_answer m p res p' evs :
  serial_process m p = Some (res, p', evs) ->
  response_expected m = true ->
  r_content (pt_in p) = [] ->
  res = Err RIo \/ res = Err (RFrame InvalidFrame).
Proof.
  intros H Hr Hempty. apply serial_process_outcome in H.
  destruct H as [w' k Hbad Hk Ho Hj | w' Hr' Ho Hj | w' r' k Hr' Ho Hj Hin Hk Hc Hrj
                 | w' r' e Hr' Ho Hj Hc Hrj Hd | w' r' fr Hr' Ho Hj Hc Hrj Hd];
    try (left; reflexivity); try congruence;
    unfold line_in in Hd; rewrite Hempty in Hd; cbn [first_line fst decode] in Hd.
  - right. injection Hd as <-. reflexivity.
  - discriminate Hd.
Qed.

(* ------------------------------------------------------------------------- *)
(** * C18: where the sleeps are *)

Lemma C18_sleep_placement m p res p' evs :
  serial_process m p = Some (res, p', evs) ->
  let d := delivered (pt_out p) (pt_out p') in
  let c := consumed (pt_in p) (pt_in p') in
  (* the write failed *)
  (res = Err RIo /\ d <> encode_nl (frame_of_msg m) /\ evs = [EvWrite d])
  (* no reply due *)
  \/ (d = encode_nl (frame_of_msg m) /\ response_expected m = false /\ res = Ok None
      /\ evs = [EvWrite d] ++ sleep_ev (delay_after_send m))
  (* reply due, read or decode failed *)
  \/ (d = encode_nl (frame_of_msg m) /\ response_expected m = true /\ (exists e, res = Err e)
      /\ evs = [EvWrite d] ++ sleep_ev (delay_after_send m) ++ [EvRead c])
  (* reply received *)
  \/ (d = encode_nl (frame_of_msg m) /\ response_expected m = true
      /\ exists reply, res = Ok (Some reply)
         /\ evs = [EvWrite d] ++ sleep_ev (delay_after_send m) ++ [EvRead c]
                    ++ sleep_ev (delay_after_receive reply)).
Proof.
  intros H. apply serial_process_outcome in H. unfold line_in in H. fold (sent m).
  destruct H as [w' k Hbad Hk Ho Hj | w' Hr Ho Hj | w' r' k Hr Ho Hj Hin Hk Hc Hrj
                 | w' r' e Hr Ho Hj Hc Hrj Hd | w' r' fr Hr Ho Hj Hc Hrj Hd];
    cbn [pt_in pt_out]; cbv zeta; rewrite (delivered_app _ _ _ Ho); unfold line_in in *.
  - left. split; [reflexivity|]. split; [|reflexivity].
    intros E. apply (f_equal (@length N)) in E. rewrite firstn_length in E. lia.
  - right. left. repeat split; assumption.
  - right. right. left. split; [reflexivity|]. split; [exact Hr|]. split; [eauto|].
    unfold line_in.
    rewrite (consumed_skipn _ _ _ Hc)
      by (pose proof (first_line_length (r_content (pt_in p))); lia).
    rewrite (firstn_first_line k _ Hk). reflexivity.
  - right. right. left. split; [reflexivity|]. split; [exact Hr|]. split; [eauto|].
    rewrite (consumed_first_line _ _ Hc). reflexivity.
  - right. right. right. split; [reflexivity|]. split; [exact Hr|].
    exists (msg_of_frame fr). split; [reflexivity|].
    rewrite (consumed_first_line _ _ Hc). reflexivity.
Qed.

(* Timed reading of a trace: only sleeps are known to take time; every other event takes >= 0.
   So [min_duration evs] is a lower bound of the real elapsed time of the trace.  Real time is
   measured by the test harness, not proved here. *)
Fixpoint min_duration (evs : list sev) : N :=
  match evs with
  | [] => 0
  | EvSleep ms :: t => ms + min_duration t
  | _ :: t => min_duration t
  end.

(* The part of the trace after the (first) write / read event. *)
Fixpoint after_write (evs : list sev) : list sev :=
  match evs with
  | [] => []
  | EvWrite _ :: t => t
  | _ :: t => after_write t
  end.

Fixpoint after_read (evs : list sev) : list sev :=
  match evs with
  | [] => []
  | EvRead _ :: t => t
  | _ :: t => after_read t
  end.

Definition odur (d : option N) : N := match d with Some ms => ms | None => 0 end.

Lemma min_duration_app a b : min_duration (a ++ b) = min_duration a + min_duration b.
Proof.
  induction a as [|[d|ms|c] a IH]; cbn [app min_duration]; try exact IH; [lia|].
  rewrite IH. lia.
Qed.

Lemma min_duration_sleep d : min_duration (sleep_ev d) = odur d.
Proof. destruct d; cbn [sleep_ev min_duration odur]; lia. Qed.

Lemma after_read_sleep_app d t : after_read (sleep_ev d ++ t) = after_read t.
Proof. destruct d; reflexivity. Qed.

(* Total pause imposed by one call, and where it sits. *)
Lemma C18_durations m p res p' evs :
  serial_process m p = Some (res, p', evs) ->
  let written := w_out (pt_out p') = w_out (pt_out p) ++ encode_nl (frame_of_msg m) in
  (~ written -> min_duration evs = 0)
  /\ (written ->
      exists rest,
        after_write evs = sleep_ev (delay_after_send m) ++ rest
        /\ (rest = [] \/ exists c, rest = EvRead c :: after_read evs)
        /\ after_read evs
           = match res with
             | Ok (Some reply) => sleep_ev (delay_after_receive reply)
             | _ => []
             end
        /\ min_duration (after_write evs)
           = odur (delay_after_send m) + min_duration (after_read evs)
        /\ min_duration evs = min_duration (after_write evs)).
Proof.
  intros H. apply serial_process_outcome in H. fold (sent m). cbv zeta.
  destruct H as [w' k Hbad Hk Ho Hj | w' Hr Ho Hj | w' r' k Hr Ho Hj Hin Hk Hc Hrj
                 | w' r' e Hr Ho Hj Hc Hrj Hd | w' r' fr Hr Ho Hj Hc Hrj Hd];
    cbn [pt_in pt_out]; (split; [intros Hnw|intros Hwr]);
    try contradiction; try reflexivity.
  - exfalso. rewrite Ho in Hwr. exact (strict_prefix_neq _ _ _ Hk Hwr).
  - exists []. cbn [after_write min_duration]. rewrite app_nil_r.
    assert (Har : after_read (sleep_ev (delay_after_send m)) = [])
      by (destruct (delay_after_send m); reflexivity).
    cbn [after_read]. rewrite Har. repeat split.
    + left. reflexivity.
    + rewrite min_duration_sleep. cbn [min_duration]. lia.
  - exists [EvRead (firstn k (line_in p))]. cbn [after_write min_duration after_read].
    rewrite after_read_sleep_app. cbn [after_read]. repeat split.
    + right. eauto.
    + rewrite min_duration_app, min_duration_sleep. cbn [min_duration]. lia.
  - exists [EvRead (line_in p)]. cbn [after_write min_duration after_read].
    rewrite after_read_sleep_app. cbn [after_read]. repeat split.
    + right. eauto.
    + rewrite min_duration_app, min_duration_sleep. cbn [min_duration]. lia.
  - exists (EvRead (line_in p) :: sleep_ev (delay_after_receive (msg_of_frame fr))).
    cbn [after_write min_duration after_read app].
    rewrite after_read_sleep_app. cbn [after_read]. repeat split.
    + right. eauto.
    + rewrite min_duration_app, min_duration_sleep. cbn [min_duration]. lia.
Qed.

Lemma C18_lower_bounds m p res p' evs :
  serial_process m p = Some (res, p', evs) ->
  w_out (pt_out p') = w_out (pt_out p) ++ encode_nl (frame_of_msg m) ->
  (* after a data chunk: the next thing is a 30 ms sleep *)
  ((exists o d, m = SendData o d) ->
   after_write evs = [EvSleep 30] /\ 30 <= min_duration (after_write evs))
  (* after any other message: nothing before the read *)
  /\ ((~ exists o d, m = SendData o d) ->
      min_duration (after_write evs) = min_duration (after_read evs))
  (* after an in-progress report: a 100 ms sleep ends the call *)
  /\ (forall reply, res = Ok (Some reply) ->
      ((exists a, reply = ReportState a PageLoadInProgress \/ reply = ReportState a PageShowInProgress)
       -> after_read evs = [EvSleep 100] /\ 100 <= min_duration (after_read evs))
      /\ ((~ exists a, reply = ReportState a PageLoadInProgress \/ reply = ReportState a PageShowInProgress)
          -> after_read evs = []))
  (* no reply: nothing after the read *)
  /\ ((forall reply, res <> Ok (Some reply)) -> after_read evs = []).
Proof.
  intros H Hw. pose proof (C18_durations _ _ _ _ _ H) as [_ Hd]. cbv zeta in Hd.
  destruct (Hd Hw) as (rest & Haw & Hrest & Har & Hmin & _). clear Hd.
  destruct (delay_after_send_iff m) as (Hs30 & HsNone & _).
  split; [|split; [|split]].
  - intros Hsd. pose proof Hsd as (o & d & ->).
    apply serial_process_outcome in H.
    assert (Hevs : evs = [EvWrite (sent (SendData o d)); EvSleep 30]).
    { destruct H as [w' k Hbad Hk Ho Hj | w' Hr Ho Hj | w' r' k Hr Ho Hj Hin Hk Hc Hrj
                     | w' r' e Hr Ho Hj Hc Hrj Hd | w' r' fr Hr Ho Hj Hc Hrj Hd];
        try discriminate Hr; [|reflexivity].
      exfalso. cbn [pt_out] in Hw. rewrite Ho in Hw. exact (strict_prefix_neq _ _ _ Hk Hw). }
    rewrite Hevs. cbn [after_write min_duration]. split; [reflexivity|lia].
  - intros Hns. apply HsNone in Hns. rewrite Hmin, Hns. cbn [odur]. lia.
  - intros reply ->. destruct (delay_after_receive_iff reply) as (H100 & HNone & _).
    unfold in_progress in *. split.
    + intros Hip. apply H100 in Hip. rewrite Har, Hip. cbn [sleep_ev min_duration].
      split; [reflexivity|lia].
    + intros Hnip. apply HNone in Hnip. rewrite Har, Hnip. reflexivity.
  - intros Hnr. rewrite Har. destruct res as [[reply|]|e]; try reflexivity.
    exfalso. exact (Hnr reply eq_refl).
Qed.

(* The sleeps of a trace, in order. *)
Fixpoint sleep_events (evs : list sev) : list N :=
  match evs with
  | [] => []
  | EvSleep ms :: t => ms :: sleep_events t
  | _ :: t => sleep_events t
  end.

Definition olist (d : option N) : list N := match d with Some ms => [ms] | None => [] end.

Lemma sleep_events_app a b : sleep_events (a ++ b) = sleep_events a ++ sleep_events b.
Proof.
  induction a as [|[d|ms|c] a IH]; cbn [app sleep_events]; [reflexivity|exact IH| |exact IH].
  rewrite IH. reflexivity.
Qed.

Lemma sleep_events_sleep d : sleep_events (sleep_ev d) = olist d.
Proof. destruct d; reflexivity. Qed.

Lemma sleep_events_In ms evs : In (EvSleep ms) evs <-> In ms (sleep_events evs).
Proof.
  induction evs as [|[d|ms'|c] evs IH]; cbn [sleep_events In].
  - tauto.
  - rewrite <- IH. split; [intros [H|H]; [discriminate H|exact H]|auto].
  - rewrite <- IH. split; [intros [H|H]; [injection H as ->; auto|auto]|intros [->|H]; auto].
  - rewrite <- IH. split; [intros [H|H]; [discriminate H|exact H]|auto].
Qed.

Lemma C18_sleep_events m p res p' evs :
  serial_process m p = Some (res, p', evs) ->
  let written := w_out (pt_out p') = w_out (pt_out p) ++ encode_nl (frame_of_msg m) in
  (~ written -> sleep_events evs = [])
  /\ (written ->
      sleep_events evs
      = olist (delay_after_send m)
        ++ match res with
           | Ok (Some reply) => olist (delay_after_receive reply)
           | _ => []
           end).
Proof.
  intros H. apply serial_process_outcome in H. fold (sent m). cbv zeta.
  destruct H as [w' k Hbad Hk Ho Hj | w' Hr Ho Hj | w' r' k Hr Ho Hj Hin Hk Hc Hrj
                 | w' r' e Hr Ho Hj Hc Hrj Hd | w' r' fr Hr Ho Hj Hc Hrj Hd];
    cbn [pt_in pt_out]; (split; [intros Hnw|intros Hwr]);
    try contradiction; try reflexivity;
    repeat (progress (rewrite ?sleep_events_app, ?sleep_events_sleep; cbn [sleep_events app]));
    rewrite ?app_nil_r; try reflexivity.
  exfalso. rewrite Ho in Hwr. exact (strict_prefix_neq _ _ _ Hk Hwr).
Qed.

Lemma C18_sleep_iff m p res p' evs :
  serial_process m p = Some (res, p', evs) ->
  (forall ms, In (EvSleep ms) evs -> ms = 30 \/ ms = 100)
  /\ (In (EvSleep 30) evs <->
      (exists o d, m = SendData o d)
      /\ w_out (pt_out p') = w_out (pt_out p) ++ encode_nl (frame_of_msg m))
  /\ (In (EvSleep 100) evs <->
      exists reply, res = Ok (Some reply)
        /\ exists a, reply = ReportState a PageLoadInProgress
                     \/ reply = ReportState a PageShowInProgress).
Proof.
  intros H. pose proof (C18_sleep_events _ _ _ _ _ H) as [Hnw Hw]. cbv zeta in *.
  pose proof (C16_written _ _ _ _ _ H) as (_ & _ & _ & Hok & _).
  destruct (delay_after_send_iff m) as (Hs30 & HsNone & Hs).
  assert (Hsend : forall ms, In ms (olist (delay_after_send m)) <->
                    ms = 30 /\ exists o d, m = SendData o d).
  { intros ms. destruct Hs as [E|E]; rewrite E; cbn [olist In].
    - apply Hs30 in E. split; [intros [<-|[]]; auto|intros [-> _]; auto].
    - apply HsNone in E. split; [intros []|intros [_ Hex]; contradiction]. }
  assert (Hrecv : forall ms,
            In ms (match res with
                   | Ok (Some reply) => olist (delay_after_receive reply)
                   | _ => []
                   end) <->
            ms = 100 /\ exists reply, res = Ok (Some reply) /\ in_progress reply).
  { intros ms. destruct res as [[reply|]|e]; cbn [In].
    - destruct (delay_after_receive_iff reply) as (H100 & HNone & [E|E]); rewrite E; cbn [olist In].
      + apply H100 in E. split; [intros [<-|[]]; eauto|intros [-> _]; auto].
      + apply HNone in E. split; [intros []|].
        intros [_ (r & Hr & Hip)]. injection Hr as <-. contradiction.
    - split; [intros []|intros [_ (r & Hr & _)]; discriminate Hr].
    - split; [intros []|intros [_ (r & Hr & _)]; discriminate Hr]. }
  unfold in_progress in Hrecv.
  destruct (list_eq_dec N.eq_dec (w_out (pt_out p'))
              (w_out (pt_out p) ++ encode_nl (frame_of_msg m))) as [Hwr|Hnwr].
  - specialize (Hw Hwr). split; [|split].
    + intros ms Hin. apply sleep_events_In in Hin. rewrite Hw in Hin.
      apply in_app_or in Hin. destruct Hin as [Hin|Hin].
      * apply Hsend in Hin. left. apply Hin.
      * apply Hrecv in Hin. right. apply Hin.
    + rewrite sleep_events_In, Hw, in_app_iff, Hsend, Hrecv. split.
      * intros [[_ Hex]|[Habs _]]; [split; assumption|discriminate Habs].
      * intros [Hex _]. left. split; [reflexivity|exact Hex].
    + rewrite sleep_events_In, Hw, in_app_iff, Hsend, Hrecv. split.
      * intros [[Habs _]|[_ Hex]]; [discriminate Habs|exact Hex].
      * intros Hex. right. split; [reflexivity|exact Hex].
  - specialize (Hnw Hnwr). split; [|split].
    + intros ms Hin. apply sleep_events_In in Hin. rewrite Hnw in Hin. destruct Hin.
    + rewrite sleep_events_In, Hnw. split; [intros []|intros [_ Hwr]; contradiction].
    + rewrite sleep_events_In, Hnw. split; [intros []|].
      intros (reply & Hres & _). exfalso. apply Hnwr. exact (Hok _ Hres).
Qed.

(* ---------- a whole conversation on a healthy port ---------- *)
(* What the far side must have put on the line for a conversation: for each message a reply frame or nothing. *)
Definition conv_ok (c : msg * option frame) : Prop :=
  match snd c with
  | Some f => response_expected (fst c) = true /\ wf_frame f
  | None => response_expected (fst c) = false
  end.
Definition conv_tape (conv : list (msg * option frame)) : list N :=
  concat (map (fun c => match snd c with Some f => encode_nl f | None => [] end) conv).
Definition conv_sent (conv : list (msg * option frame)) : list N :=
  concat (map (fun c => sent (fst c)) conv).
Definition conv_results (conv : list (msg * option frame)) : list (result rerr (option msg)) :=
  map (fun c => Ok (option_map msg_of_frame (snd c))) conv.

Lemma conv_tape_some m f conv : conv_tape ((m, Some f) :: conv) = encode_nl f ++ conv_tape conv.
Proof. reflexivity. Qed.
Lemma conv_tape_none m conv : conv_tape ((m, None) :: conv) = conv_tape conv.
Proof. reflexivity. Qed.
Lemma conv_sent_cons m o conv : conv_sent ((m, o) :: conv) = sent m ++ conv_sent conv.
Proof. reflexivity. Qed.

Lemma serial_conversation : forall conv trailing out ws rs,
  (forall ev, In ev ws -> ev <> WFail /\ ev <> WZero) -> ~ In RFail rs ->
  Forall conv_ok conv ->
  exists p',
    serial_run (map fst conv)
      {| pt_in := {| r_content := conv_tape conv ++ trailing; r_sched := rs |};
         pt_out := {| w_out := out; w_sched := ws |} |}
    = Some (conv_results conv, p')
    /\ w_out (pt_out p') = out ++ conv_sent conv
    /\ r_content (pt_in p') = trailing.
Proof.
  induction conv as [|[m o] conv IH]; intros trailing out ws rs Hw Hr Hok.
  - eexists. split; [reflexivity|]. cbn. rewrite app_nil_r. auto.
  - inversion Hok as [|c0 l0 Hc Hrest]; subst c0 l0.
    set (p := {| pt_in := {| r_content := conv_tape ((m, o) :: conv) ++ trailing; r_sched := rs |};
                 pt_out := {| w_out := out; w_sched := ws |} |}).
    assert (Hnf : ~ wr_fault p).
    { apply wr_clean_no_fault. exact Hw. }
    destruct (serial_outcome_exists m p) as (res & p' & evs & E & H).
    cbn [map fst serial_run]. fold p. rewrite E.
    unfold conv_ok in Hc. cbn [fst snd] in Hc.
    assert (Hskipw : forall j ev, In ev (skipn j ws) -> ev <> WFail /\ ev <> WZero).
    { intros j ev Hin. apply Hw. exact (In_skipn _ _ _ Hin). }
    assert (Hskipr : forall j, ~ In RFail (skipn j rs)).
    { intros j Hin. apply Hr. exact (In_skipn _ _ _ Hin). }
    destruct H as [w' k Hbad Hk Ho Hj | w' Hre Ho Hj | w' r' k Hre Ho Hj Hin Hk Hcn Hrj
                   | w' r' e Hre Ho Hj Hcn Hrj Hd | w' r' fr Hre Ho Hj Hcn Hrj Hd];
      try contradiction.
    + (* no reply expected *)
      destruct o as [f|]; [destruct Hc; congruence|].
      destruct w' as [o' s']. cbn [w_out w_sched pt_out p] in Ho, Hj. destruct Hj as [j Hj]. subst o' s'.
      destruct (IH trailing (out ++ sent m) (skipn j ws) rs (Hskipw j) Hr Hrest) as (p'' & Hrun & Hout & Hin).
      cbn [pt_in p]. rewrite conv_tape_none, Hrun. exists p''. split; [reflexivity|].
      split; [|exact Hin]. rewrite Hout, conv_sent_cons. now rewrite app_assoc.
    + (* undecodable line: impossible, the line is a well-formed frame *)
      destruct o as [f|]; [|congruence]. destruct Hc as [_ Hwf].
      unfold line_in in Hd. cbn [pt_in p r_content] in Hd.
      rewrite conv_tape_some, <- app_assoc, first_line_encode_nl in Hd. cbn [fst] in Hd.
      destruct (C01_roundtrip f Hwf) as [_ Hdec]. congruence.
    + destruct o as [f|]; [|congruence]. destruct Hc as [_ Hwf].
      unfold line_in in Hd. cbn [pt_in p r_content] in Hd, Hcn.
      rewrite conv_tape_some, <- app_assoc, first_line_encode_nl in Hd, Hcn. cbn [fst snd] in Hd, Hcn.
      destruct (C01_roundtrip f Hwf) as [_ Hdec]. rewrite Hdec in Hd. injection Hd as <-.
      destruct w' as [o' s']. cbn [w_out w_sched pt_out p] in Ho, Hj. destruct Hj as [j Hj]. subst o' s'.
      destruct r' as [c' t']. cbn [r_content r_sched pt_in p] in Hcn, Hrj. destruct Hrj as [i Hi]. subst c' t'.
      destruct (IH trailing (out ++ sent m) (skipn j ws) (skipn i rs) (Hskipw j) (Hskipr i) Hrest)
        as (p'' & Hrun & Hout & Hin).
      rewrite Hrun. exists p''. split; [reflexivity|].
      split; [|exact Hin]. rewrite Hout, conv_sent_cons. now rewrite app_assoc.
Qed.

(* One failed exchange does not poison the next: whatever happened before, the next exchange on the port is
   decided by the port's streams as they are now. *)
Lemma serial_run_app ms1 ms2 p :
  serial_run (ms1 ++ ms2) p
  = match serial_run ms1 p with
    | None => None
    | Some (rs1, p1) =>
        match serial_run ms2 p1 with
        | None => None
        | Some (rs2, p2) => Some (rs1 ++ rs2, p2)
        end
    end.
Proof.
  revert p. induction ms1 as [|m ms1 IH]; intros p; cbn [app serial_run].
  - destruct (serial_run ms2 p) as [[rs2 p2]|]; reflexivity.
  - destruct (serial_process m p) as [[[res p'] evs]|]; [|reflexivity].
    rewrite IH. destruct (serial_run ms1 p') as [[rs1 p1]|]; [|reflexivity].
    destruct (serial_run ms2 p1) as [[rs2 p2]|]; reflexivity.
Qed.

(* ---------- pacing across a whole conversation ---------- *)
Fixpoint no_write (evs : list sev) : Prop :=
  match evs with
  | [] => True
  | EvWrite _ :: _ => False
  | _ :: t => no_write t
  end.

Lemma no_write_sleep d : no_write (sleep_ev d).
Proof. destruct d; exact I. Qed.
Lemma no_write_app a b : no_write a -> no_write b -> no_write (a ++ b).
Proof. induction a as [|[x|x|x] a IH]; cbn [app no_write]; auto; intros []. Qed.
Lemma quiet_no_write a b : no_write a -> quiet (a ++ b) = min_duration a + quiet b.
Proof.
  induction a as [|[x|x|x] a IH]; cbn [app no_write quiet min_duration]; intros H.
  - lia.
  - destruct H.
  - rewrite (IH H). lia.
  - exact (IH H).
Qed.
Lemma write_gaps_no_write a b : no_write a -> write_gaps (a ++ b) = write_gaps b.
Proof.
  induction a as [|[x|x|x] a IH]; cbn [app no_write write_gaps]; intros H; auto. destruct H.
Qed.
Lemma quiet_trace_head ms p t : serial_trace ms p = Some t -> quiet t = 0.
Proof.
  destruct ms as [|m ms]; cbn [serial_trace]; intros H.
  - injection H as <-. reflexivity.
  - destruct (serial_process m p) as [[[res p'] evs]|] eqn:E; [|discriminate].
    destruct (serial_trace ms p') as [t'|]; [|discriminate]. injection H as <-.
    pose proof (C18_sleep_placement _ _ _ _ _ E) as Hs. cbv zeta in Hs.
    destruct Hs as [(_ & _ & ->)|[(_ & _ & _ & ->)|[(_ & _ & _ & ->)|(_ & _ & r & _ & ->)]]]; reflexivity.
Qed.

(* One exchange contributes exactly one write to the trace, and what is slept before the NEXT write (whichever message
   that is, however much later it comes) is what this exchange slept after its own write. *)
Lemma serial_trace_gaps : forall ms p t,
  serial_trace ms p = Some t ->
  Forall2 (fun m g =>
             (fst g <> sent m -> snd g = 0 /\ exists k, fst g = firstn k (sent m))
             /\ (fst g = sent m ->
                 exists r, snd g = odur (delay_after_send m) + r /\ (r = 0 \/ r = 100)))
          ms (write_gaps t).
Proof.
  induction ms as [|m ms IH]; cbn [serial_trace]; intros p t H.
  - injection H as <-. constructor.
  - destruct (serial_process m p) as [[[res p'] evs]|] eqn:E; [|discriminate].
    destruct (serial_trace ms p') as [t'|] eqn:Et; [|discriminate]. injection H as <-.
    pose proof (quiet_trace_head _ _ _ Et) as Hq.
    specialize (IH _ _ Et).
    pose proof (C16_written _ _ _ _ _ E) as ((k & Hk) & _).
    assert (Hd : delivered (pt_out p) (pt_out p') = firstn k (sent m)).
    { unfold delivered. rewrite Hk. rewrite skipn_app, skipn_all, Nat.sub_diag. reflexivity. }
    pose proof (C18_sleep_placement _ _ _ _ _ E) as Hs. cbv zeta in Hs.
    destruct Hs as [(_ & Hne & ->)|[(Heq & _ & _ & ->)|[(Heq & _ & _ & ->)|(Heq & _ & r & _ & ->)]]];
      cbn [app write_gaps].
    + constructor; [|exact IH]. cbn [fst snd quiet app]. split.
      * intros _. split; [exact Hq|]. exists k. exact Hd.
      * intros Habs. contradiction.
    + rewrite write_gaps_no_write by apply no_write_sleep.
      constructor; [|exact IH]. cbn [fst snd]. split; [intros Habs; contradiction|].
      intros _. rewrite quiet_no_write by apply no_write_sleep.
      rewrite min_duration_sleep, Hq. exists 0. split; [lia|auto].
    + rewrite write_gaps_no_write by (apply no_write_app; [apply no_write_sleep|exact I]).
      constructor; [|exact IH]. cbn [fst snd]. split; [intros Habs; contradiction|].
      intros _. rewrite quiet_no_write by (apply no_write_app; [apply no_write_sleep|exact I]).
      rewrite min_duration_app, min_duration_sleep, Hq. cbn [min_duration]. exists 0. split; [lia|auto].
    + assert (Hnw : no_write (sleep_ev (delay_after_send m) ++ [EvRead (consumed (pt_in p) (pt_in p'))]
                              ++ sleep_ev (delay_after_receive r))).
      { apply no_write_app; [apply no_write_sleep|]. cbn [app no_write]. apply no_write_sleep. }
      rewrite write_gaps_no_write by exact Hnw.
      constructor; [|exact IH]. cbn [fst snd]. split; [intros Habs; contradiction|].
      intros _. rewrite quiet_no_write by exact Hnw.
      rewrite min_duration_app, min_duration_sleep, Hq. cbn [app min_duration]. rewrite min_duration_sleep.
      exists (odur (delay_after_receive r)). split; [lia|].
      destruct (delay_after_receive_iff r) as (_ & _ & [Hr|Hr]); rewrite Hr; cbn [odur]; auto.
Qed.

Lemma Forall2_weaken {A B} (R1 R2 : A -> B -> Prop) :
  (forall a b, R1 a b -> R2 a b) -> forall l1 l2, Forall2 R1 l1 l2 -> Forall2 R2 l1 l2.
Proof. intros HR l1 l2 F. induction F as [|a b l1 l2 Hab F IH]; constructor; auto. Qed.

(* The property's sentence: after a data chunk has been written, at least 30 ms are slept before the next write. *)
Lemma serial_trace_data_chunk_gap ms p t :
  serial_trace ms p = Some t ->
  Forall2 (fun m g => (exists o d, m = SendData o d) -> fst g = sent m -> 30 <= snd g) ms (write_gaps t)
  /\ Forall2 (fun m g => (~ exists o d, m = SendData o d) -> snd g = 0 \/ snd g = 100) ms (write_gaps t).
Proof.
  intros H. pose proof (serial_trace_gaps _ _ _ H) as F. split.
  - refine (Forall2_weaken _ _ _ _ _ F). intros m g [Hne Heq] (o & d & ->) Hfull.
    destruct (Heq Hfull) as (r & -> & _). cbn [delay_after_send odur]. lia.
  - refine (Forall2_weaken _ _ _ _ _ F). intros m g [Hne Heq] Hnd.
    destruct (list_eq_dec N.eq_dec (fst g) (sent m)) as [Hfull|Hpart].
    + destruct (Heq Hfull) as (r & -> & Hr).
      destruct (delay_after_send_iff m) as (_ & Hnone & _). rewrite (proj2 Hnone Hnd). cbn [odur]. lia.
    + destruct (Hne Hpart) as [-> _]. auto.
Qed.

(* ---------- what has been written before is only ever appended to ---------- *)
(* A port whose output so far is [out] followed by what [p] has. *)
Definition out_prefixed_w (out : list N) (w : writer) : writer :=
  {| w_out := out ++ w_out w; w_sched := w_sched w |}.
Definition out_prefixed (out : list N) (p : port) : port :=
  {| pt_in := pt_in p; pt_out := out_prefixed_w out (pt_out p) |}.

Lemma writer_write_prefixed out w buf :
  writer_write (out_prefixed_w out w) buf
  = (fst (writer_write w buf), out_prefixed_w out (snd (writer_write w buf))).
Proof.
  unfold writer_write, out_prefixed_w. cbn [w_out w_sched].
  destruct (w_sched w) as [|[n| | |] t]; cbn [fst snd w_out w_sched]; rewrite ?app_assoc; reflexivity.
Qed.

Lemma write_all_prefixed out : forall fuel w buf,
  write_all fuel (out_prefixed_w out w) buf
  = match write_all fuel w buf with
    | None => None
    | Some (r, w') => Some (r, out_prefixed_w out w')
    end.
Proof.
  induction fuel as [|fuel IH]; intros w buf; destruct buf as [|b buf]; cbn [write_all]; try reflexivity.
  rewrite writer_write_prefixed.
  destruct (writer_write w (b :: buf)) as [[k| |] w'] eqn:E; cbn [fst snd].
  - destruct k as [|k]; [reflexivity|]. apply IH.
  - apply IH.
  - reflexivity.
Qed.

Lemma frame_write_prefixed out f w :
  frame_write f (out_prefixed_w out w)
  = match frame_write f w with
    | None => None
    | Some (r, w') => Some (r, out_prefixed_w out w')
    end.
Proof.
  unfold frame_write. replace (write_fuel (out_prefixed_w out w) (encode_nl f)) with (write_fuel w (encode_nl f)) by reflexivity.
  rewrite write_all_prefixed.
  destruct (write_all (write_fuel w (encode_nl f)) w (encode_nl f)) as [[[u|u] w']|]; reflexivity.
Qed.

Lemma delivered_prefixed out w w' :
  (length (w_out w) <= length (w_out w'))%nat ->
  delivered (out_prefixed_w out w) (out_prefixed_w out w') = delivered w w'.
Proof.
  intros _. unfold delivered, out_prefixed_w. cbn [w_out].
  rewrite app_length, skipn_app.
  rewrite (skipn_all2 out) by lia. cbn [app].
  f_equal. lia.
Qed.

(* An exchange on a port that already carries output [out] is the exchange on the port without it, with [out] put back in
   front: the bus only ever appends.  (So a long conversation may be evaluated exchange by exchange, taking the output
   away after each.) *)
Lemma serial_process_prefixed out m p :
  serial_process m (out_prefixed out p)
  = match serial_process m p with
    | None => None
    | Some (res, p', evs) => Some (res, out_prefixed out p', evs)
    end.
Proof.
  unfold serial_process. cbn [pt_out pt_in out_prefixed].
  rewrite frame_write_prefixed.
  destruct (frame_write (frame_of_msg m) (pt_out p)) as [[[u|e] w']|] eqn:Ew; [| |reflexivity].
  - pose proof (C15_write_cases _ _ _ _ Ew) as [_ [[_ Ho]|(_ & _ & k & _ & Ho)]];
      (assert (Hlen : (length (w_out (pt_out p)) <= length (w_out w'))%nat) by (rewrite Ho, app_length; lia));
      rewrite (delivered_prefixed out _ _ Hlen);
      (destruct (response_expected m); [|reflexivity]);
      (destruct (frame_read (pt_in p)) as [[[f|e] r']|]; reflexivity).
  - pose proof (C15_write_cases _ _ _ _ Ew) as [_ [[_ Ho]|(_ & _ & k & _ & Ho)]];
      (assert (Hlen : (length (w_out (pt_out p)) <= length (w_out w'))%nat) by (rewrite Ho, app_length; lia));
      rewrite (delivered_prefixed out _ _ Hlen); reflexivity.
Qed.
