(* PortP.v — proofs about the serial-port setup model (property C20). *)
From Flipdot Require Import Tactics.
From Flipdot Require Import Base Port.
Local Open Scope N_scope.

Lemma C20_wanted :
  wanted = {| s_baud := Baud19200; s_csize := Bits8; s_parity := ParityNone; s_stop := Stop1;
              s_flow := FlowNone |}.
Proof. reflexivity. Qed.

(* Whatever read_settings returned -- the device's real settings, stale ones, anything -- the settings written back are
   the wanted ones: all five fields are set. *)
Lemma apply_setters_wanted s : apply_setters s = wanted.
Proof. reflexivity. Qed.

Lemma C20_ok_means_configured p t p' :
  configure_port p t = Ok p' ->
  sp_settings p' = wanted /\ sp_timeout p' = Some t /\ sp_fail p = FailNone /\ timeout_accepted p t = true.
Proof.
  unfold configure_port. destruct (sp_fail p) eqn:Hf; intros H; try discriminate H.
  destruct (timeout_accepted p t) eqn:Ha; [|discriminate H].
  injection H as <-. cbn [sp_settings sp_timeout]. repeat split.
Qed.

Lemma C20_failure_is_error p t :
  sp_fail p <> FailNone -> configure_port p t = Err (PErr (sp_fail p)).
Proof.
  unfold configure_port. destruct (sp_fail p) eqn:Hf; intros H; try reflexivity.
  exfalso. apply H. reflexivity.
Qed.

(* A timeout the device will not take is the device's refusal of set_timeout: an error, never a shorter timeout. *)
Lemma C20_refused_timeout_is_error p t :
  sp_fail p = FailNone -> timeout_accepted p t = false -> configure_port p t = Err (PErr FailTimeout).
Proof. unfold configure_port. intros -> ->. reflexivity. Qed.

Lemma C20_no_failure_is_ok p t :
  sp_fail p = FailNone -> timeout_accepted p t = true ->
  configure_port p t
  = Ok {| sp_settings := wanted; sp_timeout := Some t; sp_fail := FailNone; sp_max_timeout := sp_max_timeout p |}.
Proof. unfold configure_port. intros -> ->. reflexivity. Qed.

(* Everything at once: the result is decided by what the device refuses; prior settings and the prior
   timeout never matter. *)
Lemma C20_configure_spec p t :
  (sp_fail p = FailNone /\ timeout_accepted p t = true /\
   configure_port p t = Ok {| sp_settings := wanted; sp_timeout := Some t; sp_fail := FailNone;
                              sp_max_timeout := sp_max_timeout p |})
  \/ (sp_fail p = FailNone /\ timeout_accepted p t = false /\ configure_port p t = Err (PErr FailTimeout))
  \/ (sp_fail p <> FailNone /\ configure_port p t = Err (PErr (sp_fail p))).
Proof.
  destruct (sp_fail p) eqn:Hf.
  - destruct (timeout_accepted p t) eqn:Ha.
    + left. repeat split. apply C20_no_failure_is_ok; assumption.
    + right. left. repeat split. apply C20_refused_timeout_is_error; assumption.
  - right. right. split; [discriminate|]. rewrite <- Hf. apply C20_failure_is_error. rewrite Hf. discriminate.
  - right. right. split; [discriminate|]. rewrite <- Hf. apply C20_failure_is_error. rewrite Hf. discriminate.
  - right. right. split; [discriminate|]. rewrite <- Hf. apply C20_failure_is_error. rewrite Hf. discriminate.
  - right. right. split; [discriminate|]. rewrite <- Hf. apply C20_failure_is_error. rewrite Hf. discriminate.
Qed.

Lemma C20_serial_bus_ok p p' :
  serial_bus_try_new p = Ok p' ->
  sp_settings p' = wanted /\ sp_timeout p' = Some 5000000000 /\ sp_fail p = FailNone
  /\ timeout_accepted p 5000000000 = true.
Proof. apply C20_ok_means_configured. Qed.

Lemma C20_odk_ok p p' :
  odk_try_new p = Ok p' ->
  sp_settings p' = wanted /\ sp_timeout p' = Some 10000000000 /\ sp_fail p = FailNone
  /\ timeout_accepted p 10000000000 = true.
Proof. apply C20_ok_means_configured. Qed.

Lemma C20_constructors_fail p :
  sp_fail p <> FailNone ->
  serial_bus_try_new p = Err (PErr (sp_fail p)) /\ odk_try_new p = Err (PErr (sp_fail p)).
Proof. intros H. split; apply C20_failure_is_error; exact H. Qed.

Lemma C20_constructors_succeed p :
  sp_fail p = FailNone -> timeout_accepted p 10000000000 = true ->
  serial_bus_try_new p = Ok {| sp_settings := wanted; sp_timeout := Some 5000000000; sp_fail := FailNone;
                               sp_max_timeout := sp_max_timeout p |}
  /\ odk_try_new p = Ok {| sp_settings := wanted; sp_timeout := Some 10000000000; sp_fail := FailNone;
                           sp_max_timeout := sp_max_timeout p |}.
Proof.
  intros H Ha. split; apply C20_no_failure_is_ok; try exact H; try exact Ha.
  unfold timeout_accepted in *. destruct (sp_max_timeout p) as [l|]; [|reflexivity].
  apply N.leb_le in Ha. apply N.leb_le. lia.
Qed.
