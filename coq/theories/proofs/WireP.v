(* WireP.v — proofs about the ODK bridge and the controller run over the wire (property C17).
   Part 1: pipes (Frame::read / Frame::write with empty schedules).
   Part 2: the bridge alone.
   Part 3: what virtual signs reply.
   Part 4: one bus call over the wire.
   Part 5: the generic simulation: run_wire = run_bus_strict.
   Part 6: the controller operations send only well-formed specific messages.
   Part 7: strict run versus direct run for the controller operations. *)
From Flipdot Require Import Tactics.
From Flipdot Require Import Base Hex Frame Message SignType Page VSign Controller Io Serial.
From Flipdot Require Import SignSpec FrameP MessageP SignTypeP IoP VSignP.
Local Open Scope N_scope.

(* ------------------------------------------------------------------------- *)
(** * Part 1: pipes *)

Lemma frame_read_pipe content :
  frame_read (pipe_reader content)
  = Some (read_result (fst (first_line content)), pipe_reader (snd (first_line content))).
Proof.
  unfold pipe_reader.
  destruct (C15_read_exact content []) as (r' & Hr & Hc & j & Hj); [intros []|].
  rewrite Hr. destruct r' as [c s]. cbn [r_content r_sched] in Hc, Hj.
  rewrite skipn_nil in Hj. subst c s. reflexivity.
Qed.

Lemma frame_read_pipe_frame f rest :
  wf_frame f ->
  frame_read (pipe_reader (encode_nl f ++ rest)) = Some (Ok f, pipe_reader rest).
Proof.
  intros Hwf. rewrite frame_read_pipe, first_line_encode_nl. cbn [fst snd].
  unfold read_result. destruct (C01_roundtrip f Hwf) as [_ Hd]. rewrite Hd. reflexivity.
Qed.

Lemma frame_read_pipe_empty :
  frame_read (pipe_reader []) = Some (Err (RFrame InvalidFrame), pipe_reader []).
Proof. reflexivity. Qed.

Lemma frame_write_pipe f out :
  frame_write f {| w_out := out; w_sched := [] |}
  = Some (Ok tt, {| w_out := out ++ encode_nl f; w_sched := [] |}).
Proof.
  destruct (frame_write f {| w_out := out; w_sched := [] |}) as [[res w']|] eqn:E;
    [|exfalso; exact (C15_write_total _ _ E)].
  destruct (C15_write_cases _ _ _ _ E) as [[j Hj] Hcases]. cbn [w_out w_sched] in *.
  rewrite skipn_nil in Hj.
  destruct Hcases as [[Hres Ho]|(_ & [[]|[]] & _)].
  destruct w' as [o s]. cbn [w_out w_sched] in *. subst. reflexivity.
Qed.

(* ------------------------------------------------------------------------- *)
(** * Part 2: the bridge alone *)

(* A line the bridge cannot decode, or a read failure: a communication error; nothing is
   forwarded, the signs are untouched, nothing is written. *)
Lemma C17_bad_line p b e r' :
  frame_read (pt_in p) = Some (Err e, r') ->
  odk_process p b = Some (Err (OComm e), {| pt_in := r'; pt_out := pt_out p |}, b, None).
Proof. intros H. unfold odk_process. rewrite H. reflexivity. Qed.

(* A decodable line: exactly its message is handed to the bus; nothing is written when the bus
   stays silent; when the bus replies, the reply's frame is written back (and only a write
   fault, WFail/WZero in the schedule, can cut it short: then a communication error is
   reported, with the signs already stepped). *)
Lemma C17_forwarding p b f r' :
  frame_read (pt_in p) = Some (Ok f, r') ->
  match bus_step b (msg_of_frame f) with
  | None =>
      odk_process p b
      = Some (Err OPanic, {| pt_in := r'; pt_out := pt_out p |}, b, Some (msg_of_frame f))
  | Some (b', None) =>
      odk_process p b
      = Some (Ok tt, {| pt_in := r'; pt_out := pt_out p |}, b', Some (msg_of_frame f))
  | Some (b', Some rm) =>
      exists res w',
        odk_process p b = Some (res, {| pt_in := r'; pt_out := w' |}, b', Some (msg_of_frame f))
        /\ ((res = Ok tt /\ w_out w' = w_out (pt_out p) ++ encode_nl (frame_of_msg rm))
            \/ (res = Err (OComm RIo)
                /\ (In WFail (w_sched (pt_out p)) \/ In WZero (w_sched (pt_out p)))
                /\ exists k, (k < length (encode_nl (frame_of_msg rm)))%nat
                             /\ w_out w' = w_out (pt_out p)
                                           ++ firstn k (encode_nl (frame_of_msg rm))))
  end.
Proof.
  intros H. unfold odk_process. rewrite H.
  destruct (bus_step b (msg_of_frame f)) as [[b' [rm|]]|]; try reflexivity.
  destruct (frame_write (frame_of_msg rm) (pt_out p)) as [[res w']|] eqn:E;
    [|exfalso; exact (C15_write_total _ _ E)].
  destruct (C15_write_cases _ _ _ _ E) as [_ [[Hres Ho]|(Hres & Hin & Hk)]]; subst res.
  - exists (Ok tt), w'. split; [reflexivity|]. left. split; [reflexivity|exact Ho].
  - exists (Err (OComm RIo)), w'. split; [reflexivity|]. right.
    split; [reflexivity|]. split; [exact Hin|exact Hk].
Qed.

(* With no write fault scheduled the reply's frame is written back whole. *)
Lemma C17_forwarding_clean p b f r' b' rm :
  frame_read (pt_in p) = Some (Ok f, r') ->
  (forall ev, In ev (w_sched (pt_out p)) -> ev <> WFail /\ ev <> WZero) ->
  bus_step b (msg_of_frame f) = Some (b', Some rm) ->
  exists w', odk_process p b
             = Some (Ok tt, {| pt_in := r'; pt_out := w' |}, b', Some (msg_of_frame f))
             /\ w_out w' = w_out (pt_out p) ++ encode_nl (frame_of_msg rm).
Proof.
  intros H Hclean Hs. pose proof (C17_forwarding p b f r' H) as F. rewrite Hs in F.
  destruct F as (res & w' & Ho & [[-> Hw]|(_ & Hin & _)]).
  - exists w'. split; [exact Ho|exact Hw].
  - exfalso. destruct Hin as [Hin|Hin]; destruct (Hclean _ Hin) as [H1 H2]; congruence.
Qed.

(* The bridge fed, through a pipe, the frame of a message. *)
Definition bridge_port (reply : option msg) : port :=
  {| pt_in := pipe_reader [];
     pt_out := {| w_out := match reply with
                           | Some rm => encode_nl (frame_of_msg rm)
                           | None => []
                           end;
                  w_sched := [] |} |}.

Lemma odk_pipe m b :
  wf_msg m -> specific m ->
  odk_process {| pt_in := pipe_reader (encode_nl (frame_of_msg m)); pt_out := pipe_writer |} b
  = match bus_step b m with
    | None => Some (Err OPanic, bridge_port None, b, Some m)
    | Some (b', reply) => Some (Ok tt, bridge_port reply, b', Some m)
    end.
Proof.
  intros Hwf Hsp. unfold odk_process. cbn [pt_in pt_out].
  rewrite <- (app_nil_r (encode_nl (frame_of_msg m))).
  rewrite (frame_read_pipe_frame _ [] (wf_frame_of_msg m Hwf)).
  rewrite (msg_frame_msg m Hsp).
  destruct (bus_step b m) as [[b' [rm|]]|]; try reflexivity.
  unfold pipe_writer. rewrite frame_write_pipe. reflexivity.
Qed.

(* ------------------------------------------------------------------------- *)
(** * Part 3: what virtual signs reply *)

Definition addrs_ok (b : list vsign) : Prop := Forall (fun s => v_addr s < 65536) b.

Lemma addrs_ok_step b m b' r : addrs_ok b -> bus_step b m = Some (b', r) -> addrs_ok b'.
Proof.
  apply bus_step_Forall. intros s s' r0 Hs Hv.
  destruct (vstep_addr_style s m s' r0 Hv) as [E _]. rewrite E. exact Hs.
Qed.

Lemma bus_step_addrs m : forall b b' r,
  bus_step b m = Some (b', r) -> map v_addr b' = map v_addr b.
Proof.
  induction b as [|s t IH]; intros b' r Hs.
  - cbn [bus_step] in Hs. injection Hs as E _. subst b'. reflexivity.
  - rewrite bus_step_cons in Hs.
    destruct (vstep s m) as [[s' [r0|]]|] eqn:Hv; [| |discriminate].
    + injection Hs as E _. subst b'. destruct (vstep_addr_style s m s' _ Hv) as [A _].
      cbn [map]. rewrite A. reflexivity.
    + destruct (bus_step t m) as [[t' r1]|] eqn:Hbt; [|discriminate].
      injection Hs as E _. subst b'. destruct (vstep_addr_style s m s' _ Hv) as [A _].
      cbn [map]. rewrite A, (IH t' r1 eq_refl). reflexivity.
Qed.

(* The sign that produced a bus reply. *)
Lemma bus_reply_from m : forall b b' rm,
  bus_step b m = Some (b', Some rm) ->
  exists s s', In s b /\ vstep s m = Some (s', Some rm).
Proof.
  induction b as [|s t IH]; intros b' rm Hs.
  - discriminate.
  - rewrite bus_step_cons in Hs.
    destruct (vstep s m) as [[s' [r0|]]|] eqn:Hv; [| |discriminate].
    + injection Hs as _ E. subst r0. exists s, s'. split; [left; reflexivity|exact Hv].
    + destruct (bus_step t m) as [[t' r1]|] eqn:Hbt; [|discriminate].
      injection Hs as _ E. subst r1. destruct (IH t' rm eq_refl) as (s1 & s1' & Hin & Hv1).
      exists s1, s1'. split; [right; exact Hin|exact Hv1].
Qed.

Lemma vstep_reply_shape s m s' rm :
  vstep s m = Some (s', Some rm) ->
  response_expected m = true /\
  ((exists st, rm = ReportState (v_addr s) st) \/ (exists o, rm = AckOperation (v_addr s) o)).
Proof.
  intros Hs. pose proof (vstep_reply s m s' _ Hs) as Hr. revert Hr.
  destruct m as [off data|n|a|a|a st|a o|a o|a|a|f]; cbn [spec_reply response_expected];
    try discriminate.
  - destruct (a =? v_addr s); [|discriminate]. intros E; injection E as E.
    split; [reflexivity|]. left. eexists. exact E.
  - destruct (a =? v_addr s); [|discriminate]. intros E; injection E as E.
    split; [reflexivity|]. left. eexists. exact E.
  - destruct ((a =? v_addr s) && legal o (v_state s)); [|discriminate]. intros E; injection E as E.
    split; [reflexivity|]. right. eexists. exact E.
Qed.

(* Fact 2: signs reply only to Hello / QueryState / RequestOperation. *)
Lemma bus_replies_only_when_expected b m b' rm :
  bus_step b m = Some (b', Some rm) -> response_expected m = true.
Proof.
  intros Hs. destruct (bus_reply_from m b b' rm Hs) as (s & s' & _ & Hv).
  exact (proj1 (vstep_reply_shape s m s' rm Hv)).
Qed.

Lemma bus_silent_when_not_expected b m b' r :
  bus_step b m = Some (b', r) -> response_expected m = false -> r = None.
Proof.
  intros Hs He. destruct r as [rm|]; [|reflexivity].
  rewrite (bus_replies_only_when_expected b m b' rm Hs) in He. discriminate.
Qed.

(* Fact 1: replies are well-formed specific messages. *)
Lemma bus_reply_wf b m b' rm :
  bus_step b m = Some (b', Some rm) -> (forall s, In s b -> v_addr s < 65536) ->
  wf_msg rm /\ specific rm.
Proof.
  intros Hs Ha. destruct (bus_reply_from m b b' rm Hs) as (s & s' & Hin & Hv).
  specialize (Ha s Hin).
  destruct (vstep_reply_shape s m s' rm Hv) as [_ [[st E]|[o E]]]; subst rm;
    (split; [|exact I]); unfold wf_msg, wf_msgb, is_u16; lia.
Qed.

Lemma addrs_ok_In b : addrs_ok b -> forall s, In s b -> v_addr s < 65536.
Proof. intros H. apply Forall_forall. exact H. Qed.

(* ------------------------------------------------------------------------- *)
(** * Part 4: one bus call over the wire *)

Definition wire0 (b : list vsign) : wire := {| wr_bus := b; wr_inbox := [] |}.

(* What the controller's serial bus reports for a bus reply [r] to message [m]. *)
Definition wire_view (m : msg) (r : option msg) : wire_reply :=
  match r with
  | Some rm => WRep (Some rm)
  | None => if response_expected m then WErr else WRep None
  end.

Lemma wire_step_spec m b :
  wf_msg m -> specific m -> addrs_ok b ->
  wire_step (wire0 b) m
  = match bus_step b m with
    | None => Some (wire0 b, WPanic)
    | Some (b', r) => Some (wire0 b', wire_view m r)
    end.
Proof.
  intros Hwf Hsp Hb. unfold wire_step, wire0. cbn [wr_bus wr_inbox].
  rewrite (odk_pipe m b Hwf Hsp).
  destruct (bus_step b m) as [[b' r]|] eqn:Hs; [|reflexivity].
  cbn [bridge_port pt_out w_out app].
  destruct r as [rm|]; cbn [wire_view].
  - rewrite (bus_replies_only_when_expected b m b' rm Hs).
    destruct (bus_reply_wf b m b' rm Hs (addrs_ok_In b Hb)) as [Hrwf Hrsp].
    rewrite <- (app_nil_r (encode_nl (frame_of_msg rm))).
    rewrite (frame_read_pipe_frame _ [] (wf_frame_of_msg rm Hrwf)).
    rewrite (msg_frame_msg rm Hrsp). reflexivity.
  - destruct (response_expected m); [|reflexivity].
    rewrite frame_read_pipe_empty. reflexivity.
Qed.

(* The same, case by case as in the task statement. *)
Lemma C17_wire_step m b :
  wf_msg m -> specific m -> (forall s, In s b -> v_addr s < 65536) ->
  (* the bridge forwards exactly m and writes back exactly the reply's frame, if any *)
  odk_process {| pt_in := pipe_reader (encode_nl (frame_of_msg m)); pt_out := pipe_writer |} b
  = match bus_step b m with
    | None => Some (Err OPanic, bridge_port None, b, Some m)
    | Some (b', reply) => Some (Ok tt, bridge_port reply, b', Some m)
    end
  /\ (bus_step b m = None ->
      wire_step {| wr_bus := b; wr_inbox := [] |} m
      = Some ({| wr_bus := b; wr_inbox := [] |}, WPanic))
  /\ (forall b' rm, bus_step b m = Some (b', Some rm) ->
      response_expected m = true /\
      wire_step {| wr_bus := b; wr_inbox := [] |} m
      = Some ({| wr_bus := b'; wr_inbox := [] |}, WRep (Some rm)))
  /\ (forall b', bus_step b m = Some (b', None) ->
      wire_step {| wr_bus := b; wr_inbox := [] |} m
      = Some ({| wr_bus := b'; wr_inbox := [] |},
              if response_expected m then WErr else WRep None)).
Proof.
  intros Hwf Hsp Ha. assert (Hb : addrs_ok b) by (apply Forall_forall; exact Ha).
  split; [exact (odk_pipe m b Hwf Hsp)|].
  pose proof (wire_step_spec m b Hwf Hsp Hb) as H. unfold wire0 in H.
  split; [|split].
  - intros E. rewrite E in H. exact H.
  - intros b' rm E. rewrite E in H.
    split; [exact (bus_replies_only_when_expected b m b' rm E)|exact H].
  - intros b' E. rewrite E in H. exact H.
Qed.

(* Fact 2 + the inbox stays empty: no stale bytes in the controller's receive pipe. *)
Lemma C17_no_stale_bytes m b w' wr :
  wf_msg m -> specific m -> (forall s, In s b -> v_addr s < 65536) ->
  wire_step {| wr_bus := b; wr_inbox := [] |} m = Some (w', wr) ->
  wr_inbox w' = []
  /\ (forall s, In s (wr_bus w') -> v_addr s < 65536)
  /\ (forall b' rm, bus_step b m = Some (b', Some rm) -> response_expected m = true).
Proof.
  intros Hwf Hsp Ha H. assert (Hb : addrs_ok b) by (apply Forall_forall; exact Ha).
  pose proof (wire_step_spec m b Hwf Hsp Hb) as E. unfold wire0 in E. rewrite E in H.
  split; [|split].
  - destruct (bus_step b m) as [[b' r]|]; injection H as <- _; reflexivity.
  - destruct (bus_step b m) as [[b' r]|] eqn:Hs; injection H as <- _; cbn [wr_bus].
    + apply addrs_ok_In. exact (addrs_ok_step b m b' r Hb Hs).
    + exact Ha.
  - intros b' rm. apply bus_replies_only_when_expected.
Qed.

(* ------------------------------------------------------------------------- *)
(** * Part 5: the generic simulation *)

(* A run directly on the bus, as a serial bus would see it: a missing reply to a message that
   expects one is a timeout error (never Ok(None)). *)
Fixpoint run_bus_strict {A : Type} (p : prog A) (b : list vsign) : list vsign * outcome A :=
  match p with
  | Ret a => (b, Done a)
  | Fail => (b, ProtoErr)
  | Crash => (b, Crashed)
  | Send m k =>
      match bus_step b m with
      | None => (b, Crashed)
      | Some (b', Some rm) => run_bus_strict (k (Some rm)) b'
      | Some (b', None) =>
          if response_expected m then (b', BusFailed) else run_bus_strict (k None) b'
      end
  end.

(* Replies a program has to be prepared for. *)
Definition reply_ok (r : option msg) : Prop := r = None \/ exists rm, r = Some rm /\ wf_msg rm.

(* The program sends only well-formed specific messages. *)
Fixpoint wf_prog {A : Type} (p : prog A) : Prop :=
  match p with
  | Send m k => wf_msg m /\ specific m /\ forall r, reply_ok r -> wf_prog (k r)
  | _ => True
  end.

Theorem C17_simulation_strict : forall A (p : prog A) b,
  wf_prog p -> Forall (fun s => v_addr s < 65536) b ->
  run_wire p {| wr_bus := b; wr_inbox := [] |}
  = Some (let (b', o) := run_bus_strict p b in ({| wr_bus := b'; wr_inbox := [] |}, o)).
Proof.
  intros A. induction p as [a| | |m k IH]; intros b Hp Hb; try reflexivity.
  cbn [wf_prog] in Hp. destruct Hp as (Hwf & Hsp & Hk).
  cbn [run_wire run_bus_strict].
  pose proof (wire_step_spec m b Hwf Hsp Hb) as E. unfold wire0 in E. rewrite E.
  destruct (bus_step b m) as [[b' r]|] eqn:Hs; [|reflexivity].
  pose proof (addrs_ok_step b m b' r Hb Hs) as Hb'.
  destruct r as [rm|]; cbn [wire_view].
  - apply IH; [|exact Hb'].
    apply Hk. right. exists rm. split; [reflexivity|].
    exact (proj1 (bus_reply_wf b m b' rm Hs (addrs_ok_In b Hb))).
  - destruct (response_expected m); [reflexivity|].
    apply IH; [|exact Hb']. apply Hk. left. reflexivity.
Qed.

(* ------------------------------------------------------------------------- *)
(** * Part 6: the controller operations send only well-formed specific messages *)

(* wf_prog with a postcondition on the returned value (needed for the chunk counter). *)
Fixpoint wf_prog_ret {A : Type} (Q : A -> Prop) (p : prog A) : Prop :=
  match p with
  | Ret a => Q a
  | Fail | Crash => True
  | Send m k => wf_msg m /\ specific m /\ forall r, reply_ok r -> wf_prog_ret Q (k r)
  end.

Definition wfp {A : Type} (p : prog A) : Prop := wf_prog_ret (fun _ => True) p.

Lemma wf_prog_ret_wf {A} (Q : A -> Prop) (p : prog A) : wf_prog_ret Q p -> wf_prog p.
Proof.
  induction p as [x| | |m k IH]; cbn [wf_prog_ret wf_prog]; try exact (fun _ => I).
  intros (H1 & H2 & H3). split; [exact H1|]. split; [exact H2|].
  intros r Hr. apply IH. exact (H3 r Hr).
Qed.

Lemma wf_prog_ret_weaken {A} (Q R : A -> Prop) (p : prog A) :
  (forall x, Q x -> R x) -> wf_prog_ret Q p -> wf_prog_ret R p.
Proof.
  intros HQR. induction p as [x| | |m k IH]; cbn [wf_prog_ret]; try exact (fun _ => I).
  - apply HQR.
  - intros (H1 & H2 & H3). split; [exact H1|]. split; [exact H2|].
    intros r Hr. apply IH. exact (H3 r Hr).
Qed.

Lemma wf_bind {A B} (Q : A -> Prop) (R : B -> Prop) (p : prog A) (f : A -> prog B) :
  wf_prog_ret Q p -> (forall x, Q x -> wf_prog_ret R (f x)) -> wf_prog_ret R (bind p f).
Proof.
  intros Hp Hf. induction p as [x| | |m k IH]; cbn [bind wf_prog_ret] in *; try exact I.
  - exact (Hf x Hp).
  - destruct Hp as (H1 & H2 & H3). split; [exact H1|]. split; [exact H2|].
    intros r Hr. apply IH. exact (H3 r Hr).
Qed.

Lemma wfp_bind {A B} (p : prog A) (f : A -> prog B) :
  wfp p -> (forall x, wfp (f x)) -> wfp (bind p f).
Proof. intros Hp Hf. apply (wf_bind (fun _ => True)); [exact Hp|intros x _; apply Hf]. Qed.

Lemma wfp_send m : wf_msg m -> specific m -> wfp (send m).
Proof.
  intros H1 H2. unfold wfp, send. cbn [wf_prog_ret].
  split; [exact H1|]. split; [exact H2|]. intros r _. exact I.
Qed.

Lemma wfp_verify e r : wfp (verify e r).
Proof. unfold wfp, verify. destruct (omsg_eqb r e); exact I. Qed.

Lemma wfp_expect m e : wf_msg m -> specific m -> wfp (expect m e).
Proof.
  intros H1 H2. unfold expect. apply wfp_bind; [exact (wfp_send m H1 H2)|].
  intros r. apply wfp_verify.
Qed.

Ltac wf_addr := unfold wf_msg; cbn [wf_msgb]; unfold is_u16; lia.

Lemma wfp_ensure_unconfigured a : a < 65536 -> wfp (ensure_unconfigured a).
Proof.
  intros Ha. unfold ensure_unconfigured.
  assert (Hq : forall o e, wfp (expect (RequestOperation a o) e))
    by (intros o e; apply wfp_expect; [wf_addr|exact I]).
  assert (Hh : forall e, wfp (expect (Hello a) e))
    by (intros e; apply wfp_expect; [wf_addr|exact I]).
  apply wfp_bind; [apply wfp_send; [wf_addr|exact I]|].
  intros r. cbv zeta.
  assert (Hfin : wfp (expect (RequestOperation a FinishReset) (Some (AckOperation a FinishReset)) ;;;
                      expect (Hello a) (Some (ReportState a Unconfigured)))).
  { apply wfp_bind; [apply Hq|]. intros _. apply Hh. }
  assert (Hfull : wfp (expect (RequestOperation a StartReset) (Some (AckOperation a StartReset)) ;;;
                       expect (Hello a) (Some (ReportState a ReadyToReset)) ;;;
                       expect (RequestOperation a FinishReset) (Some (AckOperation a FinishReset)) ;;;
                       expect (Hello a) (Some (ReportState a Unconfigured)))).
  { apply wfp_bind; [apply Hq|]. intros _. apply wfp_bind; [apply Hh|]. intros _. exact Hfin. }
  destruct r as [[off d|n|a'|a'|a' s|a' o|a' o|a'|a'|f]|]; try exact Hfull.
  destruct s; try exact Hfull; destruct (a' =? a); try exact Hfull; try exact Hfin. exact I.
Qed.

(* chunks *)
Definition chunk_ok (c : list N) : Prop := bytesb c = true /\ nlen c <= 16.

Lemma bytesb_firstn_skipn n l :
  bytesb l = true -> bytesb (firstn n l) = true /\ bytesb (skipn n l) = true.
Proof.
  intros H. rewrite <- (firstn_skipn n l) in H. rewrite VSignP.bytesb_app in H.
  apply andb_true_iff in H. exact H.
Qed.

Lemma chunks_fuel_ok : forall fuel l, bytesb l = true -> Forall chunk_ok (chunks_fuel fuel l).
Proof.
  induction fuel as [|fuel IH]; intros l Hl; cbn [chunks_fuel]; [constructor|].
  destruct l as [|x t]; [constructor|].
  destruct (bytesb_firstn_skipn 16 (x :: t) Hl) as [H1 H2].
  constructor; [|exact (IH _ H2)].
  split; [exact H1|]. unfold nlen. pose proof (firstn_le_length 16 (x :: t)). lia.
Qed.

Lemma chunks16_ok l : bytesb l = true -> Forall chunk_ok (chunks16 l).
Proof. apply chunks_fuel_ok. Qed.

Lemma wf_send_chunks : forall cs i count,
  Forall chunk_ok cs -> count < 65536 ->
  wf_prog_ret (fun n => n < 65536) (send_chunks cs i count).
Proof.
  induction cs as [|c t IH]; intros i count Hcs Hc; cbn [send_chunks].
  - exact Hc.
  - inversion Hcs as [|? ? [Hb Hl] Ht]; subst.
    apply (wf_bind (fun _ => True)).
    + apply wfp_expect; [|exact I]. unfold wf_msg. cbn [wf_msgb]. rewrite Hb. unfold is_u16. lia.
    + intros _ _. destruct (N.ltb_spec (count + 1) 65536) as [Hlt|Hge]; [|exact I].
      apply IH; assumption.
Qed.

Definition items_ok (items : list (list N)) : Prop := Forall (fun it => bytesb it = true) items.

Lemma wf_send_items : forall items count,
  items_ok items -> count < 65536 ->
  wf_prog_ret (fun n => n < 65536) (send_items items count).
Proof.
  induction items as [|it t IH]; intros count Hit Hc; cbn [send_items].
  - exact Hc.
  - inversion Hit as [|? ? Hb Ht]; subst.
    apply (wf_bind (fun n => n < 65536)).
    + apply wf_send_chunks; [apply chunks16_ok; exact Hb|exact Hc].
    + intros c Hc'. apply IH; assumption.
Qed.

Lemma wfp_attempt a op items : a < 65536 -> items_ok items -> wfp (attempt a op items).
Proof.
  intros Ha Hit. unfold attempt.
  apply wfp_bind; [apply wfp_expect; [wf_addr|exact I]|]. intros _.
  apply (wf_bind (fun n => n < 65536)); [apply wf_send_items; [exact Hit|lia]|].
  intros n Hn. apply wfp_bind; [apply wfp_expect; [wf_addr|exact I]|]. intros _.
  apply wfp_send; [wf_addr|exact I].
Qed.

Lemma wfp_transfer_loop a op items su fa : a < 65536 -> items_ok items ->
  forall retries, wfp (transfer_loop retries a op items su fa).
Proof.
  intros Ha Hit. induction retries as [|n IH]; cbn [transfer_loop].
  - apply wfp_bind; [apply wfp_attempt; assumption|]. intros r. apply wfp_verify.
  - apply wfp_bind; [apply wfp_attempt; assumption|]. intros r.
    destruct (omsg_eqb r (Some (ReportState a fa))); [exact IH|apply wfp_verify].
Qed.

Lemma items_ok_config t : items_ok [st_to_bytes t].
Proof. constructor; [destruct t; reflexivity|constructor]. Qed.

Lemma wfp_configure a t : a < 65536 -> wfp (configure a t).
Proof.
  intros Ha. unfold configure, transfer.
  apply wfp_bind; [apply wfp_ensure_unconfigured; exact Ha|]. intros _.
  apply wfp_transfer_loop; [exact Ha|apply items_ok_config].
Qed.

Lemma wfp_configure_if_needed a t : a < 65536 -> wfp (configure_if_needed a t).
Proof.
  intros Ha. unfold configure_if_needed.
  apply wfp_bind; [apply wfp_send; [wf_addr|exact I]|]. intros r.
  pose proof (wfp_configure a t Ha) as Hc.
  destruct r as [[off d|n|a'|a'|a' s|a' o|a' o|a'|a'|f]|]; try exact Hc.
  destruct ((a' =? a) && ready_state s); [exact I|exact Hc].
Qed.

Lemma items_ok_pages ps :
  (forall p, In p ps -> bytesb (p_bytes p) = true) -> items_ok (map p_bytes ps).
Proof.
  intros H. unfold items_ok. apply Forall_forall. intros it Hin.
  apply in_map_iff in Hin. destruct Hin as (p & <- & Hp). exact (H p Hp).
Qed.

Lemma wfp_send_pages a ps :
  a < 65536 -> (forall p, In p ps -> bytesb (p_bytes p) = true) -> wfp (send_pages a ps).
Proof.
  intros Ha Hps. unfold send_pages, transfer.
  apply wfp_bind; [apply wfp_transfer_loop; [exact Ha|apply items_ok_pages; exact Hps]|]. intros _.
  apply wfp_bind; [apply wfp_expect; [wf_addr|exact I]|]. intros _.
  apply wfp_bind; [apply wfp_send; [wf_addr|exact I]|]. intros r.
  destruct r as [[off d|n|a'|a'|a' s|a' o|a' o|a'|a'|f]|]; try exact I.
  destruct s; try exact I. destruct (a' =? a); exact I.
Qed.

Lemma wfp_switch_page a target trigger op : a < 65536 ->
  forall fuel, wfp (switch_page fuel a target trigger op).
Proof.
  intros Ha. induction fuel as [|fuel IH]; cbn [switch_page]; [exact I|].
  apply wfp_bind; [apply wfp_send; [wf_addr|exact I]|]. intros r.
  destruct r as [[off d|n|a'|a'|a' s|a' o|a' o|a'|a'|f]|]; try exact I.
  destruct (a' =? a); [|exact I].
  destruct (state_is s ShowingPages); [exact I|].
  destruct (state_is s target); [exact I|].
  destruct (state_is s trigger).
  { apply wfp_bind; [apply wfp_expect; [wf_addr|exact I]|]. intros _. exact IH. }
  destruct (state_is s PageLoadInProgress || state_is s PageShowInProgress); [exact IH|exact I].
Qed.

Lemma wfp_shut_down a : a < 65536 -> wfp (shut_down a).
Proof. intros Ha. unfold shut_down. apply wfp_expect; [wf_addr|exact I]. Qed.

(* Fact 5 *)
Theorem C17_wf_controller :
  (forall a t, a < 65536 -> wf_prog (configure a t))
  /\ (forall a t, a < 65536 -> wf_prog (configure_if_needed a t))
  /\ (forall a ps, a < 65536 -> (forall p, In p ps -> bytesb (p_bytes p) = true) ->
                   wf_prog (send_pages a ps))
  /\ (forall fuel a, a < 65536 -> wf_prog (show_loaded_page fuel a))
  /\ (forall fuel a, a < 65536 -> wf_prog (load_next_page fuel a))
  /\ (forall a, a < 65536 -> wf_prog (shut_down a)).
Proof.
  split; [|split; [|split; [|split; [|split]]]].
  - intros a t Ha. exact (wf_prog_ret_wf _ _ (wfp_configure a t Ha)).
  - intros a t Ha. exact (wf_prog_ret_wf _ _ (wfp_configure_if_needed a t Ha)).
  - intros a ps Ha Hps. exact (wf_prog_ret_wf _ _ (wfp_send_pages a ps Ha Hps)).
  - intros fuel a Ha. exact (wf_prog_ret_wf _ _ (wfp_switch_page a _ _ _ Ha fuel)).
  - intros fuel a Ha. exact (wf_prog_ret_wf _ _ (wfp_switch_page a _ _ _ Ha fuel)).
  - intros a Ha. exact (wf_prog_ret_wf _ _ (wfp_shut_down a Ha)).
Qed.

(* ------------------------------------------------------------------------- *)
(** * Part 7: strict run versus direct run *)

(* A sign with address a on the bus always answers Hello a / QueryState a. *)
Lemma bus_answers m a : m = Hello a \/ m = QueryState a ->
  forall b b' r, In a (map v_addr b) -> bus_step b m = Some (b', r) -> r <> None.
Proof.
  intros Hm. induction b as [|s t IH]; intros b' r Hin Hs; [destruct Hin|].
  rewrite bus_step_cons in Hs. cbn [map In] in Hin.
  assert (Hv : vstep s m = if a =? v_addr s then Some (v_query s) else Some (s, None))
    by (destruct Hm; subst m; reflexivity).
  rewrite Hv in Hs. destruct (N.eqb_spec a (v_addr s)) as [E|E].
  - unfold v_query in Hs. injection Hs as _ <-. discriminate.
  - destruct Hin as [Hin|Hin]; [congruence|].
    destruct (bus_step t m) as [[t' r1]|] eqn:Hbt; [|discriminate].
    injection Hs as _ <-. exact (IH t' r1 Hin eq_refl).
Qed.

(* The shape of the controller's programs that matters when the address a is on the bus:
   Hello/QueryState go to a (hence are answered) and a RequestOperation that is not
   acknowledged is an immediate UnexpectedResponse. *)
Fixpoint tidy {A : Type} (a : N) (p : prog A) : Prop :=
  match p with
  | Send m k =>
      match m with
      | Hello a' | QueryState a' => a' = a /\ forall rm, tidy a (k (Some rm))
      | RequestOperation _ _ => k None = Fail /\ forall rm, tidy a (k (Some rm))
      | _ => tidy a (k None)
      end
  | _ => True
  end.

Definition same_signs {A : Type} (x y : list vsign * outcome A) : Prop :=
  fst x = fst y /\ (snd x = snd y \/ (snd x = ProtoErr /\ snd y = BusFailed)).

Lemma tidy_runs {A} (a : N) (p : prog A) :
  tidy a p -> forall b, In a (map v_addr b) -> same_signs (run_bus p b) (run_bus_strict p b).
Proof.
  induction p as [x| | |m k IH]; intros Ht b Hin;
    try (split; [reflexivity|left; reflexivity]).
  cbn [run_bus run_bus_strict].
  destruct (bus_step b m) as [[b' r]|] eqn:Hs; [|split; [reflexivity|left; reflexivity]].
  assert (Hin' : In a (map v_addr b')) by (rewrite (bus_step_addrs m b b' r Hs); exact Hin).
  assert (Hsilent : response_expected m = false -> tidy a (k None) ->
                    same_signs (run_bus (k r) b')
                      match r with
                      | Some rm => run_bus_strict (k (Some rm)) b'
                      | None => if response_expected m then (b', BusFailed)
                                else run_bus_strict (k None) b'
                      end).
  { intros He Hk. rewrite (bus_silent_when_not_expected b m b' r Hs He), He.
    exact (IH None Hk b' Hin'). }
  cbn [tidy] in Ht.
  destruct m as [off d|n|a'|a'|a' s|a' o|a' o|a'|a'|f]; try (apply Hsilent; [reflexivity|exact Ht]).
  - destruct Ht as [-> Hk].
    destruct r as [rm|]; [exact (IH _ (Hk rm) b' Hin')|].
    exfalso. exact (bus_answers (Hello a) a (or_introl eq_refl) b b' None Hin Hs eq_refl).
  - destruct Ht as [-> Hk].
    destruct r as [rm|]; [exact (IH _ (Hk rm) b' Hin')|].
    exfalso. exact (bus_answers (QueryState a) a (or_intror eq_refl) b b' None Hin Hs eq_refl).
  - destruct Ht as [Hn Hk].
    destruct r as [rm|]; [exact (IH _ (Hk rm) b' Hin')|].
    cbn [response_expected]. rewrite Hn. cbn [run_bus].
    split; [reflexivity|right; split; reflexivity].
Qed.

Lemma tidy_bind {A B} a (p : prog A) (f : A -> prog B) :
  tidy a p -> (forall x, tidy a (f x)) -> tidy a (bind p f).
Proof.
  intros Hp Hf. induction p as [x| | |m k IH]; cbn [bind]; try exact I; [apply Hf|].
  cbn [tidy] in *.
  destruct m as [off d|n|a'|a'|a' s|a' o|a' o|a'|a'|f0]; try (apply IH; exact Hp).
  - destruct Hp as [E Hk]. split; [exact E|]. intros rm. apply IH, Hk.
  - destruct Hp as [E Hk]. split; [exact E|]. intros rm. apply IH, Hk.
  - destruct Hp as [E Hk]. split; [rewrite E; reflexivity|]. intros rm. apply IH, Hk.
Qed.

Lemma tidy_verify {a} e r : tidy a (verify e r).
Proof. unfold verify. destruct (omsg_eqb r e); exact I. Qed.

Lemma tidy_send_hello a : tidy a (send (Hello a)).
Proof. cbn [send tidy]. split; [reflexivity|]. intros rm. exact I. Qed.

Lemma tidy_send_query a : tidy a (send (QueryState a)).
Proof. cbn [send tidy]. split; [reflexivity|]. intros rm. exact I. Qed.

Lemma tidy_expect_hello a e : tidy a (expect (Hello a) e).
Proof. unfold expect. apply tidy_bind; [apply tidy_send_hello|]. intros r. apply tidy_verify. Qed.

Lemma tidy_expect_request a a' o e : tidy a (expect (RequestOperation a' o) (Some e)).
Proof.
  unfold expect, send. cbn [bind tidy]. split; [reflexivity|]. intros rm. apply tidy_verify.
Qed.

Lemma tidy_expect_silent a m e : response_expected m = false -> tidy a (expect m e).
Proof.
  intros He. unfold expect, send. cbn [bind tidy].
  destruct m; try discriminate He; apply tidy_verify.
Qed.

Lemma tidy_ensure_unconfigured a : tidy a (ensure_unconfigured a).
Proof.
  unfold ensure_unconfigured.
  apply tidy_bind; [apply tidy_send_hello|].
  intros r. cbv zeta.
  assert (Hfin : tidy a (expect (RequestOperation a FinishReset) (Some (AckOperation a FinishReset)) ;;;
                         expect (Hello a) (Some (ReportState a Unconfigured)))).
  { apply tidy_bind; [apply tidy_expect_request|]. intros _. apply tidy_expect_hello. }
  assert (Hfull : tidy a (expect (RequestOperation a StartReset) (Some (AckOperation a StartReset)) ;;;
                          expect (Hello a) (Some (ReportState a ReadyToReset)) ;;;
                          expect (RequestOperation a FinishReset) (Some (AckOperation a FinishReset)) ;;;
                          expect (Hello a) (Some (ReportState a Unconfigured)))).
  { apply tidy_bind; [apply tidy_expect_request|]. intros _.
    apply tidy_bind; [apply tidy_expect_hello|]. intros _. exact Hfin. }
  destruct r as [[off d|n|a'|a'|a' s|a' o|a' o|a'|a'|f]|]; try exact Hfull.
  destruct s; try exact Hfull; destruct (a' =? a); try exact Hfull; try exact Hfin. exact I.
Qed.

Lemma tidy_send_chunks a : forall cs i count, tidy a (send_chunks cs i count).
Proof.
  induction cs as [|c t IH]; intros i count; cbn [send_chunks]; [exact I|].
  apply tidy_bind; [apply tidy_expect_silent; reflexivity|]. intros _.
  destruct (count + 1 <? 65536); [apply IH|exact I].
Qed.

Lemma tidy_send_items a : forall items count, tidy a (send_items items count).
Proof.
  induction items as [|it t IH]; intros count; cbn [send_items]; [exact I|].
  apply tidy_bind; [apply tidy_send_chunks|]. intros c. apply IH.
Qed.

Lemma tidy_attempt a op items : tidy a (attempt a op items).
Proof.
  unfold attempt.
  apply tidy_bind; [apply tidy_expect_request|]. intros _.
  apply tidy_bind; [apply tidy_send_items|]. intros n.
  apply tidy_bind; [apply tidy_expect_silent; reflexivity|]. intros _.
  apply tidy_send_query.
Qed.

Lemma tidy_transfer_loop a op items su fa :
  forall retries, tidy a (transfer_loop retries a op items su fa).
Proof.
  induction retries as [|n IH]; cbn [transfer_loop].
  - apply tidy_bind; [apply tidy_attempt|]. intros r. apply tidy_verify.
  - apply tidy_bind; [apply tidy_attempt|]. intros r.
    destruct (omsg_eqb r (Some (ReportState a fa))); [exact IH|apply tidy_verify].
Qed.

Lemma tidy_configure a t : tidy a (configure a t).
Proof.
  unfold configure, transfer.
  apply tidy_bind; [apply tidy_ensure_unconfigured|]. intros _. apply tidy_transfer_loop.
Qed.

Lemma tidy_configure_if_needed a t : tidy a (configure_if_needed a t).
Proof.
  unfold configure_if_needed.
  apply tidy_bind; [apply tidy_send_hello|]. intros r.
  pose proof (tidy_configure a t) as Hc.
  destruct r as [[off d|n|a'|a'|a' s|a' o|a' o|a'|a'|f]|]; try exact Hc.
  destruct ((a' =? a) && ready_state s); [exact I|exact Hc].
Qed.

Lemma tidy_send_pages a ps : tidy a (send_pages a ps).
Proof.
  unfold send_pages, transfer.
  apply tidy_bind; [apply tidy_transfer_loop|]. intros _.
  apply tidy_bind; [apply tidy_expect_silent; reflexivity|]. intros _.
  apply tidy_bind; [apply tidy_send_query|]. intros r.
  destruct r as [[off d|n|a'|a'|a' s|a' o|a' o|a'|a'|f]|]; try exact I.
  destruct s; try exact I. destruct (a' =? a); exact I.
Qed.

Lemma tidy_switch_page a target trigger op :
  forall fuel, tidy a (switch_page fuel a target trigger op).
Proof.
  induction fuel as [|fuel IH]; cbn [switch_page]; [exact I|].
  apply tidy_bind; [apply tidy_send_query|]. intros r.
  destruct r as [[off d|n|a'|a'|a' s|a' o|a' o|a'|a'|f]|]; try exact I.
  destruct (a' =? a); [|exact I].
  destruct (state_is s ShowingPages); [exact I|].
  destruct (state_is s target); [exact I|].
  destruct (state_is s trigger).
  { apply tidy_bind; [apply tidy_expect_request|]. intros _. exact IH. }
  destruct (state_is s PageLoadInProgress || state_is s PageShowInProgress); [exact IH|exact I].
Qed.

Lemma tidy_shut_down a : tidy a (shut_down a).
Proof. unfold shut_down. apply tidy_expect_silent. reflexivity. Qed.

(* --- the address is not on the bus --- *)

(* Following the replies [None] the program never returns, and every message on that path
   that expects a reply is addressed to a. *)
Fixpoint doomed {A : Type} (a : N) (p : prog A) : Prop :=
  match p with
  | Ret _ => False
  | Fail | Crash => True
  | Send m k => (response_expected m = true -> msg_target m = Some a) /\ doomed a (k None)
  end.

Definition not_done {A : Type} (x : list vsign * outcome A) : Prop :=
  match snd x with Done _ => False | _ => True end.

Lemma doomed_runs {A} (a : N) (p : prog A) :
  doomed a p -> forall b, ~ In a (map v_addr b) ->
  not_done (run_bus p b) /\ not_done (run_bus_strict p b).
Proof.
  induction p as [x| | |m k IH]; intros Hd b Hin; try (split; exact I); [destruct Hd|].
  cbn [doomed] in Hd. destruct Hd as [Ht Hk]. cbn [run_bus run_bus_strict].
  destruct (response_expected m) eqn:He.
  - rewrite (bus_absent m a (Ht eq_refl) b Hin).
    split; [exact (proj1 (IH None Hk b Hin))|exact I].
  - destruct (bus_step b m) as [[b' r]|] eqn:Hs; [|split; exact I].
    rewrite (bus_silent_when_not_expected b m b' r Hs He).
    apply (IH None Hk). rewrite (bus_step_addrs m b b' r Hs). exact Hin.
Qed.

Lemma doomed_bind {A B} a (p : prog A) (f : A -> prog B) : doomed a p -> doomed a (bind p f).
Proof.
  induction p as [x| | |m k IH]; cbn [bind doomed]; try exact (fun H => H); [intros []|].
  intros [H1 H2]. split; [exact H1|]. apply IH. exact H2.
Qed.

Lemma doomed_expect_request a o e : doomed a (expect (RequestOperation a o) (Some e)).
Proof. cbn. split; [reflexivity|exact I]. Qed.

Lemma doomed_ensure_unconfigured a : doomed a (ensure_unconfigured a).
Proof.
  unfold ensure_unconfigured, send. cbn [bind doomed]. split; [reflexivity|].
  apply doomed_bind. apply doomed_expect_request.
Qed.

Lemma doomed_configure a t : doomed a (configure a t).
Proof. unfold configure. apply doomed_bind. apply doomed_ensure_unconfigured. Qed.

Lemma doomed_configure_if_needed a t : doomed a (configure_if_needed a t).
Proof.
  unfold configure_if_needed, send. cbn [bind doomed]. split; [reflexivity|].
  apply doomed_configure.
Qed.

Lemma doomed_transfer_loop a op items su fa retries :
  doomed a (transfer_loop retries a op items su fa).
Proof.
  destruct retries; cbn [transfer_loop]; apply doomed_bind; unfold attempt;
    apply doomed_bind; apply doomed_expect_request.
Qed.

Lemma doomed_send_pages a ps : doomed a (send_pages a ps).
Proof. unfold send_pages, transfer. apply doomed_bind. apply doomed_transfer_loop. Qed.

Lemma doomed_switch_page a target trigger op fuel :
  doomed a (switch_page fuel a target trigger op).
Proof.
  destruct fuel; cbn [switch_page]; [exact I|].
  unfold send. cbn [bind doomed]. split; [reflexivity|exact I].
Qed.

(* --- consequences, for any program with the two shapes --- *)

Lemma same_signs_done {A} (x y : list vsign * outcome A) b' v :
  same_signs x y -> (x = (b', Done v) <-> y = (b', Done v)).
Proof.
  destruct x as [b1 o1], y as [b2 o2]. unfold same_signs. cbn [fst snd].
  intros [-> [-> | [-> ->]]]; [tauto|]. split; intros H; discriminate H.
Qed.

Lemma not_done_neq {A} (x : list vsign * outcome A) b' v : not_done x -> x <> (b', Done v).
Proof. intros H E. subst x. exact H. Qed.

Lemma together_of_shapes {A} a (p : prog A) :
  tidy a p -> doomed a p ->
  forall b b' v, run_bus p b = (b', Done v) <-> run_bus_strict p b = (b', Done v).
Proof.
  intros Ht Hd b b' v.
  destruct (in_dec N.eq_dec a (map v_addr b)) as [Hin|Hin].
  - apply same_signs_done. exact (tidy_runs a p Ht b Hin).
  - destruct (doomed_runs a p Hd b Hin) as [H1 H2].
    split; intros E; exfalso; [exact (not_done_neq _ b' v H1 E)|exact (not_done_neq _ b' v H2 E)].
Qed.

(* shut_down: no message expects a reply, so both runs are the same run. *)
Lemma shut_down_runs a b : run_bus_strict (shut_down a) b = run_bus (shut_down a) b.
Proof.
  unfold shut_down, expect, send. cbn [bind run_bus run_bus_strict response_expected].
  destruct (bus_step b (Goodbye a)) as [[b' r]|] eqn:Hs; [|reflexivity].
  rewrite (bus_silent_when_not_expected b (Goodbye a) b' r Hs eq_refl). reflexivity.
Qed.

Lemma shut_down_absent a b :
  ~ In a (map v_addr b) -> run_bus (shut_down a) b = (b, Done tt).
Proof.
  intros Hin. unfold shut_down, expect, send. cbn [bind run_bus].
  rewrite (bus_absent (Goodbye a) a eq_refl b Hin). reflexivity.
Qed.

(* Fact 6 *)
Theorem C17_success_together :
  (forall a t b b' v,
      run_bus (configure a t) b = (b', Done v) <-> run_bus_strict (configure a t) b = (b', Done v))
  /\ (forall a t b b' v,
      run_bus (configure_if_needed a t) b = (b', Done v)
      <-> run_bus_strict (configure_if_needed a t) b = (b', Done v))
  /\ (forall a ps b b' v,
      run_bus (send_pages a ps) b = (b', Done v)
      <-> run_bus_strict (send_pages a ps) b = (b', Done v))
  /\ (forall fuel a b b' v,
      run_bus (show_loaded_page fuel a) b = (b', Done v)
      <-> run_bus_strict (show_loaded_page fuel a) b = (b', Done v))
  /\ (forall fuel a b b' v,
      run_bus (load_next_page fuel a) b = (b', Done v)
      <-> run_bus_strict (load_next_page fuel a) b = (b', Done v))
  /\ (forall a b b' v,
      run_bus (shut_down a) b = (b', Done v) <-> run_bus_strict (shut_down a) b = (b', Done v)).
Proof.
  split; [|split; [|split; [|split; [|split]]]].
  - intros a t. exact (together_of_shapes a _ (tidy_configure a t) (doomed_configure a t)).
  - intros a t. exact (together_of_shapes a _ (tidy_configure_if_needed a t)
                         (doomed_configure_if_needed a t)).
  - intros a ps. exact (together_of_shapes a _ (tidy_send_pages a ps) (doomed_send_pages a ps)).
  - intros fuel a. exact (together_of_shapes a _ (tidy_switch_page a _ _ _ fuel)
                            (doomed_switch_page a _ _ _ fuel)).
  - intros fuel a. exact (together_of_shapes a _ (tidy_switch_page a _ _ _ fuel)
                            (doomed_switch_page a _ _ _ fuel)).
  - intros a b b' v. rewrite shut_down_runs. tauto.
Qed.

(* Fact 6, second part: the address is not on the bus. *)
Theorem C17_absent_address a b :
  ~ In a (map v_addr b) ->
  (forall t b' v, run_bus (configure a t) b <> (b', Done v)
                  /\ run_bus_strict (configure a t) b <> (b', Done v))
  /\ (forall t b' v, run_bus (configure_if_needed a t) b <> (b', Done v)
                     /\ run_bus_strict (configure_if_needed a t) b <> (b', Done v))
  /\ (forall ps b' v, run_bus (send_pages a ps) b <> (b', Done v)
                      /\ run_bus_strict (send_pages a ps) b <> (b', Done v))
  /\ (forall fuel b' v, run_bus (show_loaded_page fuel a) b <> (b', Done v)
                        /\ run_bus_strict (show_loaded_page fuel a) b <> (b', Done v))
  /\ (forall fuel b' v, run_bus (load_next_page fuel a) b <> (b', Done v)
                        /\ run_bus_strict (load_next_page fuel a) b <> (b', Done v))
  /\ run_bus (shut_down a) b = (b, Done tt)
  /\ run_bus_strict (shut_down a) b = (b, Done tt).
Proof.
  intros Hin.
  assert (H : forall A (p : prog A), doomed a p -> forall b' v,
             run_bus p b <> (b', Done v) /\ run_bus_strict p b <> (b', Done v)).
  { intros A p Hd b' v. destruct (doomed_runs a p Hd b Hin) as [H1 H2].
    split; apply not_done_neq; assumption. }
  split; [|split; [|split; [|split; [|split; [|split]]]]].
  - intros t. apply H, doomed_configure.
  - intros t. apply H, doomed_configure_if_needed.
  - intros ps. apply H, doomed_send_pages.
  - intros fuel. apply H, doomed_switch_page.
  - intros fuel. apply H, doomed_switch_page.
  - exact (shut_down_absent a b Hin).
  - rewrite shut_down_runs. exact (shut_down_absent a b Hin).
Qed.

(* Fact 7: with the address on the bus the signs end in the same state either way. *)
Definition same_end {A : Type} (p : prog A) (b : list vsign) : Prop :=
  forall b1 o1 b2 o2,
    run_bus p b = (b1, o1) -> run_bus_strict p b = (b2, o2) ->
    b1 = b2 /\ (o1 = o2 \/ (o1 = ProtoErr /\ o2 = BusFailed)).

Lemma same_end_of_tidy {A} a (p : prog A) b : tidy a p -> In a (map v_addr b) -> same_end p b.
Proof.
  intros Ht Hin b1 o1 b2 o2 E1 E2. pose proof (tidy_runs a p Ht b Hin) as H.
  rewrite E1, E2 in H. exact H.
Qed.

Theorem C17_failure_same_signs a b :
  In a (map v_addr b) ->
  (forall t b1 o1 b2 o2,
      run_bus (configure a t) b = (b1, o1) -> run_bus_strict (configure a t) b = (b2, o2) ->
      b1 = b2 /\ (o1 = o2 \/ (o1 = ProtoErr /\ o2 = BusFailed)))
  /\ (forall t b1 o1 b2 o2,
      run_bus (configure_if_needed a t) b = (b1, o1) ->
      run_bus_strict (configure_if_needed a t) b = (b2, o2) ->
      b1 = b2 /\ (o1 = o2 \/ (o1 = ProtoErr /\ o2 = BusFailed)))
  /\ (forall ps b1 o1 b2 o2,
      run_bus (send_pages a ps) b = (b1, o1) -> run_bus_strict (send_pages a ps) b = (b2, o2) ->
      b1 = b2 /\ (o1 = o2 \/ (o1 = ProtoErr /\ o2 = BusFailed)))
  /\ (forall fuel b1 o1 b2 o2,
      run_bus (show_loaded_page fuel a) b = (b1, o1) ->
      run_bus_strict (show_loaded_page fuel a) b = (b2, o2) ->
      b1 = b2 /\ (o1 = o2 \/ (o1 = ProtoErr /\ o2 = BusFailed)))
  /\ (forall fuel b1 o1 b2 o2,
      run_bus (load_next_page fuel a) b = (b1, o1) ->
      run_bus_strict (load_next_page fuel a) b = (b2, o2) ->
      b1 = b2 /\ (o1 = o2 \/ (o1 = ProtoErr /\ o2 = BusFailed)))
  /\ (forall b1 o1 b2 o2,
      run_bus (shut_down a) b = (b1, o1) -> run_bus_strict (shut_down a) b = (b2, o2) ->
      b1 = b2 /\ (o1 = o2 \/ (o1 = ProtoErr /\ o2 = BusFailed))).
Proof.
  intros Hin. split; [|split; [|split; [|split; [|split]]]].
  - intros t. exact (same_end_of_tidy a _ b (tidy_configure a t) Hin).
  - intros t. exact (same_end_of_tidy a _ b (tidy_configure_if_needed a t) Hin).
  - intros ps. exact (same_end_of_tidy a _ b (tidy_send_pages a ps) Hin).
  - intros fuel. exact (same_end_of_tidy a _ b (tidy_switch_page a _ _ _ fuel) Hin).
  - intros fuel. exact (same_end_of_tidy a _ b (tidy_switch_page a _ _ _ fuel) Hin).
  - exact (same_end_of_tidy a _ b (tidy_shut_down a) Hin).
Qed.

(* ------------------------------------------------------------------------- *)
(** * Over the wire versus directly on the bus *)

Lemma wire_done_iff {A} a (p : prog A) b b' v :
  wf_prog p -> tidy a p -> doomed a p -> addrs_ok b ->
  (run_wire p {| wr_bus := b; wr_inbox := [] |} = Some ({| wr_bus := b'; wr_inbox := [] |}, Done v)
   <-> run_bus p b = (b', Done v)).
Proof.
  intros Hwf Ht Hd Hb. rewrite (C17_simulation_strict A p b Hwf Hb).
  rewrite (together_of_shapes a p Ht Hd b b' v).
  destruct (run_bus_strict p b) as [b2 o2]. split.
  - intros E. injection E as <- <-. reflexivity.
  - intros E. injection E as <- <-. reflexivity.
Qed.

Lemma wire_shut_down_iff a b b' v :
  a < 65536 -> addrs_ok b ->
  (run_wire (shut_down a) {| wr_bus := b; wr_inbox := [] |}
   = Some ({| wr_bus := b'; wr_inbox := [] |}, Done v)
   <-> run_bus (shut_down a) b = (b', Done v)).
Proof.
  intros Ha Hb.
  rewrite (C17_simulation_strict _ _ b (wf_prog_ret_wf _ _ (wfp_shut_down a Ha)) Hb).
  rewrite shut_down_runs. destruct (run_bus (shut_down a) b) as [b2 o2]. split.
  - intros E. injection E as <- <-. reflexivity.
  - intros E. injection E as <- <-. reflexivity.
Qed.

(* Success over the wire = success directly on the bus, same value, same final signs. *)
Theorem C17_transparent b :
  Forall (fun s => v_addr s < 65536) b ->
  (forall a t b' v, a < 65536 ->
      (run_wire (configure a t) {| wr_bus := b; wr_inbox := [] |}
       = Some ({| wr_bus := b'; wr_inbox := [] |}, Done v)
       <-> run_bus (configure a t) b = (b', Done v)))
  /\ (forall a t b' v, a < 65536 ->
      (run_wire (configure_if_needed a t) {| wr_bus := b; wr_inbox := [] |}
       = Some ({| wr_bus := b'; wr_inbox := [] |}, Done v)
       <-> run_bus (configure_if_needed a t) b = (b', Done v)))
  /\ (forall a ps b' v, a < 65536 -> (forall p, In p ps -> bytesb (p_bytes p) = true) ->
      (run_wire (send_pages a ps) {| wr_bus := b; wr_inbox := [] |}
       = Some ({| wr_bus := b'; wr_inbox := [] |}, Done v)
       <-> run_bus (send_pages a ps) b = (b', Done v)))
  /\ (forall fuel a b' v, a < 65536 ->
      (run_wire (show_loaded_page fuel a) {| wr_bus := b; wr_inbox := [] |}
       = Some ({| wr_bus := b'; wr_inbox := [] |}, Done v)
       <-> run_bus (show_loaded_page fuel a) b = (b', Done v)))
  /\ (forall fuel a b' v, a < 65536 ->
      (run_wire (load_next_page fuel a) {| wr_bus := b; wr_inbox := [] |}
       = Some ({| wr_bus := b'; wr_inbox := [] |}, Done v)
       <-> run_bus (load_next_page fuel a) b = (b', Done v)))
  /\ (forall a b' v, a < 65536 ->
      (run_wire (shut_down a) {| wr_bus := b; wr_inbox := [] |}
       = Some ({| wr_bus := b'; wr_inbox := [] |}, Done v)
       <-> run_bus (shut_down a) b = (b', Done v))).
Proof.
  intros Hb. destruct C17_wf_controller as (W1 & W2 & W3 & W4 & W5 & W6).
  split; [|split; [|split; [|split; [|split]]]].
  - intros a t b' v Ha.
    exact (wire_done_iff a _ b b' v (W1 a t Ha) (tidy_configure a t) (doomed_configure a t) Hb).
  - intros a t b' v Ha.
    exact (wire_done_iff a _ b b' v (W2 a t Ha) (tidy_configure_if_needed a t)
             (doomed_configure_if_needed a t) Hb).
  - intros a ps b' v Ha Hps.
    exact (wire_done_iff a _ b b' v (W3 a ps Ha Hps) (tidy_send_pages a ps)
             (doomed_send_pages a ps) Hb).
  - intros fuel a b' v Ha.
    exact (wire_done_iff a _ b b' v (W4 fuel a Ha) (tidy_switch_page a _ _ _ fuel)
             (doomed_switch_page a _ _ _ fuel) Hb).
  - intros fuel a b' v Ha.
    exact (wire_done_iff a _ b b' v (W5 fuel a Ha) (tidy_switch_page a _ _ _ fuel)
             (doomed_switch_page a _ _ _ fuel) Hb).
  - intros a b' v Ha. exact (wire_shut_down_iff a b b' v Ha Hb).
Qed.

(* With the address on the bus, a run over the wire always ends (never out of model fuel), with
   an empty receive pipe and the signs exactly where the direct run leaves them; the outcome is
   the direct run's, except that an unanswered request is a bus error (timeout) instead of an
   unexpected response. *)
Definition wire_matches {A : Type} (p : prog A) (b : list vsign) : Prop :=
  exists o,
    run_wire p {| wr_bus := b; wr_inbox := [] |}
    = Some ({| wr_bus := fst (run_bus p b); wr_inbox := [] |}, o)
    /\ (o = snd (run_bus p b) \/ (snd (run_bus p b) = ProtoErr /\ o = BusFailed)).

Lemma wire_matches_of_tidy {A} a (p : prog A) b :
  wf_prog p -> tidy a p -> addrs_ok b -> In a (map v_addr b) -> wire_matches p b.
Proof.
  intros Hwf Ht Hb Hin. unfold wire_matches. rewrite (C17_simulation_strict A p b Hwf Hb).
  destruct (tidy_runs a p Ht b Hin) as [H1 H2].
  destruct (run_bus_strict p b) as [b2 o2]. destruct (run_bus p b) as [b1 o1].
  cbn [fst snd] in *. subst b2. exists o2. split; [reflexivity|].
  destruct H2 as [->|[-> ->]]; [left; reflexivity|right; split; reflexivity].
Qed.

Lemma addr_on_bus_u16 a b : addrs_ok b -> In a (map v_addr b) -> a < 65536.
Proof.
  intros Hb Hin. apply in_map_iff in Hin. destruct Hin as (s & <- & Hs).
  exact (addrs_ok_In b Hb s Hs).
Qed.

Theorem C17_wire_same_signs a b :
  Forall (fun s => v_addr s < 65536) b -> In a (map v_addr b) ->
  (forall t, wire_matches (configure a t) b)
  /\ (forall t, wire_matches (configure_if_needed a t) b)
  /\ (forall ps, (forall p, In p ps -> bytesb (p_bytes p) = true) ->
                 wire_matches (send_pages a ps) b)
  /\ (forall fuel, wire_matches (show_loaded_page fuel a) b)
  /\ (forall fuel, wire_matches (load_next_page fuel a) b)
  /\ wire_matches (shut_down a) b.
Proof.
  intros Hb Hin. pose proof (addr_on_bus_u16 a b Hb Hin) as Ha.
  destruct C17_wf_controller as (W1 & W2 & W3 & W4 & W5 & W6).
  split; [|split; [|split; [|split; [|split]]]].
  - intros t. exact (wire_matches_of_tidy a _ b (W1 a t Ha) (tidy_configure a t) Hb Hin).
  - intros t. exact (wire_matches_of_tidy a _ b (W2 a t Ha) (tidy_configure_if_needed a t) Hb Hin).
  - intros ps Hps. exact (wire_matches_of_tidy a _ b (W3 a ps Ha Hps) (tidy_send_pages a ps) Hb Hin).
  - intros fuel. exact (wire_matches_of_tidy a _ b (W4 fuel a Ha) (tidy_switch_page a _ _ _ fuel) Hb Hin).
  - intros fuel. exact (wire_matches_of_tidy a _ b (W5 fuel a Ha) (tidy_switch_page a _ _ _ fuel) Hb Hin).
  - exact (wire_matches_of_tidy a _ b (W6 a Ha) (tidy_shut_down a) Hb Hin).
Qed.

(* The defining equations of the strict run, for reference in props/C17.v. *)
Lemma run_bus_strict_eqns {A} :
  (forall (x : A) b, run_bus_strict (Ret x) b = (b, Done x))
  /\ (forall b, run_bus_strict (@Fail A) b = (b, ProtoErr))
  /\ (forall b, run_bus_strict (@Crash A) b = (b, Crashed))
  /\ (forall m (k : option msg -> prog A) b,
        run_bus_strict (Send m k) b
        = match bus_step b m with
          | None => (b, Crashed)
          | Some (b', Some rm) => run_bus_strict (k (Some rm)) b'
          | Some (b', None) =>
              if response_expected m then (b', BusFailed) else run_bus_strict (k None) b'
          end).
Proof. repeat split. Qed.

Lemma wf_prog_eqns {A} :
  (forall x : A, wf_prog (Ret x) <-> True)
  /\ (wf_prog (@Fail A) <-> True)
  /\ (wf_prog (@Crash A) <-> True)
  /\ (forall m (k : option msg -> prog A),
        wf_prog (Send m k)
        <-> wf_msg m /\ specific m /\
            forall r, (r = None \/ exists rm, r = Some rm /\ wf_msg rm) -> wf_prog (k r)).
Proof. repeat split; try exact (fun H => H); cbn [wf_prog] in *; tauto. Qed.

(* ------------------------------------------------------------------------- *)
(** * wire_step is: SerialSignBus write -> bridge step -> SerialSignBus read *)

(* model/Serial.v spells the controller side of [wire_step] out inline.  Here it is with the
   controller side done by [serial_process] itself, on a port whose input pipe already holds
   what the bridge wrote back. *)
Definition wire_step_via_serial (w : wire) (m : msg) : option (wire * wire_reply) :=
  let sent := encode_nl (frame_of_msg m) in
  match odk_process {| pt_in := pipe_reader sent; pt_out := pipe_writer |} (wr_bus w) with
  | None => None
  | Some (res, op, b', _) =>
      match res with
      | Err OPanic => Some (w, WPanic)
      | _ =>
          match serial_process m {| pt_in := pipe_reader (wr_inbox w ++ w_out (pt_out op));
                                    pt_out := pipe_writer |} with
          | None => None
          | Some (r, p', _) =>
              Some ({| wr_bus := b'; wr_inbox := r_content (pt_in p') |},
                    match r with Ok reply => WRep reply | Err _ => WErr end)
          end
      end
  end.

(* What serial_process does on a port whose writer has an empty schedule. *)
Lemma serial_process_pipe_out m p :
  w_sched (pt_out p) = [] ->
  serial_process m p
  = let w' := {| w_out := w_out (pt_out p) ++ encode_nl (frame_of_msg m); w_sched := [] |} in
    let ev1 := EvWrite (encode_nl (frame_of_msg m)) :: sleep_ev (delay_after_send m) in
    if response_expected m then
      match frame_read (pt_in p) with
      | None => None
      | Some (Err e, r') =>
          Some (Err e, {| pt_in := r'; pt_out := w' |}, ev1 ++ [EvRead (consumed (pt_in p) r')])
      | Some (Ok f, r') =>
          Some (Ok (Some (msg_of_frame f)), {| pt_in := r'; pt_out := w' |},
                ev1 ++ [EvRead (consumed (pt_in p) r')]
                    ++ sleep_ev (delay_after_receive (msg_of_frame f)))
      end
    else Some (Ok None, {| pt_in := pt_in p; pt_out := w' |}, ev1).
Proof.
  intros Hs. unfold serial_process. destruct p as [rd [out sched]]. cbn [pt_out pt_in w_sched w_out] in *.
  subst sched. rewrite frame_write_pipe.
  assert (Hd : delivered {| w_out := out; w_sched := [] |}
                 {| w_out := out ++ encode_nl (frame_of_msg m); w_sched := [] |}
               = encode_nl (frame_of_msg m)).
  { unfold delivered. cbn [w_out]. rewrite skipn_app, skipn_all, Nat.sub_diag. reflexivity. }
  rewrite Hd. reflexivity.
Qed.

(* The bytes the serial bus writes are exactly the bytes wire_step feeds the bridge. *)
Lemma serial_writes_sent m p res p' evs :
  w_sched (pt_out p) = [] ->
  serial_process m p = Some (res, p', evs) ->
  w_out (pt_out p') = w_out (pt_out p) ++ encode_nl (frame_of_msg m)
  /\ w_sched (pt_out p') = []
  /\ exists evs', evs = EvWrite (encode_nl (frame_of_msg m)) :: evs'.
Proof.
  intros Hs H. rewrite (serial_process_pipe_out m p Hs) in H. cbv zeta in H.
  destruct (response_expected m).
  - destruct (frame_read (pt_in p)) as [[[f|e] r']|]; [| |discriminate];
      injection H as _ <- <-; cbn [pt_out w_out w_sched app];
      (split; [reflexivity|split; [reflexivity|eexists; reflexivity]]).
  - injection H as _ <- <-. cbn [pt_out w_out w_sched].
    split; [reflexivity|split; [reflexivity|eexists; reflexivity]].
Qed.

Lemma wire_step_serial w m : wire_step w m = wire_step_via_serial w m.
Proof.
  unfold wire_step, wire_step_via_serial. cbv zeta.
  destruct (odk_process _ (wr_bus w)) as [[[[res op] b'] fw]|]; [|reflexivity].
  assert (E :
    (if response_expected m then
       match frame_read (pipe_reader (wr_inbox w ++ w_out (pt_out op))) with
       | None => None
       | Some (Err _, r') => Some ({| wr_bus := b'; wr_inbox := r_content r' |}, WErr)
       | Some (Ok f, r') =>
           Some ({| wr_bus := b'; wr_inbox := r_content r' |}, WRep (Some (msg_of_frame f)))
       end
     else Some ({| wr_bus := b'; wr_inbox := wr_inbox w ++ w_out (pt_out op) |}, WRep None))
    = match serial_process m {| pt_in := pipe_reader (wr_inbox w ++ w_out (pt_out op));
                                pt_out := pipe_writer |} with
      | None => None
      | Some (r, p', _) =>
          Some ({| wr_bus := b'; wr_inbox := r_content (pt_in p') |},
                match r with Ok reply => WRep reply | Err _ => WErr end)
      end).
  { rewrite serial_process_pipe_out by reflexivity. cbv zeta. cbn [pt_in pt_out].
    destruct (response_expected m); [|reflexivity].
    destruct (frame_read _) as [[[f|e] r']|]; reflexivity. }
  destruct res as [[]|[e|]]; try exact E. reflexivity.
Qed.

Theorem C17_wire_is_serial_plus_bridge :
  (forall w m, wire_step w m = wire_step_via_serial w m)
  /\ (forall m p res p' evs,
        w_sched (pt_out p) = [] ->
        serial_process m p = Some (res, p', evs) ->
        w_out (pt_out p') = w_out (pt_out p) ++ encode_nl (frame_of_msg m)
        /\ w_sched (pt_out p') = []
        /\ exists evs', evs = EvWrite (encode_nl (frame_of_msg m)) :: evs')
  /\ (forall m rd res p' evs,
        serial_process m {| pt_in := rd; pt_out := pipe_writer |} = Some (res, p', evs) ->
        w_out (pt_out p') = encode_nl (frame_of_msg m)).
Proof.
  split; [exact wire_step_serial|]. split; [exact serial_writes_sent|].
  intros m rd res p' evs H.
  exact (proj1 (serial_writes_sent m {| pt_in := rd; pt_out := pipe_writer |} res p' evs
                  eq_refl H)).
Qed.

Lemma wire_step_via_serial_eqn w m :
  wire_step_via_serial w m
  = match odk_process {| pt_in := pipe_reader (encode_nl (frame_of_msg m));
                         pt_out := pipe_writer |} (wr_bus w) with
    | None => None
    | Some (res, op, b', _) =>
        match res with
        | Err OPanic => Some (w, WPanic)
        | _ =>
            match serial_process m {| pt_in := pipe_reader (wr_inbox w ++ w_out (pt_out op));
                                      pt_out := pipe_writer |} with
            | None => None
            | Some (r, p', _) =>
                Some ({| wr_bus := b'; wr_inbox := r_content (pt_in p') |},
                      match r with Ok reply => WRep reply | Err _ => WErr end)
            end
        end
    end.
Proof. reflexivity. Qed.
