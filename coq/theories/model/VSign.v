(* VSign.v — model of libs/testing/src/virtual_sign_bus.rs (VirtualSign, VirtualSignBus),
   as repaired by the F2a/F2b/F2c/F3/F4 fixes.  Definitions only.
   A step returns [None] when the Rust would panic. *)
From Flipdot Require Export Message Page SignType.
Local Open Scope N_scope.

Inductive flip_style : Type := Automatic | Manual.

Record vsign : Type := {
  v_addr : N;
  v_style : flip_style;
  v_state : state;
  v_pages : list page;
  v_pending : list N;
  v_chunks : N;
  v_w : N;
  v_h : N;
  v_type : option sign_type
}.

(* VirtualSign::new *)
Definition vinit (a : N) (fs : flip_style) : vsign :=
  {| v_addr := a; v_style := fs; v_state := Unconfigured; v_pages := []; v_pending := [];
     v_chunks := 0; v_w := 0; v_h := 0; v_type := None |}.

Definition set_state (s : vsign) (st : state) : vsign :=
  {| v_addr := v_addr s; v_style := v_style s; v_state := st; v_pages := v_pages s;
     v_pending := v_pending s; v_chunks := v_chunks s; v_w := v_w s; v_h := v_h s;
     v_type := v_type s |}.

(* fn reset *)
Definition vreset (s : vsign) : vsign := vinit (v_addr s) (v_style s).

(* fn flush_pixels (after F2a: a buffer that is not a page of the configured size is dropped) *)
Definition flush_pixels (s : vsign) : vsign :=
  match v_pending s with
  | [] => s
  | _ :: _ =>
      let pages' :=
        if (0 <? v_w s) && (0 <? v_h s) then
          match page_from_bytes (v_w s) (v_h s) (v_pending s) with
          | Ok p => v_pages s ++ [p]
          | Err _ => v_pages s
          end
        else v_pages s in
      {| v_addr := v_addr s; v_style := v_style s; v_state := v_state s; v_pages := pages';
         v_pending := []; v_chunks := v_chunks s; v_w := v_w s; v_h := v_h s;
         v_type := v_type s |}
  end.

Definition winc (n : N) : N := (n + 1) mod 65536.        (* u16::wrapping_add(1), F2c *)

(* The (kind, width, height) match in send_data; outer None = index panic,
   inner None = `_ => return None`. *)
Definition config_size (data : list N) : option (option (N * N)) :=
  match nth_error data 0 with
  | None => None
  | Some b0 =>
      if b0 =? 4 then
        match nth_error data 4, nth_error data 5, nth_error data 6, nth_error data 7,
              nth_error data 8 with
        | Some h, Some w1, Some w2, Some w3, Some w4 => Some (Some (w1 + w2 + w3 + w4, h))
        | _, _, _, _, _ => None
        end
      else if b0 =? 8 then
        match nth_error data 7, nth_error data 5 with
        | Some w, Some h => Some (Some (w, h))
        | _, _ => None
        end
      else Some None
  end.

(* F4: the type is recorded only when its dimensions are the block's size. *)
Definition recorded_type (data : list N) (w h : N) : option sign_type :=
  match st_from_bytes data with
  | Ok t => let '(tw, th) := dimensions t in
            if (tw =? w) && (th =? h) then Some t else None
  | Err _ => None
  end.

(* fn send_data *)
Definition v_send_data (s : vsign) (off : N) (data : list N) : option vsign :=
  match v_state s with
  | ConfigInProgress =>
      if (off =? 0) && (nlen data =? 16) then
        match config_size data with
        | None => None
        | Some None => Some s
        | Some (Some (w, h)) =>
            Some {| v_addr := v_addr s; v_style := v_style s; v_state := v_state s;
                    v_pages := v_pages s; v_pending := v_pending s;
                    v_chunks := winc (v_chunks s); v_w := w; v_h := h;
                    v_type := recorded_type data w h |}
        end
      else Some s
  | PixelsInProgress =>
      let s1 := if off =? 0 then flush_pixels s else s in
      Some {| v_addr := v_addr s1; v_style := v_style s1; v_state := v_state s1;
              v_pages := v_pages s1; v_pending := v_pending s1 ++ data;
              v_chunks := winc (v_chunks s1); v_w := v_w s1; v_h := v_h s1;
              v_type := v_type s1 |}
  | _ => Some s
  end.

(* fn data_chunks_sent (after F3: ignored unless receiving) *)
Definition v_data_chunks_sent (s : vsign) (n : N) : vsign :=
  match v_state s with
  | ConfigInProgress | PixelsInProgress =>
      let ok := v_chunks s =? n in
      let st := match v_state s with
                | ConfigInProgress => if ok then ConfigReceived else ConfigFailed
                | _ => if ok then PixelsReceived else PixelsFailed
                end in
      let s1 := flush_pixels (set_state s st) in
      {| v_addr := v_addr s1; v_style := v_style s1; v_state := v_state s1;
         v_pages := v_pages s1; v_pending := v_pending s1; v_chunks := 0;
         v_w := v_w s1; v_h := v_h s1; v_type := v_type s1 |}
  | _ => s
  end.

(* fn query_state *)
Definition v_query (s : vsign) : vsign * option msg :=
  let st := v_state s in
  let s' := match st with
            | PageLoadInProgress => set_state s PageLoaded
            | PageShowInProgress => set_state s PageShown
            | _ => s
            end in
  (s', Some (ReportState (v_addr s) st)).

Definition receive_pixels_legal (st : state) : bool :=
  match st with
  | ConfigReceived | PixelsFailed | PageLoaded | PageLoadInProgress | PageShown
  | PageShowInProgress | ShowingPages => true
  | _ => false
  end.

(* What the info! in pixels_complete evaluates per stored page: page.id() and Display. *)
Definition log_page_ok (p : page) : bool :=
  match page_id p with Some _ => display_ok p | None => false end.

(* fn process_message *)
Definition vstep (s : vsign) (m : msg) : option (vsign * option msg) :=
  let a := v_addr s in
  match m with
  | Hello a' | QueryState a' => if a' =? a then Some (v_query s) else Some (s, None)
  | SendData off data =>
      match v_send_data s off data with Some s' => Some (s', None) | None => None end
  | DataChunksSent n => Some (v_data_chunks_sent s n, None)
  | PixelsComplete a' =>
      if a' =? a then
        match v_state s with
        | PixelsReceived =>
            if forallb log_page_ok (v_pages s) then
              Some (set_state s (match v_style s with Automatic => ShowingPages | Manual => PageLoaded end), None)
            else None
        | _ => Some (s, None)
        end
      else Some (s, None)
  | Goodbye a' => if a' =? a then Some (vreset s, None) else Some (s, None)
  | RequestOperation a' o =>
      if a' =? a then
        match o with
        | ReceiveConfig =>
            match v_state s with
            | Unconfigured | ConfigFailed =>
                Some (set_state s ConfigInProgress, Some (AckOperation a ReceiveConfig))
            | _ => Some (s, None)
            end
        | ReceivePixels =>
            if receive_pixels_legal (v_state s) then
              Some ({| v_addr := v_addr s; v_style := v_style s; v_state := PixelsInProgress;
                       v_pages := []; v_pending := v_pending s; v_chunks := v_chunks s;
                       v_w := v_w s; v_h := v_h s; v_type := v_type s |},
                    Some (AckOperation a ReceivePixels))
            else Some (s, None)
        | ShowLoadedPage =>
            match v_state s with
            | PageLoaded => Some (set_state s PageShowInProgress, Some (AckOperation a ShowLoadedPage))
            | _ => Some (s, None)
            end
        | LoadNextPage =>
            match v_state s with
            | PageShown => Some (set_state s PageLoadInProgress, Some (AckOperation a LoadNextPage))
            | _ => Some (s, None)
            end
        | StartReset => Some (set_state s ReadyToReset, Some (AckOperation a StartReset))
        | FinishReset =>
            match v_state s with
            | ReadyToReset => Some (vreset s, Some (AckOperation a FinishReset))
            | _ => Some (s, None)
            end
        end
      else Some (s, None)
  | ReportState _ _ | AckOperation _ _ | Unknown _ => Some (s, None)
  end.

(* A whole history delivered to one sign: final sign and the replies, or None on a panic. *)
Fixpoint vrun (s : vsign) (h : list msg) : option (vsign * list (option msg)) :=
  match h with
  | [] => Some (s, [])
  | m :: t =>
      match vstep s m with
      | None => None
      | Some (s', r) =>
          match vrun s' t with
          | None => None
          | Some (s'', rs) => Some (s'', r :: rs)
          end
      end
  end.

(* VirtualSignBus::process_message: try each sign in order, stop at the first reply. *)
Fixpoint bus_step (b : list vsign) (m : msg) : option (list vsign * option msg) :=
  match b with
  | [] => Some ([], None)
  | s :: t =>
      match vstep s m with
      | None => None
      | Some (s', Some r) => Some (s' :: t, Some r)
      | Some (s', None) =>
          match bus_step t m with
          | None => None
          | Some (t', r) => Some (s' :: t', r)
          end
      end
  end.

Fixpoint bus_run (b : list vsign) (h : list msg) : option (list vsign * list (option msg)) :=
  match h with
  | [] => Some (b, [])
  | m :: t =>
      match bus_step b m with
      | None => None
      | Some (b', r) =>
          match bus_run b' t with
          | None => None
          | Some (b'', rs) => Some (b'', r :: rs)
          end
      end
  end.
