(* Page.v — model of libs/core/src/page.rs.  Definitions only.
   A [None] result is a Rust panic (bounds panic of byte_bit_indices, or an index/slice panic). *)
From Flipdot Require Export Base.
Local Open Scope N_scope.

Record page : Type := { p_w : N; p_h : N; p_bytes : list N }.

Inductive pgerr : Type :=
| WrongPageLength (w h expected actual : N).

Definition bpc (h : N) : N := (h + 7) / 8.                         (* bytes_per_column *)
Definition data_bytes (w h : N) : N := 4 + w * bpc h.               (* HEADER_LEN + ... *)
Definition total_bytes (w h : N) : N := (data_bytes w h + 15) / 16 * 16.

(* Page::new *)
Definition page_new (id w h : N) : page :=
  {| p_w := w; p_h := h;
     p_bytes := [id; 16; 0; 0]
                ++ repeatN 0 (data_bytes w h - 4)
                ++ repeatN 255 (total_bytes w h - data_bytes w h) |}.

(* Page::from_bytes *)
Definition page_from_bytes (w h : N) (bs : list N) : result pgerr page :=
  if nlen bs =? total_bytes w h
  then Ok {| p_w := w; p_h := h; p_bytes := bs |}
  else Err (WrongPageLength w h (total_bytes w h) (nlen bs)).

(* Page::id: self.bytes[0] *)
Definition page_id (p : page) : option N := nth_error (p_bytes p) 0.

(* byte_bit_indices: None is the explicit bounds panic. *)
Definition index (p : page) (x y : N) : option (N * N) :=
  if (x <? p_w p) && (y <? p_h p)
  then Some (4 + x * bpc (p_h p) + y / 8, y mod 8)
  else None.

(* Page::get_pixel *)
Definition get_pixel (p : page) (x y : N) : option bool :=
  match index p x y with
  | None => None
  | Some (i, b) =>
      let mask := N.shiftl 1 b in
      match nth_error (p_bytes p) (N.to_nat i) with
      | None => None
      | Some byte => Some (N.land byte mask =? mask)
      end
  end.

(* Page::set_pixel; `!mask` on u8 is 255 xor mask *)
Definition set_pixel (p : page) (x y : N) (v : bool) : option page :=
  match index p x y with
  | None => None
  | Some (i, b) =>
      let mask := N.shiftl 1 b in
      match nth_error (p_bytes p) (N.to_nat i) with
      | None => None
      | Some byte =>
          let byte' := if v then N.lor byte mask else N.land byte (N.lxor 255 mask) in
          match set_nth (N.to_nat i) byte' (p_bytes p) with
          | Some bs => Some {| p_w := p_w p; p_h := p_h p; p_bytes := bs |}
          | None => None
          end
      end
  end.

(* Page::set_all_pixels: bytes[4..data_bytes].fill(byte); the slice panics unless
   4 <= data_bytes <= len. *)
Definition set_all_pixels (p : page) (v : bool) : option page :=
  let d := data_bytes (p_w p) (p_h p) in
  if d <=? nlen (p_bytes p) then
    Some {| p_w := p_w p; p_h := p_h p;
            p_bytes := firstn 4 (p_bytes p)
                       ++ repeatN (if v then 255 else 0) (d - 4)
                       ++ skipn (N.to_nat d) (p_bytes p) |}
  else None.

(* One byte of as_bytes() after set_pixel(x, y, v), given what that byte was before ([old]; None = past the end); the
   outer None is the bounds panic.  With it the correspondence check can look at single bytes of pages far too large to
   list (PageP.set_pixel_byte_view_spec ties it to set_pixel). *)
Definition set_pixel_byte_view (w h x y : N) (v : bool) (i : N) (old : option N) : option (option N) :=
  if (x <? w) && (y <? h) then
    Some (if i =? 4 + x * bpc h + y / 8 then
            match old with
            | Some b => let mask := N.shiftl 1 (y mod 8) in
                        Some (if v then N.lor b mask else N.land b (N.lxor 255 mask))
            | None => None
            end
          else old)
  else None.
(* byte i of a page built by from_bytes over total_bytes w h zero bytes *)
Definition zero_bytes_view (w h i : N) : option N := if i <? total_bytes w h then Some 0 else None.

Definition wf_pageb (p : page) : bool :=
  is_u32 (p_w p) && is_u32 (p_h p) && bytesb (p_bytes p)
  && (nlen (p_bytes p) =? total_bytes (p_w p) (p_h p)).
Definition wf_page (p : page) : Prop := wf_pageb p = true.

Definition page_eqb (a b : page) : bool :=
  (p_w a =? p_w b) && (p_h a =? p_h b) && list_eqb N.eqb (p_bytes a) (p_bytes b).

(* What `impl Display for Page` evaluates: get_pixel for every x < w, y < h.
   [true] iff none of those calls panics. *)
Definition nrange (n : N) : list N := map N.of_nat (seq 0 (N.to_nat n)).
Definition display_ok (p : page) : bool :=
  forallb (fun y => forallb (fun x => match get_pixel p x y with Some _ => true | None => false end)
                            (nrange (p_w p)))
          (nrange (p_h p)).
