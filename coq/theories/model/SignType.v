(* SignType.v — model of libs/core/src/sign_type.rs.  Definitions only. *)
From Flipdot Require Export Base.
Local Open Scope N_scope.

Inductive sign_type : Type :=
| Max3000Front112x16 | Max3000Front98x16 | Max3000Side90x7 | Max3000Rear30x10
| Max3000Rear23x10 | Max3000Dash30x7
| HorizonFront160x16 | HorizonFront140x16 | HorizonSide96x8 | HorizonRear48x16
| HorizonDash40x12.

Definition all_sign_types : list sign_type :=
  [Max3000Front112x16; Max3000Front98x16; Max3000Side90x7; Max3000Rear30x10;
   Max3000Rear23x10; Max3000Dash30x7; HorizonFront160x16; HorizonFront140x16;
   HorizonSide96x8; HorizonRear48x16; HorizonDash40x12].

Inductive sterr : Type :=
| WrongConfigLength (expected actual : N)
| UnknownConfig
| STPanic.

(* SignType::dimensions *)
Definition dimensions (t : sign_type) : N * N :=
  match t with
  | Max3000Front112x16 => (112, 16) | Max3000Front98x16 => (98, 16)
  | Max3000Side90x7 => (90, 7) | Max3000Rear23x10 => (23, 10)
  | Max3000Rear30x10 => (30, 10) | Max3000Dash30x7 => (30, 7)
  | HorizonFront160x16 => (160, 16) | HorizonFront140x16 => (140, 16)
  | HorizonSide96x8 => (96, 8) | HorizonRear48x16 => (48, 16)
  | HorizonDash40x12 => (40, 12)
  end.

(* SignType::to_bytes *)
Definition st_to_bytes (t : sign_type) : list N :=
  match t with
  | Max3000Front112x16 => [4; 71; 0; 15; 16; 28; 28; 28; 28; 16; 0; 0; 0; 0; 0; 0]
  | Max3000Front98x16  => [4; 77; 0; 13; 16; 14; 28; 28; 28; 16; 0; 0; 0; 0; 0; 0]
  | Max3000Side90x7    => [4; 32; 0; 6; 7; 30; 30; 30; 0; 8; 0; 0; 0; 0; 0; 0]
  | Max3000Rear23x10   => [4; 97; 0; 4; 10; 23; 0; 0; 0; 16; 0; 0; 0; 0; 0; 0]
  | Max3000Rear30x10   => [4; 98; 0; 4; 10; 30; 0; 0; 0; 16; 0; 0; 0; 0; 0; 0]
  | Max3000Dash30x7    => [4; 38; 0; 3; 7; 30; 0; 0; 0; 8; 0; 0; 0; 0; 0; 0]
  | HorizonFront160x16 => [8; 177; 0; 21; 12; 16; 0; 160; 4; 0; 40; 0; 0; 0; 0; 0]
  | HorizonFront140x16 => [8; 178; 0; 18; 4; 16; 0; 140; 1; 3; 20; 40; 0; 0; 0; 0]
  | HorizonSide96x8    => [8; 180; 0; 7; 12; 8; 0; 96; 2; 0; 48; 0; 0; 0; 0; 0]
  | HorizonRear48x16   => [8; 181; 0; 7; 12; 16; 0; 48; 1; 0; 48; 0; 0; 0; 0; 0]
  | HorizonDash40x12   => [8; 185; 0; 6; 140; 12; 0; 40; 1; 0; 40; 0; 4; 0; 0; 0]
  end.

(* the (bytes[0], bytes[1]) match of SignType::from_bytes *)
Definition st_of_key (b0 b1 : N) : option sign_type :=
  if b0 =? 4 then
    (if b1 =? 71 then Some Max3000Front112x16
     else if b1 =? 77 then Some Max3000Front98x16
     else if b1 =? 32 then Some Max3000Side90x7
     else if b1 =? 98 then Some Max3000Rear30x10
     else if b1 =? 97 then Some Max3000Rear23x10
     else if b1 =? 38 then Some Max3000Dash30x7
     else None)
  else if b0 =? 8 then
    (if b1 =? 177 then Some HorizonFront160x16
     else if b1 =? 178 then Some HorizonFront140x16
     else if b1 =? 180 then Some HorizonSide96x8
     else if b1 =? 181 then Some HorizonRear48x16
     else if b1 =? 185 then Some HorizonDash40x12
     else None)
  else None.

(* SignType::from_bytes.  STPanic is where bytes[0]/bytes[1] would index out of range. *)
Definition st_from_bytes (bs : list N) : result sterr sign_type :=
  if nlen bs =? 16 then
    match bs with
    | b0 :: b1 :: _ =>
        match st_of_key b0 b1 with
        | Some t => Ok t
        | None => Err UnknownConfig
        end
    | _ => Err STPanic
    end
  else Err (WrongConfigLength 16 (nlen bs)).

Definition sign_type_eqb (a b : sign_type) : bool :=
  list_eqb N.eqb (st_to_bytes a) (st_to_bytes b).

(* Fields of a configuration block, as documented in sign_type.rs and used by the virtual sign. *)
Definition nthN (l : list N) (i : nat) : option N := nth_error l i.
