(* Frame.v — model of libs/core/src/frame.rs: Frame, Data::try_new, payload, checksum,
   to_bytes, to_bytes_with_newline, from_bytes.  Definitions only.
   Shaped like the code: same order of checks, explicit `as u8` truncations, and a
   panic outcome (FPanic) wherever the Rust has an unwrap. *)
From Flipdot Require Export Hex.
Local Open Scope N_scope.

Record frame : Type := { f_addr : N; f_type : N; f_data : list N }.

(* What the Rust types guarantee: Address(u16), MsgType(u8), Data (<= 255 bytes of u8). *)
Definition wf_frameb (f : frame) : bool :=
  is_u16 (f_addr f) && is_u8 (f_type f) && bytesb (f_data f) && (nlen (f_data f) <=? 255).
Definition wf_frame (f : frame) : Prop := wf_frameb f = true.

Inductive ferr : Type :=
| InvalidFrame
| DataMismatch (expected actual : N)      (* FrameDataMismatch { expected, actual } *)
| BadChecksum (expected actual : N)       (* BadChecksum { expected: provided, actual: computed } *)
| DataTooLong (actual : N)
| FPanic.                                 (* an unwrap/index in from_bytes fired *)

(* Data::try_new *)
Definition data_try_new (l : list N) : result ferr (list N) :=
  if 255 <? nlen l then Err (DataTooLong (nlen l)) else Ok l.
(* The same decision from the length alone (Some n = refused, n bytes are too many): what lets the correspondence ask
   about blocks far too large to write down, e.g. 2^32 bytes. *)
Definition data_try_new_len (n : N) : option N := if 255 <? n then Some n else None.

(* u8::wrapping_sub *)
Definition wsub (a b : N) : N := (a + 256 - b mod 256) mod 256.

(* fn checksum: fold(0, |acc, b| acc.wrapping_sub(b)) *)
Definition checksum (bs : list N) : N := fold_left wsub bs 0.

(* fn payload: [len as u8, (addr >> 8) as u8, addr as u8, type] ++ data *)
Definition payload (f : frame) : list N :=
  [nlen (f_data f) mod 256; (f_addr f / 256) mod 256; f_addr f mod 256; f_type f] ++ f_data f.

(* Frame::to_bytes / to_bytes_with_newline *)
Definition encode (f : frame) : list N :=
  58 :: hex (payload f ++ [checksum (payload f)]).
Definition encode_nl (f : frame) : list N := encode f ++ [13; 10].

(* Remove one trailing CR LF, if present: the `(?:\r\n)?$` of the pattern. *)
Fixpoint strip_crlf (s : list N) : list N :=
  match s with
  | [] => []
  | x :: t =>
      match t with
      | [y] => if (x =? 13) && (y =? 10) then [] else x :: t
      | _ => x :: strip_crlf t
      end
  end.

(* The part of the pattern between ':' and the optional CRLF:
   2+4+2 digits, (2 digits)*, 2 digits  ==  an even number >= 10 of hex digits. *)
Definition shape (body : list N) : bool :=
  forallb is_xdigit body && N.even (nlen body) && (10 <=? nlen body).

Fixpoint split_last (l : list N) : option (list N * N) :=
  match l with
  | [] => None
  | x :: t =>
      match t with
      | [] => Some ([], x)
      | _ => match split_last t with
             | Some (d, c) => Some (x :: d, c)
             | None => None
             end
      end
  end.

(* from_bytes after the capture groups have been converted to numbers. *)
Definition check (bs : list N) : result ferr frame :=
  match bs with
  | len :: ah :: al :: ty :: rest =>
      match split_last rest with
      | Some (data, ck) =>
          if nlen data =? len then
            match data_try_new data with
            | Err e => Err e
            | Ok d =>
                let f := {| f_addr := ah * 256 + al; f_type := ty; f_data := d |} in
                let c := checksum (payload f) in
                if c =? ck then Ok f else Err (BadChecksum ck c)
            end
          else Err (DataMismatch len (nlen data))
      | None => Err FPanic
      end
  | _ => Err FPanic
  end.

(* Frame::from_bytes *)
Definition decode (s : list N) : result ferr frame :=
  match s with
  | [] => Err InvalidFrame
  | c :: rest =>
      if c =? 58 then
        let body := strip_crlf rest in
        if shape body then
          match unhex body with
          | Some bs => check bs
          | None => Err FPanic
          end
        else Err InvalidFrame
      else Err InvalidFrame
  end.
