(* Serial.v — model of libs/serial/src/serial_sign_bus.rs (SerialSignBus::process_message),
   libs/testing/src/odk.rs (Odk::process_message) and of the two joined back to back by a
   pair of byte pipes (the "wire").  Definitions only. *)
From Flipdot Require Export Message Io VSign Controller.
Local Open Scope N_scope.

Record port : Type := { pt_in : reader; pt_out : writer }.

(* What a serial exchange does, in order. *)
Inductive sev : Type :=
| EvWrite (bs : list N)       (* bytes delivered to the port by this call's write *)
| EvSleep (ms : N)            (* thread::sleep *)
| EvRead (consumed : list N). (* bytes this call's read took from the port *)

Definition response_expected (m : msg) : bool :=
  match m with
  | Hello _ | QueryState _ | RequestOperation _ _ => true
  | _ => false
  end.

Definition delay_after_send (m : msg) : option N :=
  match m with SendData _ _ => Some 30 | _ => None end.

Definition delay_after_receive (m : msg) : option N :=
  match m with
  | ReportState _ PageLoadInProgress | ReportState _ PageShowInProgress => Some 100
  | _ => None
  end.

Definition sleep_ev (d : option N) : list sev :=
  match d with Some ms => [EvSleep ms] | None => [] end.

(* bytes newly appended to a writer's output *)
Definition delivered (before after : writer) : list N :=
  skipn (length (w_out before)) (w_out after).
(* bytes taken from a reader's content *)
Definition consumed (before after : reader) : list N :=
  firstn (length (r_content before) - length (r_content after)) (r_content before).

(* SerialSignBus::process_message.  None = model fuel exhausted (impossible). *)
Definition serial_process (m : msg) (p : port)
  : option (result rerr (option msg) * port * list sev) :=
  match frame_write (frame_of_msg m) (pt_out p) with
  | None => None
  | Some (Err e, w') =>
      Some (Err e, {| pt_in := pt_in p; pt_out := w' |}, [EvWrite (delivered (pt_out p) w')])
  | Some (Ok _, w') =>
      let ev1 := EvWrite (delivered (pt_out p) w') :: sleep_ev (delay_after_send m) in
      if response_expected m then
        match frame_read (pt_in p) with
        | None => None
        | Some (Err e, r') =>
            Some (Err e, {| pt_in := r'; pt_out := w' |}, ev1 ++ [EvRead (consumed (pt_in p) r')])
        | Some (Ok f, r') =>
            let reply := msg_of_frame f in
            Some (Ok (Some reply), {| pt_in := r'; pt_out := w' |},
                  ev1 ++ [EvRead (consumed (pt_in p) r')] ++ sleep_ev (delay_after_receive reply))
        end
      else Some (Ok None, {| pt_in := pt_in p; pt_out := w' |}, ev1)
  end.

(* A conversation: one exchange after another on the same port, each starting where the last one left the port's
   streams (results in order; the port at the end). *)
Fixpoint serial_run (ms : list msg) (p : port) : option (list (result rerr (option msg)) * port) :=
  match ms with
  | [] => Some ([], p)
  | m :: ms' =>
      match serial_process m p with
      | None => None
      | Some (res, p', _) =>
          match serial_run ms' p' with
          | None => None
          | Some (rs, p'') => Some (res :: rs, p'')
          end
      end
  end.

(* Everything a conversation does to the port and the clock, in order. *)
Fixpoint serial_trace (ms : list msg) (p : port) : option (list sev) :=
  match ms with
  | [] => Some []
  | m :: ms' =>
      match serial_process m p with
      | None => None
      | Some (_, p', evs) =>
          match serial_trace ms' p' with
          | None => None
          | Some t => Some (evs ++ t)
          end
      end
  end.

(* Time certainly spent asleep from here up to the next write (or the end of the trace). *)
Fixpoint quiet (evs : list sev) : N :=
  match evs with
  | [] => 0
  | EvWrite _ :: _ => 0
  | EvSleep ms :: t => ms + quiet t
  | EvRead _ :: t => quiet t
  end.
(* For every write of the trace: the bytes it delivered and the time slept before the next write. *)
Fixpoint write_gaps (evs : list sev) : list (list N * N) :=
  match evs with
  | [] => []
  | EvWrite bs :: t => (bs, quiet t) :: write_gaps t
  | _ :: t => write_gaps t
  end.

(* ---------- the ODK bridge ---------- *)
Inductive oerr : Type :=
| OComm (e : rerr)      (* OdkError::Communication *)
| OPanic.               (* a virtual sign panicked *)

(* Odk::process_message over a VirtualSignBus (which never returns Err). *)
Definition odk_process (p : port) (b : list vsign)
  : option (result oerr unit * port * list vsign * option msg (* forwarded *)) :=
  match frame_read (pt_in p) with
  | None => None
  | Some (Err e, r') => Some (Err (OComm e), {| pt_in := r'; pt_out := pt_out p |}, b, None)
  | Some (Ok f, r') =>
      let m := msg_of_frame f in
      match bus_step b m with
      | None => Some (Err OPanic, {| pt_in := r'; pt_out := pt_out p |}, b, Some m)
      | Some (b', None) => Some (Ok tt, {| pt_in := r'; pt_out := pt_out p |}, b', Some m)
      | Some (b', Some reply) =>
          match frame_write (frame_of_msg reply) (pt_out p) with
          | None => None
          | Some (Ok _, w') => Some (Ok tt, {| pt_in := r'; pt_out := w' |}, b', Some m)
          | Some (Err e, w') => Some (Err (OComm e), {| pt_in := r'; pt_out := w' |}, b', Some m)
          end
      end
  end.

(* ---------- controller -> SerialSignBus -> pipe -> Odk -> VirtualSignBus ---------- *)
(* State of the wire: the signs behind the bridge and the bytes waiting in the controller's
   receive pipe.  One bus call of the controller = serial write, one bridge step, serial read.
   Pipes are reliable (no fragmentation matters: C15) so schedules are empty. *)
Record wire : Type := { wr_bus : list vsign; wr_inbox : list N }.

Definition pipe_reader (bs : list N) : reader := {| r_content := bs; r_sched := [] |}.
Definition pipe_writer : writer := {| w_out := []; w_sched := [] |}.

Inductive wire_reply : Type :=
| WErr                       (* the serial bus returned Err (timeout / undecodable) *)
| WPanic
| WRep (r : option msg).

Definition wire_step (w : wire) (m : msg) : option (wire * wire_reply) :=
  (* controller side writes the frame; bridge reads it *)
  let sent := encode_nl (frame_of_msg m) in
  match odk_process {| pt_in := pipe_reader sent; pt_out := pipe_writer |} (wr_bus w) with
  | None => None
  | Some (res, op, b', _) =>
      match res with
      | Err OPanic => Some (w, WPanic)
      | _ =>
          let inbox := wr_inbox w ++ w_out (pt_out op) in
          if response_expected m then
            match frame_read (pipe_reader inbox) with
            | None => None
            | Some (Err _, r') => Some ({| wr_bus := b'; wr_inbox := r_content r' |}, WErr)
            | Some (Ok f, r') =>
                Some ({| wr_bus := b'; wr_inbox := r_content r' |}, WRep (Some (msg_of_frame f)))
            end
          else Some ({| wr_bus := b'; wr_inbox := inbox |}, WRep None)
      end
  end.

(* A controller program run over the wire. *)
Fixpoint run_wire {A : Type} (p : prog A) (w : wire) : option (wire * outcome A) :=
  match p with
  | Ret a => Some (w, Done a)
  | Fail => Some (w, ProtoErr)
  | Crash => Some (w, Crashed)
  | Send m k =>
      match wire_step w m with
      | None => None
      | Some (w', WErr) => Some (w', BusFailed)
      | Some (w', WPanic) => Some (w', Crashed)
      | Some (w', WRep r) => run_wire (k r) w'
      end
  end.

(* ---------- the same wire over byte streams that fragment and get interrupted ---------- *)
(* For one bus call of the controller, how each of the four stream uses behaves: the controller's write,
   the bridge's read, the bridge's write of the reply, the controller's read of the reply. *)
Record wsched : Type := {
  ws_cw : list wr_ev; ws_br : list rd_ev; ws_bw : list wr_ev; ws_cr : list rd_ev
}.
Definition no_sched : wsched := {| ws_cw := []; ws_br := []; ws_bw := []; ws_cr := [] |}.

(* One bus call over the wire with those schedules.  A failing write on the controller's side is the
   serial bus returning Err before anything reaches the bridge. *)
Definition wire_step_s (w : wire) (m : msg) (s : wsched) : option (wire * wire_reply) :=
  match frame_write (frame_of_msg m) {| w_out := []; w_sched := ws_cw s |} with
  | None => None
  | Some (Err _, _) => Some (w, WErr)
  | Some (Ok _, cw) =>
      match odk_process {| pt_in := {| r_content := w_out cw; r_sched := ws_br s |};
                           pt_out := {| w_out := []; w_sched := ws_bw s |} |} (wr_bus w) with
      | None => None
      | Some (res, op, b', _) =>
          match res with
          | Err OPanic => Some (w, WPanic)
          | _ =>
              let inbox := wr_inbox w ++ w_out (pt_out op) in
              if response_expected m then
                match frame_read {| r_content := inbox; r_sched := ws_cr s |} with
                | None => None
                | Some (Err _, r') => Some ({| wr_bus := b'; wr_inbox := r_content r' |}, WErr)
                | Some (Ok f, r') =>
                    Some ({| wr_bus := b'; wr_inbox := r_content r' |}, WRep (Some (msg_of_frame f)))
                end
              else Some ({| wr_bus := b'; wr_inbox := inbox |}, WRep None)
          end
      end
  end.

(* A controller program over the wire, the i-th bus call using the i-th schedule (none once they run out). *)
Fixpoint run_wire_s {A : Type} (p : prog A) (w : wire) (ss : list wsched) : option (wire * outcome A) :=
  match p with
  | Ret a => Some (w, Done a)
  | Fail => Some (w, ProtoErr)
  | Crash => Some (w, Crashed)
  | Send m k =>
      let s := match ss with [] => no_sched | s :: _ => s end in
      match wire_step_s w m s with
      | None => None
      | Some (w', WErr) => Some (w', BusFailed)
      | Some (w', WPanic) => Some (w', Crashed)
      | Some (w', WRep r) => run_wire_s (k r) w' (tl ss)
      end
  end.

(* ---------- the bridge in front of ANY bus ---------- *)
(* Odk::process_message with the bus abstracted to what it answers: [reply m] is the bus's answer to the forwarded
   message (None = no answer).  The bridge writes a frame back exactly when there is an answer, whatever kind of
   message was forwarded. *)
Definition odk_step_replied (p : port) (reply : msg -> option msg)
  : option (result oerr unit * port * option msg (* forwarded *)) :=
  match frame_read (pt_in p) with
  | None => None
  | Some (Err e, r') => Some (Err (OComm e), {| pt_in := r'; pt_out := pt_out p |}, None)
  | Some (Ok f, r') =>
      let m := msg_of_frame f in
      match reply m with
      | None => Some (Ok tt, {| pt_in := r'; pt_out := pt_out p |}, Some m)
      | Some rm =>
          match frame_write (frame_of_msg rm) (pt_out p) with
          | None => None
          | Some (Ok _, w') => Some (Ok tt, {| pt_in := r'; pt_out := w' |}, Some m)
          | Some (Err e, w') => Some (Err (OComm e), {| pt_in := r'; pt_out := w' |}, Some m)
          end
      end
  end.

(* The bridge serving a stream of requests: one call per scripted answer ([None] = the bus stays silent), each starting
   where the last one left the port.  What each call returned and forwarded, and the port at the end. *)
Fixpoint odk_run (p : port) (answers : list (option msg))
  : option (list (result oerr unit * option msg) * port) :=
  match answers with
  | [] => Some ([], p)
  | a :: rest =>
      match odk_step_replied p (fun _ => a) with
      | None => None
      | Some (res, p', fwd) =>
          match odk_run p' rest with
          | None => None
          | Some (l, p'') => Some ((res, fwd) :: l, p'')
          end
      end
  end.
