(* Controller.v — model of src/sign.rs (struct Sign) as programs over a bus.
   Definitions only.

   A controller operation is a [prog]: it either returns, fails with the
   UnexpectedResponse protocol error, crashes (a Rust panic: only the u16 chunk counter in
   the debug profile can), or sends one message and continues with the bus's reply.
   `?` after a bus call is the interpreter's job: a bus error ends the run. *)
From Flipdot Require Export Message Page SignType VSign.
Local Open Scope N_scope.

Inductive prog (A : Type) : Type :=
| Ret (a : A)
| Fail                                   (* SignError::UnexpectedResponse *)
| Crash                                  (* panic *)
| Send (m : msg) (k : option msg -> prog A).
Arguments Ret {A} a.
Arguments Fail {A}.
Arguments Crash {A}.
Arguments Send {A} m k.

Fixpoint bind {A B : Type} (p : prog A) (f : A -> prog B) : prog B :=
  match p with
  | Ret a => f a
  | Fail => Fail
  | Crash => Crash
  | Send m k => Send m (fun r => bind (k r) f)
  end.

Notation "x <- p ;; q" := (bind p (fun x => q)) (at level 61, p at next level, right associativity).
Notation "p ;;; q" := (bind p (fun _ => q)) (at level 61, right associativity).

(* fn send_message *)
Definition send (m : msg) : prog (option msg) := Send m (fun r => Ret r).

(* fn verify_response *)
Definition verify (expected response : option msg) : prog unit :=
  if omsg_eqb response expected then Ret tt else Fail.

(* fn send_message_expect_response *)
Definition expect (m : msg) (expected : option msg) : prog unit :=
  r <- send m ;; verify expected r.

(* fn ensure_unconfigured *)
Definition ensure_unconfigured (a : N) : prog unit :=
  r <- send (Hello a) ;;
  let full_reset :=
    expect (RequestOperation a StartReset) (Some (AckOperation a StartReset)) ;;;
    expect (Hello a) (Some (ReportState a ReadyToReset)) ;;;
    expect (RequestOperation a FinishReset) (Some (AckOperation a FinishReset)) ;;;
    expect (Hello a) (Some (ReportState a Unconfigured)) in
  match r with
  | Some (ReportState a' Unconfigured) =>
      if a' =? a then Ret tt else full_reset
  | Some (ReportState a' ReadyToReset) =>
      if a' =? a then
        expect (RequestOperation a FinishReset) (Some (AckOperation a FinishReset)) ;;;
        expect (Hello a) (Some (ReportState a Unconfigured))
      else full_reset
  | _ => full_reset
  end.

(* item.chunks(16) *)
Fixpoint chunks_fuel (fuel : nat) (l : list N) : list (list N) :=
  match fuel with
  | O => []
  | S fuel' =>
      match l with
      | [] => []
      | _ :: _ => firstn 16 l :: chunks_fuel fuel' (skipn 16 l)
      end
  end.
Definition chunks16 (l : list N) : list (list N) := chunks_fuel (length l) l.

(* The inner `for (i, chunk)` loop.  [i] is the index within the item, [count] the running
   u16 chunk counter; `chunks_sent += 1` panics on overflow in the debug profile. *)
Fixpoint send_chunks (cs : list (list N)) (i count : N) : prog N :=
  match cs with
  | [] => Ret count
  | c :: t =>
      expect (SendData ((i * 16) mod 65536) c) None ;;;
      (if count + 1 <? 65536 then send_chunks t (i + 1) (count + 1) else Crash)
  end.

(* The outer `for item in data.clone()` loop. *)
Fixpoint send_items (items : list (list N)) (count : N) : prog N :=
  match items with
  | [] => Ret count
  | item :: t =>
      c <- send_chunks (chunks16 item) 0 count ;; send_items t c
  end.

(* One pass through the body of the `loop` in send_data, up to and including the query. *)
Definition attempt (a : N) (op : operation) (items : list (list N)) : prog (option msg) :=
  expect (RequestOperation a op) (Some (AckOperation a op)) ;;;
  n <- send_items items 0 ;;
  expect (DataChunksSent n) None ;;;
  send (QueryState a).

(* fn send_data: [retries] = MAX_ATTEMPTS - attempts. *)
Fixpoint transfer_loop (retries : nat) (a : N) (op : operation) (items : list (list N))
         (success failure : state) : prog unit :=
  r <- attempt a op items ;;
  match retries with
  | S retries' =>
      if omsg_eqb r (Some (ReportState a failure))
      then transfer_loop retries' a op items success failure
      else verify (Some (ReportState a success)) r
  | O => verify (Some (ReportState a success)) r
  end.

Definition transfer (a : N) (op : operation) (items : list (list N)) (success failure : state)
  : prog unit := transfer_loop 2 a op items success failure.

(* Sign::configure *)
Definition configure (a : N) (t : sign_type) : prog unit :=
  ensure_unconfigured a ;;;
  transfer a ReceiveConfig [st_to_bytes t] ConfigReceived ConfigFailed.

Definition ready_state (s : state) : bool :=
  match s with
  | ConfigReceived | ShowingPages | PageLoaded | PageShowInProgress | PageShown
  | PageLoadInProgress => true
  | _ => false
  end.

(* Sign::configure_if_needed *)
Definition configure_if_needed (a : N) (t : sign_type) : prog unit :=
  r <- send (Hello a) ;;
  match r with
  | Some (ReportState a' s) =>
      if (a' =? a) && ready_state s then Ret tt else configure a t
  | _ => configure a t
  end.

(* Sign::send_pages *)
Definition send_pages (a : N) (pages : list page) : prog flip_style :=
  transfer a ReceivePixels (map p_bytes pages) PixelsReceived PixelsFailed ;;;
  expect (PixelsComplete a) None ;;;
  r <- send (QueryState a) ;;
  match r with
  | Some (ReportState a' ShowingPages) => if a' =? a then Ret Automatic else Ret Manual
  | _ => Ret Manual
  end.

Definition state_is (s t : state) : bool := state_eqb s t.

(* fn switch_page.  The Rust loop is unbounded; [fuel] bounds the number of iterations and
   running out of it is reported as [Crash] so that it can never be mistaken for a result
   (proofs/Controller.v: with fuel > |script| it cannot happen). *)
Fixpoint switch_page (fuel : nat) (a : N) (target trigger : state) (op : operation) : prog unit :=
  match fuel with
  | O => Crash
  | S fuel' =>
      r <- send (QueryState a) ;;
      match r with
      | Some (ReportState a' s) =>
          if a' =? a then
            if state_is s ShowingPages then Ret tt
            else if state_is s target then Ret tt
            else if state_is s trigger then
              expect (RequestOperation a op) (Some (AckOperation a op)) ;;;
              switch_page fuel' a target trigger op
            else if state_is s PageLoadInProgress || state_is s PageShowInProgress then
              switch_page fuel' a target trigger op
            else Fail
          else Fail
      | _ => Fail
      end
  end.

Definition load_next_page (fuel : nat) (a : N) : prog unit :=
  switch_page fuel a PageLoaded PageShown LoadNextPage.
Definition show_loaded_page (fuel : nat) (a : N) : prog unit :=
  switch_page fuel a PageShown PageLoaded ShowLoadedPage.

(* Sign::shut_down *)
Definition shut_down (a : N) : prog unit := expect (Goodbye a) None.

(* Sign::width / Sign::height / Sign::create_page: no bus traffic, only the sign type's dimensions. *)
Definition sign_width (t : sign_type) : N := fst (dimensions t).
Definition sign_height (t : sign_type) : N := snd (dimensions t).
Definition create_page (t : sign_type) (id : N) : page := page_new id (sign_width t) (sign_height t).

(* ------------------------------------------------------------------ *)
(* Interpreters *)

Inductive reply : Type :=
| BusErr                         (* process_message returned Err *)
| Rep (r : option msg).

Inductive outcome (A : Type) : Type :=
| Done (a : A)
| ProtoErr                       (* Err(SignError::UnexpectedResponse) *)
| BusFailed                      (* Err(SignError::Bus) *)
| Crashed                        (* panic (or model fuel exhausted) *)
| Blocked.                       (* the script ran out: the operation wants another reply *)
Arguments Done {A} a.
Arguments ProtoErr {A}.
Arguments BusFailed {A}.
Arguments Crashed {A}.
Arguments Blocked {A}.

(* Run against a scripted bus: the i-th bus call gets the i-th reply.
   Returns the messages sent (in order) and the outcome. *)
Fixpoint run_script {A : Type} (p : prog A) (script : list reply) : list msg * outcome A :=
  match p with
  | Ret a => ([], Done a)
  | Fail => ([], ProtoErr)
  | Crash => ([], Crashed)
  | Send m k =>
      match script with
      | [] => ([m], Blocked)
      | BusErr :: _ => ([m], BusFailed)
      | Rep r :: script' =>
          let '(tr, o) := run_script (k r) script' in (m :: tr, o)
      end
  end.

(* Run against a bus of virtual signs (VirtualSignBus never returns Err; a sign panic is Crashed). *)
Fixpoint run_bus {A : Type} (p : prog A) (b : list vsign) : list vsign * outcome A :=
  match p with
  | Ret a => (b, Done a)
  | Fail => (b, ProtoErr)
  | Crash => (b, Crashed)
  | Send m k =>
      match bus_step b m with
      | None => (b, Crashed)
      | Some (b', r) => run_bus (k r) b'
      end
  end.

(* ------------------------------------------------------------------ *)
(* An application calling several methods of Sign one after the other over one bus.  The Rust object carries
   nothing from one call to the next except its address, its sign type and the bus handle, so a sequence of calls
   is each call's program run on what the previous calls left of the bus's replies. *)
Inductive cop : Type :=
| CopConfigure (a : N) (t : sign_type)
| CopConfigureIfNeeded (a : N) (t : sign_type)
| CopSendPages (a : N) (ps : list page)
| CopShow (fuel : nat) (a : N)
| CopLoadNext (fuel : nat) (a : N)
| CopShutDown (a : N).

Inductive cout : Type := OutUnit | OutStyle (s : flip_style).

Definition cop_prog (c : cop) : prog cout :=
  match c with
  | CopConfigure a t => configure a t ;;; Ret OutUnit
  | CopConfigureIfNeeded a t => configure_if_needed a t ;;; Ret OutUnit
  | CopSendPages a ps => s <- send_pages a ps ;; Ret (OutStyle s)
  | CopShow fuel a => show_loaded_page fuel a ;;; Ret OutUnit
  | CopLoadNext fuel a => load_next_page fuel a ;;; Ret OutUnit
  | CopShutDown a => shut_down a ;;; Ret OutUnit
  end.

(* The calls in order; a call that is left waiting for a reply (or crashes) ends the sequence. *)
Fixpoint run_cops_script (cs : list cop) (script : list reply) : list (list msg * outcome cout) :=
  match cs with
  | [] => []
  | c :: cs' =>
      let '(tr, o) := run_script (cop_prog c) script in
      (tr, o) :: match o with
                 | Blocked | Crashed => []
                 | _ => run_cops_script cs' (skipn (length tr) script)
                 end
  end.

(* ------------------------------------------------------------------ *)
(* send_pages takes an iterator, and the iterator is the caller's code: each time a page is taken from it, it may itself
   hold a conversation on the same bus -- through the same Sign object or through another -- before it yields the page.
   [prelude cs] is that conversation: the calls [cs] in order; what a call returned, or that it failed with the protocol
   error, is the iterator's business and is dropped ([catch]); a panic in it unwinds through send_pages; a bus error in it
   is the interpreter's business as always.  The iterator is cloned afresh for every attempt of the transfer, so the
   conversations are held again on every attempt. *)
Fixpoint catch {A : Type} (p : prog A) : prog unit :=
  match p with
  | Ret _ => Ret tt
  | Fail => Ret tt
  | Crash => Crash
  | Send m k => Send m (fun r => catch (k r))
  end.

Fixpoint prelude (cs : list cop) : prog unit :=
  match cs with
  | [] => Ret tt
  | c :: t => catch (cop_prog c) ;;; prelude t
  end.

Fixpoint send_items_with (items : list (prog unit * list N)) (count : N) : prog N :=
  match items with
  | [] => Ret count
  | (pre, item) :: t =>
      pre ;;; (c <- send_chunks (chunks16 item) 0 count ;; send_items_with t c)
  end.

Definition attempt_with (a : N) (op : operation) (items : list (prog unit * list N)) : prog (option msg) :=
  expect (RequestOperation a op) (Some (AckOperation a op)) ;;;
  n <- send_items_with items 0 ;;
  expect (DataChunksSent n) None ;;;
  send (QueryState a).

Fixpoint transfer_loop_with (retries : nat) (a : N) (op : operation) (items : list (prog unit * list N))
         (success failure : state) : prog unit :=
  r <- attempt_with a op items ;;
  match retries with
  | S retries' =>
      if omsg_eqb r (Some (ReportState a failure))
      then transfer_loop_with retries' a op items success failure
      else verify (Some (ReportState a success)) r
  | O => verify (Some (ReportState a success)) r
  end.

(* Sign::send_pages over an iterator that runs the program [fst item] on the bus before it yields the bytes [snd item] *)
Definition send_pages_gen (a : N) (src : list (prog unit * list N)) : prog flip_style :=
  transfer_loop_with 2 a ReceivePixels src PixelsReceived PixelsFailed ;;;
  expect (PixelsComplete a) None ;;;
  r <- send (QueryState a) ;;
  match r with
  | Some (ReportState a' ShowingPages) => if a' =? a then Ret Automatic else Ret Manual
  | _ => Ret Manual
  end.

(* ... that makes the calls [fst item] (each under [catch]) before it yields the page [snd item] *)
Definition send_pages_with (a : N) (items : list (list cop * page)) : prog flip_style :=
  send_pages_gen a (map (fun it => (prelude (fst it), p_bytes (snd it))) items).

(* A caller's iterator may also catch a PANIC of a call it makes (catch_unwind) and carry on: *)
Fixpoint catch_all {A : Type} (p : prog A) : prog unit :=
  match p with
  | Ret _ => Ret tt
  | Fail => Ret tt
  | Crash => Ret tt
  | Send m k => Send m (fun r => catch_all (k r))
  end.

(* send_pages over a source that yields the pages and panics when asked for one more *)
Definition send_pages_then_panic (a : N) (pages : list page) : prog flip_style :=
  send_pages_gen a (map (fun p => (Ret tt, p_bytes p)) pages ++ [(Crash, [])]).
