(* Io.v — model of Frame::read / Frame::write (libs/core/src/frame.rs) over byte streams
   that fragment, get interrupted and fail.  Definitions only.

   Modelled from std's source, not verified: BufReader::with_capacity(1, r) asks the
   underlying reader for exactly one byte per read call; read_until retries Interrupted,
   stops after '\n', at EOF (a read returning 0 bytes) or at any other error; write_all
   loops over write, retrying Interrupted, failing with WriteZero on Ok(0). *)
From Flipdot Require Export Frame.
Local Open Scope N_scope.

(* ---------- a readable stream with a schedule of per-call behaviours ---------- *)
Inductive rd_ev : Type :=
| RData (n : N)      (* this call returns at most n+1 bytes *)
| RIntr              (* Err(ErrorKind::Interrupted) *)
| RFail.             (* Err(other) *)

Record reader : Type := { r_content : list N; r_sched : list rd_ev }.

Inductive rd_res : Type :=
| RdOk (bs : list N)   (* Ok(bs.len()); empty = EOF *)
| RdIntr
| RdErr.

(* One call `read(buf)` with buf.len() = req.  When the schedule is used up, reads are full. *)
Definition reader_read (r : reader) (req : N) : rd_res * reader :=
  match r_sched r with
  | [] =>
      let k := N.to_nat (N.min req (nlen (r_content r))) in
      (RdOk (firstn k (r_content r)), {| r_content := skipn k (r_content r); r_sched := [] |})
  | RData n :: t =>
      let k := N.to_nat (N.min (N.min req (n + 1)) (nlen (r_content r))) in
      (RdOk (firstn k (r_content r)), {| r_content := skipn k (r_content r); r_sched := t |})
  | RIntr :: t => (RdIntr, {| r_content := r_content r; r_sched := t |})
  | RFail :: t => (RdErr, {| r_content := r_content r; r_sched := t |})
  end.

Inductive rerr : Type :=
| RIo                      (* FrameError::Io *)
| RFrame (e : ferr).       (* any error of from_bytes *)

(* buf_reader.read_until(b'\n', &mut data) through a one-byte BufReader.
   None = model fuel exhausted (proved impossible for fuel > |content| + |sched|). *)
Fixpoint read_until_lf (fuel : nat) (r : reader) (acc : list N)
  : option (result unit (list N) * reader) :=
  match fuel with
  | O => None
  | S fuel' =>
      match reader_read r 1 with
      | (RdIntr, r') => read_until_lf fuel' r' acc
      | (RdErr, r') => Some (Err tt, r')
      | (RdOk [], r') => Some (Ok acc, r')
      | (RdOk (b :: _), r') =>
          if b =? 10 then Some (Ok (acc ++ [b]), r') else read_until_lf fuel' r' (acc ++ [b])
      end
  end.

Definition read_fuel (r : reader) : nat := S (length (r_content r) + length (r_sched r)).

(* Frame::read *)
Definition frame_read (r : reader) : option (result rerr frame * reader) :=
  match read_until_lf (read_fuel r) r [] with
  | None => None
  | Some (Err _, r') => Some (Err RIo, r')
  | Some (Ok line, r') =>
      match decode line with
      | Ok f => Some (Ok f, r')
      | Err e => Some (Err (RFrame e), r')
      end
  end.

(* ---------- a writable sink with a schedule ---------- *)
Inductive wr_ev : Type :=
| WAccept (n : N)    (* this call accepts at most n+1 bytes *)
| WIntr
| WZero              (* Ok(0) *)
| WFail.

Record writer : Type := { w_out : list N; w_sched : list wr_ev }.

Inductive wr_res : Type := WrOk (k : nat) | WrIntr | WrErr.

Definition writer_write (w : writer) (buf : list N) : wr_res * writer :=
  match w_sched w with
  | [] => (WrOk (length buf), {| w_out := w_out w ++ buf; w_sched := [] |})
  | WAccept n :: t =>
      let k := N.to_nat (N.min (n + 1) (nlen buf)) in
      (WrOk k, {| w_out := w_out w ++ firstn k buf; w_sched := t |})
  | WIntr :: t => (WrIntr, {| w_out := w_out w; w_sched := t |})
  | WZero :: t => (WrOk 0, {| w_out := w_out w; w_sched := t |})
  | WFail :: t => (WrErr, {| w_out := w_out w; w_sched := t |})
  end.

(* std::io::Write::write_all.  None = model fuel exhausted. *)
Fixpoint write_all (fuel : nat) (w : writer) (buf : list N) : option (result unit unit * writer) :=
  match buf with
  | [] => Some (Ok tt, w)
  | _ :: _ =>
      match fuel with
      | O => None
      | S fuel' =>
          match writer_write w buf with
          | (WrOk O, w') => Some (Err tt, w')           (* WriteZero *)
          | (WrOk k, w') => write_all fuel' w' (skipn k buf)
          | (WrIntr, w') => write_all fuel' w' buf
          | (WrErr, w') => Some (Err tt, w')
          end
      end
  end.

Definition write_fuel (w : writer) (buf : list N) : nat := S (length buf + length (w_sched w)).

(* Frame::write *)
Definition frame_write (f : frame) (w : writer) : option (result rerr unit * writer) :=
  match write_all (write_fuel w (encode_nl f)) w (encode_nl f) with
  | None => None
  | Some (Ok _, w') => Some (Ok tt, w')
  | Some (Err _, w') => Some (Err RIo, w')
  end.
