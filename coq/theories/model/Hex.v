(* Hex.v — ASCII hex digits as the frame codec uses them. Definitions only. *)
From Flipdot Require Export Base.
Local Open Scope N_scope.

(* HEX_DIGITS[n] for n < 16: b"0123456789ABCDEF". *)
Definition hexdigit (n : N) : N := if n <? 10 then 48 + n else 55 + n.

(* Two upper-case digits per byte, high nibble first (Frame::to_bytes loop). *)
Fixpoint hex (bs : list N) : list N :=
  match bs with
  | [] => []
  | b :: t => hexdigit (b / 16) :: hexdigit (b mod 16) :: hex t
  end.

(* Value of an ASCII hex digit of either case; None for any other byte ([[:xdigit:]]). *)
Definition hexval (c : N) : option N :=
  if (48 <=? c) && (c <=? 57) then Some (c - 48)
  else if (65 <=? c) && (c <=? 70) then Some (c - 55)
  else if (97 <=? c) && (c <=? 102) then Some (c - 87)
  else None.

Definition is_xdigit (c : N) : bool :=
  match hexval c with Some _ => true | None => false end.

(* parse_hex over consecutive digit pairs; None is where from_str_radix(..).unwrap() would fire
   (odd length or a non-digit). *)
Fixpoint unhex (s : list N) : option (list N) :=
  match s with
  | [] => Some []
  | h :: l :: t =>
      match hexval h, hexval l, unhex t with
      | Some a, Some b, Some r => Some (16 * a + b :: r)
      | _, _, _ => None
      end
  | [_] => None
  end.

(* ASCII upper-casing of a byte (only a-f matter here, but defined on a-z). *)
Definition upper (c : N) : N := if (97 <=? c) && (c <=? 122) then c - 32 else c.
