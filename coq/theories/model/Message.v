(* Message.v — model of libs/core/src/message.rs: Message, State, Operation and the two
   From conversions (as repaired by the F1 fix: type 0 is a data chunk at every length).
   Definitions only. *)
From Flipdot Require Export Frame.
Local Open Scope N_scope.

Inductive state : Type :=
| Unconfigured | ConfigInProgress | ConfigReceived | ConfigFailed
| PixelsInProgress | PixelsReceived | PixelsFailed
| PageLoaded | PageLoadInProgress | PageShown | PageShowInProgress
| ShowingPages | ReadyToReset.

Inductive operation : Type :=
| ReceiveConfig | ReceivePixels | ShowLoadedPage | LoadNextPage | StartReset | FinishReset.

Inductive msg : Type :=
| SendData (off : N) (data : list N)
| DataChunksSent (n : N)
| Hello (a : N)
| QueryState (a : N)
| ReportState (a : N) (s : state)
| RequestOperation (a : N) (o : operation)
| AckOperation (a : N) (o : operation)
| PixelsComplete (a : N)
| Goodbye (a : N)
| Unknown (f : frame).

Definition all_states : list state :=
  [Unconfigured; ConfigInProgress; ConfigReceived; ConfigFailed; PixelsInProgress;
   PixelsReceived; PixelsFailed; PageLoaded; PageLoadInProgress; PageShown;
   PageShowInProgress; ShowingPages; ReadyToReset].
Definition all_operations : list operation :=
  [ReceiveConfig; ReceivePixels; ShowLoadedPage; LoadNextPage; StartReset; FinishReset].

(* --- Message -> Frame: the data byte of each arm --- *)
Definition state_code (s : state) : N :=
  match s with
  | Unconfigured => 15 (* 0F *) | ConfigInProgress => 13 (* 0D *) | ConfigReceived => 7
  | ConfigFailed => 12 (* 0C *) | PixelsInProgress => 3 | PixelsReceived => 1
  | PixelsFailed => 11 (* 0B *) | PageLoaded => 16 (* 10 *) | PageLoadInProgress => 19 (* 13 *)
  | PageShown => 18 (* 12 *) | PageShowInProgress => 17 (* 11 *) | ShowingPages => 0
  | ReadyToReset => 8
  end.

Definition request_code (o : operation) : N :=
  match o with
  | ReceiveConfig => 161 (* A1 *) | ReceivePixels => 162 (* A2 *) | ShowLoadedPage => 169 (* A9 *)
  | LoadNextPage => 170 (* AA *) | StartReset => 166 (* A6 *) | FinishReset => 167 (* A7 *)
  end.

Definition ack_code (o : operation) : N :=
  match o with
  | ReceiveConfig => 149 (* 95 *) | ReceivePixels => 145 (* 91 *) | ShowLoadedPage => 150 (* 96 *)
  | LoadNextPage => 151 (* 97 *) | StartReset => 147 (* 93 *) | FinishReset => 148 (* 94 *)
  end.

Definition mkframe (a t : N) (d : list N) : frame := {| f_addr := a; f_type := t; f_data := d |}.

(* impl From<Message> for Frame *)
Definition frame_of_msg (m : msg) : frame :=
  match m with
  | SendData off data => mkframe off 0 data
  | DataChunksSent n => mkframe n 1 []
  | Hello a => mkframe a 2 [255]
  | Goodbye a => mkframe a 2 [85]
  | QueryState a => mkframe a 2 [0]
  | ReportState a s => mkframe a 4 [state_code s]
  | RequestOperation a o => mkframe a 3 [request_code o]
  | AckOperation a o => mkframe a 5 [ack_code o]
  | PixelsComplete a => mkframe a 6 [0]
  | Unknown f => f
  end.

(* --- Frame -> Message: the match arms, in the order of the code --- *)
Definition state_of_code (b : N) : option state :=
  if b =? 15 then Some Unconfigured
  else if b =? 13 then Some ConfigInProgress
  else if b =? 7 then Some ConfigReceived
  else if b =? 12 then Some ConfigFailed
  else if b =? 3 then Some PixelsInProgress
  else if b =? 1 then Some PixelsReceived
  else if b =? 11 then Some PixelsFailed
  else if b =? 16 then Some PageLoaded
  else if b =? 19 then Some PageLoadInProgress
  else if b =? 18 then Some PageShown
  else if b =? 17 then Some PageShowInProgress
  else if b =? 0 then Some ShowingPages
  else if b =? 8 then Some ReadyToReset
  else None.

Definition request_of_code (b : N) : option operation :=
  if b =? 161 then Some ReceiveConfig
  else if b =? 162 then Some ReceivePixels
  else if b =? 169 then Some ShowLoadedPage
  else if b =? 170 then Some LoadNextPage
  else if b =? 166 then Some StartReset
  else if b =? 167 then Some FinishReset
  else None.

Definition ack_of_code (b : N) : option operation :=
  if b =? 149 then Some ReceiveConfig
  else if b =? 145 then Some ReceivePixels
  else if b =? 150 then Some ShowLoadedPage
  else if b =? 151 then Some LoadNextPage
  else if b =? 147 then Some StartReset
  else if b =? 148 then Some FinishReset
  else None.

(* impl From<Frame> for Message *)
Definition msg_of_frame (f : frame) : msg :=
  let a := f_addr f in
  let t := f_type f in
  match f_data f with
  | [] =>
      if t =? 0 then SendData a (f_data f)
      else if t =? 1 then DataChunksSent a
      else Unknown f
  | [b] =>
      if t =? 0 then SendData a (f_data f)
      else if t =? 2 then
        (if b =? 255 then Hello a
         else if b =? 0 then QueryState a
         else if b =? 85 then Goodbye a
         else Unknown f)
      else if t =? 4 then
        match state_of_code b with Some s => ReportState a s | None => Unknown f end
      else if t =? 3 then
        match request_of_code b with Some o => RequestOperation a o | None => Unknown f end
      else if t =? 5 then
        match ack_of_code b with Some o => AckOperation a o | None => Unknown f end
      else if t =? 6 then
        (if b =? 0 then PixelsComplete a else Unknown f)
      else Unknown f
  | _ =>
      if t =? 0 then SendData a (f_data f) else Unknown f
  end.

(* --- what the Rust types guarantee about a message --- *)
Definition wf_msgb (m : msg) : bool :=
  match m with
  | SendData off data => is_u16 off && bytesb data && (nlen data <=? 255)
  | DataChunksSent n => is_u16 n
  | Hello a | QueryState a | PixelsComplete a | Goodbye a => is_u16 a
  | ReportState a _ | RequestOperation a _ | AckOperation a _ => is_u16 a
  | Unknown f => wf_frameb f
  end.
Definition wf_msg (m : msg) : Prop := wf_msgb m = true.

Definition specific (m : msg) : Prop := match m with Unknown _ => False | _ => True end.
Definition specificb (m : msg) : bool := match m with Unknown _ => false | _ => true end.

(* --- derived PartialEq --- *)
Definition state_eqb (x y : state) : bool := state_code x =? state_code y.
Definition operation_eqb (x y : operation) : bool := request_code x =? request_code y.
Definition frame_eqb (x y : frame) : bool :=
  (f_addr x =? f_addr y) && (f_type x =? f_type y) && list_eqb N.eqb (f_data x) (f_data y).

Definition msg_eqb (x y : msg) : bool :=
  match x, y with
  | SendData o1 d1, SendData o2 d2 => (o1 =? o2) && list_eqb N.eqb d1 d2
  | DataChunksSent n1, DataChunksSent n2 => n1 =? n2
  | Hello a1, Hello a2 => a1 =? a2
  | QueryState a1, QueryState a2 => a1 =? a2
  | ReportState a1 s1, ReportState a2 s2 => (a1 =? a2) && state_eqb s1 s2
  | RequestOperation a1 o1, RequestOperation a2 o2 => (a1 =? a2) && operation_eqb o1 o2
  | AckOperation a1 o1, AckOperation a2 o2 => (a1 =? a2) && operation_eqb o1 o2
  | PixelsComplete a1, PixelsComplete a2 => a1 =? a2
  | Goodbye a1, Goodbye a2 => a1 =? a2
  | Unknown f1, Unknown f2 => frame_eqb f1 f2
  | _, _ => false
  end.

Definition omsg_eqb : option msg -> option msg -> bool := option_eqb msg_eqb.
