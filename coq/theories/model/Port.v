(* Port.v — model of libs/serial/src/serial_port.rs (configure_port) and of the constructors
   SerialSignBus::try_new / Odk::try_new.  serial_core's `reconfigure` is modelled from its
   source: read_settings?; setup(&mut settings)?; write_settings(&settings).  Definitions only. *)
From Flipdot Require Export Base.
Local Open Scope N_scope.

Inductive baud_rate : Type :=
| Baud110 | Baud300 | Baud600 | Baud1200 | Baud2400 | Baud4800 | Baud9600 | Baud19200
| Baud38400 | Baud57600 | Baud115200 | BaudOther (n : N).
Inductive char_size : Type := Bits5 | Bits6 | Bits7 | Bits8.
Inductive parity : Type := ParityNone | ParityOdd | ParityEven.
Inductive stop_bits : Type := Stop1 | Stop2.
Inductive flow_control : Type := FlowNone | FlowSoftware | FlowHardware.

Record settings : Type := {
  s_baud : baud_rate; s_csize : char_size; s_parity : parity; s_stop : stop_bits;
  s_flow : flow_control
}.

(* Which device call refuses, if any. *)
Inductive failure : Type := FailNone | FailRead | FailSetBaud | FailWrite | FailTimeout.

Record sport : Type := {
  sp_settings : settings;          (* what the device is currently set to *)
  sp_timeout : option N;           (* read timeout in nanoseconds (a Duration), None = never set *)
  sp_fail : failure;
  sp_max_timeout : option N        (* the longest timeout (ns) the device accepts, None = any: a longer one is refused *)
}.
Definition timeout_accepted (p : sport) (t : N) : bool :=
  match sp_max_timeout p with Some l => t <=? l | None => true end.

Inductive perr : Type := PErr (at_call : failure).

Definition wanted : settings :=
  {| s_baud := Baud19200; s_csize := Bits8; s_parity := ParityNone; s_stop := Stop1;
     s_flow := FlowNone |}.

(* The closure configure_port hands to serial_core's reconfigure: the five setters, applied to whatever read_settings
   returned. *)
Definition set_baud (s : settings) (b : baud_rate) : settings :=
  {| s_baud := b; s_csize := s_csize s; s_parity := s_parity s; s_stop := s_stop s; s_flow := s_flow s |}.
Definition set_csize (s : settings) (c : char_size) : settings :=
  {| s_baud := s_baud s; s_csize := c; s_parity := s_parity s; s_stop := s_stop s; s_flow := s_flow s |}.
Definition set_parity (s : settings) (x : parity) : settings :=
  {| s_baud := s_baud s; s_csize := s_csize s; s_parity := x; s_stop := s_stop s; s_flow := s_flow s |}.
Definition set_stop (s : settings) (x : stop_bits) : settings :=
  {| s_baud := s_baud s; s_csize := s_csize s; s_parity := s_parity s; s_stop := x; s_flow := s_flow s |}.
Definition set_flow (s : settings) (x : flow_control) : settings :=
  {| s_baud := s_baud s; s_csize := s_csize s; s_parity := s_parity s; s_stop := s_stop s; s_flow := x |}.
Definition apply_setters (s : settings) : settings :=
  set_flow (set_stop (set_parity (set_csize (set_baud s Baud19200) Bits8) ParityNone) Stop1) FlowNone.

(* configure_port *)
Definition configure_port (p : sport) (timeout_ns : N) : result perr sport :=
  match sp_fail p with
  | FailRead => Err (PErr FailRead)                         (* read_settings()? *)
  | FailSetBaud => Err (PErr FailSetBaud)                   (* settings.set_baud_rate(..)? *)
  | FailWrite => Err (PErr FailWrite)                       (* write_settings()? : device unchanged *)
  | _ =>
      let p1 := {| sp_settings := apply_setters (sp_settings p);   (* read_settings, the setters, write_settings *)
                   sp_timeout := sp_timeout p; sp_fail := sp_fail p;
                   sp_max_timeout := sp_max_timeout p |} in
      match sp_fail p with
      | FailTimeout => Err (PErr FailTimeout)               (* set_timeout()? *)
      | _ =>
          if timeout_accepted p timeout_ns
          then Ok {| sp_settings := sp_settings p1; sp_timeout := Some timeout_ns;
                     sp_fail := sp_fail p; sp_max_timeout := sp_max_timeout p |}
          else Err (PErr FailTimeout)                       (* set_timeout(too long)? *)
      end
  end.

(* SerialSignBus::try_new: Duration::from_secs(5); Odk::try_new: Duration::from_secs(10) *)
Definition serial_bus_try_new (p : sport) : result perr sport := configure_port p 5000000000.
Definition odk_try_new (p : sport) : result perr sport := configure_port p 10000000000.
