(* Base.v — shared vocabulary of the flipdot model.
   Definitions only (no proofs) so that the model stays runnable when a proof breaks.
   Numbers are [N]; bytes are [N] below 256; wire strings and byte blocks are [list N]. *)
From Coq Require Export List NArith Bool.
Export ListNotations.
Local Open Scope N_scope.

(* Rust's Result. *)
Inductive result (E A : Type) : Type :=
| Ok (a : A)
| Err (e : E).
Arguments Ok {E A} a.
Arguments Err {E A} e.

(* [len() as N]. *)
Definition nlen {A : Type} (l : list A) : N := N.of_nat (length l).

Definition is_u8 (n : N) : bool := n <? 256.
Definition is_u16 (n : N) : bool := n <? 65536.
Definition is_u32 (n : N) : bool := n <? 4294967296.
Definition bytesb (l : list N) : bool := forallb is_u8 l.

(* Structural equality on byte lists / options, used where Rust uses derived PartialEq. *)
Fixpoint list_eqb {A : Type} (eqb : A -> A -> bool) (a b : list A) : bool :=
  match a, b with
  | [], [] => true
  | x :: a', y :: b' => eqb x y && list_eqb eqb a' b'
  | _, _ => false
  end.

Definition option_eqb {A : Type} (eqb : A -> A -> bool) (a b : option A) : bool :=
  match a, b with
  | None, None => true
  | Some x, Some y => eqb x y
  | _, _ => false
  end.

(* [repeat] with an [N] count. *)
Definition repeatN {A : Type} (x : A) (n : N) : list A := repeat x (N.to_nat n).

(* Replace element [i] of a list; [None] when out of range (Rust: index panic). *)
Fixpoint set_nth {A : Type} (i : nat) (x : A) (l : list A) : option (list A) :=
  match l, i with
  | [], _ => None
  | _ :: t, O => Some (x :: t)
  | h :: t, S i' => match set_nth i' x t with
                    | Some t' => Some (h :: t')
                    | None => None
                    end
  end.

(* Sum of a list of N. *)
Definition sumN (l : list N) : N := fold_right N.add 0 l.
