#!/bin/sh
# verify_seed.sh <worktree> <n> : confirm a seeded change ourselves in the scratch worktree:
#   with the patch: the existing suite passes and the demo fails; without it: the demo passes.
wt=$1; n=$2
cd "$wt" || exit 2
git checkout -q -- . ; git clean -fdq -- src libs tests examples ; rm -f tests/seed_demo_verify.rs
export CARGO_NET_OFFLINE=true CARGO_TARGET_DIR=${SEED_TARGET:-$wt/target}
cp _seed/$n/demo.rs tests/seed_demo_verify.rs
nopatch=$(cargo test --offline --test seed_demo_verify 2>&1 | grep -E '^test result' | tail -1)
git apply _seed/$n/patch.diff || { echo "PATCH DOES NOT APPLY"; exit 1; }
withpatch=$(cargo test --offline --test seed_demo_verify 2>&1 | grep -E '^test result' | tail -1)
rm -f tests/seed_demo_verify.rs
suite=$(cargo test --workspace --no-fail-fast --offline 2>&1 | grep -E '^test result' | awk '{p+=$4; f+=$6} END {print p" passed "f" failed"}')
git checkout -q -- . ; git clean -fdq -- src libs tests examples
echo "demo without patch: $nopatch"
echo "demo with patch   : $withpatch"
echo "suite with patch  : $suite"
