#!/bin/sh
VROOT=$(cd "$(dirname "$0")/.." && pwd)
# try_refactor.sh <worktree> : for every _seed/<n>/patch.diff (behaviour-preserving refactorings) apply it in the worktree
# and run ALL 20 quick checks against it (VERIF_REPO mode).  Any line other than OK is a false alarm to investigate.
wt=$1
for d in $wt/_seed/[0-9]*; do
  n=$(basename $d); [ -f $d/patch.diff ] || continue
  git -C $wt checkout -q -- . ; git -C $wt clean -fdq -- src libs tests examples
  git -C $wt apply $d/patch.diff || { echo "$wt/$n: PATCH-DOES-NOT-APPLY"; continue; }
  for i in 01 02 03 04 05 06 07 08 09 10 11 12 13 14 15 16 17 18 19 20; do
    out=$(cd $VROOT && VERIF_REPO=$wt ./check C$i 2>&1); rc=$?
    if [ $rc -ne 0 ]; then echo "$wt/$n C$i: ALARM $(echo "$out" | grep -E '^(VIOLATION|correspondence)' | head -2 | tr '\n' ' ')"; fi
  done
  echo "$wt/$n: done"
  git -C $wt checkout -q -- . ; git -C $wt clean -fdq -- src libs tests examples
done
