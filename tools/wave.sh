#!/bin/sh
VROOT=$(cd "$(dirname "$0")/.." && pwd)
# wave.sh <worktree-prefix> <prop> [tier] : for every _seed/<n> in <prefix><prop>: confirm it (verify_seed.sh) and run the check against it.
pre=$1; p=$2; tier=${3:-quick}; wt=$pre$p
for d in $wt/_seed/[0-9]*; do
  n=$(basename $d)
  [ -f $d/patch.diff ] || continue
  v=$($VROOT/tools/verify_seed.sh $wt $n 2>&1 | tr '\n' ' ')
  c=$($VROOT/tools/try_seed.sh $p $wt $n $tier 2>&1 | grep -E '^(==|correspondence)' | tr '\n' ' ')
  echo "$p/$n | $c | $v"
done
