#!/bin/sh
# keep_seed.sh <prop> <worktree> <n> <name> "<needs>" "<caught-by>" : store a confirmed seed under /verif/seeded/
prop=$1; wt=$2; n=$3; name=$4; needs=$5; caught=$6
d=/verif/seeded/$prop/$name; mkdir -p $d
cp $wt/_seed/$n/patch.diff $d/patch.diff; cp $wt/_seed/$n/demo.rs $d/demo.rs; cp $wt/_seed/$n/notes.md $d/notes.md
python3 - "$prop" "$name" "$needs" "$caught" <<'PY'
import json,sys
prop,name,needs,caught=sys.argv[1:5]
json.dump({"property":prop,"name":name,"needs_to_manifest":needs,
 "confirmed":"tools/verify_seed.sh in a scratch worktree: existing suite passes with the patch (135 tests incl. doc tests), demo fails with the patch, demo passes without it",
 "check_result":caught,
 "ran":["tools/verify_seed.sh <worktree> <n>","tools/seedtest.sh %s seeded/%s/%s/patch.diff"%(prop,prop,name)]},
 open(f"/verif/seeded/{prop}/{name}/meta.json","w"),indent=1)
PY
