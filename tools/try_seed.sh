#!/bin/sh
VROOT=$(cd "$(dirname "$0")/.." && pwd)
# try_seed.sh <prop> <worktree> <n> [tier] : run ./check <prop> against a scratch worktree with seed <n> applied
# (VERIF_REPO mode: /repo and the committed evidence are not touched), then undo the patch in the worktree.
prop=$1; wt=$2; n=$3; tier=${4:-quick}
git -C "$wt" checkout -q -- . ; git -C "$wt" clean -fdq -- src libs tests examples && rm -f "$wt/tests/seed_demo_verify.rs"
git -C "$wt" apply "$wt/_seed/$n/patch.diff" || { echo "$prop seed $n: PATCH-DOES-NOT-APPLY"; exit 2; }
out=$(cd $VROOT && VERIF_REPO="$wt" ./check $prop --tier $tier 2>&1); rc=$?
git -C "$wt" checkout -q -- . ; git -C "$wt" clean -fdq -- src libs tests examples
echo "$out" | grep -E '^(VIOLATION|OK|KNOWN|proof gate|correspondence|search)' | head -8
if [ $rc -eq 0 ]; then echo "== $prop seed $n: MISSED"
elif echo "$out" | grep -q '^VIOLATION.*replay=[^ ]*$'; then echo "== $prop seed $n: CAUGHT"
else echo "== $prop seed $n: CAUGHT-WITHOUT-INPUT"; fi
