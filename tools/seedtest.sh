#!/bin/sh
# seedtest.sh <prop> <patch.diff> [tier]: apply a seeded change to /repo, run the check, undo it.
prop=$1; patch=$2; tier=${3:-quick}
git -C /repo apply "$patch" || { echo "patch does not apply"; exit 2; }
cd /verif && ./check $prop --tier $tier 2>&1 | grep -E '^(VIOLATION|OK|KNOWN|proof gate|correspondence)' | head -8
git -C /repo checkout -- . ; git -C /repo clean -fdq -- src libs tests examples
