#!/usr/bin/env python3
"""model_mutants.py [--files Frame.v,Page.v] [--max N] [--jobs J] [--out FILE]

How well do the generated cases pin the MODEL down?  Each mutant is the Coq model with ONE small change (a comparison
flipped, a numeral moved by one, a boolean or a connective swapped, a branch's arithmetic operator changed); it is extracted
and built like the real oracle (model files only: no proofs are involved, a mutant that no longer compiles is dropped) and
run on the cases of the last ./check runs (.cache/run/Cxx/cases.txt).  A mutant whose answers equal the real model's
answers on every case of every property is a SURVIVOR: either the change cannot be observed (an equivalent mutant) or the
generators never reach the changed place -- a gap in the correspondence's input space worth a look.

This is a self-test of the correspondence machinery, not a proof and not part of any registered check.  Scratch copies live
under /tmp/mm_<pid>_<k> and are removed afterwards.
"""
import os, re, shutil, subprocess, sys, json, concurrent.futures as cf

ROOT = os.path.dirname(os.path.dirname(os.path.abspath(__file__)))
MODEL_FILES = ["Base.v", "Hex.v", "Frame.v", "Message.v", "SignType.v", "Page.v", "VSign.v", "Controller.v", "Io.v", "Serial.v", "Port.v"]
# which properties' cases exercise which model file (a superset is harmless, it only costs time)
USERS = {
    "Base.v": ["C01", "C06", "C13", "C10"], "Hex.v": ["C01", "C03"], "Frame.v": ["C01", "C02", "C03", "C05", "C15"],
    "Message.v": ["C04", "C05", "C13", "C10", "C09", "C16"], "SignType.v": ["C19", "C13", "C08"], "Page.v": ["C06", "C07", "C08"],
    "VSign.v": ["C12", "C13", "C14", "C08"], "Controller.v": ["C09", "C10", "C11", "C08"], "Io.v": ["C15", "C16", "C17"],
    "Serial.v": ["C16", "C17", "C18"], "Port.v": ["C20"],
}

SUBS = [
    (r"<\?", "<=?"), (r"<=\?", "<?"), (r"=\?", "<=?"),
    (r"\btrue\b", "false"), (r"\bfalse\b", "true"),
    (r"&&", "||"), (r"\|\|", "&&"),
    (r" \+ ", " - "), (r" - ", " + "), (r" \* ", " + "), (r" / ", " * "), (r" mod ", " / "),
]


def strip_comments_mask(text):
    """mask[i] is True where text[i] is inside a (possibly nested) Coq comment or a string"""
    mask = [False] * len(text)
    depth, i, in_str = 0, 0, False
    while i < len(text):
        if not in_str and text.startswith("(*", i):
            depth += 1; mask[i] = mask[i + 1] = True; i += 2; continue
        if not in_str and depth > 0 and text.startswith("*)", i):
            mask[i] = mask[i + 1] = True; depth -= 1; i += 2; continue
        if depth == 0 and text[i] == '"':
            in_str = not in_str; mask[i] = True; i += 1; continue
        mask[i] = depth > 0 or in_str
        i += 1
    return mask


def mutants_of(fname):
    text = open(os.path.join(ROOT, "coq/theories/model", fname)).read()
    mask = strip_comments_mask(text)
    out = []
    for pat, rep in SUBS:
        for m in re.finditer(pat, text):
            if mask[m.start()]:
                continue
            out.append((m.start(), m.end(), rep, "%s -> %s" % (m.group(0).strip(), rep.strip())))
    for m in re.finditer(r"(?<![\w.%])(\d+)(?![\w.])", text):
        if mask[m.start()]:
            continue
        n = int(m.group(1))
        if n > 70000:
            continue
        out.append((m.start(), m.end(), str(n + 1), "%d -> %d" % (n, n + 1)))
        if n > 0:
            out.append((m.start(), m.end(), str(n - 1), "%d -> %d" % (n, n - 1)))
    res = []
    for (a, b, rep, what) in out:
        line = text.count("\n", 0, a) + 1
        # skip lines that are Notation / Require / Arguments / Scope bookkeeping
        ls = text.rfind("\n", 0, a) + 1
        le = text.find("\n", a)
        lt = text[ls:le]
        if re.match(r"\s*(Notation|From|Require|Arguments|Local Open|Open|Infix|Declare|Reserved)", lt):
            continue
        res.append({"file": fname, "line": line, "what": what, "text": text[:a] + rep + text[b:], "src": lt.strip()[:160]})
    return res


def run(cmd, cwd, timeout=600):
    p = subprocess.run(cmd, cwd=cwd, stdout=subprocess.PIPE, stderr=subprocess.STDOUT, timeout=timeout)
    return p.returncode, p.stdout.decode("utf-8", "replace")


def try_mutant(k, mu):
    d = "/tmp/mm_%d_%d" % (os.getpid(), k)
    shutil.rmtree(d, ignore_errors=True)
    os.makedirs(d + "/coq/theories/model"); os.makedirs(d + "/coq/theories/extract"); os.makedirs(d + "/oracle")
    try:
        for f in MODEL_FILES:
            shutil.copy(os.path.join(ROOT, "coq/theories/model", f), d + "/coq/theories/model/" + f)
        open(d + "/coq/theories/model/" + mu["file"], "w").write(mu["text"])
        shutil.copy(os.path.join(ROOT, "coq/theories/extract/Extract.v"), d + "/coq/theories/extract/Extract.v")
        shutil.copy(os.path.join(ROOT, "oracle/driver.ml"), d + "/oracle/driver.ml")
        for f in MODEL_FILES:
            rc, out = run(["coqc", "-q", "-w", "-all", "-Q", "theories", "Flipdot", "theories/model/" + f], d + "/coq", 300)
            if rc != 0:
                return dict(mu, text=None, verdict="stillborn", detail=out[-200:])
        rc, out = run(["coqc", "-q", "-w", "-all", "-Q", "../coq/theories", "Flipdot", "../coq/theories/extract/Extract.v"], d + "/oracle", 300)
        if rc != 0:
            return dict(mu, text=None, verdict="stillborn", detail=out[-200:])
        rc, out = run(["ocamlfind", "ocamlopt", "-w", "-a", "model.mli", "model.ml", "driver.ml", "-o", "fdoracle"], d + "/oracle", 300)
        if rc != 0:
            return dict(mu, text=None, verdict="stillborn", detail=out[-200:])
        killed_by = None
        for pid in USERS[mu["file"]]:
            cases = os.path.join(ROOT, ".cache/run", pid, "cases.txt")
            model = os.path.join(ROOT, ".cache/run", pid, "model.txt")
            if not (os.path.exists(cases) and os.path.exists(model)):
                continue
            try:
                with open(cases, "rb") as fi:
                    p = subprocess.run(["sh", "-c", "ulimit -v 16000000; exec ./fdoracle"], cwd=d + "/oracle", stdin=fi, stdout=subprocess.PIPE, stderr=subprocess.DEVNULL, timeout=900)
                got = p.stdout
            except subprocess.TimeoutExpired:
                killed_by = pid + " (timeout)"; break
            want = open(model, "rb").read()
            if got != want:
                # first differing line, for the record
                gl, wl = got.split(b"\n"), want.split(b"\n")
                idx = next((i for i, (x, y) in enumerate(zip(gl, wl)) if x != y), min(len(gl), len(wl)))
                killed_by = "%s case %d" % (pid, idx + 1); break
        return dict(mu, text=None, verdict="killed" if killed_by else "SURVIVED", detail=killed_by or "")
    except Exception as e:
        return dict(mu, text=None, verdict="error", detail=str(e)[:200])
    finally:
        shutil.rmtree(d, ignore_errors=True)


def main():
    args = sys.argv[1:]
    files = MODEL_FILES[1:]
    mx, jobs, outp = 10**9, 3, os.path.join(ROOT, "seeded/model_mutants.json")
    i = 0
    while i < len(args):
        if args[i] == "--files": files = args[i + 1].split(","); i += 2
        elif args[i] == "--max": mx = int(args[i + 1]); i += 2
        elif args[i] == "--jobs": jobs = int(args[i + 1]); i += 2
        elif args[i] == "--out": outp = args[i + 1]; i += 2
        else: i += 1
    mus = []
    for f in files:
        ms = mutants_of(f)
        step = max(1, len(ms) // mx) if mx < len(ms) else 1
        mus.extend(ms[::step][:mx])
    print("%d mutants" % len(mus), flush=True)
    res = []
    with cf.ThreadPoolExecutor(max_workers=jobs) as ex:
        for r in ex.map(lambda kv: try_mutant(*kv), list(enumerate(mus))):
            res.append(r)
            print("%-12s %s:%d  %-14s %s | %s" % (r["verdict"], r["file"], r["line"], r["what"], r["detail"], r["src"][:100]), flush=True)
    summary = {v: sum(1 for r in res if r["verdict"] == v) for v in ("killed", "SURVIVED", "stillborn", "error")}
    json.dump({"summary": summary, "mutants": res}, open(outp, "w"), indent=1)
    print(summary)


if __name__ == "__main__":
    main()
