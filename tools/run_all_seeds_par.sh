#!/bin/sh
VROOT=$(cd "$(dirname "$0")/.." && pwd)
# run_all_seeds_par.sh [jobs] [tier] : every kept seeded change, in parallel, each applied in a scratch worktree of /repo
# (never in /repo itself) and examined with VERIF_REPO=<worktree> ./check <prop>.  One line per seed.
jobs=${1:-8}; tier=${2:-quick}
cd $VROOT
# SEEDLIST=<file> restricts the run to the seed directories listed in it (one 'seeded/<prop>/<name>/' per line)
if [ -n "$SEEDLIST" ]; then cp "$SEEDLIST" /tmp/seedlist.$$; else ls -d seeded/*/*/ | sort > /tmp/seedlist.$$; fi
# the scratch worktrees one after the other (concurrent `git worktree add` calls can lose to each other's lock)
k=0
while [ $k -lt $jobs ]; do
  git -C /repo worktree add -q --detach /tmp/sw_$k HEAD 2>/dev/null || { sleep 1; git -C /repo worktree add -q --detach /tmp/sw_$k HEAD; }
  k=$((k+1))
done
k=0
while [ $k -lt $jobs ]; do
  ( wt=/tmp/sw_$k
    [ -d "$wt" ] || { echo "worker $k: no worktree"; exit 1; }
    awk -v k=$k -v j=$jobs 'NR % j == k' /tmp/seedlist.$$ | while read d; do
      p=$(basename $(dirname $d)); name=$(basename $d)
      git -C $wt checkout -q -- . ; git -C $wt clean -fdq -- src libs tests examples
      if ! git -C $wt apply "$VROOT/$d/patch.diff" 2>/dev/null; then echo "$p/$name: PATCH-DOES-NOT-APPLY"; continue; fi
      out=$(VERIF_REPO=$wt ./check $p --tier $tier 2>&1); rc=$?
      git -C $wt checkout -q -- . ; git -C $wt clean -fdq -- src libs tests examples
      if [ $rc -eq 0 ]; then echo "$p/$name: MISSED"
      elif echo "$out" | grep -q '^VIOLATION.*replay=[^ ]*$'; then echo "$p/$name: CAUGHT"
      else echo "$p/$name: CAUGHT-WITHOUT-INPUT"; fi
    done
    git -C /repo worktree remove --force $wt ) &
  k=$((k+1))
done
wait
git -C /repo worktree prune; rm -f /tmp/seedlist.$$
