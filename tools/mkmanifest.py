#!/usr/bin/env python3
"""Regenerate /verif/MANIFEST.json from the table below (claimed checks are those whose props file exists)."""
import json, os
ROOT = os.path.dirname(os.path.dirname(os.path.abspath(__file__)))
props = [json.loads(l) for l in open(os.path.join(ROOT, "properties.jsonl"))]
NOTE = ("Trusted: Coq 8.16.1 kernel (no axioms: every Print Assumptions must be closed), extraction with ExtrOcamlBasic only, "
        "oracle/driver.ml, the Rust harness and ./check. The theorems are about a hand-written model; the tie to /repo's working tree "
        "is the per-run correspondence (differential) check, exhaustive only where stated, plus model-free monitors on the implementation.")
T = {
 "C01": "Unbounded theorems (encode shape, LRC sum, decode∘encode = id with and without CRLF, no length truncation, injectivity) about a hand-written Gallina model of frame.rs, plus a correspondence run of the Rust code and the extracted model on every data length 0..=255, all types, addresses across the range, owned and borrowed data; model-free shape/round-trip monitor on every case.",
 "C02": "C02_corruption proved for every valid frame, every position, every replacement value and all five corruption kinds on both encodings (in fact for every accepted string); accepted strings always have consistent length and checksum. Correspondence over the corruption product of short/adversarial frames (incl. frames embedding another frame) with a model-free 'error or original' monitor.",
 "C03": "Decoder model proved total, to accept exactly the declarative WireSpec.Documented language, with the three error classes characterised as iff-statements (precedence) and re-encoding = normalisation; correspondence exhaustive over all strings up to length 3 (quick) / 4 (thorough) over the 28-symbol structural alphabet plus prefix/suffix/replacement/Unicode-lookalike families and random mutation over all byte values; an independent reference parser in the harness is compared on every case.",
 "C04": "Frame->Message->Frame identity for every frame, msg_of_frame = independent code table (CodeTable.table_msg), recognised <-> table, address carried, table bijectivity; correspondence exhaustive over 256 types x 256 first bytes x small lengths and every recognised row across the address range.",
 "C05": "wire_trip m = Some m for every specific well-formed message (both encodings) and injectivity, composed from the codec theorem; correspondence over every kind x addresses x 13 states x 6 operations and SendData of every length 0..=255.",
 "C06": "set/get/non-interference/frame conditions and refinement of an abstract bitmap for every operation list and every page size; out-of-bounds <-> panic; correspondence on byte images of pages over an exhaustive (thorough) or sampled (quick) box of sizes plus the 11 sign sizes, fresh and borrowed pages, with an independent bitmap monitor.",
 "C07": "layout of Page::new, size arithmetic (multiple of 16, < 2^62), pixel location and bit injectivity, from_bytes <-> length; correspondence over the size box, ids, every pixel location and candidate lengths total±17.",
 "C08": "Closed loop controller x virtual signs proved from EVERY state satisfying the sign invariant VInv0 (a superset of the reachable ones), any bus population with distinct addresses, all 11 types, both styles, page lists of every length (under the controller's 16-bit chunk counter guard): configure, configure_if_needed, send_pages (pages arrive bit-exact, in order), show/load-next, repeat; and the whole user-level path: pages made with Sign::create_page and drawn on with ANY sequence of pixel operations arrive in order, bit for bit, and show exactly the drawn picture (C08_api_pages_end_to_end, joining the page theorems of C06/C07 to the closed loop). Correspondence from every implementation state found by a BFS of the real VirtualSign's state graph, with a property-level monitor; page lists with repeated ids; create_page for all 11 types.",
 "C09": "Shape of every transfer attempt for all items and all reply scripts (prefixes of attempt_msgs, <= 3 attempts, offsets 0,16,.., count, config block), under the 16-bit guards; correspondence on recorded bus traces of the real controller incl. retries, items at the 64 KiB offset limit, page literals of the wrong length, every wrong acknowledgement of the receive request and deviations, with an independent shape monitor.",
 "C10": "Code-shaped controller model proved equal (messages and outcome) to an explicit documented-protocol automaton (ProtoSpec) for EVERY reply script; correspondence by exhaustive reply-alphabet DFS on the real controller to the natural end of each operation (polling loops bounded).",
 "C11": "Four invariants (confirmed success, fail-stop, bounded retries after own failure report only, own address only / foreign-blind) proved for every script; checked as monitors on every DFS conversation of the real controller.",
 "C12": "vstep never returns the panic outcome from any state satisfying VInv0; VInv0 holds initially and is preserved by EVERY message (no well-formedness needed), lifted to histories and buses. Correspondence: BFS of the real VirtualSign's state graph to a fixed point under bounds + random walks (+ a 65540-chunk walk in thorough), catch_unwind on every step.",
 "C13": "Replies and reported state of the model equal a tabular sign-side spec (SignSpec) for every step/history; illegal requests are silent and leave the whole state unchanged; reset; stored pages complete and assembled in arrival order. Every BFS transition of the real sign is compared with the model and with an independent transition table in the harness.",
 "C14": "For distinct addresses and every history: only the addressed sign changes and it behaves as it would alone, absent addresses get no reply, replies carry the addressed sign's address, unaddressed data only affects receiving signs, each sign's final state equals its solo run (projection). Correspondence: random interleaved walks on 1..4 real signs with a snapshot monitor.",
 "C15": "Frame::read consumes exactly the first line for every content, fragmentation and interrupt placement (model of std's one-byte BufReader loop), back-to-back frames, error cases; write_all delivers exactly the encoding or a strict prefix with an I/O error. Correspondence through instrumented Read/Write that honour schedules for any request size (exhaustive short schedules, fault at every call index).",
 "C16": "serial_process: exactly one frame written, a line read iff Hello/QueryState/RequestOperation, reply = decoding of that line, every failure is an error (never Ok(None) or an invented reply). Correspondence over all kinds x reply tapes x injected port failures on the real SerialSignBus.",
 "C17": "Generic simulation: any controller program run over the modelled wire (serial bus, pipes, ODK bridge, virtual bus) equals the strict direct run (same outcome, same signs, empty inbox); success-together and same-signs-on-failure for the six operations; bridge error/forwarding lemmas; and the same over byte streams that fragment every read and write arbitrarily and report Interrupted arbitrarily often (C17_simulation_fragmented: C15 composed with C17). Correspondence: real Sign->SerialSignBus->duplex pipe->Odk->VirtualSignBus graph against the direct graph and the model, on a plain and on a fragmenting/interrupting pipe; raw blank, malformed, maximum-length and back-to-back lines injected at the bridge.",
 "C18": "PARTIAL: proved placement of Sleep 30 / Sleep 100 in the event trace of serial_process and the induced lower bounds in a timed-trace semantics; that thread::sleep is called with those durations and honours them is MEASURED, not proved: monotonic clock at the port's read/write boundaries, from the end of a frame's write to the start of the NEXT frame's write and from the end of the reply's read to the return, on an instantaneous port and on one whose transfers take real time; minimum over trials for unpaced exchanges.",
 "C19": "finite case analysis over the 11 types (length, round trip, fields vs dimensions, what the virtual sign derives) and totality/accept-iff for all byte lists; correspondence exhaustive over all 65536 (family,id) pairs and lengths 0..=40.",
 "C20": "configure_port / both constructors: Ok => 19200 8N1 no flow control + the timeout (5 s bus, 10 s bridge), a refusal at any of the four device calls => that error and no object; for all prior settings. Correspondence exhaustive over the settings product x failure points x constructors on the real code, 7 error kinds per failure point (the returned error must be the injected one), 16 timeouts from 0 ns to Duration::MAX applied exactly (serial-core's reconfigure is modelled from its source).",
}
claimed = [p["id"] for p in props if os.path.exists(os.path.join(ROOT, "coq", "theories", "props", p["id"] + ".v")) and p["id"] in T
           and p["id"] not in os.environ.get("UNCLAIM", "").split(",")]
checks = []
for pid in claimed:
    checks.append({
        "property_id": pid, "quick_cmd": f"./check {pid}", "thorough_cmd": f"./check {pid} --tier thorough",
        "evidence_file": f"/verif/evidence/{pid}.json", "replay_cmd_template": f"./check {pid} --replay {{path}}",
        "engine": "coq-model+correspondence",
        "level_claimed": {"category": "proof", "text": T[pid], "design_ref": f"DESIGN.md §4 {pid}"},
        "level_note": NOTE,
        "technique": "Coq proof about hand-written model + per-run model/implementation correspondence",
    })
na = [{"property_id": p["id"], "reason": "claimed by design (DESIGN.md §4); its check is still being built in this round and is not registered until it passes"}
      for p in props if p["id"] not in claimed]
m = {"version": 1, "setup_cmd": "sh ./setup.sh",
     "hooks": {"guard": "flipdot_verif", "enable": "RUSTFLAGS=\"--cfg flipdot_verif\" (no source hooks are needed; all observation goes through public API)",
               "baseline_off_cmd": "cd /repo && cargo test --workspace --no-fail-fast --offline", "source_commits": [], "add_only": True},
     "engines": [{"name": "coq-model+correspondence", "path": "/verif/check", "serves_properties": claimed,
                  "kind_free_text": "Rocq/Coq 8.16 theorems about an executable Gallina model (coq/theories), tied to the Rust source on every run by a differential correspondence check (harness/ vs extracted OCaml oracle/)"}],
     "checks": checks,
     "notes": "Fix commits in /repo: 8eae252 (F1), 679cb71 (F2a), 1109ff0 (F2b), 9a9a4c0 (F2c), e2e0aca (F3), a9512f6 (F4); see known_findings.txt and DESIGN.md §5.",
     "not_applicable": na}
json.dump(m, open(os.path.join(ROOT, "MANIFEST.json"), "w"), indent=1)
print("claimed:", " ".join(claimed))
