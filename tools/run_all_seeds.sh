#!/bin/sh
# run_all_seeds.sh [tier] [prop...] : apply every kept seeded change to /repo in turn, run its property's check, undo.
# Prints one line per seed: <prop>/<name>: CAUGHT|MISSED (+ the first VIOLATION/OK line).
tier=${1:-quick}; shift 2>/dev/null
props=${*:-$(ls /verif/seeded)}
cd /verif
for p in $props; do
  for d in seeded/$p/*/; do
    [ -f "$d/patch.diff" ] || continue
    name=$(basename $d)
    if ! git -C /repo apply "$PWD/$d/patch.diff" 2>/dev/null; then echo "$p/$name: PATCH-DOES-NOT-APPLY"; continue; fi
    out=$(./check $p --tier $tier 2>&1); rc=$?
    git -C /repo checkout -- .
    line=$(echo "$out" | grep -E '^(VIOLATION|OK)' | head -1)
    if [ $rc -ne 0 ]; then echo "$p/$name: CAUGHT rc=$rc $line"; else echo "$p/$name: MISSED $line"; fi
  done
done
