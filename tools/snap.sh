#!/bin/sh
# snap.sh <name> : copy /verif as it is now (built .vo files, oracle and cargo target included, .cache/alt and replays
# excluded) to /tmp/vsnap_<name> so that long background jobs (seed regressions, refactoring trials, thorough runs) are not
# disturbed by further edits to /verif.  Run tools from the copy: /tmp/vsnap_<name>/tools/...  Remove the copy afterwards.
name=$1
dst=/tmp/vsnap_$name
rm -rf "$dst"
mkdir -p "$dst"
rsync -a --exclude '.git' --exclude '.cache/alt' --exclude '.cache/run' --exclude 'replays' /verif/ "$dst"/
echo "$dst"
