//! SplitMix64: every random choice of a run derives from one state seeded by VERIF_SEED.
pub struct Rng(pub u64);

impl Rng {
    pub fn new(seed: u64, stream: u64) -> Self {
        Rng(seed.wrapping_mul(0x9E3779B97F4A7C15) ^ stream.wrapping_mul(0xD1B54A32D192ED03) ^ 0x1234_5678_9ABC_DEF0)
    }
    pub fn next(&mut self) -> u64 {
        self.0 = self.0.wrapping_add(0x9E3779B97F4A7C15);
        let mut z = self.0;
        z = (z ^ (z >> 30)).wrapping_mul(0xBF58476D1CE4E5B9);
        z = (z ^ (z >> 27)).wrapping_mul(0x94D049BB133111EB);
        z ^ (z >> 31)
    }
    pub fn below(&mut self, n: u64) -> u64 {
        if n == 0 {
            0
        } else {
            self.next() % n
        }
    }
    pub fn byte(&mut self) -> u8 {
        (self.next() & 0xFF) as u8
    }
    pub fn bytes(&mut self, n: usize) -> Vec<u8> {
        (0..n).map(|_| self.byte()).collect()
    }
    pub fn pick<'a, T>(&mut self, v: &'a [T]) -> &'a T {
        &v[self.below(v.len() as u64) as usize]
    }
    pub fn chance(&mut self, num: u64, den: u64) -> bool {
        self.below(den) < num
    }
}
