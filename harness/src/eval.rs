//! Evaluates one case line on the real implementation and prints the canonical result line
//! (the same grammar as oracle/driver.ml's `handle`).
use std::cell::RefCell;
use std::collections::{HashMap, VecDeque};
use std::error::Error;
use std::panic::{catch_unwind, AssertUnwindSafe};
use std::rc::Rc;

use flipdot::{Sign, SignError};
use flipdot_core::{Address, Data, Frame, Message, MsgType, Page, PageFlipStyle, PageId, SignBus, SignType};
use flipdot_testing::{VirtualSign, VirtualSignBus};

use crate::proto::*;

fn num<T: std::str::FromStr>(s: &str) -> T
where
    <T as std::str::FromStr>::Err: std::fmt::Debug,
{
    s.parse::<T>().expect("bad number")
}

/// Runs `f`, mapping a panic to None.
pub fn hash_of<T: std::hash::Hash>(x: &T) -> u64 {
    use std::hash::Hasher;
    let mut h = std::collections::hash_map::DefaultHasher::new();
    x.hash(&mut h);
    h.finish()
}

pub fn guarded<T>(f: impl FnOnce() -> T) -> Option<T> {
    catch_unwind(AssertUnwindSafe(f)).ok()
}

pub fn mkframe(a: u16, t: u8, d: Vec<u8>, borrowed: bool) -> Frame<'static> {
    if borrowed {
        // borrowed data is a sub-slice of somebody else's buffer: it starts at any alignment and has other bytes
        // before and after it (where, is decided by its content)
        let off = (d.iter().map(|b| *b as usize).sum::<usize>() + d.len()) % 9;
        mkframe_borrowed_at(a, t, &d, off)
    } else {
        // owned data arrives in buffers of every provenance: exactly sized, or with spare capacity left over from
        // whatever built them (every third block, decided by its content)
        let d = if d.iter().map(|b| *b as usize).sum::<usize>() % 3 == 1 {
            let mut v = Vec::with_capacity(d.len() + 37);
            v.extend_from_slice(&d);
            v
        } else {
            d
        };
        Frame::new(Address(a), MsgType(t), Data::try_new(d).expect("data too long"))
    }
}

/// A frame whose data is borrowed from the middle of a longer buffer: `off` bytes (0xA5) before it, 11 bytes (0x5A) after.
pub fn mkframe_borrowed_at(a: u16, t: u8, d: &[u8], off: usize) -> Frame<'static> {
    let mut buf = vec![0xA5u8; off];
    buf.extend_from_slice(d);
    buf.extend_from_slice(&[0x5A; 11]);
    let leaked: &'static [u8] = Box::leak(buf.into_boxed_slice());
    Frame::new(Address(a), MsgType(t), Data::try_new(&leaked[off..off + d.len()]).expect("data too long"))
}

/// Evaluates `f` on the frame with owned data or, for borrowed data, on the data borrowed at every offset 0..=16 of a
/// longer buffer: where the bytes happen to lie in memory must not matter, so the first result that differs from the
/// others is the one reported.
fn at_every_alignment(a: u16, t: u8, d: Vec<u8>, borrowed: bool, f: impl Fn(&Frame<'static>) -> String) -> String {
    let first = f(&mkframe(a, t, d.clone(), borrowed));
    if borrowed {
        for off in 0..=16usize {
            let r = f(&mkframe_borrowed_at(a, t, &d, off));
            if r != first {
                return r;
            }
        }
    }
    first
}

/// Reply script element for the scripted bus.
#[derive(Clone, Debug)]
pub enum Reply {
    /// the bus call fails; the byte selects WHICH error it fails with (all are bus errors to the controller)
    BusErr(u8),
    Rep(Option<Message<'static>>),
}

pub fn reply_of_str(s: &str) -> Reply {
    match s {
        "E" | "ET" | "EI" | "EW" | "EF" | "EG" | "ES" | "EB" => Reply::BusErr(s.as_bytes().get(1).copied().unwrap_or(b' ')),
        "N" => Reply::Rep(None),
        _ => Reply::Rep(Some(msg_of_str(s))),
    }
}

#[derive(Debug)]
struct ScriptError(&'static str);
impl std::fmt::Display for ScriptError {
    fn fmt(&self, f: &mut std::fmt::Formatter<'_>) -> std::fmt::Result {
        write!(f, "{}", self.0)
    }
}
impl Error for ScriptError {}

/// A SignBus that records what it is sent and answers from a script.
pub struct ScriptBus {
    /// wall-clock time the bus takes before the reply with this index (a slow line or sign), if any
    pub slow_at: Option<(usize, std::time::Duration)>,
    pub script: VecDeque<Reply>,
    pub trace: Vec<Message<'static>>,
    pub blocked: bool,
    pub calls_after_error: usize,
    pub errored: bool,
    /// once the bus has failed it stays failed and takes no further note of what it is given (for callers whose page
    /// iterator makes calls of its own and shrugs off their errors)
    pub sticky: bool,
}

impl ScriptBus {
    pub fn new(script: Vec<Reply>) -> Self {
        ScriptBus { slow_at: None, script: script.into(), trace: vec![], blocked: false, calls_after_error: 0, errored: false, sticky: false }
    }
}

impl SignBus for ScriptBus {
    fn process_message<'a>(&mut self, message: Message<'_>) -> Result<Option<Message<'a>>, Box<dyn Error + Send + Sync>> {
        if self.sticky && (self.errored || self.blocked) {
            return Err(Box::new(ScriptError("the bus has failed")));
        }
        if self.errored || self.blocked {
            self.calls_after_error += 1;
        }
        self.trace.push(own_msg(&message));
        if let Some((i, d)) = self.slow_at {
            if i + 1 == self.trace.len() {
                std::thread::sleep(d);
            }
        }
        match self.script.pop_front() {
            None => {
                self.blocked = true;
                Err(Box::new(ScriptError("script exhausted")))
            }
            Some(Reply::BusErr(kind)) => {
                self.errored = true;
                // E: a custom error; ET/EI/EW: std::io::Error of kind TimedOut / Interrupted / WouldBlock;
                // EF: FrameError::Io wrapping a TimedOut; EG: FrameError::Io wrapping an Interrupted
                Err(match kind {
                    b'T' => Box::new(std::io::Error::new(std::io::ErrorKind::TimedOut, "scripted timeout")),
                    b'I' => Box::new(std::io::Error::new(std::io::ErrorKind::Interrupted, "scripted interrupt")),
                    b'W' => Box::new(std::io::Error::new(std::io::ErrorKind::WouldBlock, "scripted would-block")),
                    b'F' => Box::new(flipdot_core::FrameError::from(std::io::Error::new(std::io::ErrorKind::TimedOut, "scripted timeout"))),
                    b'G' => Box::new(flipdot_core::FrameError::from(std::io::Error::new(std::io::ErrorKind::Interrupted, "scripted interrupt"))),
                    // the bus's own error happens to be a SignError (a bus built on top of another Sign)
                    b'S' => Box::new(SignError::UnexpectedResponse { expected: "scripted".to_string(), actual: "scripted".to_string() }),
                    b'B' => Box::new(SignError::Bus { source: Box::new(ScriptError("scripted inner bus error")) }),
                    _ => Box::new(ScriptError("scripted bus error")),
                })
            }
            Some(Reply::Rep(r)) => Ok(r.map(|m| own_msg(&m))),
        }
    }
}

// ---- "autoref specialisation" probe: Some(data) if `&'static [u8; N]: Into<Data>` exists, None otherwise ----
struct Probe<T>(T);
trait HasConversion {
    fn convert(&self) -> Option<Data<'static>>;
}
impl<T: Copy + Into<Data<'static>>> HasConversion for Probe<T> {
    fn convert(&self) -> Option<Data<'static>> {
        Some(self.0.into())
    }
}
trait NoConversion {
    fn convert(&self) -> Option<Data<'static>>;
}
impl<T> NoConversion for &Probe<T> {
    fn convert(&self) -> Option<Data<'static>> {
        None
    }
}
const fn pattern<const N: usize>() -> [u8; N] {
    let mut a = [0u8; N];
    let mut i = 0;
    while i < N {
        a[i] = (i as u8).wrapping_mul(7);
        i += 1;
    }
    a
}
fn static_array_probe(n: usize) -> Option<Data<'static>> {
    static A0: [u8; 0] = pattern::<0>();
    static A1: [u8; 1] = pattern::<1>();
    static A4: [u8; 4] = pattern::<4>();
    static A5: [u8; 5] = pattern::<5>();
    static A16: [u8; 16] = pattern::<16>();
    static A255: [u8; 255] = pattern::<255>();
    static A256: [u8; 256] = pattern::<256>();
    match n {
        0 => (&Probe(&A0)).convert(),
        1 => (&Probe(&A1)).convert(),
        4 => (&Probe(&A4)).convert(),
        5 => (&Probe(&A5)).convert(),
        16 => (&Probe(&A16)).convert(),
        255 => (&Probe(&A255)).convert(),
        256 => (&Probe(&A256)).convert(),
        _ => None,
    }
}

/// A controller operation token: CFG.a.t CIN.a.t SND.a.pages SHW.a.fuel LNX.a.fuel BYE.a
/// Is this an SND operation with a page literal that Page::from_bytes refuses?
pub fn snd_unconstructible(op: &str) -> bool {
    let p: Vec<&str> = op.splitn(3, '.').collect();
    (p[0] == "SND" || p[0] == "SNP" || p[0] == "SNW" || p[0] == "SNL" || p[0] == "SNQ" || p[0] == "SNF") && guarded(|| try_pages_of_str(p[2]).is_none()).unwrap_or(true)
}

thread_local! {
    /// The bus the current controller operation runs on, for page iterators that look at it while they are driven.
    pub static PEEK_BUS: RefCell<Option<Rc<RefCell<dyn SignBus>>>> = RefCell::new(None);
}

pub fn run_cop(op: &str, bus: Rc<RefCell<dyn SignBus>>) -> Option<Result<String, SignError>> {
    PEEK_BUS.with(|p| *p.borrow_mut() = Some(bus.clone()));
    let p: Vec<&str> = op.splitn(3, '.').collect();
    let a = Address(num::<u16>(p[1]));
    // The sign type only matters for configure / configure_if_needed.
    let ty = match p[0] {
        "CFG" | "CIN" => SIGN_TYPES[num::<usize>(p[2])],
        _ => SignType::Max3000Side90x7,
    };
    let sign = Sign::new(bus, a, ty);
    run_cop_on(&sign, op)
}

/// One controller operation on an EXISTING Sign object (so that several operations can share one object).
pub fn run_cop_on(sign: &Sign, op: &str) -> Option<Result<String, SignError>> {
    let p: Vec<&str> = op.splitn(3, '.').collect();
    match p[0] {
        "CFG" => guarded(|| sign.configure().map(|_| String::new())),
        "CIN" => guarded(|| sign.configure_if_needed().map(|_| String::new())),
        "SND" => {
            let pages = pages_of_str(p[2]);
            // send_pages takes any cloneable iterator of page references: a slice, a filtered iterator (no exact size),
            // a flattened nest and a from_fn generator (no upper bound) are all "that list of pages"
            let kind = pages.iter().map(|pg| pg.as_bytes().iter().map(|b| *b as usize).sum::<usize>()).sum::<usize>() % 4;
            match kind {
                0 => guarded(|| sign.send_pages(&pages).map(|s| format!(".{}", str_style(s)))),
                1 => guarded(|| sign.send_pages(pages.iter().filter(|pg| pg.width() < u32::MAX)).map(|s| format!(".{}", str_style(s)))),
                2 => {
                    let nested: Vec<Vec<&Page<'static>>> = pages.chunks(2).map(|c| c.iter().collect()).collect();
                    guarded(|| sign.send_pages(nested.iter().flatten().copied()).map(|s| format!(".{}", str_style(s))))
                }
                _ => {
                    let slice = &pages[..];
                    let mut i = 0usize;
                    let it = std::iter::from_fn(move || {
                        let r = slice.get(i);
                        i += 1;
                        r
                    });
                    guarded(|| sign.send_pages(it).map(|s| format!(".{}", str_style(s))))
                }
            }
        }
        "SNP" => {
            // the caller's iterator looks at the shared bus each time a page is taken from it (a progress display
            // reading a counter off the bus, say): the bus must not be borrowed by the controller at that moment
            let pages = pages_of_str(p[2]);
            let bus = PEEK_BUS.with(|b| b.borrow().clone());
            let it = pages.iter().inspect(move |_| {
                if let Some(b) = &bus {
                    let _look = b.borrow();
                }
            });
            guarded(|| sign.send_pages(it).map(|s| format!(".{}", str_style(s))))
        }
        "SNN" => {
            // SNN.a.<calls>.<pages>: the caller's iterator makes calls of its own on the same bus each time a page is taken
            // from it -- on this very Sign object when the call is for this sign, on a Sign of its own otherwise -- and
            // shrugs off their errors (a panic in them is a panic of the iterator)
            let (nested, pages_s) = p[2].split_once('.').expect("SNN needs calls and pages");
            let pages = pages_of_str(pages_s);
            let mut pre: Vec<Vec<String>> = nested.split('~').map(|f| if f == "-" || f == "@-" { vec![] } else { f.trim_start_matches('@').split('/').map(|c| c.replace(':', ".")).collect() }).collect();
            // a first field that begins with '@' holds the calls the iterator makes each time it is CLONED
            let on_clone: Vec<String> = if nested.starts_with('@') { pre.remove(0) } else { vec![] };
            let bus = PEEK_BUS.with(|b| b.borrow().clone()).expect("a bus");
            let call = |c: &String| {
                // "!<call>": the iterator catches a panic of the call as well and carries on
                let (swallow, c) = match c.strip_prefix('!') {
                    Some(r) => (true, r.to_string()),
                    None => (false, c.clone()),
                };
                let c = &c;
                let q: Vec<&str> = c.splitn(3, '.').collect();
                let same_sign = Address(num::<u16>(q[1])) == sign.address() && ((q[0] != "CFG" && q[0] != "CIN") || SIGN_TYPES[num::<usize>(q[2])] == sign.sign_type());
                let r = if same_sign { run_cop_on(sign, c) } else { run_cop(c, bus.clone()) };
                if r.is_none() && !swallow {
                    panic!("the call made by the page iterator panicked");
                }
            };
            struct CloneTalks<'c, I> {
                inner: I,
                on_clone: &'c dyn Fn(),
            }
            impl<'c, I: Iterator> Iterator for CloneTalks<'c, I> {
                type Item = I::Item;
                fn next(&mut self) -> Option<Self::Item> {
                    self.inner.next()
                }
            }
            impl<'c, I: Clone> Clone for CloneTalks<'c, I> {
                fn clone(&self) -> Self {
                    (self.on_clone)();
                    CloneTalks { inner: self.inner.clone(), on_clone: self.on_clone }
                }
            }
            let talk_on_clone = || {
                for c in &on_clone {
                    call(c);
                }
            };
            let it = CloneTalks {
                inner: pages.iter().enumerate().map(|(i, pg)| {
                    for c in pre.get(i).map(|v| &v[..]).unwrap_or(&[]) {
                        call(c);
                    }
                    pg
                }),
                on_clone: &talk_on_clone,
            };
            guarded(|| sign.send_pages(it).map(|s| format!(".{}", str_style(s))))
        }
        "SNX" => {
            // send_pages over a source that yields the pages and panics when it is asked for one more
            let pages = pages_of_str(p[2]);
            let slice = &pages[..];
            let mut i = 0usize;
            let it = std::iter::from_fn(move || {
                if i < slice.len() {
                    i += 1;
                    Some(&slice[i - 1])
                } else {
                    panic!("the page source failed")
                }
            });
            guarded(|| sign.send_pages(it).map(|s| format!(".{}", str_style(s))))
        }
        "SNF" => {
            // the pages picked out of a larger collection by a filter (every other element of a list twice as long; the
            // elements dropped are pages of another size): the iterator's upper size bound is not attained
            let pages = pages_of_str(p[2]);
            let mut all: Vec<Page<'static>> = vec![];
            for (i, pg) in pages.iter().enumerate() {
                all.push(pg.clone());
                all.push(Page::new(PageId(i as u8), 3, 3));
            }
            let it = all.iter().enumerate().filter(|(i, _)| i % 2 == 0).map(|(_, pg)| pg);
            guarded(|| sign.send_pages(it).map(|s| format!(".{}", str_style(s))))
        }
        "SNQ" => {
            // the caller's iterator drains a queue that all its clones share (pages handed out once, as they are rendered):
            // a clone of it is not a second copy of the list
            let pages = pages_of_str(p[2]);
            let queue: Rc<RefCell<VecDeque<&Page<'static>>>> = Rc::new(RefCell::new(pages.iter().collect()));
            let it = std::iter::from_fn({
                let q = queue.clone();
                move || q.borrow_mut().pop_front()
            });
            guarded(|| sign.send_pages(it).map(|s| format!(".{}", str_style(s))))
        }
        "SNL" => {
            // the caller's iterator gives a size_hint that is of no use (size_hint is advisory: far too large for lists of
            // even length, zero for lists of odd length) and yields the pages all the same
            #[derive(Clone)]
            struct Hinted<I> {
                inner: I,
                hint: usize,
            }
            impl<I: Iterator> Iterator for Hinted<I> {
                type Item = I::Item;
                fn next(&mut self) -> Option<Self::Item> {
                    self.inner.next()
                }
                fn size_hint(&self) -> (usize, Option<usize>) {
                    (self.hint, Some(self.hint))
                }
            }
            let pages = pages_of_str(p[2]);
            let hint = if pages.len() % 2 == 0 { pages.len() + 70000 } else { 0 };
            let it = Hinted { inner: pages.iter(), hint };
            guarded(|| sign.send_pages(it).map(|s| format!(".{}", str_style(s))))
        }
        "SNW" => {
            // the caller's iterator renders pages on demand and takes 2.3 s over every page but the first
            let pages = pages_of_str(p[2]);
            let it = pages.iter().enumerate().map(|(i, pg)| {
                if i > 0 {
                    std::thread::sleep(std::time::Duration::from_millis(2300));
                }
                pg
            });
            guarded(|| sign.send_pages(it).map(|s| format!(".{}", str_style(s))))
        }
        "SHW" => guarded(|| sign.show_loaded_page().map(|_| String::new())),
        "LNX" => guarded(|| sign.load_next_page().map(|_| String::new())),
        "BYE" => guarded(|| sign.shut_down().map(|_| String::new())),
        _ => panic!("bad cop {}", op),
    }
}

pub fn str_outcome(r: &Option<Result<String, SignError>>, blocked: bool) -> String {
    match r {
        None => "CRASH".to_string(),
        Some(Ok(s)) => format!("DONE{}", s),
        Some(Err(SignError::UnexpectedResponse { .. })) => "PROTO".to_string(),
        Some(Err(SignError::Bus { .. })) => {
            if blocked {
                "BLOCKED".to_string()
            } else {
                "BUS".to_string()
            }
        }
        Some(Err(_)) => "ER ???".to_string(),
    }
}

pub fn parse_signs<'a>(k: usize, toks: &'a [&'a str]) -> (Vec<VirtualSign<'static>>, &'a [&'a str]) {
    let mut v = vec![];
    for i in 0..k {
        v.push(VirtualSign::new(Address(num::<u16>(toks[2 * i])), style_of_str(toks[2 * i + 1])));
    }
    (v, &toks[2 * k..])
}

/// Wrapper that lets us look at the signs after handing the bus to a `Sign`.
pub struct SharedVBus(pub Rc<RefCell<VirtualSignBus<'static>>>);
impl SignBus for SharedVBus {
    fn process_message<'a>(&mut self, message: Message<'_>) -> Result<Option<Message<'a>>, Box<dyn Error + Send + Sync>> {
        self.0.borrow_mut().process_message(message)
    }
}

pub static ROTATE_LOG_LEVEL: std::sync::atomic::AtomicBool = std::sync::atomic::AtomicBool::new(false);

pub fn eval_case(line: &str) -> String {
    if ROTATE_LOG_LEVEL.load(std::sync::atomic::Ordering::Relaxed) {
        let h = line.bytes().fold(0xcbf29ce484222325u64, |h, b| (h ^ b as u64).wrapping_mul(0x100000001b3));
        log::set_max_level([log::LevelFilter::Off, log::LevelFilter::Warn, log::LevelFilter::Off, log::LevelFilter::Error, log::LevelFilter::Info][(h % 5) as usize]);
    }
    // Building the case's inputs through the public API can itself panic or be refused when the
    // implementation is wrong (e.g. a 255-byte Data); that is a result, not a harness failure.
    guarded(|| eval_case_inner(line)).unwrap_or_else(|| "PANIC".to_string())
}

fn eval_case_inner(line: &str) -> String {
    let t: Vec<&str> = line.split(' ').filter(|s| !s.is_empty()).collect();
    match t[0] {
        "ENC" | "ENCB" => {
            at_every_alignment(num(t[1]), num(t[2]), bytes_of_hex(t[3]), t[0] == "ENCB", |f| {
                match guarded(|| (f.to_bytes(), f.to_bytes_with_newline())) {
                    None => "PANIC".to_string(),
                    Some((a, b)) => format!("{} {}", hex_of_bytes(&a), hex_of_bytes(&b)),
                }
            })
        }
        "RT" | "RTB" => {
            at_every_alignment(num(t[1]), num(t[2]), bytes_of_hex(t[3]), t[0] == "RTB", |f| {
            let f: Frame<'static> = f.clone(); // a clone of borrowed data borrows the same bytes
            let r = guarded(|| {
                let a = f.to_bytes();
                let b = f.to_bytes_with_newline();
                // "gives back an EQUAL frame": the derived ==, in both directions, Hash and Clone agree with the fields
                let one = |enc: &[u8]| match Frame::from_bytes(enc) {
                    Ok(g) => {
                        let same_fields = str_frame(&g) == str_frame(&f);
                        let cloned_onto_another = {
                            let mut c = g.clone();
                            c.clone_from(&Frame::new(Address(0x5A5A), MsgType(0x5A), Data::try_new(vec![9u8; 7]).unwrap()));
                            c.clone_from(&g);
                            c == g && str_frame(&c) == str_frame(&g) && c.to_bytes() == g.to_bytes()
                        };
                        let equal = g == f && f == g && hash_of(&g) == hash_of(&f) && g.clone() == g && cloned_onto_another;
                        format!("{} {}", if equal || !same_fields { "OK" } else { "OK-BUT-NOT-EQUAL" }, str_frame(&g))
                    }
                    Err(e) => str_ferr(&e),
                };
                format!("{} {} | {} | {}", hex_of_bytes(&a), hex_of_bytes(&b), one(&a), one(&b))
            });
            r.unwrap_or_else(|| "PANIC".to_string())
            })
        }
        "NEW" => {
            let v = vec![0u8; num::<usize>(t[1])];
            match guarded(|| Data::try_new(v).map(|_| ())) {
                None => "PANIC".to_string(),
                Some(Ok(())) => "OK".to_string(),
                Some(Err(e)) => str_ferr(&e),
            }
        }
        "NEWZ" => {
            // NEWZ len: Data::try_new over a block far too large to fill (a zeroed reservation that is never touched),
            // once borrowed and once owned.  If this machine cannot reserve the address space the case is unavailable.
            let n: usize = num(t[1]);
            let layout = match std::alloc::Layout::array::<u8>(n) {
                Ok(l) if n > 0 => l,
                _ => return "UNAVAILABLE".to_string(),
            };
            let ptr = unsafe { std::alloc::alloc_zeroed(layout) };
            if ptr.is_null() {
                return "UNAVAILABLE".to_string();
            }
            let verdict = |r: Option<Result<(), flipdot_core::FrameError>>| match r {
                None => "PANIC".to_string(),
                Some(Ok(())) => "OK".to_string(),
                Some(Err(e)) => str_ferr(&e),
            };
            let borrowed = {
                let slice: &[u8] = unsafe { std::slice::from_raw_parts(ptr, n) };
                verdict(guarded(|| Data::try_new(slice).map(|_| ())))
            };
            // the vector takes the reservation over and gives it back when dropped
            let v: Vec<u8> = unsafe { Vec::from_raw_parts(ptr, n, n) };
            let owned = verdict(guarded(move || Data::try_new(v).map(|_| ())));
            if borrowed == owned { borrowed } else { format!("{} BUT-OWNED {}", borrowed, owned) }
        }
        "NEWS" => {
            // Is there a public conversion from a static array of this length into Data, and if so does it respect the
            // 255-byte limit?  (Which lengths have a conversion is part of the API and not the model's business; the
            // probe compiles whether or not the impl exists.)
            match guarded(|| static_array_probe(num::<usize>(t[1]))) {
                None => "OK".to_string(), // a conversion that refuses by panicking places nothing in a frame
                Some(None) => "OK".to_string(),
                Some(Some(d)) => {
                    let n = num::<usize>(t[1]);
                    let got = d.get().len();
                    if got > 255 {
                        format!("ACCEPTED-OVERSIZE {}", got)
                    } else if got != n || d.get().iter().enumerate().any(|(i, b)| *b != (i as u8).wrapping_mul(7)) {
                        format!("UNFAITHFUL {}", got)
                    } else {
                        "OK".to_string()
                    }
                }
            }
        }
        "DEC" => {
            let b = bytes_of_hex(t[1]);
            match guarded(|| Frame::from_bytes(&b)) {
                None => "PANIC".to_string(),
                // describing the outcome (Display and Debug of the frame, of the message it stands for, of the error) is
                // part of handling it: that must not panic either
                Some(Ok(f)) => match guarded(|| {
                    let _ = (format!("{}", f), format!("{:?}", f));
                    let m = Message::from(f.clone());
                    let _ = (format!("{}", m), format!("{:?}", m));
                    // encoding the decoded frame again (itself, a clone, after a trip through Message) gives the documented
                    // upper-case encoding of its fields, whatever text it was decoded from
                    let want = crate::gen::ref_encode(f.address().0, f.message_type().0, f.data(), false);
                    let via_msg = Frame::from(Message::from(f.clone())).to_bytes();
                    if f.to_bytes() == want && f.clone().to_bytes() == want && via_msg == want && f.to_bytes_with_newline()[..want.len()] == want[..] {
                        String::new()
                    } else {
                        format!(" BUT-ENCODES-AS {}", hex_of_bytes(&f.to_bytes()))
                    }
                }) {
                    Some(extra) => format!("OK {}{}", str_frame(&f), extra),
                    None => "PANIC-WHILE-DESCRIBING".to_string(),
                },
                Some(Err(e)) => match guarded(|| (e.to_string(), format!("{:?}", e))) {
                    Some(_) => str_ferr(&e),
                    None => "PANIC-WHILE-DESCRIBING".to_string(),
                },
            }
        }
        "F2M" | "F2MB" => {
            let f = mkframe(num(t[1]), num(t[2]), bytes_of_hex(t[3]), t[0] == "F2MB");
            match guarded(|| {
                let orig = f.clone();
                let m = Message::from(f);
                let s = str_msg(&m);
                let back = Frame::from(m);
                let same_fields = str_frame(&back) == str_frame(&orig);
                let equal = back == orig && orig == back && hash_of(&back) == hash_of(&orig);
                format!("{} {}{}", s, str_frame(&back), if same_fields && !equal { " NOT-EQUAL" } else { "" })
            }) {
                None => "PANIC".to_string(),
                Some(s) => s,
            }
        }
        "F2MP" => {
            // F2MP a t d: as F2M, but the frame's data block is one the LIBRARY handed out (taken with into_data from the
            // frame of every catalogue message at this address whose data equals d, and from a decoded wire frame) instead
            // of one built from the caller's bytes.  Where a block came from must make no difference.
            let (a, ty, d): (u16, u8, Vec<u8>) = (num(t[1]), num(t[2]), bytes_of_hex(t[3]));
            let mut donors: Vec<Message<'static>> = vec![Message::Hello(Address(a)), Message::QueryState(Address(a)), Message::Goodbye(Address(a)), Message::PixelsComplete(Address(a))];
            for (st, _) in STATES.iter() {
                donors.push(Message::ReportState(Address(a), *st));
            }
            for (op, _) in OPS.iter() {
                donors.push(Message::RequestOperation(Address(a), *op));
                donors.push(Message::AckOperation(Address(a), *op));
            }
            let plain = guarded(|| {
                let f = mkframe(a, ty, d.clone(), false);
                let m = Message::from(f);
                let s = str_msg(&m);
                format!("{} {}", s, str_frame(&Frame::from(m)))
            })
            .unwrap_or_else(|| "PANIC".to_string());
            let mut blocks: Vec<(String, Data<'static>)> = vec![];
            for m in donors {
                let name = str_msg(&m);
                if let Some(data) = guarded(|| Frame::from(m).into_data()) {
                    if data.get().as_ref() == &d[..] {
                        blocks.push((name, data));
                    }
                }
            }
            if let Some(Ok(f)) = guarded(|| Frame::from_bytes(&crate::gen::ref_encode(a, 0x42, &d, false))) {
                blocks.push(("decoded".to_string(), f.into_data()));
            }
            for (name, data) in blocks {
                let got = guarded(|| {
                    let f = Frame::new(Address(a), MsgType(ty), data.clone());
                    let m = Message::from(f);
                    let s = str_msg(&m);
                    format!("{} {}", s, str_frame(&Frame::from(m)))
                })
                .unwrap_or_else(|| "PANIC".to_string());
                if got != plain {
                    return format!("{} BUT-WITH-THE-BLOCK-OF {} {}", plain, name, got);
                }
            }
            plain
        }
        "M2F" => {
            let m = msg_of_str(t[1]);
            match guarded(|| str_frame(&Frame::from(m))) {
                None => "PANIC".to_string(),
                Some(s) => s,
            }
        }
        "WIRE" => {
            let m = msg_of_str(t[1]);
            let r = guarded(|| {
                let f = Frame::from(m);
                let orig = msg_of_str(t[1]);
                let one = |enc: Vec<u8>| match Frame::from_bytes(&enc) {
                    Ok(g) => {
                        let back = Message::from(g);
                        let same = str_msg(&back) == str_msg(&orig);
                        let equal = back == orig && orig == back && hash_of(&back) == hash_of(&orig);
                        format!("{} {}", if equal || !same { "OK" } else { "OK-BUT-NOT-EQUAL" }, str_msg(&back))
                    }
                    Err(e) => str_ferr(&e),
                };
                format!("{} | {}", one(f.to_bytes()), one(f.to_bytes_with_newline()))
            });
            r.unwrap_or_else(|| "PANIC".to_string())
        }
        "WIRES" => {
            // several messages written one after the other to a byte stream with Frame::write and read back with
            // Frame::read: each comes back as itself, nothing is left over
            // flags before the messages: "!" an earlier failed write elsewhere; "@" an earlier write elsewhere (on another
            // thread) whose sink PANICKED, and an earlier read whose source panicked; "$" the last frame of the stream lacks
            // its CR LF (the terminator is optional)
            let nflags = t[1..].iter().take_while(|x| ["!", "@", "$", "&"].contains(x)).count();
            let flags = &t[1..1 + nflags];
            let failed_first = flags.contains(&"!");
            let unterminated = flags.contains(&"$");
            // "&": the stream is a sink that, for everything it is given, also writes a carrier frame of its own with
            // Frame::write into a second buffer (a tunnel): writing a frame from inside the writing of a frame
            let tunnel = flags.contains(&"&");
            if flags.contains(&"@") {
                struct Bomb;
                impl std::io::Write for Bomb {
                    fn write(&mut self, _: &[u8]) -> std::io::Result<usize> {
                        panic!("the sink panicked")
                    }
                    fn flush(&mut self) -> std::io::Result<()> {
                        Ok(())
                    }
                }
                impl std::io::Read for Bomb {
                    fn read(&mut self, _: &mut [u8]) -> std::io::Result<usize> {
                        panic!("the source panicked")
                    }
                }
                let h = std::thread::spawn(|| {
                    let _ = Frame::from(msg_of_str("RS.4660.PSH")).write(&mut Bomb);
                });
                let _ = h.join();
                let h = std::thread::spawn(|| {
                    let _ = Frame::read(&mut Bomb);
                });
                let _ = h.join();
            }
            let msgs: Vec<Message<'static>> = t[1 + nflags..].iter().map(|s| msg_of_str(s)).collect();
            let r = guarded(|| {
                if failed_first {
                    // an earlier write of some other frame to a writer that accepts 5 bytes and then fails
                    struct Failing(usize);
                    impl std::io::Write for Failing {
                        fn write(&mut self, buf: &[u8]) -> std::io::Result<usize> {
                            if self.0 == 0 {
                                return Err(std::io::Error::new(std::io::ErrorKind::BrokenPipe, "gone"));
                            }
                            let n = buf.len().min(self.0);
                            self.0 -= n;
                            Ok(n)
                        }
                        fn flush(&mut self) -> std::io::Result<()> {
                            Ok(())
                        }
                    }
                    let _ = Frame::from(msg_of_str("RS.4660.PSH")).write(&mut Failing(5));
                }
                let mut stream: Vec<u8> = vec![];
                if tunnel {
                    struct Tunnel {
                        direct: Vec<u8>,
                        carrier: Vec<u8>,
                    }
                    impl std::io::Write for Tunnel {
                        fn write(&mut self, buf: &[u8]) -> std::io::Result<usize> {
                            let n = buf.len().min(200);
                            let f = Frame::new(Address(0x7E7E), MsgType(0x7E), Data::try_new(buf[..n].to_vec()).expect("at most 200 bytes"));
                            f.write(&mut self.carrier).map_err(|_| std::io::Error::new(std::io::ErrorKind::Other, "carrier"))?;
                            self.direct.extend_from_slice(&buf[..n]);
                            Ok(n)
                        }
                        fn flush(&mut self) -> std::io::Result<()> {
                            Ok(())
                        }
                    }
                    let mut tn = Tunnel { direct: vec![], carrier: vec![] };
                    for m in &msgs {
                        if Frame::from(m.clone()).write(&mut tn).is_err() {
                            return "ER WRITE".to_string();
                        }
                    }
                    // the carrier frames, read back, carry exactly the bytes of the direct stream
                    let mut cur = std::io::Cursor::new(tn.carrier);
                    let mut carried: Vec<u8> = vec![];
                    while (cur.position() as usize) < cur.get_ref().len() {
                        match Frame::read(&mut cur) {
                            Ok(f) => carried.extend_from_slice(f.data()),
                            Err(_) => return "ER CARRIER".to_string(),
                        }
                    }
                    if carried != tn.direct {
                        return "ER CARRIER-DIFFERS".to_string();
                    }
                    stream = tn.direct;
                } else {
                    for m in &msgs {
                        if Frame::from(m.clone()).write(&mut stream).is_err() {
                            return "ER WRITE".to_string();
                        }
                    }
                }
                if unterminated && stream.len() >= 2 {
                    stream.truncate(stream.len() - 2);
                }
                let mut cur = std::io::Cursor::new(stream);
                let mut outs = vec![];
                for _ in &msgs {
                    outs.push(match Frame::read(&mut cur) {
                        Ok(f) => format!("OK {}", str_msg(&Message::from(f))),
                        Err(e) => str_ferr(&e),
                    });
                }
                let left = cur.get_ref().len() as u64 - cur.position();
                format!("{} | left={}", outs.join(" ; "), left)
            });
            r.unwrap_or_else(|| "PANIC".to_string())
        }
        "MT" => {
            // MT threads iters: many threads encoding and decoding DIFFERENT messages at the same time; every thread
            // must get its own messages back (the library has no business sharing state between calls)
            let nthreads: usize = num(t[1]);
            let iters: usize = num(t[2]);
            let handles: Vec<std::thread::JoinHandle<Option<String>>> = (0..nthreads)
                .map(|ti| {
                    std::thread::spawn(move || {
                        let mut rng = crate::rng::Rng::new(ti as u64, 77);
                        for i in 0..iters {
                            let m = match (ti + i) % 5 {
                                0 => format!("HE.{}", rng.below(65536)),
                                1 => format!("RS.{}.{}", rng.below(65536), STATES[(i % 13) as usize].1),
                                2 => format!("AO.{}.{}", rng.below(65536), OPS[(i % 6) as usize].1),
                                3 => format!("DC.{}", rng.below(65536)),
                                _ => {
                                    let n = rng.below(40) as usize;
                                    format!("SD.{}.{}", rng.below(65536), hex_of_bytes(&rng.bytes(n)))
                                }
                            };
                            let msg = msg_of_str(&m);
                            let back = std::panic::catch_unwind(|| {
                                let wire = Frame::from(msg_of_str(&m)).to_bytes_with_newline();
                                Frame::from_bytes(&wire).map(Message::from)
                            });
                            match back {
                                Ok(Ok(b)) if b == msg => {}
                                Ok(Ok(b)) => return Some(format!("thread {} sent {} got {}", ti, m, str_msg(&b))),
                                Ok(Err(e)) => return Some(format!("thread {} sent {} got {}", ti, m, str_ferr(&e))),
                                Err(_) => return Some(format!("thread {} sent {} and the library panicked", ti, m)),
                            }
                        }
                        None
                    })
                })
                .collect();
            let mut bad: Option<String> = None;
            for h in handles {
                match h.join() {
                    Ok(None) => {}
                    Ok(Some(s)) => bad = bad.or(Some(s)),
                    Err(_) => bad = bad.or(Some("a thread died".to_string())),
                }
            }
            match bad {
                None => "OK".to_string(),
                Some(s) => format!("MIXED-UP {}", s),
            }
        }
        "TLSD" => {
            // TLSD <inner case>: the inner case evaluated on a fresh thread, and again from the destructors of two
            // thread-local objects of that thread (one created before the library was first used there, one after), i.e.
            // while the thread is being torn down.  All three must give what the inner case gives anywhere else.
            let inner: String = t[1..].join(" ");
            struct Guard {
                tag: &'static str,
                line: String,
                out: std::sync::Arc<std::sync::Mutex<Vec<(&'static str, String)>>>,
            }
            impl Drop for Guard {
                fn drop(&mut self) {
                    let r = guarded(|| eval_case_inner(&self.line)).unwrap_or_else(|| "PANIC".to_string());
                    if let Ok(mut g) = self.out.lock() {
                        g.push((self.tag, r));
                    }
                }
            }
            thread_local! {
                static EARLY: std::cell::RefCell<Option<Guard>> = std::cell::RefCell::new(None);
                static LATE: std::cell::RefCell<Option<Guard>> = std::cell::RefCell::new(None);
            }
            let out = std::sync::Arc::new(std::sync::Mutex::new(Vec::new()));
            let (o2, l2) = (out.clone(), inner.clone());
            let h = std::thread::Builder::new().stack_size(64 << 20).spawn(move || {
                EARLY.with(|g| *g.borrow_mut() = Some(Guard { tag: "d1", line: l2.clone(), out: o2.clone() }));
                let r = guarded(|| eval_case_inner(&l2)).unwrap_or_else(|| "PANIC".to_string());
                LATE.with(|g| *g.borrow_mut() = Some(Guard { tag: "d2", line: l2.clone(), out: o2.clone() }));
                r
            });
            let main = match h {
                Ok(h) => h.join().unwrap_or_else(|_| "THREAD-DIED".to_string()),
                Err(_) => "NO-THREAD".to_string(),
            };
            let g = out.lock().map(|g| g.clone()).unwrap_or_default();
            let get = |tag: &str| g.iter().find(|(t, _)| *t == tag).map(|(_, r)| r.clone()).unwrap_or_else(|| "NOT-RUN".to_string());
            format!("main={} ; d1={} ; d2={}", main, get("d1"), get("d2"))
        }
        "ST" => {
            let b = bytes_of_hex(t[1]);
            match guarded(|| SignType::from_bytes(&b)) {
                None => "PANIC".to_string(),
                Some(Ok(ty)) => format!("OK {}", st_index(ty)),
                // the property fixes that every other length is rejected, not the numbers the error carries
                Some(Err(flipdot_core::SignTypeError::WrongConfigLength { .. })) => "ER LEN".to_string(),
                Some(Err(flipdot_core::SignTypeError::UnknownConfig { .. })) => "ER UNKNOWN".to_string(),
                Some(Err(_)) => "ER ???".to_string(),
            }
        }
        "STT" => {
            let ty = SIGN_TYPES[num::<usize>(t[1])];
            let (w, h) = ty.dimensions();
            format!("{} {} {}", hex_of_bytes(ty.to_bytes()), w, h)
        }
        "PN" => match guarded(|| Page::new(PageId(num(t[1])), num(t[2]), num(t[3]))) {
            None => "PANIC".to_string(),
            Some(p) => hex_of_bytes(p.as_bytes()),
        },
        "PNL" => match guarded(|| Page::new(PageId(num(t[1])), num(t[2]), num(t[3]))) {
            // a large page described by its length and byte counts only
            None => "PANIC".to_string(),
            Some(p) => {
                let b = p.as_bytes();
                let zeros = b.iter().skip(4).filter(|x| **x == 0).count();
                let ff = b.iter().skip(4).filter(|x| **x == 0xFF).count();
                format!("len={} zeros={} ff={} first={}", b.len(), zeros, ff, b.iter().take(4).map(|x| x.to_string()).collect::<Vec<_>>().join("."))
            }
        },
        "CHILD" => {
            // CHILD <inner case>: the inner case evaluated in a child process, on an ordinary thread with the default 2 MiB
            // stack (this process works on a 1 GiB stack so that deep recursion in the HARNESS never matters; a library
            // that recurses once per interrupted read, per poll or per chunk only shows on a normal stack).  ABORT if the
            // child died.
            let exe = match std::env::current_exe() {
                Ok(e) => e,
                Err(_) => return "UNAVAILABLE".to_string(),
            };
            let inner = t[1..].join(" ");
            let mut cmd = std::process::Command::new(exe);
            cmd.arg("run").env("FDX_SMALL_STACK", "1").stdin(std::process::Stdio::piped()).stdout(std::process::Stdio::piped()).stderr(std::process::Stdio::null());
            let mut child = match cmd.spawn() {
                Ok(c) => c,
                Err(_) => return "UNAVAILABLE".to_string(),
            };
            {
                use std::io::Write as _;
                if let Some(mut stdin) = child.stdin.take() {
                    let _ = stdin.write_all(inner.as_bytes());
                    let _ = stdin.write_all(b"\n");
                }
            }
            match child.wait_with_output() {
                Err(_) => "UNAVAILABLE".to_string(),
                Ok(o) => {
                    let out = String::from_utf8_lossy(&o.stdout).trim_end_matches('\n').to_string();
                    if o.status.success() && !out.is_empty() { out } else { "ABORT".to_string() }
                }
            }
        }
        "UNW" => {
            // UNW w h x y S|G: the pixel operation made from a destructor while the thread is unwinding from another
            // panic, in a child process.  Out of bounds must still panic there (which then aborts the process) rather
            // than touch anything; in bounds it works as anywhere else.
            let exe = match std::env::current_exe() {
                Ok(e) => e,
                Err(_) => return "UNAVAILABLE".to_string(),
            };
            match std::process::Command::new(exe).arg("unw").args(&t[1..6]).env("FDX_MAIN_THREAD", "1").output() {
                Err(_) => "UNAVAILABLE".to_string(),
                Ok(o) => {
                    use std::os::unix::process::ExitStatusExt;
                    let out = String::from_utf8_lossy(&o.stdout).trim().to_string();
                    if o.status.signal().is_some() && out.is_empty() {
                        "ABORT".to_string()
                    } else if o.status.code() == Some(101) {
                        format!("OK {}", out)
                    } else {
                        format!("?? {:?} {}", o.status.code(), out)
                    }
                }
            }
        }
        "PXI" => {
            // PXI w h x y: one pixel switched on in a fresh page too large to print: which bytes of the pixel area are
            // non-zero afterwards, what the pixel and its neighbours read
            let (w, h, x, y): (u32, u32, u32, u32) = (num(t[1]), num(t[2]), num(t[3]), num(t[4]));
            match guarded(|| {
                let mut p = Page::new(PageId(7), w, h);
                p.set_pixel(x, y, true);
                p
            }) {
                None => "PANIC".to_string(),
                Some(p) => {
                    let b = p.as_bytes();
                    let data = 4usize + w as usize * ((h as usize + 7) / 8);
                    let set: Vec<String> = b.iter().enumerate().take(data.min(b.len())).skip(4).filter(|(_, v)| **v != 0).take(4).map(|(i, v)| format!("{}:{}", i, v)).collect();
                    let g = |x: u32, y: u32| guarded(|| p.get_pixel(x, y)).map(|v| (v as u8).to_string()).unwrap_or_else(|| "P".to_string());
                    let right = if x + 1 < w { g(x + 1, 0) } else { "-".to_string() };
                    let above = if y > 0 { g(x, y - 1) } else { "-".to_string() };
                    format!("len={} set=[{}] get={} nbr={}/{}", b.len(), set.join(","), g(x, y), right, above)
                }
            }
        }
        "PXZ" => {
            // PXZ w h x y i1,i2,..: a page built by from_bytes over several GiB of zero bytes (mapped lazily, so only the
            // bytes touched cost memory): what a borrowed view reads at (x, y); then, owning the buffer, the pixel
            // switched on, what it and its neighbours read, and the bytes at the given indices
            let (w, h, x, y): (u32, u32, u32, u32) = (num(t[1]), num(t[2]), num(t[3]), num(t[4]));
            let total = ((4u64 + w as u64 * ((h as u64 + 7) / 8) + 15) / 16 * 16) as usize;
            let layout = match std::alloc::Layout::from_size_align(total, 1) {
                Ok(l) => l,
                Err(_) => return "UNAVAILABLE".to_string(),
            };
            let ptr = unsafe { std::alloc::alloc_zeroed(layout) };
            if ptr.is_null() {
                return "UNAVAILABLE".to_string();
            }
            let buf: Vec<u8> = unsafe { Vec::from_raw_parts(ptr, total, total) };
            let view = match guarded(|| Page::from_bytes(w, h, &buf[..]).map(|p| p.get_pixel(x, y))) {
                None => "P".to_string(),
                Some(Ok(v)) => (v as u8).to_string(),
                Some(Err(_)) => "ER".to_string(),
            };
            match guarded(move || {
                let mut p = Page::from_bytes(w, h, buf).expect("length");
                p.set_pixel(x, y, true);
                p
            }) {
                None => "PANIC".to_string(),
                Some(p) => {
                    let b = p.as_bytes();
                    let g = |x: u32, y: u32| guarded(|| p.get_pixel(x, y)).map(|v| (v as u8).to_string()).unwrap_or_else(|| "P".to_string());
                    let right = if x + 1 < w { g(x + 1, 0) } else { "-".to_string() };
                    let above = if y > 0 { g(x, y - 1) } else { "-".to_string() };
                    let bytes: Vec<String> = t[5].split(',').map(|i| match b.get(num::<usize>(i)) { Some(v) => format!("{}:{}", i, v), None => format!("{}:-", i) }).collect();
                    format!("len={} view={} get={} nbr={}/{} bytes={}", b.len(), view, g(x, y), right, above, bytes.join(","))
                }
            }
        }
        "PBX" => {
            // PBX w h len fill: from_bytes over [7, 0x10, 0, 0] followed by len-4 bytes of one value (borrowed and owned)
            let len: usize = num(t[3]);
            let mut bs = vec![num::<u8>(t[4]); len];
            for (i, v) in [7u8, 0x10, 0, 0].iter().enumerate() {
                if i < len {
                    bs[i] = *v;
                }
            }
            let one = |r: Option<Result<Page<'_>, flipdot_core::PageError>>| match r {
                None => "PANIC".to_string(),
                Some(Ok(p)) => format!("OK {}", hex_of_bytes(p.as_bytes())),
                Some(Err(flipdot_core::PageError::WrongPageLength { .. })) => "ER LEN".to_string(),
                Some(Err(_)) => "ER ???".to_string(),
            };
            let a = one(guarded(|| Page::from_bytes(num(t[1]), num(t[2]), &bs[..])));
            let b = one(guarded(|| Page::from_bytes(num(t[1]), num(t[2]), bs.clone())));
            if a == b { a } else { format!("{} BUT-OWNED {}", a, b) }
        }
        "PBO" => {
            // from_bytes over an OWNED buffer (Vec) instead of a borrowed slice
            let bs = pb_bytes(num(t[3]), num(t[4]));
            match guarded(|| Page::from_bytes(num(t[1]), num(t[2]), bs.clone())) {
                None => "PANIC".to_string(),
                Some(Ok(p)) => format!("OK {}", hex_of_bytes(p.as_bytes())),
                Some(Err(flipdot_core::PageError::WrongPageLength { .. })) => "ER LEN".to_string(),
                Some(Err(_)) => "ER ???".to_string(),
            }
        }
        "PB" => {
            let bs = pb_bytes(num(t[3]), num(t[4]));
            match guarded(|| Page::from_bytes(num(t[1]), num(t[2]), &bs[..])) {
                None => "PANIC".to_string(),
                Some(Ok(p)) => format!("OK {}", hex_of_bytes(p.as_bytes())),
                Some(Err(flipdot_core::PageError::WrongPageLength { .. })) => "ER LEN".to_string(),
                Some(Err(_)) => "ER ???".to_string(),
            }
        }
        "PG" => eval_pg(&t),
        "VS" | "VSL" => {
            let last_only = t[0] == "VSL";
            let mut s = VirtualSign::new(Address(num(t[1])), style_of_str(t[2]));
            let mut out = String::new();
            let n = t.len() - 3;
            for (i, m) in t[3..].iter().enumerate() {
                let msg = msg_of_str(m);
                match guarded(|| s.process_message(&msg)) {
                    None => {
                        out.push_str("PANIC ");
                        break;
                    }
                    Some(r) => {
                        if !last_only || i + 1 == n {
                            out.push_str(&format!("{}/{} ", str_omsg(&r), obs(&s)));
                        }
                    }
                }
            }
            format!("{}# {}", out, str_pages(s.pages()))
        }
        "BUS" | "BUSP" => {
            let k: usize = num(t[1]);
            let (mut signs, rest) = parse_signs(k, &t[2..]);
            // BUSP: "i~msg" tokens before the bar are given to sign i ALONE, before the bus is made of the signs
            let msgs: &[&str] = if t[0] == "BUSP" {
                let bar = rest.iter().position(|x| *x == "|").expect("BUSP needs |");
                for tok in &rest[..bar] {
                    let (i, m) = tok.split_once('~').expect("BUSP i~msg");
                    let msg = msg_of_str(m);
                    let i: usize = i.parse().unwrap();
                    if guarded(|| signs[i].process_message(&msg)).is_none() {
                        return "PANIC-PRIOR".to_string();
                    }
                }
                &rest[bar + 1..]
            } else {
                rest
            };
            let mut bus = VirtualSignBus::new(signs);
            let mut out = String::new();
            // through the SignBus trait, as Sign and Odk reach a bus (the walk's monitors call the bus directly)
            fn via_trait<'a, B: SignBus>(b: &mut B, m: Message<'_>) -> Result<Option<Message<'a>>, Box<dyn std::error::Error + Send + Sync>> {
                b.process_message(m)
            }
            for m in msgs {
                let msg = msg_of_str(m);
                match guarded(|| via_trait(&mut bus, msg)) {
                    None => {
                        out.push_str("PANIC ");
                        break;
                    }
                    Some(Err(_)) => {
                        out.push_str("BUSERR ");
                        break;
                    }
                    Some(Ok(r)) => {
                        out.push_str(&str_omsg(&r));
                        for i in 0..k {
                            out.push('/');
                            out.push_str(&obs(bus.sign(i)));
                        }
                        out.push(' ');
                    }
                }
            }
            let pages: Vec<String> = (0..k).map(|i| str_pages(bus.sign(i).pages())).collect();
            format!("{}# {}", out, pages.join(";"))
        }
        "CP" => {
            // Sign::width / height / create_page (no bus traffic)
            let bus: Rc<RefCell<dyn SignBus>> = Rc::new(RefCell::new(ScriptBus::new(vec![])));
            // the address is derived from the case so that the accessor is seen to return what the object was made with
            let addr = (num::<u16>(t[1]).wrapping_mul(4099)).wrapping_add(num::<u16>(t[2]).wrapping_mul(257));
            let sign = Sign::new(bus.clone(), Address(addr), SIGN_TYPES[num::<usize>(t[1])]);
            match guarded(|| {
                let p = sign.create_page(PageId(num(t[2])));
                let accessors_ok = sign.address() == Address(addr) && sign.sign_type() == SIGN_TYPES[num::<usize>(t[1])] && (sign.width(), sign.height()) == sign.sign_type().dimensions() && p.id() == PageId(num(t[2])) && (p.width(), p.height()) == (sign.width(), sign.height());
                format!("{} {} {}{}", sign.width(), sign.height(), hex_of_bytes(p.as_bytes()), if accessors_ok { "" } else { " ACCESSORS-DISAGREE" })
            }) {
                Some(s) => s,
                None => "PANIC".to_string(),
            }
        }
        "CTS" => {
            // CTS a t op1,op2,... replies... : several operations on ONE Sign object over one scripted bus
            let ops: Vec<&str> = t[3].split(',').collect();
            let script: Vec<Reply> = t[4..].iter().map(|s| reply_of_str(s)).collect();
            let bus = Rc::new(RefCell::new(ScriptBus::new(script)));
            let dynbus: Rc<RefCell<dyn SignBus>> = bus.clone();
            // one Sign object per address used by the operations, all sharing the bus (a1 t1 are the first one's)
            let mut signs: std::collections::HashMap<u16, Sign> = std::collections::HashMap::new();
            signs.insert(num::<u16>(t[1]), Sign::new(dynbus.clone(), Address(num::<u16>(t[1])), SIGN_TYPES[num::<usize>(t[2])]));
            let mut outs: Vec<String> = vec![];
            let mut seen = 0usize;
            for op in ops {
                let p: Vec<&str> = op.splitn(3, '.').collect();
                let a: u16 = num(p[1]);
                let ty = match p[0] {
                    "CFG" | "CIN" => SIGN_TYPES[num::<usize>(p[2])],
                    _ => SIGN_TYPES[(a % 11) as usize],
                };
                let sign = signs.entry(a).or_insert_with(|| Sign::new(dynbus.clone(), Address(a), ty));
                PEEK_BUS.with(|p| *p.borrow_mut() = Some(dynbus.clone()));
                let r = run_cop_on(sign, op);
                let b = bus.borrow();
                let trace: Vec<String> = b.trace[seen..].iter().map(str_msg).collect();
                seen = b.trace.len();
                let o = str_outcome(&r, b.blocked);
                outs.push(format!("{} => {}", trace.join(" "), o));
                if o == "BLOCKED" || o == "CRASH" {
                    break;
                }
            }
            outs.join(" ;; ")
        }
        "CTD" => {
            // CTD index millis op replies... : as CT, but the bus takes `millis` of real time before reply `index`
            let script: Vec<Reply> = t[4..].iter().map(|s| reply_of_str(s)).collect();
            let mut sb = ScriptBus::new(script);
            sb.slow_at = Some((num::<usize>(t[1]), std::time::Duration::from_millis(num::<u64>(t[2]))));
            let bus = Rc::new(RefCell::new(sb));
            let r = run_cop(t[3], bus.clone());
            let b = bus.borrow();
            let trace: Vec<String> = b.trace.iter().map(str_msg).collect();
            format!("{} => {}", trace.join(" "), str_outcome(&r, b.blocked))
        }
        "CT" => {
            if snd_unconstructible(t[1]) {
                // a page literal the library refuses to build (wrong byte length): nothing to send
                return " => NOPAGE".to_string();
            }
            let script: Vec<Reply> = t[2..].iter().map(|s| reply_of_str(s)).collect();
            let mut sb = ScriptBus::new(script);
            sb.sticky = t[1].starts_with("SNN.");
            let bus = Rc::new(RefCell::new(sb));
            let r = run_cop(t[1], bus.clone());
            let b = bus.borrow();
            let trace: Vec<String> = b.trace.iter().map(str_msg).collect();
            format!("{} => {}", trace.join(" "), str_outcome(&r, b.blocked))
        }
        "CLS" => {
            // CLS: as CL, but the Sign OBJECTS live as long as the case: one per (handle, address); an operation written
            // "B:<op>" goes through handle B's object for that address, any other through handle A's.  (The model has
            // no objects: it is CL with the prefixes dropped.)
            let k: usize = num(t[1]);
            let (signs, rest) = parse_signs(k, &t[2..]);
            let bar = rest.iter().position(|x| *x == "|").expect("CLS needs |");
            let (prior, ops) = (&rest[..bar], &rest[bar + 1..]);
            let vbus = Rc::new(RefCell::new(VirtualSignBus::new(signs)));
            for m in prior {
                let msg = msg_of_str(m);
                if guarded(|| vbus.borrow_mut().process_message(msg).map(|_| ())).is_none() {
                    return "PANIC-PRIOR".to_string();
                }
            }
            let shared: Rc<RefCell<dyn SignBus>> = Rc::new(RefCell::new(SharedVBus(vbus.clone())));
            PEEK_BUS.with(|p| *p.borrow_mut() = Some(shared.clone()));
            let mut handles: HashMap<(bool, u16), Sign> = HashMap::new();
            let mut out = String::new();
            for o in ops {
                let (is_b, op) = match o.strip_prefix("B:") {
                    Some(r) => (true, r),
                    None => (false, *o),
                };
                let p: Vec<&str> = op.splitn(3, '.').collect();
                let a: u16 = num(p[1]);
                let ty = match p[0] {
                    "CFG" | "CIN" => SIGN_TYPES[num::<usize>(p[2])],
                    _ => SignType::Max3000Side90x7,
                };
                let sign = handles.entry((is_b, a)).or_insert_with(|| Sign::new(shared.clone(), Address(a), ty));
                let r = run_cop_on(sign, op);
                out.push_str(&str_outcome(&r, false));
                let b = vbus.borrow();
                for i in 0..k {
                    out.push('/');
                    out.push_str(&obs(b.sign(i)));
                }
                out.push(' ');
            }
            let b = vbus.borrow();
            let pages: Vec<String> = (0..k).map(|i| str_pages(b.sign(i).pages())).collect();
            format!("{}# {}", out, pages.join(";"))
        }
        "CL" => {
            let k: usize = num(t[1]);
            let (signs, rest) = parse_signs(k, &t[2..]);
            let bar = rest.iter().position(|x| *x == "|").expect("CL needs |");
            let (prior, ops) = (&rest[..bar], &rest[bar + 1..]);
            let vbus = Rc::new(RefCell::new(VirtualSignBus::new(signs)));
            for m in prior {
                let msg = msg_of_str(m);
                if guarded(|| vbus.borrow_mut().process_message(msg).map(|_| ())).is_none() {
                    return "PANIC-PRIOR".to_string();
                }
            }
            let mut out = String::new();
            for o in ops {
                let shared: Rc<RefCell<dyn SignBus>> = Rc::new(RefCell::new(SharedVBus(vbus.clone())));
                let r = run_cop(o, shared);
                out.push_str(&str_outcome(&r, false));
                let b = vbus.borrow();
                for i in 0..k {
                    out.push('/');
                    out.push_str(&obs(b.sign(i)));
                }
                out.push(' ');
            }
            let b = vbus.borrow();
            let pages: Vec<String> = (0..k).map(|i| str_pages(b.sign(i).pages())).collect();
            format!("{}# {}", out, pages.join(";"))
        }
        _ => crate::eval_io::eval_io_case(&t).unwrap_or_else(|| "BADCASE".to_string()),
    }
}

trait IntoOwnedPage {
    fn into_owned_page(self) -> Page<'static>;
}
impl IntoOwnedPage for Page<'_> {
    fn into_owned_page(self) -> Page<'static> {
        Page::from_bytes(self.width(), self.height(), self.as_bytes().to_vec()).expect("a page's own bytes have its own length")
    }
}

fn eval_pg(t: &[&str]) -> String {
    let w: u32 = num(t[1]);
    let h: u32 = num(t[2]);
    let src: Vec<&str> = t[3].split('.').collect();
    let borrowed_store: Vec<u8>;
    let mut page: Page<'_> = match src[0] {
        "N" => match guarded(|| Page::new(PageId(num(src[1])), w, h)) {
            Some(p) => p,
            None => return "PANIC".to_string(),
        },
        "B" => {
            borrowed_store = bytes_of_hex(src[1]);
            match Page::from_bytes(w, h, &borrowed_store[..]) {
                Ok(p) => p,
                Err(_) => return "ER LEN".to_string(),
            }
        }
        "O" => match Page::from_bytes(w, h, bytes_of_hex(src[1])) {
            Ok(p) => p,
            Err(_) => return "ER LEN".to_string(),
        },
        _ => panic!("bad PG src"),
    };
    let mut out = String::new();
    for o in &t[4..] {
        let p: Vec<&str> = o.split('.').collect();
        let tok = match p[0] {
            "S" => {
                let before = page.as_bytes().to_vec();
                let (x, y, v): (u32, u32, bool) = (num(p[1]), num(p[2]), p[3] == "1");
                match guarded(|| page.set_pixel(x, y, v)) {
                    None => {
                        if page.as_bytes() != &before[..] {
                            "P!changed".to_string()
                        } else {
                            "P".to_string()
                        }
                    }
                    Some(()) => diff_bytes(&before, page.as_bytes()),
                }
            }
            "A" => {
                let before = page.as_bytes().to_vec();
                let v = p[1] == "1";
                match guarded(|| page.set_all_pixels(v)) {
                    None => {
                        if page.as_bytes() != &before[..] {
                            "P!changed".to_string()
                        } else {
                            "P".to_string()
                        }
                    }
                    Some(()) => diff_bytes(&before, page.as_bytes()),
                }
            }
            "G" => {
                let (x, y): (u32, u32) = (num(p[1]), num(p[2]));
                match guarded(|| page.get_pixel(x, y)) {
                    None => "P".to_string(),
                    Some(true) => "1".to_string(),
                    Some(false) => "0".to_string(),
                }
            }
            _ => panic!("bad PG op"),
        };
        out.push_str(&tok);
        out.push(' ');
    }
    let idtok = match guarded(|| page.id().0) {
        None => "P".to_string(),
        Some(i) => i.to_string(),
    };
    // "building a page from raw bytes ... equals the page that produced those bytes": derived equality and hash of
    // the page rebuilt from its own bytes, after whatever history of operations this page has seen
    let eq = guarded(|| {
        use std::collections::hash_map::DefaultHasher;
        use std::hash::{Hash, Hasher};
        let bytes = page.as_bytes().to_vec();
        match Page::from_bytes(page.width(), page.height(), bytes) {
            Ok(q) => {
                let (mut h1, mut h2) = (DefaultHasher::new(), DefaultHasher::new());
                q.hash(&mut h1);
                page.hash(&mut h2);
                // a clone is an independent page: changing it leaves the original's bytes alone
                let independent = {
                    let before = page.as_bytes().to_vec();
                    let mut c = page.clone();
                    if c.width() > 0 && c.height() > 0 {
                        let v = c.get_pixel(0, 0);
                        c.set_pixel(0, 0, !v);
                    }
                    c.set_all_pixels(true);
                    page.as_bytes() == &before[..]
                };
                // Clone::clone_from / ToOwned::clone_into onto pages of OTHER shapes give a page that equals this one and
                // behaves like it: the last pixel of every column and the first of the next can be switched independently
                let clone_from_ok = {
                    let mut all_ok = true;
                    for (sw, sh) in [(8u32, 8u32), (8, 16), (3, 33), (0, 0)] {
                        let mut scratch: Page<'static> = Page::new(PageId(0x5A), sw, sh);
                        if sw > 0 {
                            scratch.set_pixel(sw - 1, sh - 1, true);
                        }
                        scratch.clone_from(&page.clone().into_owned_page());
                        let mut model = page.clone();
                        all_ok &= scratch == page && scratch.as_bytes() == page.as_bytes();
                        let (w, h) = (page.width(), page.height());
                        if w > 0 && h > 0 {
                            for (x, y) in [(0u32, h - 1), (w - 1, 0), (w.min(2) - 1, 0), (w - 1, h - 1)] {
                                let v = !model.get_pixel(x, y);
                                model.set_pixel(x, y, v);
                                scratch.set_pixel(x, y, v);
                                all_ok &= scratch.as_bytes() == model.as_bytes() && scratch.get_pixel(x, y) == v;
                            }
                        }
                    }
                    all_ok
                };
                // the picture Display draws (one character per pixel inside a border) is the picture get_pixel reports:
                // whichever two characters are used, a pixel's character depends on its value and on nothing else
                let display_ok = {
                    let (w, h) = (page.width() as usize, page.height() as usize);
                    let text = format!("{}", page);
                    let _ = format!("{:?}", page);
                    if w * h > 40_000 {
                        true
                    } else {
                        // Where the picture sits in the text (a border, a caption, none at all) is the library's business: look
                        // for ANY h consecutive lines and column offset at which every pixel's character depends on its value
                        // alone.  A text too small to hold the picture cannot be judged and passes.
                        let lines: Vec<Vec<char>> = text.lines().map(|l| l.chars().collect()).collect();
                        let consistent = |i0: usize, j0: usize| -> bool {
                            let (mut on_char, mut off_char): (Option<char>, Option<char>) = (None, None);
                            for y in 0..h {
                                for x in 0..w {
                                    let c = lines[i0 + y][j0 + x];
                                    let slot = if page.get_pixel(x as u32, y as u32) { &mut on_char } else { &mut off_char };
                                    match slot {
                                        None => *slot = Some(c),
                                        Some(k) => {
                                            if *k != c {
                                                return false;
                                            }
                                        }
                                    }
                                }
                            }
                            on_char.is_none() || on_char != off_char
                        };
                        let mut judged = false;
                        let mut ok = false;
                        if w > 0 && h > 0 && lines.len() >= h {
                            for i0 in 0..=(lines.len() - h) {
                                let minlen = (0..h).map(|y| lines[i0 + y].len()).min().unwrap_or(0);
                                if minlen < w {
                                    continue;
                                }
                                for j0 in 0..=(minlen - w) {
                                    judged = true;
                                    if consistent(i0, j0) {
                                        ok = true;
                                    }
                                }
                            }
                        }
                        let ok = ok || !judged;
                        ok
                    }
                };
                q == page && page == q && h1.finish() == h2.finish() && page.clone() == page && independent && clone_from_ok && display_ok
            }
            Err(_) => false,
        }
    })
    .unwrap_or(false);
    format!("{}# {} {} {} {} eq={}", out, idtok, page.width(), page.height(), hex_of_bytes(page.as_bytes()), eq as u8)
}

#[allow(dead_code)]
pub fn flip_of(s: PageFlipStyle) -> &'static str {
    str_style(s)
}
